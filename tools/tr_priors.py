#!/usr/bin/env python3
"""Translator (fail-closed) for the prior functions of bioscrape/pid_interfaces.py (plain Python): regenerates
coq/Gen/PriorsGen.v from the CURRENT source of PIDInterface:
  gen_<name>_prior A pi_ G B h1 h2 x : pres F      one definition per `<name>_prior` method (h1, h2 = prior_dict[param_name][1], [2])
  gen_prior_dispatch : list (string * string)       the `prior_type == '<t>'` -> `self.<m>_prior` chain of check_prior
Recognised statements: the `prior_dict = self.prior` / `is None` preamble, hyperparameter bindings, scipy imports,
`if c: raise ValueError`, `if c: return np.inf`, `x = e`, `if prob < 0: warn; return np.inf else: return np.log(prob)`,
`return np.inf`, `return np.log(e)`.  Expressions: + - * / **, unary -, numbers, np.pi, np.sqrt / exp / log,
gamma(a), special.beta(a, b), comparisons joined by `or`.  Anything else is refused."""
import ast, hashlib, os, re, sys
from fractions import Fraction

REPO = os.environ.get("VERIF_REPO", "/repo")
OUT = os.path.join(os.path.dirname(os.path.dirname(os.path.abspath(__file__))), "coq", "Gen", "PriorsGen.v")
class Refuse(Exception): pass

def num(v):
    if isinstance(v, bool): raise Refuse("bool")
    if isinstance(v, int): return "(fofZ A %s)" % (("%d%%Z" % v) if v >= 0 else "(%d)%%Z" % v)
    fr = Fraction(v)
    if fr.denominator == 1: return num(int(fr.numerator))
    return "(fdiv A %s %s)" % (num(int(fr.numerator)), num(int(fr.denominator)))

def dotted(e):
    if isinstance(e, ast.Name): return e.id
    if isinstance(e, ast.Attribute): return dotted(e.value) + "." + e.attr
    return None

class Fn:
    def __init__(self, name): self.name = name; self.env = {}; self.hyper = {}
    def expr(self, e):
        if isinstance(e, ast.Constant) and isinstance(e.value, (int, float)): return num(e.value)
        d = dotted(e)
        if d == "np.pi": return "pi_"
        if isinstance(e, ast.Name):
            if e.id == "param_value": return "x"
            if e.id in self.env: return self.env[e.id]
            raise Refuse("%s: unknown name %s" % (self.name, e.id))
        if isinstance(e, ast.UnaryOp) and isinstance(e.op, ast.USub): return "(fneg A %s)" % self.expr(e.operand)
        if isinstance(e, ast.BinOp):
            op = type(e.op).__name__
            if op == "Pow":
                if isinstance(e.right, ast.Constant) and e.right.value == 2 and isinstance(e.right.value, int): return "(py_sq A %s)" % self.expr(e.left)
                return "(fpow A %s %s)" % (self.expr(e.left), self.expr(e.right))
            f = {"Add": "fadd", "Sub": "fsub", "Mult": "fmul", "Div": "fdiv"}.get(op)
            if not f: raise Refuse("%s: operator %s" % (self.name, op))
            return "(%s A %s %s)" % (f, self.expr(e.left), self.expr(e.right))
        if isinstance(e, ast.Call) and not e.keywords:
            fn = dotted(e.func)
            args = [self.expr(a) for a in e.args]
            if fn in ("np.sqrt", "np.exp", "np.log") and len(args) == 1: return "(%s A %s)" % ({"np.sqrt": "fsqrt", "np.exp": "fexp", "np.log": "flog"}[fn], args[0])
            if fn == "gamma" and self.env.get("gamma") == "@scipy.special.gamma" and len(args) == 1: return "(G %s)" % args[0]
            if fn == "special.beta" and self.env.get("special") == "@scipy.special" and len(args) == 2: return "(B %s %s)" % (args[0], args[1])
            raise Refuse("%s: call of %s" % (self.name, fn))
        raise Refuse("%s: expression %s" % (self.name, ast.dump(e)[:80]))
    def cond(self, e):
        if isinstance(e, ast.BoolOp) and isinstance(e.op, ast.Or): return "(" + " || ".join(self.cond(v) for v in e.values) + ")"
        if isinstance(e, ast.Compare) and len(e.ops) == 1:
            a, b = self.expr(e.left), self.expr(e.comparators[0]); op = type(e.ops[0]).__name__
            if op == "Lt": return "fltb A %s %s" % (a, b)
            if op == "Gt": return "fltb A %s %s" % (b, a)
            if op == "LtE": return "fleb A %s %s" % (a, b)
            if op == "GtE": return "fleb A %s %s" % (b, a)
        raise Refuse("%s: condition %s" % (self.name, ast.dump(e)[:80]))
    def is_inf(self, e): return dotted(e) in ("np.inf", "np.Inf")
    def ret(self, s):
        if self.is_inf(s.value): return "Reject"
        if isinstance(s.value, ast.Call) and dotted(s.value.func) == "np.log" and len(s.value.args) == 1: return "Val (flog A %s)" % self.expr(s.value.args[0])
        raise Refuse("%s: return %s" % (self.name, ast.dump(s.value)[:60]))
    def block(self, stmts, ind=1):
        pad = "  " * ind
        if not stmts: raise Refuse("%s: falls off its end" % self.name)
        s, rest = stmts[0], stmts[1:]
        if isinstance(s, ast.Expr) and isinstance(s.value, ast.Constant) and isinstance(s.value.value, str): return self.block(rest, ind)
        if isinstance(s, ast.ImportFrom):
            for a in s.names:
                full = "%s.%s" % (s.module, a.name)
                if full not in ("scipy.special.gamma", "scipy.special") or a.asname: raise Refuse("%s: import %s" % (self.name, full))
                self.env[a.name] = "@" + full
            return self.block(rest, ind)
        if isinstance(s, ast.Assign) and len(s.targets) == 1 and isinstance(s.targets[0], ast.Name):
            t = s.targets[0].id; v = s.value
            if t == "prior_dict" and dotted(v) == "self.prior": self.env["prior_dict"] = "@prior"; return self.block(rest, ind)
            if isinstance(v, ast.Subscript) and isinstance(v.value, ast.Subscript) and dotted(v.value.value) == "prior_dict" and dotted(v.value.slice) == "param_name" \
               and isinstance(v.slice, ast.Constant) and v.slice.value in (1, 2) and self.env.get("prior_dict") == "@prior":
                self.env[t] = "h%d" % v.slice.value; self.hyper[v.slice.value] = t; return self.block(rest, ind)
            r = self.expr(v); self.env[t] = t
            return ["%slet %s := %s in" % (pad, t, r)] + self.block(rest, ind)
        if isinstance(s, ast.If):
            # preamble
            if isinstance(s.test, ast.Compare) and dotted(s.test.left) == "prior_dict" and isinstance(s.test.ops[0], ast.Is) and not s.orelse \
               and len(s.body) == 1 and isinstance(s.body[0], ast.Raise): return self.block(rest, ind)
            c = self.cond(s.test)
            body = [b for b in s.body if not (isinstance(b, ast.Expr) and isinstance(b.value, ast.Call) and dotted(b.value.func) == "warnings.warn")]
            if len(body) == 1 and isinstance(body[0], ast.Raise):
                if s.orelse: raise Refuse("%s: raise with else" % self.name)
                return ["%sif %s then Raise else" % (pad, c)] + self.block(rest, ind)
            if len(body) == 1 and isinstance(body[0], ast.Return):
                th = self.ret(body[0])
                if s.orelse:
                    if rest: raise Refuse("%s: code after if/else" % self.name)
                    return ["%sif %s then %s else" % (pad, c, th)] + self.block(list(s.orelse), ind)
                return ["%sif %s then %s else" % (pad, c, th)] + self.block(rest, ind)
            raise Refuse("%s: if-body %s" % (self.name, ast.dump(s)[:100]))
        if isinstance(s, ast.Return):
            if rest: raise Refuse("%s: code after return" % self.name)
            return [pad + self.ret(s)]
        raise Refuse("%s: statement %s" % (self.name, type(s).__name__))

def dispatch(fn):
    """the chain `if prior_type == 'uniform': lp += self.uniform_prior(key, value) elif ...` of check_prior"""
    out = []
    for node in ast.walk(fn):
        if isinstance(node, ast.If) and isinstance(node.test, ast.Compare) and dotted(node.test.left) == "prior_type" and isinstance(node.test.ops[0], ast.Eq) \
           and isinstance(node.test.comparators[0], ast.Constant):
            ty = node.test.comparators[0].value
            if ty == "custom": continue
            if len(node.body) != 1 or not isinstance(node.body[0], ast.AugAssign) or not isinstance(node.body[0].op, ast.Add) or dotted(node.body[0].target) != "lp":
                raise Refuse("check_prior: branch of %r" % ty)
            call = node.body[0].value
            if not (isinstance(call, ast.Call) and dotted(call.func) and dotted(call.func).startswith("self.") and [dotted(a) for a in call.args] == ["key", "value"]):
                raise Refuse("check_prior: call in branch %r" % ty)
            out.append((ty, dotted(call.func)[5:]))
    seen = []
    for t in out:
        if t not in seen: seen.append(t)
    return seen

def run():
    src = open(os.path.join(REPO, "bioscrape", "pid_interfaces.py")).read()
    tree = ast.parse(src)
    cls = next((n for n in tree.body if isinstance(n, ast.ClassDef) and n.name == "PIDInterface"), None)
    if cls is None: raise Refuse("class PIDInterface not found")
    meths = {n.name: n for n in cls.body if isinstance(n, ast.FunctionDef)}
    names = sorted(m for m in meths if m.endswith("_prior") and m != "check_prior")
    parts = []
    for m in names:
        fn = meths[m]
        if [a.arg for a in fn.args.args] != ["self", "param_name", "param_value"]: raise Refuse("%s: signature" % m)
        f = Fn(m); lines = f.block(fn.body)
        parts.append("(* PIDInterface.%s: h1 = %s, h2 = %s *)\nDefinition gen_%s (h1 h2 x : F) : pres F :=\n%s.\n" % (
            m, f.hyper.get(1, "-"), f.hyper.get(2, "-"), m, "\n".join(lines)))
    if "check_prior" not in meths: raise Refuse("check_prior not found")
    disp = dispatch(meths["check_prior"])
    seg = ast.get_source_segment(src, cls) or ""
    h = hashlib.sha256(seg.encode()).hexdigest()[:16]
    txt = """(* GENERATED by tools/tr_priors.py from bioscrape/pid_interfaces.py (class PIDInterface) -- do not edit.
   sha256 of the class source: %s *)
From Coq Require Import ZArith List Bool String.
From BS Require Import Base.Arith Base.CyPrelude Model.Priors.
Import ListNotations.

Section Gen.
Context {F : Type} (A : Arith F) (pi_ : F) (G : F -> F) (B : F -> F -> F).

%s
End Gen.

Definition gen_prior_dispatch : list (string * string) := [%s]%%string.
""" % (h, "\n".join(parts), "; ".join('("%s", "%s")' % d for d in disp))
    os.makedirs(os.path.dirname(OUT), exist_ok=True)
    if not os.path.exists(OUT) or open(OUT).read() != txt: open(OUT, "w").write(txt)
    return {"Gen/PriorsGen.v": h, "prior_functions": len(names), "dispatch_entries": len(disp)}

if __name__ == "__main__":
    try: print(run())
    except Refuse as e:
        print("REFUSED:", e); sys.exit(2)
