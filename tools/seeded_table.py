#!/venv/bin/python
"""prints the markdown table of /verif/seeded/*/meta.json for DESIGN.md"""
import json, os, glob
V = os.path.dirname(os.path.dirname(os.path.abspath(__file__)))
rows = []
for mp in sorted(glob.glob(os.path.join(V, "seeded", "*", "meta.json"))):
    m = json.load(open(mp)); d = m.get("detection", {})
    what = m.get("what", ""); needs = m.get("needs", "")
    det = []
    for pid, r in sorted(d.items()):
        v = r["violations"]
        det.append("%s: %s" % (pid, ("VIOLATION" + (" (no-failing-input-found)" if v and all("no-failing-input-found" in x for x in v) else "")) if r["exit"] == 1 and v else "missed"))
    rows.append("| %s | %s | %s | %s | %s | %s |" % (m["id"], m.get("property", ""), what, needs, "yes" if m.get("confirmed") else "NO", "; ".join(det) + ((" -- " + m["strengthened"]) if m.get("strengthened") else "")))
print("| id | property | change | needs, to manifest | confirmed (tests pass, demo fails with / passes without) | checks (final machinery) |\n|---|---|---|---|---|---|")
print("\n".join(rows))
