#!/usr/bin/env python3
"""Translator (fail-closed): extracts from the CURRENT sources of /repo the hand-maintained pickling
layouts of Model (bioscrape/types.pyx, types.pxd) and LineageModel (lineage/lineage.pyx) and writes
coq/Gen/Pickle.v:
  *_get      : ordered field list of __getstate__
  *_set      : (field, index) pairs of `self.f = state[i]` in __setstate__
  *_rebuilt  : (c-vector, index) pairs of the `for x in state[i]: self.c_v.push_back(...)` loops
  *_declared : the cdef attributes declared for the class
  lineage_split : N of `super().__setstate__(state[N:])`
An unrecognised shape is an error, never a guess."""
import hashlib, os, re, sys

REPO = os.environ.get("VERIF_REPO", "/repo")
OUT = os.path.join(os.path.dirname(os.path.dirname(os.path.abspath(__file__))), "coq", "Gen", "Pickle.v")

class Refuse(Exception): pass

def method_body(src, cls, name):
    """text of `def name` inside `cdef class cls` (by indentation)"""
    m = re.search(r"^cdef class %s\b[^\n]*:\n" % re.escape(cls), src, re.M)
    if not m: raise Refuse("class %s not found" % cls)
    rest = src[m.end():]
    end = re.search(r"^(cdef class|class|def)\s", rest, re.M)
    body = rest[: end.start()] if end else rest
    mm = re.search(r"^([ \t]+)def %s\(self[^\n]*\n" % re.escape(name), body, re.M)
    if not mm: raise Refuse("%s.%s not found" % (cls, name))
    ind = mm.group(1); after = body[mm.end():]
    lines = []
    for line in after.split("\n"):
        if line.strip() == "" or line.startswith(ind + " ") or line.startswith(ind + "\t"): lines.append(line)
        else: break
    return "\n".join(lines)

def strip_doc(body):
    return re.sub(r"'''.*?'''|\"\"\".*?\"\"\"", "", body, flags=re.S)

def fields_in(expr):
    return re.findall(r"self\.(\w+)", expr)

def parse_get(body, kind):
    body = strip_doc(body)
    if kind == "tuple":
        m = re.search(r"return\s*\((.*)\)\s*$", body.strip(), re.S)
        if not m: raise Refuse("__getstate__: no `return (...)`")
        inner = m.group(1)
        items = [x.strip() for x in inner.split(",") if x.strip()]
        for it in items:
            if not re.fullmatch(r"self\.\w+", it): raise Refuse("__getstate__: item %r is not self.<field>" % it)
        return [it[5:] for it in items]
    m = re.search(r"additional_state\s*=\s*\[(.*?)\]", body, re.S)
    if not m: raise Refuse("__getstate__: no additional_state list")
    items = [x.strip() for x in m.group(1).split(",") if x.strip()]
    for it in items:
        if not re.fullmatch(r"self\.\w+", it): raise Refuse("__getstate__: item %r is not self.<field>" % it)
    if not re.search(r"return\s+tuple\(additional_state\s*\+\s*superclass_state\)", body): raise Refuse("__getstate__: unexpected return")
    return [it[5:] for it in items]

def parse_set(body):
    body = strip_doc(body)
    sets, rebuilt, split = [], [], None
    lines = [l.strip() for l in body.split("\n") if l.strip() and not l.strip().startswith("#")]
    i = 0
    while i < len(lines):
        l = lines[i]
        m = re.fullmatch(r"self\.(\w+)\s*=\s*state\[(\d+)\]", l)
        if m: sets.append((m.group(1), int(m.group(2)))); i += 1; continue
        m = re.fullmatch(r"super\(\)\.__setstate__\(state\[(\d+):\]\)", l)
        if m: split = int(m.group(1)); i += 1; continue
        m = re.fullmatch(r"self\.(c_\w+)\.clear\(\)", l)
        if m:
            vec = m.group(1)
            if i + 3 >= len(lines): raise Refuse("__setstate__: truncated rebuild of %s" % vec)
            a = re.fullmatch(r"if state\[(\d+)\] is not None:", lines[i + 1]); b = re.fullmatch(r"for x in state\[(\d+)\]:", lines[i + 2])
            c = re.fullmatch(r"self\.%s\.push_back\(<void ?\*> ?x\)" % vec, lines[i + 3])
            if not (a and b and c and a.group(1) == b.group(1)): raise Refuse("__setstate__: unexpected rebuild of %s" % vec)
            rebuilt.append((vec, int(a.group(1)))); i += 4; continue
        raise Refuse("__setstate__: unrecognised statement %r" % l)
    return sets, rebuilt, split

def declared_attrs(src, cls, until=None):
    m = re.search(r"^cdef class %s\b[^\n]*:\n" % re.escape(cls), src, re.M)
    if not m: raise Refuse("declaration of %s not found" % cls)
    rest = src[m.end():]
    end = re.search(r"^(cdef class|class)\s", rest, re.M)
    body = rest[: end.start()] if end else rest
    if until:
        e2 = re.search(until, body, re.M)
        if e2: body = body[: e2.start()]
    body = strip_doc(body)
    out = []
    for line in body.split("\n"):
        l = line.strip()
        if not l.startswith("cdef ") or "(" in l.split("#")[0]: continue
        l = l.split("#")[0].strip()
        name = l.split()[-1]
        if re.fullmatch(r"\w+", name): out.append(name)
    return out

def coq_list(xs): return "[" + "; ".join('"%s"' % x for x in xs) + "]"
def coq_pairs(ps): return "[" + "; ".join('("%s", %d)' % p for p in ps) + "]"

def run():
    tp = open(os.path.join(REPO, "bioscrape", "types.pyx")).read()
    pxd = open(os.path.join(REPO, "bioscrape", "types.pxd")).read()
    lin = open(os.path.join(REPO, "lineage", "lineage.pyx")).read()
    mget = parse_get(method_body(tp, "Model", "__getstate__"), "tuple")
    mset, mreb, msplit = parse_set(method_body(tp, "Model", "__setstate__"))
    if msplit is not None: raise Refuse("Model.__setstate__ has a superclass split")
    mdecl = declared_attrs(pxd, "Model")
    lget = parse_get(method_body(lin, "LineageModel", "__getstate__"), "list")
    lset, lreb, lsplit = parse_set(method_body(lin, "LineageModel", "__setstate__"))
    if lsplit is None: raise Refuse("LineageModel.__setstate__: no superclass split")
    ldecl = declared_attrs(lin, "LineageModel", until=r"^\tdef __init__")
    import json
    exc = json.load(open(os.path.join(os.path.dirname(os.path.abspath(__file__)), "tr_pickle_exceptions.json")))
    h = hashlib.sha256((tp + pxd + lin).encode()).hexdigest()[:16]
    txt = """(* GENERATED by tools/tr_pickle.py from bioscrape/types.pyx, bioscrape/types.pxd, lineage/lineage.pyx -- do not edit.
   source sha256 (three files concatenated): %s *)
From Coq Require Import String List.
Import ListNotations.
Open Scope string_scope.

Definition model_get : list string := %s.
Definition model_set : list (string * nat) := %s.
Definition model_rebuilt : list (string * nat) := %s.
Definition model_declared : list string := %s.

Definition lineage_get_additional : list string := %s.
Definition lineage_set : list (string * nat) := %s.
Definition lineage_rebuilt : list (string * nat) := %s.
Definition lineage_split : nat := %d.
Definition lineage_declared : list string := %s.

(* attributes deliberately not saved: listed with a reason in tools/tr_pickle_exceptions.json *)
Definition model_transient : list string := %s.
Definition lineage_transient : list string := %s.
""" % (h, coq_list(mget), coq_pairs(mset), coq_pairs(mreb), coq_list(mdecl), coq_list(lget), coq_pairs(lset), coq_pairs(lreb), lsplit, coq_list(ldecl),
       coq_list(sorted(exc["Model"])), coq_list(sorted(exc["LineageModel"])))
    os.makedirs(os.path.dirname(OUT), exist_ok=True)
    if not os.path.exists(OUT) or open(OUT).read() != txt: open(OUT, "w").write(txt)
    return {"Gen/Pickle.v": h, "model_fields": len(mget), "lineage_additional_fields": len(lget)}

if __name__ == "__main__":
    try: print(run())
    except Refuse as e:
        print("REFUSED:", e); sys.exit(2)
