#!/usr/bin/env python3
"""Translator (fail-closed) from Cython `cdef` methods to Gallina.

It reads the CURRENT sources of /repo, finds the named classes and their `cdef` methods (with the
attribute declarations of the .pxd), rewrites the four Cython-only constructs (typed local declarations
with / without initialiser, docstrings, comments) and parses the rest with Python's `ast`.  Every statement
and expression form it knows is listed below; anything else raises Refuse -- an unrecognised shape is an
error, never a guess.

  statements  : x = e | x op= e | self.f = e | self.f op= e | self.a[i, j] = e | self.a[i, j] op= e | a[i] = e (output array)
                for i in range(n): ...   (becomes for_range, the variables assigned inside are the accumulator)
                if / elif / else         (returning branches become if-then-else terms, assigning ones a let of an if)
                return e | pass
  expressions : int / float literals (floats as exact dyadic fractions), locals, arguments, self.f, a[i], self.a[i, j],
                + - * / ** % unary -, one comparison, max(a, b), len(v), int(e), self.method(args) (virtual: resolved
                in the class being translated, then its bases)
  types       : double -> F ; int -> Z ; unsigned / loop variables / len -> nat ; double* -> list F ;
                vector[int] -> list nat (the two vectors hold indices and counts) ; np.ndarray (2-D array of doubles) -> list (list F)

The generated definitions are parametrised by the arithmetic record (Base/Arith.v), so the theorems about them hold
for reals and the same terms can be evaluated at rationals."""
import ast, hashlib, os, re, sys
from fractions import Fraction

REPO = os.environ.get("VERIF_REPO", "/repo")

class Refuse(Exception): pass

# ------------------------------------------------------------------ source slicing
def class_body(src, cls):
    m = re.search(r"^cdef class %s\b[^\n]*:\n" % re.escape(cls), src, re.M)
    if not m: raise Refuse("class %s not found" % cls)
    rest = src[m.end():]
    end = re.search(r"^\S", rest, re.M)
    hdr = src[m.start():m.end()]
    base = re.search(r"\((\w+)\)", hdr)
    return (rest[: end.start()] if end else rest), (base.group(1) if base else None)

def strip_doc(body):
    body = re.sub(r"'''.*?'''|\"\"\".*?\"\"\"", "", body, flags=re.S)
    return "\n".join(re.sub(r"#.*$", "", l) for l in body.split("\n"))

CTYPES = {"double": "F", "int": "Z", "unsigned": "nat", "long": "Z", "void": "void", "np.ndarray": "mat", "DelayQueue": "obj"}

def parse_arg(a):
    a = a.strip()
    m = re.fullmatch(r"([\w\.]+)\s*(\*?)\s*(\w+)", a) or re.fullmatch(r"([\w\.]+)(\*)\s+(\w+)", a)
    if not m: raise Refuse("argument %r" % a)
    ty, star, name = m.groups()
    if ty not in CTYPES: raise Refuse("argument type %r" % ty)
    t = CTYPES[ty]
    if star:
        if t != "F": raise Refuse("pointer to %s" % ty)
        t = "listF"
    return name, t

def cdef_methods(body):
    """name -> (rettype, [(arg, type)], body text) for `cdef T name(self, ...)` methods of a class body"""
    out = {}
    it = list(re.finditer(r"^([ \t]+)cdef\s+([\w\.]+)\s+(\w+)\(self\s*(?:,([^)]*))?\)\s*:[ \t]*\n", body, re.M))
    for m in it:
        ind, rty, name, args = m.groups()
        if rty not in CTYPES: raise Refuse("return type %r of %s" % (rty, name))
        after = body[m.end():]; lines = []
        for line in after.split("\n"):
            if line.strip() == "" or line.startswith(ind + " ") or line.startswith(ind + "\t"): lines.append(line)
            else: break
        out[name] = (CTYPES[rty], [parse_arg(a) for a in args.split(",")] if args and args.strip() else [], "\n".join(lines))
    return out

def declared_fields(pxd_body):
    out = {}
    for line in strip_doc(pxd_body).split("\n"):
        l = line.strip()
        mp_ = re.fullmatch(r"cdef\s+double\s*\*\s*(\w+)", l)
        if mp_: out[mp_.group(1)] = "listF"; continue
        m = re.fullmatch(r"cdef\s+(unsigned|int|double|long|np\.ndarray|vector\[int\]|PropensityType)\s+(\w+)", l)
        if m:
            ty, name = m.groups()
            out[name] = {"vector[int]": "listnat", "PropensityType": None}.get(ty, CTYPES.get(ty))
    return out

def normalise(text):
    """Cython-only constructs -> Python; returns (python source, {local: type})"""
    text = strip_doc(text); locs = {}; out = []
    for line in text.split("\n"):
        m = re.match(r"^(\s*)cdef\s+([\w\.]+)\s+(\w+)\s*=\s*(.*)$", line)
        if m:
            ind, ty, name, e = m.groups()
            if ty not in CTYPES and ty not in CLASSNAMES: raise Refuse("local type %r" % ty)
            locs[name] = CTYPES.get(ty, "obj"); out.append("%s%s = %s" % (ind, name, e)); continue
        m = re.match(r"^(\s*)cdef\s+([\w\.]+)\s+(\w+)\s*$", line)
        if m:
            ind, ty, name = m.groups()
            if ty not in CTYPES: raise Refuse("local type %r" % ty)
            locs[name] = CTYPES[ty]; continue
        if re.match(r"^\s*cdef\b", line): raise Refuse("cdef statement %r" % line.strip())
        if line.strip(): out.append(line)
    src = "\n".join(out)
    ind = min((len(l) - len(l.lstrip()) for l in out), default=0)
    src = "\n".join(l[ind:] for l in out)
    return src, locs

CLASSNAMES = set()

# ------------------------------------------------------------------ translation
def coerce(txt, frm, to):
    if frm == to: return txt
    if (frm, to) == ("nat", "Z"): return "(Z.of_nat %s)" % txt
    if (frm, to) == ("Z", "nat"): return "(Z.to_nat %s)" % txt
    if (frm, to) == ("Z", "F"): return "(fofZ A %s)" % txt
    if (frm, to) == ("nat", "F"): return "(fofZ A (Z.of_nat %s))" % txt
    raise Refuse("no coercion %s -> %s for %s" % (frm, to, txt))

class Ctx:
    def __init__(self, tr, cls, meth):
        self.tr = tr; self.cls = cls; self.meth = meth; self.types = {}; self.ret = None; self.final = "self"

class Translator:
    def __init__(self, classes, prefix):
        """classes: name -> {"base", "fields": {f: type}, "methods": {m: (ret, args, body)}}"""
        self.classes = classes; self.prefix = prefix; self.done = {}; self.order = []; self.stack = []; self.oracles = {}

    # ---- class helpers
    def fields(self, cls):
        out = {}
        chain = []
        c = cls
        while c: chain.append(c); c = self.classes[c]["base"] if c in self.classes else None
        for c in reversed(chain):
            if c in self.classes: out.update(self.classes[c]["fields"])
        return {k: v for k, v in out.items() if v}
    def resolve(self, cls, meth):
        c = cls
        while c and c in self.classes:
            if meth in self.classes[c]["methods"]: return c
            c = self.classes[c]["base"]
        raise Refuse("%s.%s not found" % (cls, meth))
    def fname(self, cls, meth): return "%s_%s_%s" % (self.prefix, cls, meth)
    def getter(self, cls, f): return "%s_%s" % (cls, f)

    # ---- expressions
    def expr(self, e, cx):
        T = cx.types
        if isinstance(e, ast.Constant):
            if isinstance(e.value, bool): raise Refuse("bool literal")
            if isinstance(e.value, int): return ("%d%%Z" % e.value if e.value >= 0 else "(%d)%%Z" % e.value), "Z"
            if isinstance(e.value, float):
                fr = Fraction(e.value)
                if fr.denominator == 1: return "(fofZ A %s)" % (fr.numerator if fr.numerator >= 0 else "(%d)" % fr.numerator), "F"
                return "(fdiv A (fofZ A %s) (fofZ A %d))" % ((fr.numerator if fr.numerator >= 0 else "(%d)" % fr.numerator), fr.denominator), "F"
            raise Refuse("literal %r" % (e.value,))
        if isinstance(e, ast.Name):
            if e.id not in T: raise Refuse("unknown name %s in %s.%s" % (e.id, cx.cls, cx.meth))
            return e.id, T[e.id]
        if isinstance(e, ast.Attribute) and isinstance(e.value, ast.Name):
            owner = e.value.id
            if owner == "self":
                fs = self.fields(cx.cls)
                if e.attr not in fs: raise Refuse("self.%s is not a declared numeric attribute of %s" % (e.attr, cx.cls))
                return "(%s self)" % self.getter(cx.cls, e.attr), fs[e.attr]
            if T.get(owner, "").startswith("obj:"):
                oc = T[owner][4:]; fs = self.fields(oc)
                if e.attr not in fs: raise Refuse("%s.%s unknown" % (owner, e.attr))
                return "(%s %s)" % (self.getter(oc, e.attr), owner), fs[e.attr]
            raise Refuse("attribute of %s" % owner)
        if isinstance(e, ast.Subscript):
            b, bt = self.expr(e.value, cx)
            sl = e.slice
            if isinstance(sl, ast.Tuple):
                if bt != "mat" or len(sl.elts) != 2: raise Refuse("2-D index of %s" % bt)
                i, it = self.expr(sl.elts[0], cx); j, jt = self.expr(sl.elts[1], cx)
                return "(get2 (fofZ A 0) %s %s %s)" % (b, coerce(i, it, "nat"), coerce(j, jt, "nat")), "F"
            i, it = self.expr(sl, cx); i = coerce(i, it, "nat")
            if bt == "listF": return "(getv A %s %s)" % (b, i), "F"
            if bt == "listnat": return "(nth %s %s 0%%nat)" % (i, b), "nat"
            raise Refuse("index of %s" % bt)
        if isinstance(e, ast.UnaryOp) and isinstance(e.op, ast.USub):
            if isinstance(e.operand, ast.Constant) and isinstance(e.operand.value, (int, float)) and not isinstance(e.operand.value, bool):
                return self.expr(ast.Constant(-e.operand.value), cx)
            a, at = self.expr(e.operand, cx)
            if at == "F": return "(fneg A %s)" % a, "F"
            return "(- %s)%%Z" % coerce(a, at, "Z"), "Z"
        if isinstance(e, ast.BinOp):
            a, at = self.expr(e.left, cx); b, bt = self.expr(e.right, cx)
            op = type(e.op).__name__
            if "F" in (at, bt) or op in ("Div", "Pow"):
                if op == "Mod": raise Refuse("float %")
                f = {"Add": "fadd", "Sub": "fsub", "Mult": "fmul", "Div": "fdiv", "Pow": "fpow"}.get(op)
                if not f: raise Refuse("operator %s" % op)
                if op == "Div" and at != "F" and bt != "F": raise Refuse("integer division")
                return "(%s A %s %s)" % (f, coerce(a, at, "F"), coerce(b, bt, "F")), "F"
            if at == "nat" and bt == "nat" and op in ("Add", "Mult", "Mod"):
                o = {"Add": "+", "Mult": "*", "Mod": "mod"}[op]
                return "(%s %s %s)%%nat" % (a, o, b), "nat"
            o = {"Add": "+", "Sub": "-", "Mult": "*", "Mod": "mod"}.get(op)
            if not o: raise Refuse("operator %s on integers" % op)
            return "(%s %s %s)%%Z" % (coerce(a, at, "Z"), o, coerce(b, bt, "Z")), "Z"
        if isinstance(e, ast.Compare):
            if len(e.ops) != 1: raise Refuse("chained comparison")
            a, at = self.expr(e.left, cx); b, bt = self.expr(e.comparators[0], cx); op = type(e.ops[0]).__name__
            if "F" in (at, bt):
                a, b = coerce(a, at, "F"), coerce(b, bt, "F")
                t = {"Lt": "(fltb A %s %s)" % (a, b), "Gt": "(fltb A %s %s)" % (b, a), "LtE": "(fleb A %s %s)" % (a, b), "GtE": "(fleb A %s %s)" % (b, a),
                     "Eq": "(feqb A %s %s)" % (a, b), "NotEq": "(negb (feqb A %s %s))" % (a, b)}.get(op)
            elif at == "nat" and bt == "nat":
                t = {"Lt": "(Nat.ltb %s %s)" % (a, b), "Gt": "(Nat.ltb %s %s)" % (b, a), "LtE": "(Nat.leb %s %s)" % (a, b), "GtE": "(Nat.leb %s %s)" % (b, a),
                     "Eq": "(Nat.eqb %s %s)" % (a, b), "NotEq": "(negb (Nat.eqb %s %s))" % (a, b)}.get(op)
            else:
                a, b = coerce(a, at, "Z"), coerce(b, bt, "Z")
                t = {"Lt": "(%s <? %s)%%Z" % (a, b), "Gt": "(%s >? %s)%%Z" % (a, b), "LtE": "(%s <=? %s)%%Z" % (a, b), "GtE": "(%s >=? %s)%%Z" % (a, b),
                     "Eq": "(%s =? %s)%%Z" % (a, b), "NotEq": "(negb (%s =? %s)%%Z)" % (a, b)}.get(op)
            if not t: raise Refuse("comparison %s" % op)
            return t, "bool"
        if isinstance(e, ast.BoolOp):
            op = " || " if isinstance(e.op, ast.Or) else " && "
            return "(" + op.join(self.truth(v, cx) for v in e.values) + ")", "bool"
        if isinstance(e, ast.Call):
            if e.keywords: raise Refuse("keyword arguments")
            if isinstance(e.func, ast.Name):
                fn = e.func.id
                if fn == "max" and len(e.args) == 2:
                    a, at = self.expr(e.args[0], cx); b, bt = self.expr(e.args[1], cx)
                    if "F" not in (at, bt): raise Refuse("integer max")
                    return "(cy_max A %s %s)" % (coerce(a, at, "F"), coerce(b, bt, "F")), "F"
                if fn == "len" and len(e.args) == 1:
                    a, at = self.expr(e.args[0], cx)
                    if at not in ("listnat", "listF"): raise Refuse("len of %s" % at)
                    return "(length %s)" % a, "nat"
                if fn == "int" and len(e.args) == 1:
                    a, at = self.expr(e.args[0], cx)
                    if at == "F": return "(ftrunc A %s)" % a, "Z"
                    return coerce(a, at, "Z"), "Z"
                raise Refuse("call of %s" % fn)
            if isinstance(e.func, ast.Attribute) and e.func.attr == "size" and not e.args:
                a, at = self.expr(e.func.value, cx)
                if at != "listnat": raise Refuse("size() of %s" % at)
                return "(length %s)" % a, "nat"
            if isinstance(e.func, ast.Attribute) and isinstance(e.func.value, ast.Attribute) and isinstance(e.func.value.value, ast.Name) and e.func.value.value.id == "self":
                # a call into another object held in an attribute (self.rhs.evaluate(...)): an ORACLE, a section variable of the generated file
                fld = e.func.value.attr; key = "%s_%s" % (fld, e.func.attr)
                if key not in self.oracles: raise Refuse("call of self.%s.%s" % (fld, e.func.attr))
                want = self.oracles[key]; args = []
                if len(want) != len(e.args): raise Refuse("arity of self.%s.%s" % (fld, e.func.attr))
                for wt, ae in zip(want, e.args):
                    a, at = self.expr(ae, cx)
                    if wt == "listF":
                        if at != "listF": raise Refuse("pointer argument")
                        args.append(a)
                    else: args.append(coerce(a, at, wt))
                return "(%s %s)" % (key, " ".join(args)), "F"
            if isinstance(e.func, ast.Attribute) and isinstance(e.func.value, ast.Name) and e.func.value.id == "self" and e.func.attr in self.oracles:
                key = e.func.attr; want = self.oracles[key]; args = []
                if len(want) != len(e.args): raise Refuse("arity of %s" % key)
                for wt, ae in zip(want, e.args):
                    a, at = self.expr(ae, cx)
                    if wt == "listF":
                        if at != "listF": raise Refuse("pointer argument of %s" % key)
                        args.append(a)
                    else: args.append(coerce(a, at, wt))
                return "(%s %s)" % (key, " ".join(args)), "F"
            if isinstance(e.func, ast.Attribute) and isinstance(e.func.value, ast.Name) and e.func.value.id == "self":
                meth = e.func.attr; owner = self.resolve(cx.cls, meth)
                ret, margs, _ = self.classes[owner]["methods"][meth]
                if len(margs) != len(e.args): raise Refuse("arity of self.%s" % meth)
                name = self.method(cx.cls, meth)
                args = []
                for (an, aty), ae in zip(margs, e.args):
                    a, at = self.expr(ae, cx); args.append(coerce(a, at, aty) if aty not in ("listF",) else a)
                    if aty == "listF" and at != "listF": raise Refuse("pointer argument")
                return "(%s A self %s)" % (name, " ".join(args)), ret
            raise Refuse("call")
        raise Refuse("expression %s in %s.%s" % (ast.dump(e)[:80], cx.cls, cx.meth))

    def truth(self, e, cx):
        """C truthiness of an operand of `or` / `and` / `if`"""
        t, ty = self.expr(e, cx)
        if ty == "bool": return t
        if ty == "nat": return "(negb (Nat.eqb %s 0%%nat))" % t
        if ty == "Z": return "(negb (%s =? 0)%%Z)" % t
        raise Refuse("truth value of %s" % ty)

    def guard_of(self, cls, meth, callee):
        """for a void method of the shape `if <cond>: self.<callee>(<its own arguments>)`: the condition as a bool-valued definition,
        and the argument names passed on"""
        owner = self.resolve(cls, meth)
        ret, args, body = self.classes[owner]["methods"][meth]
        src, locs = normalise(body)
        tree = ast.parse(src)
        if ret != "void" or len(tree.body) != 1 or not isinstance(tree.body[0], ast.If) or tree.body[0].orelse: raise Refuse("%s.%s is not a single guarded call" % (owner, meth))
        node = tree.body[0]
        if len(node.body) != 1 or not (isinstance(node.body[0], ast.Expr) and isinstance(node.body[0].value, ast.Call)): raise Refuse("%s.%s: guarded statement" % (owner, meth))
        call = node.body[0].value
        if not (isinstance(call.func, ast.Attribute) and isinstance(call.func.value, ast.Name) and call.func.value.id == "self" and call.func.attr == callee) or call.keywords:
            raise Refuse("%s.%s does not call self.%s" % (owner, meth, callee))
        passed = []
        for a in call.args:
            if not isinstance(a, ast.Name): raise Refuse("%s.%s: argument expression" % (owner, meth))
            passed.append(a.id)
        cx = Ctx(self, cls, meth); cx.ret = "bool"
        for a, t in args: cx.types[a] = t
        cx.types["self"] = "obj:" + cls
        cond = self.truth(node.test, cx)
        coqty = {"F": "F", "Z": "Z", "nat": "nat", "listF": "list F"}
        used = [(a, t) for a, t in args if t in ("F", "Z", "nat")]
        sig = " ".join("(%s : %s)" % (a, coqty[t]) for a, t in used)
        name = "%s_%s_%s_guard" % (self.prefix, cls, meth)
        txt = "(* %s.%s: the condition under which it calls self.%s(%s) *)\nDefinition %s (A : Arith F) (self : %s_obj) %s : bool :=\n  %s.\n" % (
            owner, meth, callee, ", ".join(passed), name, cls, sig, cond)
        return name, txt, passed

    # ---- statements
    def assigned(self, stmts):
        out = []
        def add(n):
            if n not in out: out.append(n)
        for s in stmts:
            if isinstance(s, (ast.Assign, ast.AugAssign)):
                tg = s.targets[0] if isinstance(s, ast.Assign) else s.target
                if isinstance(s, ast.Assign) and len(s.targets) != 1: raise Refuse("multiple targets")
                if isinstance(tg, ast.Name): add(tg.id)
                elif isinstance(tg, ast.Attribute) and isinstance(tg.value, ast.Name): add(tg.value.id)
                elif isinstance(tg, ast.Subscript):
                    v = tg.value
                    if isinstance(v, ast.Attribute) and isinstance(v.value, ast.Name): add(v.value.id)
                    elif isinstance(v, ast.Name): add(v.id)
                    else: raise Refuse("assignment target")
                else: raise Refuse("assignment target")
            elif isinstance(s, ast.For):
                for n in self.assigned(s.body): add(n)
            elif isinstance(s, ast.If):
                for n in self.assigned(s.body) + self.assigned(s.orelse): add(n)
            elif isinstance(s, (ast.Pass, ast.Return)): pass
            elif isinstance(s, ast.Expr) and isinstance(s.value, ast.Call): raise Refuse("statement call")
            else: raise Refuse("statement %s" % type(s).__name__)
        return out
    def returns(self, stmts):
        """True iff every path through stmts ends in a return"""
        for s in stmts:
            if isinstance(s, ast.Return): return True
            if isinstance(s, ast.If) and s.orelse and self.returns(s.body) and self.returns(s.orelse): return True
        return False
    def has_return(self, stmts):
        for s in stmts:
            if isinstance(s, ast.Return): return True
            if isinstance(s, ast.If) and (self.has_return(s.body) or self.has_return(s.orelse)): return True
            if isinstance(s, ast.For) and self.has_return(s.body): return True
        return False
    def pack(self, names): return names[0] if len(names) == 1 else "(" + ", ".join(names) + ")"
    def pat(self, names): return names[0] if len(names) == 1 else "'(" + ", ".join(names) + ")"

    def one(self, s, cx, ind):
        """a statement that falls through -> list of `let` lines"""
        T = cx.types; pad = "  " * ind
        if isinstance(s, ast.Pass): return []
        if isinstance(s, (ast.Assign, ast.AugAssign)):
            tg = s.targets[0] if isinstance(s, ast.Assign) else s.target
            if isinstance(s, ast.AugAssign):
                rhs_ast = ast.BinOp(left=tg_load(tg), op=s.op, right=s.value)
            else: rhs_ast = s.value
            if isinstance(tg, ast.Name):
                r, rt = self.expr(rhs_ast, cx)
                want = T.get(tg.id, rt)
                if tg.id not in T: T[tg.id] = rt
                return ["%slet %s := %s in" % (pad, tg.id, coerce(r, rt, want))]
            if isinstance(tg, ast.Attribute) and isinstance(tg.value, ast.Name):
                owner = tg.value.id; oc = cx.cls if owner == "self" else (T.get(owner, "")[4:] if T.get(owner, "").startswith("obj:") else None)
                if not oc: raise Refuse("attribute store on %s" % owner)
                fs = self.fields(oc)
                if tg.attr not in fs: raise Refuse("store to undeclared attribute %s.%s" % (oc, tg.attr))
                r, rt = self.expr(rhs_ast, cx)
                return ["%slet %s := set_%s %s %s in" % (pad, owner, self.getter(oc, tg.attr), owner, coerce(r, rt, fs[tg.attr]))]
            if isinstance(tg, ast.Subscript):
                v = tg.value
                if isinstance(v, ast.Attribute) and isinstance(v.value, ast.Name) and isinstance(tg.slice, ast.Tuple) and len(tg.slice.elts) == 2:
                    owner = v.value.id; oc = cx.cls if owner == "self" else (T.get(owner, "")[4:] if T.get(owner, "").startswith("obj:") else None)
                    if not oc or self.fields(oc).get(v.attr) != "mat": raise Refuse("2-D store")
                    i, it = self.expr(tg.slice.elts[0], cx); j, jt = self.expr(tg.slice.elts[1], cx)
                    r, rt = self.expr(rhs_ast, cx)
                    g = self.getter(oc, v.attr)
                    return ["%slet %s := set_%s %s (set2 (%s %s) %s %s %s) in" % (pad, owner, g, owner, g, owner, coerce(i, it, "nat"), coerce(j, jt, "nat"), coerce(r, rt, "F"))]
                if isinstance(v, ast.Name) and T.get(v.id) == "listF":
                    i, it = self.expr(tg.slice, cx); r, rt = self.expr(rhs_ast, cx)
                    return ["%slet %s := upd %s %s %s in" % (pad, v.id, v.id, coerce(i, it, "nat"), coerce(r, rt, "F"))]
            raise Refuse("assignment")
        if isinstance(s, ast.For):
            if s.orelse or not isinstance(s.target, ast.Name): raise Refuse("for shape")
            it = s.iter
            if not (isinstance(it, ast.Call) and isinstance(it.func, ast.Name) and it.func.id == "range" and len(it.args) == 1): raise Refuse("for over something else than range(n)")
            if self.has_return(s.body): raise Refuse("return inside a loop")
            n, nt = self.expr(it.args[0], cx); n = coerce(n, nt, "nat")
            acc = self.assigned(s.body)
            if not acc: raise Refuse("loop without effect")
            for a in acc:
                if a not in T: raise Refuse("loop accumulator %s not initialised before the loop" % a)
            i = s.target.id; old = T.get(i); T[i] = "nat"
            body = self.seq(s.body, cx, ind + 2) + ["%s%s" % ("  " * (ind + 2), self.pack(acc))]
            if old is None: del T[i]
            else: T[i] = old
            return ["%slet %s := for_range %s (fun %s %s =>" % (pad, self.pat(acc), n, i, self.pat(acc).replace("'", "'") if len(acc) == 1 else "acc__")] + \
                   (["%s  let %s := acc__ in" % ("  " * (ind + 1), self.pat(acc))] if len(acc) > 1 else []) + body + ["%s) %s in" % (pad + "  ", self.pack(acc))]
        if isinstance(s, ast.If):
            if self.has_return(s.body) or self.has_return(s.orelse): raise Refuse("conditional return followed by code")
            acc = self.assigned([s])
            for a in acc:
                if a not in T: raise Refuse("variable %s assigned in a branch only" % a)
            c, ct = self.expr(s.test, cx)
            if ct != "bool": raise Refuse("condition is not a comparison")
            th = self.seq(s.body, cx, ind + 2) + ["%s%s" % ("  " * (ind + 2), self.pack(acc))]
            el = self.seq(s.orelse, cx, ind + 2) + ["%s%s" % ("  " * (ind + 2), self.pack(acc))]
            return ["%slet %s := if %s then (" % (pad, self.pat(acc), c)] + th + ["%s  ) else (" % pad] + el + ["%s  ) in" % pad]
        raise Refuse("statement %s" % type(s).__name__)

    def seq(self, stmts, cx, ind):
        out = []
        for s in stmts: out += self.one(s, cx, ind)
        return out

    def block(self, stmts, cx, ind):
        """statements ending the method -> lines of a term"""
        pad = "  " * ind
        for k, s in enumerate(stmts):
            if isinstance(s, ast.Return):
                if s.value is None: return self.seq(stmts[:k], cx, ind) + [pad + cx.final]
                pre = self.seq(stmts[:k], cx, ind)
                r, rt = self.expr(s.value, cx)
                if cx.ret == "obj": return pre + [pad + r]
                return pre + [pad + coerce(r, rt, cx.ret)]
            if isinstance(s, ast.If) and self.has_return(s.body + s.orelse):
                pre = self.seq(stmts[:k], cx, ind)
                c, ct = self.expr(s.test, cx)
                if ct != "bool": raise Refuse("condition is not a comparison")
                rest = stmts[k + 1:]
                if not self.returns(s.body): raise Refuse("if-branch that returns on some paths only")
                saved = dict(cx.types)
                th = self.block(s.body, cx, ind + 1); cx.types = dict(saved)
                el = self.block(list(s.orelse) + list(rest), cx, ind + 1); cx.types = saved
                return pre + ["%sif %s then" % (pad, c)] + th + ["%selse" % pad] + el
        if cx.ret != "void": raise Refuse("%s.%s can fall off its end" % (cx.cls, cx.meth))
        return self.seq(stmts, cx, ind) + [pad + cx.final]

    def method(self, cls, meth):
        """translate meth as seen from an object of class cls; returns the Coq name"""
        key = (cls, meth)
        if key in self.done: return self.done[key]
        if key in self.stack: raise Refuse("recursion through %s.%s" % key)
        self.stack.append(key)
        owner = self.resolve(cls, meth)
        ret, args, body = self.classes[owner]["methods"][meth]
        src, locs = normalise(body)
        try: tree = ast.parse(src)
        except SyntaxError as e: raise Refuse("%s.%s does not parse: %s" % (owner, meth, e))
        cx = Ctx(self, cls, meth); cx.ret = ret
        for a, t in args: cx.types[a] = t
        cx.types["self"] = "obj:" + cls
        cx.types.update(locs)
        outs = [a for a, t_ in args if t_ == "listF" and a in self.assigned(tree.body)]
        if outs:
            if ret != "void" or "self" in self.assigned(tree.body): raise Refuse("%s.%s: output array next to other effects" % (owner, meth))
            cx.final = self.pack(outs)
        lines = self.block(tree.body, cx, 1)
        name = self.fname(cls, meth)
        coqty = {"F": "F", "Z": "Z", "nat": "nat", "listF": "list F", "void": "%s_obj" % cls, "mat": "list (list F)"}
        sig = " ".join("(%s : %s)" % (a, coqty[t]) for a, t in args)
        rett = coqty[ret] if ret != "obj" else "%s_obj" % cls
        if outs: rett = " * ".join(["list F"] * len(outs))
        txt = "(* %s.%s%s *)\nDefinition %s (A : Arith F) (self : %s_obj) %s : %s :=\n%s.\n" % (
            owner, meth, "" if owner == cls else " (inherited by %s)" % cls, name, cls, sig, rett, "\n".join(lines))
        self.stack.pop(); self.done[key] = name; self.order.append(txt)
        return name

    def record(self, cls, with_M=False):
        fs = self.fields(cls); coqty = {"F": "F", "Z": "Z", "nat": "nat", "listnat": "list nat", "mat": "list (list F)", "listF": "list F"}
        names = sorted(fs)
        lines = ["Record %s_obj := mk_%s {" % (cls, cls)] + ["  %s : %s%s" % (self.getter(cls, f), coqty[fs[f]], ";" if i < len(names) - 1 else "") for i, f in enumerate(names)] + ["}."]
        for f in names:
            lines.append("Definition set_%s (o : %s_obj) (v : %s) : %s_obj :=\n  mk_%s %s." % (
                self.getter(cls, f), cls, coqty[fs[f]], cls, cls, " ".join("v" if g == f else "(%s o)" % self.getter(cls, g) for g in names)))
        return "\n".join(lines) + "\n"

def tg_load(tg):
    import copy
    t = copy.deepcopy(tg)
    for n in ast.walk(t):
        if hasattr(n, "ctx"): n.ctx = ast.Load()
    return t

def load_classes(pyx, pxd, names):
    global CLASSNAMES
    CLASSNAMES = set(names)
    classes = {}
    for c in names:
        body, base = class_body(pyx, c)
        pbody, pbase = class_body(pxd, c)
        classes[c] = {"base": base if base in names else None, "fields": declared_fields(pbody), "methods": cdef_methods(body)}
    return classes
