#!/usr/bin/env python3
"""Regenerates /verif/MANIFEST.json from the table below (run after adding a property check)."""
import json, os
V = os.path.dirname(os.path.dirname(os.path.abspath(__file__)))
props = [json.loads(l) for l in open(os.path.join(V, "properties.jsonl"))]
CLAIMED = {
 "C01": dict(text="Theorems (coq/Props/C01.v): at real arithmetic the propensity model reached through create_propensity's dispatch equals the documented closed forms for EVERY reactant list (any order), every non-negative state, every V>0, in all four modes (mass action incl. clamped falling factorial and its zero/factorial characterisation; four Hill kinds); interface theorems (plain loop; safe zeroing; scan within bounds) for any arithmetic. Hand model tied by running the extracted model at doubles against Propensity objects and plain/safe interfaces (guarded probes), plus an independent closed-form oracle. TRANSLATOR TIE: the four evaluators of the eight propensity classes are REGENERATED from bioscrape/types.pyx + types.pxd on every run (tools/tr_propensity.py -> coq/Gen/PropensityGen.v, virtual calls resolved through the inheritance chain) and proved equal to the hand model's prop_eval for ANY arithmetic (C01_source_tie); C01_source_massaction / C01_source_hill restate the closed forms for the regenerated definitions; an edit of an evaluator breaks the tie lemma.  The plain interface's four per-reaction loops are regenerated as well (tools/tr_iface.py -> coq/Gen/IfaceGen.v, the virtual call on the r-th propensity object as an oracle) and proved equal to the model's compute_plain (C01_source_interface_plain).",
             note="evaluators: translator + proved tie; dispatch / initialize / interfaces: hand model (Propensity.v, Interface.v), correspondence only; reals axioms; Cython ** vs libm pow tolerance 1e-12; rounding outside the theorems",
             tech="source-to-Gallina translator with proved tie to the hand model + Rocq proof over R (list induction, multiplicity-table invariant) + extracted-model correspondence", sec="4/C01"),
 "C03": dict(text="Theorems (coq/Props/C03.v): every entry of S and Sd built by the model of create_reaction/_create_stochiometric_matrices equals count(products) - count(reactants) for any reaction list, any declaration order (row located through the index map); the reported derivative is the sum over reactions of (S+Sd) x rate (over R); initialisation fails iff some parameter has no value. Tied by correspondence on random reaction lists / declaration orders (exact integers, bit-exact derivative) and a count-based oracle.",
             note="hand model (Builder.v); correspondence only; propensity encodings read from the built model", tech="Rocq proof (association-list and fold lemmas) + extracted-model correspondence + sampled cases evaluated inside Coq (vm_compute Examples generated per run)", sec="4/C03"),
 "C20": dict(text="Theorems (coq/Props/C20.v): refinement of the ring buffer to an abstract pending-at-offset table (any arithmetic, any amount monoid); exactly-once / at-the-scheduled-slot for every history of adds and read-and-advances of any length (entries tagged with identities); in-order clock; nearest-slot with clamping over the reals; conservation by binomial partition for every stream. Tied by running the extracted model at doubles against ArrayDelayQueue's py_* API on random op sequences (exact, draw counts included) and an exact-rational abstract-table oracle. TRANSLATOR TIE: ArrayDelayQueue.set_current_time, add_reaction, get_next_queue_time, get_next_reactions and advance_time are REGENERATED from bioscrape/simulator.pyx + simulator.pxd on every run (tools/tr_queue.py -> coq/Gen/QueueGen.v) and proved to simulate the hand model step for step for ANY arithmetic and ANY history (C20_source_methods, C20_source_history), so the theorems above speak about the current source; constructor / copy / clear_copy / binomial_partition stay with the correspondence.",
             note="five methods: translator + proved simulation; the rest: hand model (Queue.v), correspondence only; reals axioms for nearest/partition; copy independence observed on the implementation only", tech="source-to-Gallina translator with proved simulation of the hand model + Rocq proof (refinement + induction over histories) + extracted-model correspondence + sampled histories evaluated inside Coq over exact rationals (vm_compute Examples generated per run)", sec="4/C20"),
}
PENDING_REASON = "check under construction in this round (DESIGN.md section 8 gives the order); not claimed yet"
try:
    from manifest_extra import CLAIMED as EXTRA, NA
    CLAIMED.update(EXTRA)
except Exception:
    NA = {}
import subprocess
def repo_commits():
    try:
        out = subprocess.run(["git", "-C", "/repo", "log", "--format=%h %s"], stdout=subprocess.PIPE, text=True).stdout
        return [l.split()[0] for l in out.splitlines() if l.split(" ", 1)[1].startswith("verif hooks")]
    except Exception: return []
man = {
 "version": 1, "setup_cmd": "./setup.sh",
 "hooks": {"guard": "BIOSCRAPE_VERIF", "enable": "BIOSCRAPE_VERIF=1 in the environment of the scratch build and of every implementation runner (harness/build.py, harness/common.py:run_impl); the probes raise RuntimeError unless it is set",
           "baseline_off_cmd": "cd /repo && /venv/bin/python -m pytest -ra -q -p no:cacheprovider --timeout=900 --continue-on-collection-errors",
           "source_commits": repo_commits(), "add_only": True},
 "engines": [
  {"name": "rocq-model", "path": "coq/", "serves_properties": sorted(CLAIMED), "kind_free_text": "Coq 8.16.1 development: executable Gallina models (coq/Model), specifications (coq/Spec), lemmas (coq/Proofs), one theorem file per property (coq/Props)"},
  {"name": "ocaml-driver correspondence", "path": "ocaml/ harness/", "serves_properties": sorted(CLAIMED), "kind_free_text": "models extracted with ExtrOcamlBasic only, instantiated with hardware doubles, run against the implementation rebuilt from /repo's working tree into /var/tmp/bioscrape_verif/<hash>"}],
 "checks": [], "not_applicable": [],
 "notes": "All checks: ./check <id> --tier quick|thorough [--replay file]. Scratch builds are cached by source hash under /var/tmp/bioscrape_verif. known_findings.json is read-only at run time.",
}
for p in props:
    i = p["id"]
    if i in CLAIMED:
        c = CLAIMED[i]
        man["checks"].append({"property_id": i, "quick_cmd": "./check %s --tier quick" % i, "thorough_cmd": "./check %s --tier thorough" % i,
            "evidence_file": "evidence/%s.json" % i, "replay_cmd_template": "./check %s --replay {path}" % i, "engine": "rocq-model",
            "level_claimed": {"category": "proof", "text": c["text"], "design_ref": "DESIGN.md section " + c["sec"]},
            "level_note": c["note"], "technique": c["tech"]})
    else:
        man["not_applicable"].append({"property_id": i, "reason": NA.get(i, PENDING_REASON)})
json.dump(man, open(os.path.join(V, "MANIFEST.json"), "w"), indent=1)
print("claimed:", sorted(CLAIMED))
