#!/bin/sh
# Refresh the (git-ignored) compiled extension modules inside /repo from the scratch build of its
# current working tree, so that /repo's own test suite runs the code that is committed there.
set -e
B=$(/venv/bin/python /verif/harness/build.py 2>/dev/null)
cp "$B"/bioscrape/*.so /repo/bioscrape/
echo "synced from $B"
