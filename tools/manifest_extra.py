# claimed checks beyond the first three (imported by gen_manifest.py)
CLAIMED = {
 "C16": dict(text="Theorems (coq/Props/C16.v): for each of the seven families, with parameters in range and the value inside the support, the model of the prior function returns exactly the textbook log-density (ln/exp/power algebra over R; scipy's gamma and beta are universally quantified positive functions); outside the support (uniform, exponential, gamma, beta, log-uniform) and for a negative value under 'positive' it rejects; the vector log-prior is the sum of the terms and one rejection rejects the vector. Tied by running the extracted model at doubles against PIDInterface.check_prior and DeterministicInference.get_likelihood_function (stub likelihood) and an independent log-density oracle.",
             note="hand model (Priors.v), correspondence only; reals axioms; NaN/underflow routes to rejection are floating-point behaviour seen by the correspondence only; known finding F13 (density underflow)", tech="Rocq proof over R (ln/exp algebra) + extracted-model correspondence", sec="4/C16"),
}
NA = {}
