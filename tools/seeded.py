#!/venv/bin/python
"""Seeded-change bookkeeping (development tool, not a registered check).

  seeded.py confirm <id> <worktree> <outdir> --property Cnn   confirm an independently written breaking change:
        the worktree's diff is the patch, the demonstration fails there and passes on a clean build, the
        repository's tests pass there; then store it under /verif/seeded/<id>/
  seeded.py detect <id> <Cnn> [<Cmm> ...] [--tier quick]          apply the stored patch to /repo, run the checks, undo;
        record in meta.json which checks reported a violation
Nothing is ever committed to /repo."""
import argparse, json, os, shutil, subprocess, sys, time
sys.path.insert(0, os.path.dirname(os.path.dirname(os.path.abspath(__file__))))
V = os.path.dirname(os.path.dirname(os.path.abspath(__file__)))
PY = "/venv/bin/python"

def sh(cmd, **kw):
    return subprocess.run(cmd, shell=True, capture_output=True, text=True, **kw)

def confirm(a):
    from harness.build import ensure_build
    out = a.outdir; wt = a.worktree; dst = os.path.join(V, "seeded", a.id); os.makedirs(dst, exist_ok=True)
    patch = open(os.path.join(out, "patch.diff")).read()
    cur = sh("git -C %s diff" % wt).stdout
    same = [l for l in cur.splitlines() if l[:1] in "+-" and not l.startswith(("+++", "---"))] == [l for l in patch.splitlines() if l[:1] in "+-" and not l.startswith(("+++", "---"))]
    env = dict(os.environ, PYTHONHASHSEED="0")
    demo = os.path.join(out, "demo.py")
    r1 = subprocess.run([PY, demo], cwd=wt, env=dict(env, PYTHONPATH=wt), capture_output=True, text=True, timeout=1800)
    clean = ensure_build()
    r0 = subprocess.run([PY, demo], cwd=clean, env=dict(env, PYTHONPATH=clean), capture_output=True, text=True, timeout=1800)
    base = json.load(open("/root/.vp/BASELINE.json"))
    t = subprocess.run("%s -m pytest -q -p no:cacheprovider --timeout=900 tests 2>&1 | tail -3" % PY, shell=True, cwd=wt, env=dict(env, PYTHONPATH=wt), capture_output=True, text=True, timeout=3600)
    meta = {"id": a.id, "property": a.property, "patch_matches_worktree": same,
            "demo_with_change_exit": r1.returncode, "demo_with_change_tail": (r1.stdout + r1.stderr)[-600:],
            "demo_on_clean_build_exit": r0.returncode, "tests_with_change": t.stdout.strip().splitlines()[-1:] ,
            "confirmed": bool(same and r1.returncode == 1 and r0.returncode == 0 and "54 passed" in t.stdout),
            "ran": ["demo.py with PYTHONPATH=<worktree with the change, built>", "demo.py with PYTHONPATH=<scratch build of /repo HEAD>", "pytest tests in the worktree"],
            "written_by": "fresh sub-agent given only the property text and a scratch worktree"}
    notes = os.path.join(out, "notes.md")
    if os.path.exists(notes): shutil.copy(notes, os.path.join(dst, "notes.md"))
    shutil.copy(os.path.join(out, "patch.diff"), os.path.join(dst, "patch.diff")); shutil.copy(demo, os.path.join(dst, "demo.py"))
    old = {}
    if os.path.exists(os.path.join(dst, "meta.json")): old = json.load(open(os.path.join(dst, "meta.json")))
    old.update(meta); json.dump(old, open(os.path.join(dst, "meta.json"), "w"), indent=1)
    print(json.dumps({k: meta[k] for k in ("patch_matches_worktree", "demo_with_change_exit", "demo_on_clean_build_exit", "tests_with_change", "confirmed")}))

def detect(a):
    dst = os.path.join(V, "seeded", a.id); patch = os.path.join(dst, "patch.diff")
    if sh("git -C /repo status --porcelain --untracked-files=no").stdout.strip(): sys.exit("/repo is not clean")
    r = sh("git -C /repo apply %s" % patch)
    if r.returncode: sys.exit("patch does not apply: " + r.stderr)
    res = {}
    try:
        for pid in a.checks:
            t0 = time.time()
            p = sh("cd %s && ./check %s --tier %s" % (V, pid, a.tier), env=dict(os.environ, VERIF_SEED=str(a.seed)))
            vio = [l for l in p.stdout.splitlines() if l.startswith("VIOLATION")]
            res[pid] = {"exit": p.returncode, "violations": vio[:6], "seconds": round(time.time() - t0), "tier": a.tier, "seed": a.seed}
            if p.returncode != 0 and not vio: res[pid]["output_tail"] = (p.stdout + p.stderr)[-1500:]
            print(pid, p.returncode, vio[:3]); sys.stdout.flush()
            rp = os.path.join(V, "replays", pid)
            if vio and os.path.isdir(rp):
                first = sorted(os.listdir(rp))[:1]
                if first: res[pid]["replay_excerpt"] = open(os.path.join(rp, first[0])).read()[:1200]
    finally:
        sh("git -C /repo checkout -- .")
        # evidence written while the change was applied must not stay
        sh("cd %s && git checkout -- evidence" % V)
    mp = os.path.join(dst, "meta.json"); meta = json.load(open(mp)) if os.path.exists(mp) else {"id": a.id}
    meta.setdefault("detection", {}).update(res)
    meta["detected_by"] = sorted(k for k, v in meta["detection"].items() if v["exit"] == 1 and v["violations"])
    json.dump(meta, open(mp, "w"), indent=1)

if __name__ == "__main__":
    ap = argparse.ArgumentParser(); sub = ap.add_subparsers(dest="cmd")
    c = sub.add_parser("confirm"); c.add_argument("id"); c.add_argument("worktree"); c.add_argument("outdir"); c.add_argument("--property", required=True)
    d = sub.add_parser("detect"); d.add_argument("id"); d.add_argument("checks", nargs="+"); d.add_argument("--tier", default="quick"); d.add_argument("--seed", type=int, default=0)
    a = ap.parse_args()
    {"confirm": confirm, "detect": detect}[a.cmd](a)
