#!/usr/bin/env python3
"""Translator (fail-closed) for the finite-difference code of bioscrape/analysis.py (SensitivityAnalysis.compute_J and
compute_Zj, plain Python): regenerates coq/Gen/StencilsGen.v from the CURRENT source:
  gen_{J,Z}_stencil_<method> A f_2h f_h f_0 f_mh f_m2h h   the expression stored into J[i,j] / Z[i] under `if method == '<method>'`
  gen_{J,Z}_point_<f> A v h                                 the perturbed coordinate at which sample <f> is taken: the last
                                                            `x[j] = x[j] <op> e` / `params_dict[param_name] = params_dict[param_name] <op> e`
                                                            before `<f> = self._evaluate_model(...)[i]` (v for the unperturbed value)
  gen_{J,Z}_indices                                         names of: result indices, sampled component, perturbed coordinate
Anything it does not recognise in those positions is refused."""
import ast, hashlib, os, sys
REPO = os.environ.get("VERIF_REPO", "/repo")
OUT = os.path.join(os.path.dirname(os.path.dirname(os.path.abspath(__file__))), "coq", "Gen", "StencilsGen.v")
class Refuse(Exception): pass
SAMPLES = ["f_2h", "f_h", "f_0", "f_mh", "f_m2h"]

def expr(e, names):
    if isinstance(e, ast.Constant) and isinstance(e.value, int) and not isinstance(e.value, bool): return "(fofZ A %d%%Z)" % e.value
    if isinstance(e, ast.Name) and e.id in names: return names[e.id]
    if isinstance(e, ast.UnaryOp) and isinstance(e.op, ast.USub): return "(fneg A %s)" % expr(e.operand, names)
    if isinstance(e, ast.BinOp):
        f = {"Add": "fadd", "Sub": "fsub", "Mult": "fmul", "Div": "fdiv"}.get(type(e.op).__name__)
        if f: return "(%s A %s %s)" % (f, expr(e.left, names), expr(e.right, names))
    raise Refuse("expression %s" % ast.dump(e)[:80])

def src(n): return ast.unparse(n)

def analyse(fn, result, coord_target):
    """result: 'J' or 'Z'; coord_target: unparsed text of the perturbed cell, e.g. 'x[j]' or 'params_dict[param_name]'"""
    stencils = {}; points = {}; indices = {}
    names = {s: s for s in SAMPLES}; names["h"] = "h"
    pending = [None]
    def visit(stmts):
        for s in stmts:
            if isinstance(s, ast.Assign) and len(s.targets) == 1:
                tg = s.targets[0]; tgs = src(tg)
                if tgs == coord_target:
                    v = s.value
                    if not (isinstance(v, ast.BinOp) and src(v.left) == coord_target and isinstance(v.op, (ast.Add, ast.Sub))): raise Refuse("%s: perturbation %s" % (fn.name, src(s)))
                    pending[0] = ("fadd" if isinstance(v.op, ast.Add) else "fsub", expr(v.right, {"h": "h"}))
                    if isinstance(tg, ast.Subscript): indices["perturbed"] = src(tg.slice)
                    continue
                if isinstance(tg, ast.Name) and tg.id in ("x", "params_dict") and isinstance(s.value, ast.Call):
                    pending[0] = None; continue                      # x = np.array(state_input) / params_dict = dict(self.original_parameters): reset
                if isinstance(tg, ast.Name) and tg.id in SAMPLES:
                    v = s.value
                    if isinstance(v, ast.Subscript) and isinstance(v.value, ast.Call) and src(v.value.func) == "self._evaluate_model":
                        arg0 = src(v.value.args[0]) if v.value.args else ""
                        if arg0 == "state_input": here = None                      # the unperturbed copy
                        elif arg0 == "x": here = pending[0]
                        else: raise Refuse("%s: %s sampled at %s" % (fn.name, tg.id, arg0))
                        if len(v.value.args) > 1 and src(v.value.args[1]) != "params_dict": raise Refuse("%s: %s evaluated with %s" % (fn.name, tg.id, src(v.value.args[1])))
                        if tg.id in points and points[tg.id] != here: raise Refuse("%s: %s sampled at two different points" % (fn.name, tg.id))
                        points[tg.id] = here; indices.setdefault("component", src(v.slice))
                        if indices["component"] != src(v.slice): raise Refuse("%s: components differ" % fn.name)
                        continue
                    if isinstance(v, ast.Subscript) and src(v.value) == "array_f_0": points[tg.id] = None; indices.setdefault("component", src(v.slice)); continue
                    raise Refuse("%s: sample %s = %s" % (fn.name, tg.id, src(v)))
                if isinstance(tg, ast.Subscript) and src(tg.value) == result:
                    continue                                           # error-check overwrites (J[i,j] = 1 / 0) are outside the stencil
            if isinstance(s, ast.If):
                t = s.test
                if isinstance(t, ast.Compare) and src(t.left) == "method" and isinstance(t.ops[0], ast.Eq) and isinstance(t.comparators[0], ast.Constant) and t.comparators[0].value != "numdifftools":
                    m = t.comparators[0].value
                    visit(s.body)
                    st = [b for b in s.body if isinstance(b, ast.Assign) and isinstance(b.targets[0], ast.Subscript) and src(b.targets[0].value) == result]
                    if len(st) != 1 or s.orelse: raise Refuse("%s: branch of method %r" % (fn.name, m))
                    if m in stencils: raise Refuse("%s: two branches for %r" % (fn.name, m))
                    stencils[m] = expr(st[0].value, names); indices.setdefault("result", src(st[0].targets[0].slice))
                    if indices["result"] != src(st[0].targets[0].slice): raise Refuse("%s: result indices differ" % fn.name)
                    continue
                visit(s.body); visit(s.orelse); continue
            if isinstance(s, ast.For): visit(s.body); continue
    visit(fn.body)
    return stencils, points, indices

def run():
    text = open(os.path.join(REPO, "bioscrape", "analysis.py")).read(); tree = ast.parse(text)
    cls = next((n for n in tree.body if isinstance(n, ast.ClassDef) and n.name == "SensitivityAnalysis"), None)
    if cls is None: raise Refuse("class SensitivityAnalysis not found")
    meths = {n.name: n for n in cls.body if isinstance(n, ast.FunctionDef)}
    parts = []; tail = []
    for tag, mname, coord in (("J", "compute_J", "x[j]"), ("Z", "compute_Zj", "params_dict[param_name]")):
        if mname not in meths: raise Refuse("%s not found" % mname)
        st, pts, idx = analyse(meths[mname], tag, coord)
        want = ["fourth_order_central_difference", "central_difference", "backward_difference", "forward_difference"]
        if sorted(st) != sorted(want): raise Refuse("%s: methods %r" % (mname, sorted(st)))
        for m in want:
            parts.append("Definition gen_%s_stencil_%s (f_2h f_h f_0 f_mh f_m2h h : F) : F :=\n  %s.\n" % (tag, m, st[m]))
        if sorted(pts) != sorted(SAMPLES): raise Refuse("%s: samples %r" % (mname, sorted(pts)))
        for f in SAMPLES:
            p = pts[f]
            parts.append("Definition gen_%s_point_%s (v h : F) : F := %s.\n" % (tag, f, "v" if p is None else "(%s A v %s)" % p))
        for k in ("result", "component", "perturbed"):
            if k not in idx: raise Refuse("%s: index %s not found" % (mname, k))
        tail.append('Definition gen_%s_indices : list string := ["%s"; "%s"; "%s"]%%string.' % (tag, idx["result"], idx["component"], idx["perturbed"]))
    h = hashlib.sha256((ast.get_source_segment(text, meths["compute_J"]) + ast.get_source_segment(text, meths["compute_Zj"])).encode()).hexdigest()[:16]
    txt = """(* GENERATED by tools/tr_stencils.py from bioscrape/analysis.py (SensitivityAnalysis.compute_J / compute_Zj) -- do not edit.
   sha256 of the two methods: %s *)
From Coq Require Import ZArith List Bool String.
From BS Require Import Base.Arith.
Import ListNotations.

Section Gen.
Context {F : Type} (A : Arith F).

%s
End Gen.

%s
""" % (h, "\n".join(parts), "\n".join(tail))
    os.makedirs(os.path.dirname(OUT), exist_ok=True)
    if not os.path.exists(OUT) or open(OUT).read() != txt: open(OUT, "w").write(txt)
    return {"Gen/StencilsGen.v": h, "stencils": 8, "sample_points": 10}

if __name__ == "__main__":
    try: print(run())
    except Refuse as e:
        print("REFUSED:", e); sys.exit(2)
