#!/venv/bin/python
"""Development tool (not a registered check): run checks against ANOTHER tree without touching /repo or /verif.

  detect_in_copy.py <Sid> <Cnn> <worktree-with-the-change-applied> [--final]

A copy of /verif (rsync, build output included) is made under /var/tmp/verif_det once per HEAD; the property's quick check runs THERE
with VERIF_REPO=<worktree> and a build cache of its own, so /repo's working tree, /verif's evidence and coq/Gen are left alone and the
registered checks can keep running meanwhile.  The outcome is written into /verif/seeded/<Sid>/meta.json: under `as_it_stood` (default: the
machinery exactly as committed, before the change's description was read) or under `detection[<Cnn>]` (--final).
Rounds 7 and 8 of DESIGN.md A.6 were run this way.  Remove /var/tmp/verif_det and /var/tmp/bs_det when the round is over."""
import json, os, subprocess, sys, time
DET = "/var/tmp/verif_det"; V = os.path.dirname(os.path.dirname(os.path.abspath(__file__)))

def sh(cmd, **kw): return subprocess.run(cmd, shell=True, capture_output=True, text=True, **kw)

def main():
    args = [a for a in sys.argv[1:] if not a.startswith("--")]; final = "--final" in sys.argv
    if len(args) != 3: sys.exit(__doc__)
    sid, pid, wt = args
    head = sh("git -C %s rev-parse --short HEAD" % V).stdout.strip()
    stamp = os.path.join(DET, ".copied_from")
    if not os.path.exists(stamp) or open(stamp).read() != head:
        os.makedirs(DET, exist_ok=True); sh("rsync -a --delete --exclude replays %s/ %s/" % (V, DET)); open(stamp, "w").write(head)
    t0 = time.time()
    env = dict(os.environ, VERIF_REPO=wt, VERIF_BUILD_CACHE="/var/tmp/bs_det", VERIF_SEED="0")
    q = sh("cd %s && ./check %s --tier quick" % (DET, pid), env=env)
    vio = [l.replace(DET, "/verif") for l in q.stdout.splitlines() if l.startswith("VIOLATION")]
    res = {"exit": q.returncode, "violations": vio[:6], "seconds": round(time.time() - t0), "tier": "quick", "seed": 0, "machinery": "as committed at %s" % head}
    if q.returncode != 0 and not vio: res["output_tail"] = (q.stdout + q.stderr)[-1500:]
    sh("rm -rf %s/replays/%s" % (DET, pid))
    mp = os.path.join(V, "seeded", sid, "meta.json")
    meta = json.load(open(mp)) if os.path.exists(mp) else {"id": sid, "property": pid}
    if final:
        meta.setdefault("detection", {})[pid] = res
        meta["detected_by"] = sorted(k for k, v in meta["detection"].items() if v["exit"] == 1 and v["violations"])
    else: meta["as_it_stood"] = res
    os.makedirs(os.path.dirname(mp), exist_ok=True); json.dump(meta, open(mp, "w"), indent=1)
    print(sid, pid, q.returncode, vio[:2])

if __name__ == "__main__": main()
