(* Shared glue: conversions between OCaml ints and the extracted nat/Z, the hardware-double
   instance of the arithmetic record, token I/O.  No Obj.magic, no Extract Constant. *)
open Extracted

let rec nat_of_int n = if n <= 0 then O else S (nat_of_int (n - 1))
let int_of_nat n = let rec go acc = function O -> acc | S k -> go (acc + 1) k in go 0 n
let rec pos_of_int n = if n <= 1 then XH else if n land 1 = 0 then XO (pos_of_int (n lsr 1)) else XI (pos_of_int (n lsr 1))
let z_of_int n = if n = 0 then Z0 else if n > 0 then Zpos (pos_of_int n) else Zneg (pos_of_int (- n))
let rec int_of_pos = function XH -> 1 | XO p -> 2 * int_of_pos p | XI p -> 2 * int_of_pos p + 1
let int_of_z = function Z0 -> 0 | Zpos p -> int_of_pos p | Zneg p -> - (int_of_pos p)

(* truncation toward zero like a C cast; saturates instead of UB outside the int range *)
let trunc_z (x : float) : z =
  if Float.is_nan x then Z0
  else if x >= 4e18 then z_of_int max_int else if x <= -4e18 then z_of_int min_int
  else z_of_int (int_of_float x)

let fl : float arith = {
  f0 = 0.0; f1 = 1.0;
  fadd = ( +. ); fsub = ( -. ); fmul = ( *. ); fdiv = ( /. );
  fneg = (fun x -> -. x); fabs = Float.abs;
  fofZ = (fun z -> float_of_int (int_of_z z));
  fltb = (fun x y -> x < y); fleb = (fun x y -> x <= y); feqb = (fun x y -> x = y);
  fpow = ( ** ); fexp = exp; flog = log; fcos = cos; fsqrt = sqrt;
  ftrunc = trunc_z;
  fisnan = Float.is_nan;
}

let hx (x : float) : string =
  if Float.is_nan x then "nan" else if x = infinity then "inf" else if x = neg_infinity then "-inf"
  else Printf.sprintf "%h" x
let fl_of_string s = match s with
  | "nan" -> nan | "inf" -> infinity | "-inf" -> neg_infinity | _ -> float_of_string s

(* uniform from a raw 64-bit MT output exactly as random.pyx: (x >> 11) * (1.0/9007199254740991.0) *)
let uniform_of_raw (s : string) : float =
  let x = Int64.of_string ("0u" ^ s) in
  let hi = Int64.shift_right_logical x 11 in
  Int64.to_float hi *. (1.0 /. 9007199254740991.0)

let stream_of (a : float array) : nat -> float =
  fun n -> let i = int_of_nat n in if i < Array.length a then a.(i) else nan

let tokens (line : string) : string list =
  List.filter (fun s -> s <> "") (String.split_on_char ' ' (String.trim line))
