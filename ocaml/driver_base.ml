(* Shared glue: conversions between OCaml ints and the extracted nat/Z, the hardware-double
   instance of the arithmetic record, token I/O.  No Obj.magic, no Extract Constant. *)
open Extracted

let nat_of_int n = let rec go acc k = if k <= 0 then acc else go (S acc) (k - 1) in go O n
let int_of_nat n = let rec go acc = function O -> acc | S k -> go (acc + 1) k in go 0 n
let rec pos_of_int n = if n <= 1 then XH else if n land 1 = 0 then XO (pos_of_int (n lsr 1)) else XI (pos_of_int (n lsr 1))
let z_of_int n = if n = 0 then Z0 else if n > 0 then Zpos (pos_of_int n) else Zneg (pos_of_int (- n))
let rec int_of_pos = function XH -> 1 | XO p -> 2 * int_of_pos p | XI p -> 2 * int_of_pos p + 1
let int_of_z = function Z0 -> 0 | Zpos p -> int_of_pos p | Zneg p -> - (int_of_pos p)

(* truncation toward zero like a C cast; saturates instead of UB outside the int range *)
let trunc_z (x : float) : z =
  if Float.is_nan x then Z0
  else if x >= 4e18 then z_of_int max_int else if x <= -4e18 then z_of_int min_int
  else z_of_int (int_of_float x)

let fl : float arith = {
  f0 = 0.0; f1 = 1.0;
  fadd = ( +. ); fsub = ( -. ); fmul = ( *. ); fdiv = ( /. );
  fneg = (fun x -> -. x); fabs = Float.abs;
  fofZ = (fun z -> float_of_int (int_of_z z));
  fltb = (fun x y -> x < y); fleb = (fun x y -> x <= y); feqb = (fun x y -> x = y);
  fpow = ( ** ); fexp = exp; flog = log; fcos = cos; fsqrt = sqrt;
  ftrunc = trunc_z;
  fisnan = Float.is_nan;
  ffinite = Float.is_finite;
}

let hx (x : float) : string =
  if Float.is_nan x then "nan" else if x = infinity then "inf" else if x = neg_infinity then "-inf"
  else Printf.sprintf "%h" x
let fl_of_string s = match s with
  | "nan" -> nan | "inf" -> infinity | "-inf" -> neg_infinity | _ -> float_of_string s

(* uniform from a raw 64-bit MT output exactly as random.pyx: (x >> 11) * (1.0/9007199254740991.0) *)
let uniform_of_raw (s : string) : float =
  let x = Int64.of_string ("0u" ^ s) in
  let hi = Int64.shift_right_logical x 11 in
  Int64.to_float hi *. (1.0 /. 9007199254740991.0)

let stream_of (a : float array) : nat -> float =
  fun n -> let i = int_of_nat n in if i < Array.length a then a.(i) else nan

let tokens (line : string) : string list =
  List.filter (fun s -> s <> "") (String.split_on_char ' ' (String.trim line))

(* ---------------- token-stream parsers shared by the commands ---------------- *)
exception Parse of string
let pop = function [] -> raise (Parse "unexpected end") | t :: r -> (t, r)
let pop_int ts = let (t, r) = pop ts in (int_of_string t, r)
let pop_nat ts = let (n, r) = pop_int ts in (nat_of_int n, r)
let pop_fl ts = let (t, r) = pop ts in (fl_of_string t, r)
let rec pop_n f n ts = if n <= 0 then ([], ts) else
  let (a, r) = f ts in let (l, r') = pop_n f (n - 1) r in (a :: l, r')
let pop_list f ts = let (n, r) = pop_int ts in pop_n f n r
let pop_flist ts = pop_list pop_fl ts
let pop_z ts = let (n, r) = pop_int ts in (z_of_int n, r)

let rec pop_term ts : float term * string list =
  let (k, r) = pop ts in
  match k with
  | "c" -> let (v, r) = pop_fl r in (TConst v, r)
  | "s" -> let (i, r) = pop_nat r in (TSpecies i, r)
  | "p" -> let (i, r) = pop_nat r in (TParam i, r)
  | "vol" -> (TVolume, r)
  | "t" -> (TTime, r)
  | "sum" -> let (l, r) = pop_list pop_term r in (TSum l, r)
  | "prod" -> let (l, r) = pop_list pop_term r in (TProd l, r)
  | "max" -> let (l, r) = pop_list pop_term r in (TMax l, r)
  | "min" -> let (l, r) = pop_list pop_term r in (TMin l, r)
  | "pow" -> let (b, r) = pop_term r in let (e, r) = pop_term r in (TPow (b, e), r)
  | "exp" -> let (a, r) = pop_term r in (TExp a, r)
  | "log" -> let (a, r) = pop_term r in (TLog a, r)
  | "step" -> let (a, r) = pop_term r in (TStep a, r)
  | "abs" -> let (a, r) = pop_term r in (TAbs a, r)
  | _ -> raise (Parse ("term kind " ^ k))

let pop_prop ts : float prop * string list =
  let (k, r) = pop ts in
  match k with
  | "const" -> let (a, r) = pop_nat r in (PConst a, r)
  | "uni" -> let (a, r) = pop_nat r in let (b, r) = pop_nat r in (PUni (a, b), r)
  | "bi" -> let (a, r) = pop_nat r in let (b, r) = pop_nat r in let (c, r) = pop_nat r in (PBi (a, b, c), r)
  | "hp" | "hn" ->
    let (a, r) = pop_nat r in let (b, r) = pop_nat r in let (c, r) = pop_nat r in let (d, r) = pop_nat r in
    ((if k = "hp" then PHillPos (a, b, c, d) else PHillNeg (a, b, c, d)), r)
  | "php" | "phn" ->
    let (a, r) = pop_nat r in let (b, r) = pop_nat r in let (c, r) = pop_nat r in let (d, r) = pop_nat r in
    let (e, r) = pop_nat r in
    ((if k = "php" then PPropHillPos (a, b, c, d, e) else PPropHillNeg (a, b, c, d, e)), r)
  | "mass" -> let (a, r) = pop_nat r in let (i, r) = pop_list pop_nat r in let (c, r) = pop_list pop_nat r in (PMass (a, i, c), r)
  | "madisp" -> let (a, r) = pop_nat r in let (rs, r) = pop_list pop_nat r in (massaction_dispatch a rs, r)
  | "gen" -> let (t, r) = pop_term r in (PGeneral t, r)
  | _ -> raise (Parse ("prop kind " ^ k))

let mode_of = function "det" -> Det | "vol" -> Vol | "stoch" -> Stoch | "stochvol" -> StochVol
  | m -> raise (Parse ("mode " ^ m))

(* species-major integer matrix nsp x nrx *)
let pop_matrix nsp nrx ts = pop_n (fun ts -> pop_n pop_z nrx ts) nsp ts
