open Extracted
open Driver_base
open Drv_ssa

(* ---- C20: delay queue op sequences ----
   queue <nrx> <ncols> <dt> <t0> ops...   ops: A time r amount | P | C | K | T t | B p sel nraw raw...  *)
let cmd_queue toks =
  let buf = Buffer.create 256 in
  let out s = Buffer.add_string buf s; Buffer.add_char buf ' ' in
  match toks with
  | nrx :: ncols :: dt :: t0 :: ops ->
    let nrx = int_of_string nrx and ncols = int_of_string ncols in
    let q = ref (q_make fl 0.0 (nat_of_int nrx) (nat_of_int ncols) (fl_of_string dt) (fl_of_string t0)) in
    let dump (q : (float, float) queue) =
      out (hx q.q_next);
      for off = 0 to ncols - 1 do for r = 0 to nrx - 1 do
        out (hx (q_pending 0.0 q (nat_of_int off) (nat_of_int r))) done done in
    let rec go = function
      | [] -> ()
      | "A" :: time :: r :: a :: rest ->
        (match q_add fl ( +. ) !q (fl_of_string time) (nat_of_int (int_of_string r)) (fl_of_string a) with
         | Some q' -> q := q' | None -> out "FAULT");
        go rest
      | "P" :: rest ->
        out "P"; out (hx !q.q_next);
        List.iter (fun v -> out (hx v)) (q_peek 0.0 !q);
        q := q_advance fl 0.0 !q; go rest
      | "R" :: rest -> out "R"; List.iter (fun v -> out (hx v)) (q_peek 0.0 !q); go rest
      | "C" :: rest -> q := q_copy !q; out "C"; dump !q; go rest
      | "K" :: rest -> out "K"; dump (q_clear_copy 0.0 !q); go rest
      | "T" :: t :: rest -> q := q_set_time fl !q (fl_of_string t); go rest
      | "B" :: p :: sel :: n :: rest ->
        let n = int_of_string n in
        let raws = Array.of_list (List.filteri (fun i _ -> i < n) rest) in
        let rest = List.filteri (fun i _ -> i >= n) rest in
        let u = stream_of (Array.map uniform_of_raw raws) in
        let ((qa, qb), pos) = q_partition fl !q (fl_of_string p) u O in
        out "B"; out (string_of_int (int_of_nat pos)); dump qa; dump qb;
        q := (if sel = "0" then qa else qb); go rest
      | t :: _ -> failwith ("queue: bad op " ^ t) in
    go ops; out "E"; dump !q; Buffer.contents buf
  | _ -> failwith "queue: bad header"

(* ---- C01: one propensity object: prop <mode> <V> <t> <x list> <p list> <propspec> ---- *)
let cmd_prop toks =
  let (m, r) = pop toks in let (v, r) = pop_fl r in let (t, r) = pop_fl r in
  let (x, r) = pop_flist r in let (p, r) = pop_flist r in let (pr, _) = pop_prop r in
  hx (prop_eval fl pr (mode_of m) x p v t)

(* ---- C01: interfaces: iface <plain|safe> <mode> <V> <t> <x list> <p list> nsp nrx S Sd props ---- *)
let cmd_iface toks =
  let (kind, r) = pop toks in let (m, r) = pop r in let (v, r) = pop_fl r in let (t, r) = pop_fl r in
  let (x, r) = pop_flist r in let (si, _) = pop_simif r in
  let out = (if kind = "safe" then compute_safe else compute_plain) fl si (mode_of m) x v t in
  String.concat " " (List.map hx out)

(* ---- C03: builder: c03 ndecl decl.. ninit init.. nrx (nre re.. npr pr.. ndre .. ndpr ..)*  then
        params(list) props(nrx) npts (x list, t)*  ->  species order | S | Sd | derivatives ---- *)
let cmd_c03 toks =
  let (decl, r) = pop_list pop_nat toks in let (initk, r) = pop_list pop_nat r in
  let (nrx, r) = pop_int r in
  let pop_rx r = let (a, r) = pop_list pop_nat r in let (b, r) = pop_list pop_nat r in
    let (c, r) = pop_list pop_nat r in let (d, r) = pop_list pop_nat r in
    ({ rx_reactants = a; rx_products = b; rx_dreactants = c; rx_dproducts = d }, r) in
  let (rxs, r) = pop_n pop_rx nrx r in
  let sp = species_order decl rxs initk in
  let s = build_S sp rxs and sd = build_Sd sp rxs in
  let buf = Buffer.create 256 in
  let out x = Buffer.add_string buf x; Buffer.add_char buf ' ' in
  out "SP"; List.iter (fun n -> out (string_of_int (int_of_nat n))) sp;
  out "S"; List.iter (List.iter (fun z -> out (string_of_int (int_of_z z)))) s;
  out "SD"; List.iter (List.iter (fun z -> out (string_of_int (int_of_z z)))) sd;
  (match r with
   | [] -> ()
   | _ ->
     let (p, r) = pop_flist r in let (props, r) = pop_n pop_prop nrx r in
     let si = { si_props = props; si_S = s; si_Sd = sd; si_params = p; si_nspecies = nat_of_int (List.length sp) } in
     let (npts, r) = pop_int r in
     let rec pts n r = if n = 0 then () else begin
       let (x, r) = pop_flist r in let (t, r) = pop_fl r in
       out "D"; List.iter (fun v -> out (hx v)) (derivative fl si x t); pts (n - 1) r end in
     pts npts r);
  Buffer.contents buf

(* ---- C16: priors: prior n (pos kind a b x g)*  with g = scipy's gamma(a) / beta(a,b) for that term ---- *)
let cmd_prior toks =
  let (n, r) = pop_int toks in
  let pop_term1 r =
    let (pos, r) = pop r in let (kind, r) = pop r in let (a, r) = pop_fl r in let (b, r) = pop_fl r in
    let (x, r) = pop_fl r in let (g, r) = pop_fl r in
    let pr = match kind with
      | "uniform" -> PrUniform (a, b) | "gaussian" -> PrGaussian (a, b) | "exponential" -> PrExponential a
      | "gamma" -> PrGamma (a, b) | "beta" -> PrBeta (a, b) | "log-uniform" -> PrLogUniform (a, b)
      | "log-gaussian" -> PrLogGaussian (a, b) | k -> raise (Parse ("prior kind " ^ k)) in
    (((pos = "1", pr), x), g), r in
  let (terms, _) = pop_n pop_term1 n r in
  (* each term carries its own special-function value: evaluate term by term, sum as check_prior does *)
  let pi = 4.0 *. atan 1.0 in
  let singles = List.map (fun (((pos, pr), x), g) ->
      match prior_eval fl pi (fun _ -> g) (fun _ _ -> g) pr x with
      | Reject -> "REJECT" | Raise -> "RAISE" | Val v -> hx v) terms in
  (* whole vector: G/B differ per term, so fold by hand with the model's check_prior on singletons *)
  let rec go lp = function
    | [] -> (match log_prior fl pi (fun _ -> 0.0) (fun _ _ -> 0.0) [] with _ -> if Float.is_finite lp then hx lp else "-inf")
    | (((pos, pr), x), g) :: rest ->
      (match check_prior fl pi (fun _ -> g) (fun _ _ -> g) [((pos, pr), x)] lp with
       | Raise -> "RAISE"
       | Reject -> (match go infinity rest with "RAISE" -> "RAISE" | _ -> "-inf")
       | Val v -> go v rest) in
  String.concat " " singles ^ " | " ^ go 0.0 terms

(* ---- C18: sens <scheme> <h> <t> <x list> J|Z k  simif  ->  J rows (flattened) or Z ; and final params ---- *)
let cmd_sens toks =
  let (sch, r) = pop toks in let (h, r) = pop_fl r in let (t, r) = pop_fl r in
  let (x, r) = pop_flist r in let (what, r) = pop r in let (k, r) = pop_int r in
  let (si, _) = pop_simif r in
  let sch = match sch with "fourth_order_central_difference" -> FourthOrder | "central_difference" -> Central
    | "backward_difference" -> Backward | "forward_difference" -> Forward | s -> raise (Parse s) in
  if what = "J" then
    let j = compute_J fl (fun x -> derivative fl si x t) x h sch in
    String.concat " " (List.map hx (List.concat j))
  else
    let (z, p) = compute_Zj fl (fun p x -> derivative fl { si with si_params = p } x t) si.si_params x (nat_of_int k) h sch in
    String.concat " " (List.map hx z) ^ " | " ^ String.concat " " (List.map hx p)

(* ---- C07: dispatch model iface stoch delay safe vol df ---- *)
let cmd_dispatch toks =
  match toks with
  | [m; i; s; d; sf; v; df] ->
    let b x = (x = "1") in
    let d = (match d with "none" -> TNone | "false" -> TFalse | _ -> TTrue) in
    let v = (match v with "off" -> VOff | "true" -> VTrue | "numpos" -> VNumPos | "numnonpos" -> VNumNonPos | _ -> VObj) in
    (match dispatch { o_model = b m; o_iface = b i; o_stoch = b s; o_delay = d; o_safe = b sf; o_vol = v; o_df = b df } with
     | RejectOptions -> "REJECT"
     | InternalFault w -> "FAULT " ^ string_of_int (int_of_nat w)
     | Run (k, safe, lab) ->
       "RUN " ^ (match k with KDet -> "det" | KSSA -> "ssa" | KVolSSA -> "volssa" | KDelaySSA -> "delayssa" | KDelayVolSSA -> "delayvolssa")
       ^ " " ^ (if safe then "safe" else "plain") ^ " " ^ (if lab then "labelled" else "unlabelled"))
  | _ -> raise (Parse "dispatch")

(* ---- C15: c15align nT M then M columns of nT values -> the T x M data block, row-major ---- *)
let cmd_c15align toks =
  let (nt, r) = pop_int toks in let (m, r) = pop_int r in
  let (cols, _) = pop_n (fun r -> pop_n pop_fl nt r) m r in
  let block = extract_frame nan (nat_of_int nt) cols in
  String.concat " " (List.map hx (List.concat block))

(* ---- C02: teval <none|V> <t> <x list> <p list> <term> ;  translate <species ids> <param ids> <vol id> <t id> <stree> ---- *)
let cmd_teval toks =
  let (v, r) = pop toks in let (t, r) = pop_fl r in let (x, r) = pop_flist r in let (p, r) = pop_flist r in
  let (tm, _) = pop_term r in
  hx (teval fl (if v = "none" then None else Some (fl_of_string v)) x p t tm)

let rec pop_stree r : float stree * string list =
  let (k, r) = pop r in
  match k with
  | "sym" -> let (u, r) = pop r in let (a, r) = pop_nat r in let (b, r) = pop_nat r in (SSymbol (u = "1", a, b), r)
  | "add" -> let (l, r) = pop_list pop_stree r in (SAdd l, r)
  | "mul" -> let (l, r) = pop_list pop_stree r in (SMul l, r)
  | "max" -> let (l, r) = pop_list pop_stree r in (SMax l, r)
  | "min" -> let (l, r) = pop_list pop_stree r in (SMin l, r)
  | "pow" -> let (b, r) = pop_stree r in let (e, r) = pop_stree r in (SPow (b, e), r)
  | "exp" -> let (a, r) = pop_stree r in (SExp a, r)
  | "log" -> let (a, r) = pop_stree r in (SLog a, r)
  | "hea" -> let (a, r) = pop_stree r in (SHeaviside a, r)
  | "abs" -> let (a, r) = pop_stree r in (SAbs a, r)
  | "num" -> let (v, r) = pop_fl r in (SNumber v, r)
  | "other" -> (SOther, r)
  | _ -> raise (Parse ("stree " ^ k))

let rec term_tokens (t : float term) : string list =
  let lst k l = (k :: string_of_int (List.length l) :: List.concat (List.map term_tokens l)) in
  match t with
  | TConst v -> ["c"; hx v] | TSpecies i -> ["s"; string_of_int (int_of_nat i)] | TParam i -> ["p"; string_of_int (int_of_nat i)]
  | TVolume -> ["vol"] | TTime -> ["t"]
  | TSum l -> lst "sum" l | TProd l -> lst "prod" l | TMax l -> lst "max" l | TMin l -> lst "min" l
  | TPow (b, e) -> "pow" :: (term_tokens b @ term_tokens e)
  | TExp a -> "exp" :: term_tokens a | TLog a -> "log" :: term_tokens a
  | TStep a -> "step" :: term_tokens a | TAbs a -> "abs" :: term_tokens a

let cmd_translate toks =
  let (sp, r) = pop_list pop_nat toks in let (pa, r) = pop_list pop_nat r in
  let (v, r) = pop_nat r in let (t, r) = pop_nat r in
  let (s, _) = pop_stree r in
  match translate { e_species = sp; e_params = pa; e_volume = v; e_time = t } s with
  | TOk tm -> String.concat " " ("OK" :: term_tokens tm)
  | TUnknownName n -> "UNKNOWN " ^ string_of_int (int_of_nat n)
  | TNotANumber -> "NOTANUMBER"

(* ---- C14: c14rate <det|stoch> <n> reactant ids...  ->  the rate expression printed like the f-strings of add_reaction
        (species i as "s<i>#", the rate constant as "K#") ---- *)
let rec print_sexpr = function
  | ERate -> "K#"
  | ESp s -> "s" ^ string_of_int (int_of_nat s) ^ "#"
  | EMul (a, b) -> print_sexpr a ^ " * " ^ print_sexpr b
  | EPowN (a, m) -> print_sexpr a ^ "^" ^ string_of_int (int_of_nat m)
  | ESubN (a, j) -> "( " ^ print_sexpr a ^ " - " ^ string_of_int (int_of_nat j) ^ " )"
let cmd_c14rate toks =
  let (mode, r) = pop toks in let (rs, _) = pop_list pop_nat r in
  print_sexpr (if mode = "det" then export_det rs else export_stoch rs)

(* ---- C12: c12kv <n> chars (0 = space, 1 = '=')  ->  print_kv (parse_kv s) ---- *)
let cmd_c12kv toks =
  let (chars, _) = pop_list pop_nat toks in
  String.concat " " (List.map (fun n -> string_of_int (int_of_nat n)) (print_kv (parse_kv chars)))

(* ---- C13: c13rules n kinds(a|r|g)... -> emitted assignments "A i" and rate reactions "R i" (i = position in the document);
        c13init <amount|none> <conc|none> -> imported initial value ---- *)
let cmd_c13rules toks =
  let (kinds, _) = pop_list pop toks in
  let rules = List.mapi (fun i k -> { sr_kind = (match k with "a" -> RkAssignment | "r" -> RkRate | _ -> RkAlgebraic);
                                      sr_var = nat_of_int i; sr_formula = nat_of_int i; sr_var_known = true }) kinds in
  let (a, b) = import_rules rules in
  let show = function EmitAssign (v, _) -> "A " ^ string_of_int (int_of_nat v) | EmitRateReaction (v, _) -> "R " ^ string_of_int (int_of_nat v) in
  String.concat " " (List.map show a) ^ " | " ^ String.concat " " (List.map show b)
let cmd_c13init toks =
  match toks with
  | [a; c] -> let o s = if s = "none" then None else Some (fl_of_string s) in hx (initial_value fl (o a) (o c))
  | _ -> raise (Parse "c13init")

(* ---- C19: split <kind> <vmode> <noise> <V> <x list> <perfect idx list> <binomial idx list> <stream> ---- *)
let cmd_split toks =
  let (kind, r) = pop toks in let (vmode, r) = pop_int r in let (noise, r) = pop_fl r in let (v, r) = pop_fl r in
  let (x, r) = pop_flist r in let (perfect, r) = pop_list pop_nat r in let (binom, r) = pop_list pop_nat r in
  let (u, _) = pop_stream r in
  let d = (match kind with
    | "perfectbinomial" -> partition_perfect_binomial fl x v u O
    | "general" -> partition_general fl perfect binom noise x v u O
    | _ -> partition_lineage fl (nat_of_int vmode) perfect binom noise x v u O) in
  String.concat " " (List.map hx d.d_state @ ["|"] @ List.map hx d.e_state @ ["|"; hx d.d_vol; hx d.e_vol; string_of_int (int_of_nat d.d_pos)])

(* ---- C08: c08hist nops ops...   ops: rx <re list> <pr list> <dre list> <dpr list> | sp id | init | iface | sim
        -> "SP ids S flat SD flat" as observed by a simulation after the history ---- *)
let cmd_c08hist toks =
  let (n, r) = pop_int toks in
  let rec ops k r acc = if k = 0 then List.rev acc else
    let (t, r) = pop r in
    match t with
    | "rx" -> let (a, r) = pop_list pop_nat r in let (b, r) = pop_list pop_nat r in let (c, r) = pop_list pop_nat r in let (d, r) = pop_list pop_nat r in
      ops (k - 1) r (OCreateReaction { rx_reactants = a; rx_products = b; rx_dreactants = c; rx_dproducts = d } :: acc)
    | "sp" -> let (s, r) = pop_nat r in ops (k - 1) r (OAddSpecies s :: acc)
    | "init" -> ops (k - 1) r (OInitialize :: acc)
    | "iface" -> ops (k - 1) r (OBuildInterface :: acc)
    | "sim" -> ops (k - 1) r (OSimulate O :: acc)
    | _ -> raise (Parse ("c08 op " ^ t)) in
  let m = run (empty : float mstate) (ops n r []) in
  let ((d, s), sd) = observe m in
  let ints l = List.map (fun z -> string_of_int (int_of_z z)) (List.concat l) in
  String.concat " " (("SP" :: List.map (fun n -> string_of_int (int_of_nat n)) d.df_species) @ ("S" :: ints s) @ ("SD" :: ints sd))

let () =
  try
    while true do
      let line = input_line stdin in
      match tokens line with
      | [] -> print_newline ()
      | cmd :: toks ->
        let res = try (match cmd with
          | "queue" -> cmd_queue toks
          | "prop" -> cmd_prop toks
          | "c03" -> cmd_c03 toks
          | "prior" -> cmd_prior toks
          | "sens" -> cmd_sens toks
          | "sim" -> cmd_sim toks
          | "lsim" -> Drv_zlin.cmd_lsim toks
          | "lineage" -> Drv_zlin.cmd_lineage toks
          | "dispatch" -> cmd_dispatch toks
          | "delaydraw" -> cmd_delaydraw toks
          | "c15align" -> cmd_c15align toks
          | "teval" -> cmd_teval toks
          | "c14rate" -> cmd_c14rate toks
          | "c12kv" -> cmd_c12kv toks
          | "c13rules" -> cmd_c13rules toks
          | "c13init" -> cmd_c13init toks
          | "split" -> cmd_split toks
          | "c08hist" -> cmd_c08hist toks
          | "translate" -> cmd_translate toks
          | "iface" -> cmd_iface toks
          | _ -> "ERR unknown command " ^ cmd)
          with e -> "ERR " ^ Printexc.to_string e in
        print_string (String.trim res); print_newline ()
    done
  with End_of_file -> ()
