open Extracted
open Driver_base

(* ---- C20: delay queue op sequences ----
   queue <nrx> <ncols> <dt> <t0> ops...   ops: A time r amount | P | C | K | T t | B p sel nraw raw...  *)
let cmd_queue toks =
  let buf = Buffer.create 256 in
  let out s = Buffer.add_string buf s; Buffer.add_char buf ' ' in
  match toks with
  | nrx :: ncols :: dt :: t0 :: ops ->
    let nrx = int_of_string nrx and ncols = int_of_string ncols in
    let q = ref (q_make fl 0.0 (nat_of_int nrx) (nat_of_int ncols) (fl_of_string dt) (fl_of_string t0)) in
    let dump (q : (float, float) queue) =
      out (hx q.q_next);
      for off = 0 to ncols - 1 do for r = 0 to nrx - 1 do
        out (hx (q_pending 0.0 q (nat_of_int off) (nat_of_int r))) done done in
    let rec go = function
      | [] -> ()
      | "A" :: time :: r :: a :: rest ->
        (match q_add fl ( +. ) !q (fl_of_string time) (nat_of_int (int_of_string r)) (fl_of_string a) with
         | Some q' -> q := q' | None -> out "FAULT");
        go rest
      | "P" :: rest ->
        out "P"; out (hx !q.q_next);
        List.iter (fun v -> out (hx v)) (q_peek 0.0 !q);
        q := q_advance fl 0.0 !q; go rest
      | "C" :: rest -> q := q_copy !q; out "C"; dump !q; go rest
      | "K" :: rest -> out "K"; dump (q_clear_copy 0.0 !q); go rest
      | "T" :: t :: rest -> q := q_set_time fl !q (fl_of_string t); go rest
      | "B" :: p :: sel :: n :: rest ->
        let n = int_of_string n in
        let raws = Array.of_list (List.filteri (fun i _ -> i < n) rest) in
        let rest = List.filteri (fun i _ -> i >= n) rest in
        let u = stream_of (Array.map uniform_of_raw raws) in
        let ((qa, qb), pos) = q_partition fl !q (fl_of_string p) u O in
        out "B"; out (string_of_int (int_of_nat pos)); dump qa; dump qb;
        q := (if sel = "0" then qa else qb); go rest
      | t :: _ -> failwith ("queue: bad op " ^ t) in
    go ops; out "E"; dump !q; Buffer.contents buf
  | _ -> failwith "queue: bad header"

let () =
  try
    while true do
      let line = input_line stdin in
      match tokens line with
      | [] -> print_newline ()
      | cmd :: toks ->
        let res = try (match cmd with
          | "queue" -> cmd_queue toks
          | _ -> "ERR unknown command " ^ cmd)
          with e -> "ERR " ^ Printexc.to_string e in
        print_string (String.trim res); print_newline ()
    done
  with End_of_file -> ()
