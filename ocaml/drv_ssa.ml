(* Commands that run the extracted event-loop models on a recorded random stream. *)
open Extracted
open Driver_base

let pi2 = 2.0 *. 3.141592653589793238462643383279502884

let pop_simif r =
  let (p, r) = pop_flist r in
  let (nsp, r) = pop_int r in let (nrx, r) = pop_int r in
  let (s, r) = pop_matrix nsp nrx r in let (sd, r) = pop_matrix nsp nrx r in
  let (props, r) = pop_n pop_prop nrx r in
  ({ si_props = props; si_S = s; si_Sd = sd; si_params = p; si_nspecies = nat_of_int nsp }, r)

let pop_rule r =
  let (freq, r) = pop_fl r in let (dest, r) = pop_nat r in let (k, r) = pop r in
  match k with
  | "add" -> let (srcs, r) = pop_list pop_nat r in ({ ru_freq = freq; ru_dest = dest; ru_kind = RAdditive srcs }, r)
  | "asg" -> let (pf, r) = pop_int r in let (t, r) = pop_term r in ({ ru_freq = freq; ru_dest = dest; ru_kind = RAssign (pf <> 0, t) }, r)
  | "ode" -> let (pf, r) = pop_int r in let (t, r) = pop_term r in ({ ru_freq = freq; ru_dest = dest; ru_kind = ROde (pf <> 0, t) }, r)
  | _ -> raise (Parse ("rule kind " ^ k))

let pop_delay r =
  let (k, r) = pop r in
  match k with
  | "none" -> (DNone, r)
  | "fixed" -> let (i, r) = pop_nat r in (DFixed i, r)
  | "gauss" -> let (a, r) = pop_nat r in let (b, r) = pop_nat r in (DGaussian (a, b), r)
  | "gamma" -> let (a, r) = pop_nat r in let (b, r) = pop_nat r in (DGamma (a, b), r)
  | _ -> raise (Parse ("delay kind " ^ k))

(* <safe> <dt> <t0> <x0 list> simif rules delays *)
let pop_sim r =
  let (safe, r) = pop r in let (dt, r) = pop_fl r in let (t0, r) = pop_fl r in let (x0, r) = pop_flist r in
  let (si, r) = pop_simif r in
  let (rules, r) = pop_list pop_rule r in
  let nrx = List.length si.si_props in
  let (delays, r) = pop_n pop_delay nrx r in
  ({ sm_if = si; sm_rules = rules; sm_delays = delays; sm_dt = dt; sm_t0 = t0; sm_safe = (safe = "1"); sm_x0 = x0 }, r)

let pop_stream r =
  let (n, r) = pop_int r in
  let (raws, r) = pop_n pop n r in
  (stream_of (Array.of_list (List.map uniform_of_raw raws)), r)

let show_rows buf rows =
  List.iter (fun row -> Buffer.add_string buf "R "; List.iter (fun v -> Buffer.add_string buf (hx v); Buffer.add_char buf ' ') row) rows

let fuel = nat_of_int 2000000
let gfuel = nat_of_int 10000

let pop_volmodel r =
  let (k, r) = pop r in
  match k with
  | "base" -> (VBase, r)
  | "tt" -> let (g, r) = pop_fl r in let (d, r) = pop_fl r in (VTimeThreshold (g, d), r)
  | "ttinit" ->
    (* StochasticTimeThresholdVolume(cycle, avg, noise) then initialize(state, params, t0 = 0, V0): two uniforms *)
    let (cycle, r) = pop_fl r in let (avg, r) = pop_fl r in let (noise, r) = pop_fl r in let (v0, r) = pop_fl r in
    let (r1, r) = pop r in let (r2, r) = pop r in
    let u = stream_of [| uniform_of_raw r1; uniform_of_raw r2 |] in
    let g = 0.69314718056 /. cycle in
    let time_left = log (avg /. v0) /. g in
    let (nrm, _) = normal_rv fl pi2 1.0 noise u O in
    (VTimeThreshold (g, 0.0 +. nrm *. time_left), hx v0 :: r)
  | "sd" -> let (t, r) = pop_term r in let (d, r) = pop_fl r in (VStateDep (t, d), r)
  | _ -> raise (Parse ("volume kind " ^ k))

(* sim ssa  SIM times stream
   sim dssa SIM times stream qncols
   sim vssa SIM times stream volmodel V0 *)
let cmd_sim toks =
  let (kind, r) = pop toks in
  let (s, r) = pop_sim r in
  let (ts, r) = pop_flist r in
  let (u, r) = pop_stream r in
  let buf = Buffer.create 1024 in
  let out x = Buffer.add_string buf x; Buffer.add_char buf ' ' in
  let fault w = out ("FAULT" ^ string_of_int (int_of_nat w)) in
  (match kind with
   | "ssa" ->
     (match ssa_simulate fl fuel s ts u O with
      | Done st -> show_rows buf st.ss_rows; out "POS"; out (string_of_int (int_of_nat st.ss_pos));
        out "P"; List.iter (fun v -> out (hx v)) st.ss_p
      | OutOfFuel -> out "OUTOFFUEL" | Fault w -> fault w)
   | "dssa" ->
     let (ncols, _) = pop_int r in
     let nrx = List.length s.sm_if.si_props in
     let q = q_make fl 0.0 (nat_of_int nrx) (nat_of_int ncols) s.sm_dt 0.0 in
     (match dssa_simulate fl pi2 fuel gfuel s q ts u O with
      | Done st -> show_rows buf st.ds_rows; out "POS"; out (string_of_int (int_of_nat st.ds_pos));
        out "P"; List.iter (fun v -> out (hx v)) st.ds_p;
        out "Q"; out (hx st.ds_q.q_next);
        for off = 0 to ncols - 1 do for rr = 0 to nrx - 1 do
          out (hx (q_pending 0.0 st.ds_q (nat_of_int off) (nat_of_int rr))) done done
      | OutOfFuel -> out "OUTOFFUEL" | Fault w -> fault w)
   | "vssa" ->
     let (vm, r) = pop_volmodel r in let (v0, _) = pop_fl r in
     (match vssa_simulate fl fuel s vm v0 ts u O with
      | Done st -> show_rows buf st.vs_rows; out "POS"; out (string_of_int (int_of_nat st.vs_pos));
        out "P"; List.iter (fun v -> out (hx v)) st.vs_p;
        out "V"; List.iter (fun v -> out (hx v)) st.vs_vols; out "DIV"; out (if st.vs_divided then "1" else "0")
      | OutOfFuel -> out "OUTOFFUEL" | Fault w -> fault w)
   | "dvssa" ->
     let (vm, r) = pop_volmodel r in let (v0, r) = pop_fl r in let (ncols, _) = pop_int r in
     let nrx = List.length s.sm_if.si_props in
     let q = q_make fl 0.0 (nat_of_int nrx) (nat_of_int ncols) s.sm_dt 0.0 in
     (match dvssa_simulate fl pi2 fuel gfuel s vm v0 q ts u O with
      | Done st -> show_rows buf st.dv_rows; out "POS"; out (string_of_int (int_of_nat st.dv_pos));
        out "P"; List.iter (fun v -> out (hx v)) st.dv_p;
        out "V"; List.iter (fun v -> out (hx v)) st.dv_vols; out "DIV"; out (if st.dv_divided then "1" else "0");
        out "Q"; out (hx st.dv_q.q_next);
        for off = 0 to ncols - 1 do for rr = 0 to nrx - 1 do
          out (hx (q_pending 0.0 st.dv_q (nat_of_int off) (nat_of_int rr))) done done
      | OutOfFuel -> out "OUTOFFUEL" | Fault w -> fault w)
   | _ -> raise (Parse ("sim kind " ^ kind)));
  Buffer.contents buf

(* delaydraw <gauss|gamma> <ndraws> <p1> <p2> <nraw> raws...  ->  values ... POS n *)
let cmd_delaydraw toks =
  let (kind, r) = pop toks in let (n, r) = pop_int r in let (p1, r) = pop_fl r in let (p2, r) = pop_fl r in
  let (u, _) = pop_stream r in
  let buf = Buffer.create 128 in
  let rec go k pos =
    if k = 0 then (Buffer.add_string buf ("POS " ^ string_of_int (int_of_nat pos)))
    else begin
      match (if kind = "gauss" then Some (normal_rv fl pi2 p1 p2 u pos) else gamma_rv fl pi2 gfuel p1 p2 u pos) with
      | None -> Buffer.add_string buf "FAULT2"
      | Some (v, pos') -> Buffer.add_string buf (hx v ^ " "); go (k - 1) pos'
    end in
  go n O; Buffer.contents buf
