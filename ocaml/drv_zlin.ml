(* lsim: the extracted single-cell lineage loop on a recorded random stream.
   lsim SIM <vrules> <drules> <krules> <vevents> <devents> <kevents> <times> <t_cur> <t_init> <V> <V_init> <stream> *)
open Extracted
open Driver_base
open Drv_ssa

(* an optional noise parameter index: "-" or the index *)
let pop_noise r = let (t, r) = pop r in ((if t = "-" then None else Some (nat_of_int (int_of_string t))), r)
let pop_vrule r =
  let (k, r) = pop r in
  match k with
  | "lin" -> let (g, r) = pop_nat r in let (n, r) = pop_noise r in (VRLinear (g, n), r)
  | "mult" -> let (g, r) = pop_nat r in let (n, r) = pop_noise r in (VRMult (g, n), r)
  | "asg" -> let (t, r) = pop_term r in (VRAssign t, r)
  | "ode" -> let (t, r) = pop_term r in (VROde t, r)
  | _ -> raise (Parse ("volume rule " ^ k))
let pop_drule r =
  let (k, r) = pop r in
  match k with
  | "time" -> let (g, r) = pop_nat r in let (n, r) = pop_noise r in (DRTime (g, n), r)
  | "vol" -> let (g, r) = pop_nat r in let (n, r) = pop_noise r in (DRVolume (g, n), r)
  | "dv" -> let (g, r) = pop_nat r in let (n, r) = pop_noise r in (DRDeltaV (g, n), r)
  | "gen" -> let (t, r) = pop_term r in (DRGeneral t, r)
  | _ -> raise (Parse ("division rule " ^ k))
let pop_krule r =
  let (k, r) = pop r in
  match k with
  | "sp" -> let (a, r) = pop_nat r in let (b, r) = pop_nat r in let (c, r) = pop_int r in let (n, r) = pop_noise r in (KRSpecies (a, b, z_of_int c, n), r)
  | "par" -> let (a, r) = pop_nat r in let (b, r) = pop_nat r in let (c, r) = pop_int r in let (n, r) = pop_noise r in (KRParam (a, b, z_of_int c, n), r)
  | "gen" -> let (t, r) = pop_term r in (KRGeneral t, r)
  | _ -> raise (Parse ("death rule " ^ k))
let pop_vevent r =
  let (p, r) = pop_prop r in
  let (k, r) = pop r in
  match k with
  | "lin" -> let (g, r) = pop_nat r in ((p, VELinear g), r)
  | "mult" -> let (g, r) = pop_nat r in ((p, VEMult g), r)
  | "gen" -> let (t, r) = pop_term r in ((p, VEGeneral t), r)
  | _ -> raise (Parse ("volume event " ^ k))

let cmd_lsim toks =
  let (s, r) = pop_sim toks in
  let (vr, r) = pop_list pop_vrule r in let (dr, r) = pop_list pop_drule r in let (kr, r) = pop_list pop_krule r in
  let (ve, r) = pop_list pop_vevent r in let (de, r) = pop_list pop_prop r in let (ke, r) = pop_list pop_prop r in
  let (ts, r) = pop_flist r in
  let (t_cur, r) = pop_fl r in let (t_init, r) = pop_fl r in let (v, r) = pop_fl r in let (v_init, r) = pop_fl r in
  let (u, _) = pop_stream r in
  let l = { ln_sim = s; ln_vrules = vr; ln_drules = dr; ln_krules = kr; ln_vevents = ve; ln_devents = de; ln_kevents = ke } in
  let buf = Buffer.create 1024 in
  let out x = Buffer.add_string buf x; Buffer.add_char buf ' ' in
  (match lssa_simulate fl pi2 1E-9 10e-8 fuel l ts t_cur t_init v v_init s.sm_x0 u O with
   | Done st -> show_rows buf st.ls_rows; out "POS"; out (string_of_int (int_of_nat st.ls_pos));
     out "V"; List.iter (fun x -> out (hx x)) st.ls_vols;
     out "DIV"; out (string_of_int (int_of_z st.ls_divided)); out "DEAD"; out (string_of_int (int_of_z st.ls_dead));
     out "VOL"; out (hx st.ls_V)
   | OutOfFuel -> out "OUTOFFUEL" | Fault w -> out ("FAULT" ^ string_of_int (int_of_nat w)));
  Buffer.contents buf

(* lineage: the extracted worklist (SimulateCellLineage) on a recorded stream.
   lineage SIM <vrules> <drules> <krules> <vevents> <devents> <kevents> <splitters: one per division rule, then per division event>
           <times> <ncells> (<V> <t0>)* <stream> *)
let pop_splitter r =
  let (vm, r) = pop_nat r in let (pf, r) = pop_list pop_nat r in let (bn, r) = pop_list pop_nat r in let (noise, r) = pop_fl r in
  ({ sp_vmode = vm; sp_perfect = pf; sp_binomial = bn; sp_noise = noise }, r)

let cmd_lineage toks =
  let (s, r) = pop_sim toks in
  let (vr, r) = pop_list pop_vrule r in let (dr, r) = pop_list pop_drule r in let (kr, r) = pop_list pop_krule r in
  let (ve, r) = pop_list pop_vevent r in let (de, r) = pop_list pop_prop r in let (ke, r) = pop_list pop_prop r in
  let (sps, r) = pop_list pop_splitter r in
  let (ts, r) = pop_flist r in
  let (cells, r) = pop_list (fun r -> let (v, r) = pop_fl r in let (t0, r) = pop_fl r in
                                      ({ cs_time = t0; cs_t0 = t0; cs_V = v; cs_V0 = v; cs_x = s.sm_x0; cs_divided = z_of_int (-1); cs_dead = z_of_int (-1) }, r)) r in
  let (u, _) = pop_stream r in
  let l = { ln_sim = s; ln_vrules = vr; ln_drules = dr; ln_krules = kr; ln_vevents = ve; ln_devents = de; ln_kevents = ke } in
  let buf = Buffer.create 4096 in
  let out x = Buffer.add_string buf x; Buffer.add_char buf ' ' in
  (match simulate_lineage fl pi2 1E-9 10e-8 1E-12 (nat_of_int 100000) fuel l sps ts cells u O with
   | Done w ->
     List.iter (fun z ->
       out "S"; out (match z.sz_parent with None -> "-1" | Some p -> string_of_int (int_of_nat p));
       (match z.sz_daughters with None -> out "-1"; out "-1" | Some (a, b) -> out (string_of_int (int_of_nat a)); out (string_of_int (int_of_nat b)));
       out "T"; out (string_of_int (List.length z.sz_times)); List.iter (fun x -> out (hx x)) z.sz_times;
       out "N"; out (string_of_int (List.length z.sz_rows)); show_rows buf z.sz_rows;
       out "V"; List.iter (fun x -> out (hx x)) z.sz_vols) w.w_lineage;
     out "POS"; out (string_of_int (int_of_nat w.w_pos))
   | OutOfFuel -> out "OUTOFFUEL" | Fault k -> out ("FAULT" ^ string_of_int (int_of_nat k)));
  Buffer.contents buf
