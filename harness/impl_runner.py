"""Runs in a subprocess with PYTHONPATH pointing at the scratch build: executes
harness.props.<module>.impl_case on JSON cases from stdin, one '@@'+JSON result per line."""
import sys, json, importlib, traceback
mod = importlib.import_module("harness.props." + sys.argv[1])
if hasattr(mod, "impl_init"): mod.impl_init()
for line in sys.stdin:
    line = line.strip()
    if not line: continue
    case = json.loads(line)
    try:
        res = mod.impl_case(case)
    except BaseException as e:
        res = {"exception": type(e).__name__, "msg": str(e)[:300], "tb": traceback.format_exc()[-600:]}
    sys.stdout.write("@@" + json.dumps(res) + "\n"); sys.stdout.flush()
