"""Shared machinery of ./check: lint, Coq build, extraction + driver, implementation runner,
diff, evidence, known findings."""
import fcntl, glob, hashlib, json, os, random, re, subprocess, sys, time

VERIF = os.path.dirname(os.path.dirname(os.path.abspath(__file__)))
COQ = os.path.join(VERIF, "coq")
OCAML = os.path.join(VERIF, "ocaml")
PY = "/venv/bin/python"
NCPU = min(16, os.cpu_count() or 4)

AXIOM_ALLOW = {
    "ClassicalDedekindReals.sig_not_dec", "ClassicalDedekindReals.sig_forall_dec",
    "FunctionalExtensionality.functional_extensionality_dep", "Classical_Prop.classic",
}
TRUSTED_BASE_COMMON = [
    "Coq 8.16.1 kernel (coqc, full .vo build; no native_compute; vm_compute for Examples and finite-domain lemmas)",
    "extraction: ExtrOcamlBasic only, no Extract Constant / Extract Inductive of our own; OCaml 4.13 ocamlopt; doubles = C doubles, libm shared with the Cython build",
    "ocaml/driver.ml + driver_base.ml glue (token parsing, nat/Z/int conversion, float instance of the arithmetic record)",
    "harness (Python): case generators, implementation runner, canonicalisation and diff",
]

class Broken(Exception):
    """A proof obligation, translator or correspondence no longer checks."""
    def __init__(self, what, detail=""):
        super().__init__(what); self.what = what; self.detail = detail

def log(*a):
    print(*a, file=sys.stderr, flush=True)

# ----------------------------------------------------------------------------- lint
LINT_RE = re.compile(r"\b(Admitted|admit|Axiom|Axioms|Parameter|Parameters|Conjecture|Abort All|Unset Guard Checking|bypass_check|Admit Obligations)\b|type-in-type|impredicative-set|Unset Universe Checking|Unset Positivity Checking")
def strip_comments(src):
    out, depth, i = [], 0, 0
    while i < len(src):
        if src.startswith("(*", i): depth += 1; i += 2; continue
        if src.startswith("*)", i) and depth > 0: depth -= 1; i += 2; continue
        if depth == 0: out.append(src[i])
        elif src[i] == "\n": out.append("\n")
        i += 1
    return "".join(out)

def lint():
    bad = []
    for f in sorted(glob.glob(os.path.join(COQ, "**", "*.v"), recursive=True)):
        src = strip_comments(open(f).read())
        for n, line in enumerate(src.split("\n"), 1):
            if LINT_RE.search(line):
                bad.append("%s:%d: %s" % (os.path.relpath(f, VERIF), n, line.strip()))
            if re.match(r"\s*(Variable|Variables|Hypothesis|Hypotheses|Context)\b", line):
                pass  # section-level use is checked by coqc: outside a section Coq 8.16 declares an axiom and warns; see below
    for f in glob.glob(os.path.join(COQ, "_CoqProject")):
        if re.search(r"-type-in-type|-impredicative-set|-vos|-vok", open(f).read()):
            bad.append("_CoqProject passes a forbidden flag")
    if bad:
        raise Broken("lint", "\n".join(bad))
    return True

# ----------------------------------------------------------------------------- coq build
def _lock(name):
    os.makedirs("/var/tmp/bioscrape_verif", exist_ok=True)
    f = open("/var/tmp/bioscrape_verif/.%s.lock" % name, "w")
    fcntl.flock(f, fcntl.LOCK_EX)
    return f

def coq_files():
    fs = []
    for d in ("Base", "Gen", "Model", "Spec", "Proofs", "Props", "Extract"):
        fs += sorted(glob.glob(os.path.join(COQ, d, "*.v")))
    return [os.path.relpath(f, COQ) for f in fs]

def coq_make(targets, timeout=1500):
    """Full .vo build of the targets and their dependency cone."""
    lk = _lock("coq")
    try:
        proj = "-Q . BS\n-arg -w -arg -notation-overridden,-deprecated-hint-without-locality,-deprecated-instance-without-locality\n" + "\n".join(coq_files()) + "\n"
        pf = os.path.join(COQ, "_CoqProject")
        if not os.path.exists(pf) or open(pf).read() != proj:
            open(pf, "w").write(proj)
        r = subprocess.run("coq_makefile -f _CoqProject -o Makefile.coq >/dev/null 2>&1 && timeout %d make -f Makefile.coq -j%d %s 2>&1" %
                           (timeout, NCPU, " ".join(targets)), shell=True, cwd=COQ, stdout=subprocess.PIPE, text=True)
        if r.returncode != 0:
            raise Broken("coq-build", r.stdout[-6000:])
        return r.stdout
    finally:
        lk.close()

def coq_props(pid, timeout=900):
    """Build the cone of Props/<pid>.v, then re-run coqc on the Props file itself to capture
    Print Assumptions.  Returns dict(theorems, axioms, closed, output)."""
    t = "Props/%s.v" % pid
    coq_make(["Props/%s.vo" % pid])
    lk = _lock("coq")
    try:
        r = subprocess.run("timeout %d coqc -Q . BS -w -notation-overridden %s 2>&1" % (timeout, t), shell=True, cwd=COQ,
                           stdout=subprocess.PIPE, text=True)
    finally:
        lk.close()
    if r.returncode != 0:
        raise Broken("coqc %s" % t, r.stdout[-6000:])
    src = strip_comments(open(os.path.join(COQ, t)).read())
    thms = re.findall(r"^\s*(?:Theorem|Lemma|Corollary|Example)\s+(\w+)", src, re.M)
    n_print = len(re.findall(r"^\s*Print Assumptions", src, re.M))
    closed = r.stdout.count("Closed under the global context")
    axioms = set(); in_block = False
    for line in r.stdout.split("\n"):
        if line.strip() == "Axioms:": in_block = True; continue
        if line.startswith(("Closed under", "File ", "Warning", "New coercion", "[")): in_block = False; continue
        if in_block and line and not line[0].isspace():
            m = re.match(r"^([A-Za-z_][\w.']*)", line)
            if m: axioms.add(m.group(1))
    axioms = sorted(axioms)
    notallowed = [a for a in axioms if a not in AXIOM_ALLOW]
    if notallowed:
        raise Broken("axioms outside the allow-list in %s" % t, "\n".join(notallowed) + "\n" + r.stdout[-3000:])
    return {"theorems": thms, "n_print_assumptions": n_print, "closed": closed, "axioms": axioms, "output": r.stdout}

def build_driver():
    """(Re)extract the models and compile the OCaml driver."""
    coq_make(["Extract/Extract.vo"])
    lk = _lock("ocaml")
    try:
        srcs = ["extracted.mli", "extracted.ml", "driver_base.ml"] + sorted(os.path.basename(f) for f in glob.glob(os.path.join(OCAML, "drv_*.ml"))) + ["driver.ml"]
        h = hashlib.sha256()
        for s in srcs: h.update(open(os.path.join(OCAML, s), "rb").read())
        stamp = os.path.join(OCAML, ".driver.stamp")
        if os.path.exists(os.path.join(OCAML, "driver")) and os.path.exists(stamp) and open(stamp).read() == h.hexdigest():
            return os.path.join(OCAML, "driver")
        r = subprocess.run(["ocamlfind", "ocamlopt", "-w", "-a"] + srcs + ["-o", "driver"], cwd=OCAML,
                           stdout=subprocess.PIPE, stderr=subprocess.STDOUT, text=True)
        if r.returncode != 0:
            raise Broken("ocaml-driver-build", r.stdout[-4000:])
        open(stamp, "w").write(h.hexdigest())
        return os.path.join(OCAML, "driver")
    finally:
        lk.close()

def run_driver(lines, timeout=1800):
    drv = os.path.join(OCAML, "driver")
    r = subprocess.run([drv], input="\n".join(lines) + "\n", stdout=subprocess.PIPE, stderr=subprocess.PIPE, text=True, timeout=timeout)
    out = r.stdout.split("\n")
    if out and out[-1] == "": out.pop()
    if len(out) != len(lines):
        raise Broken("driver", "driver produced %d lines for %d cases; stderr: %s" % (len(out), len(lines), r.stderr[-2000:]))
    return out

# ----------------------------------------------------------------------------- implementation
def run_impl(build_dir, module, cases, timeout_per_case=180, extra_env=None):
    """Run harness/props/<module>.py:impl_case on each case in a subprocess whose bioscrape is the
    scratch build.  A crash of the subprocess is an observation ({"crash": ...}) for the case it died
    on, a case that produces nothing for timeout_per_case seconds is killed ({"timeout": ...}); the
    run continues with the next case."""
    import selectors
    results = [None] * len(cases)
    start = 0
    env = dict(os.environ, PYTHONPATH=build_dir + os.pathsep + VERIF, PYTHONHASHSEED="0", BIOSCRAPE_VERIF="1",
               OMP_NUM_THREADS="1", OPENBLAS_NUM_THREADS="1", MKL_NUM_THREADS="1")
    if extra_env: env.update(extra_env)
    while start < len(cases):
        errf = open(os.path.join("/var/tmp", "bioscrape_verif", ".impl_stderr_%d" % os.getpid()), "w+")
        p = subprocess.Popen([PY, os.path.join(VERIF, "harness", "impl_runner.py"), module],
                             stdin=subprocess.PIPE, stdout=subprocess.PIPE, stderr=errf, text=True, env=env, cwd="/var/tmp")
        inp = "\n".join(json.dumps(c) for c in cases[start:]) + "\n"
        import threading
        def feed():
            try:
                p.stdin.write(inp); p.stdin.close()
            except Exception: pass
        threading.Thread(target=feed, daemon=True).start()
        done = 0; killed = False
        sel = selectors.DefaultSelector(); sel.register(p.stdout, selectors.EVENT_READ)
        buf = ""
        last = time.time()
        while True:
            ev = sel.select(timeout=5)
            if ev:
                chunk = os.read(p.stdout.fileno(), 1 << 16).decode("utf-8", "replace")
                if chunk == "": break
                buf += chunk
                while "\n" in buf:
                    line, buf = buf.split("\n", 1)
                    if line.startswith("@@"):
                        results[start + done] = json.loads(line[2:]); done += 1; last = time.time()
            elif p.poll() is not None:
                break
            if time.time() - last > timeout_per_case:
                p.kill(); killed = True; break
        p.wait()
        errf.seek(0); err = errf.read(); errf.close()
        if start + done >= len(cases): break
        results[start + done] = ({"timeout": "no result within %ds" % timeout_per_case} if killed
                                 else {"crash": "rc=%s" % p.returncode, "stderr": (err or "")[-800:]})
        start = start + done + 1
    return results

def impl_bioscrape_path_check(build_dir):
    r = subprocess.run([PY, "-c", "import bioscrape.types, os; print(os.path.dirname(bioscrape.types.__file__))"],
                       env=dict(os.environ, PYTHONPATH=build_dir), stdout=subprocess.PIPE, text=True, cwd="/var/tmp")
    got = r.stdout.strip()
    if not got.startswith(build_dir):
        raise Broken("scratch build not on path", got)

# ----------------------------------------------------------------------------- evidence / findings
def known_findings():
    p = os.path.join(VERIF, "known_findings.json")
    if not os.path.exists(p): return []
    return json.load(open(p))["findings"]

def write_evidence(pid, tier, seed, coverage, wall, violations, assumptions):
    os.makedirs(os.path.join(VERIF, "evidence"), exist_ok=True)
    ev = {"property_id": pid, "tier": tier, "seed": seed, "level": "proof", "coverage": coverage,
          "assumptions": assumptions, "wall_s": round(wall, 2), "violations": violations}
    with open(os.path.join(VERIF, "evidence", pid + ".json"), "w") as f:
        json.dump(ev, f, indent=1, default=str)

def write_replay(pid, obj):
    d = os.path.join(VERIF, "replays", pid)
    os.makedirs(d, exist_ok=True)
    n = 0
    while os.path.exists(os.path.join(d, "%d.json" % n)): n += 1
    p = os.path.join(d, "%d.json" % n)
    json.dump(obj, open(p, "w"), indent=1, default=str)
    return p

def fhex(x):
    import math
    x = float(x)
    if math.isnan(x): return "nan"
    if math.isinf(x): return "inf" if x > 0 else "-inf"
    h = x.hex(); m, e = h.split("p")
    if "." in m:
        m = m.rstrip("0")
        if m.endswith("."): m = m[:-1]
    return m + "p" + e

def src_sha(path, start=None, end=None):
    s = open(path).read()
    return hashlib.sha256(s.encode()).hexdigest()[:16]
