"""Stream replay of the stochastic simulators: the implementation runs from a seed; the raw
64-bit outputs of its generator are then re-read after re-seeding and handed to the model, and
the implementation's next raw output after the run must be the stream element at the position
where the model stopped (number and order of draws)."""
import json, math
from harness.common import fhex
from harness import modelgen as G

MAXRAW = 8000

def impl_replay(case):
    """case: spec, kind in {ssa,dssa,vssa}, safe, times, seed, [volume: {...}]"""
    import numpy as np, warnings
    from bioscrape.simulator import (ModelCSimInterface, SafeModelCSimInterface, SSASimulator, DelaySSASimulator,
                                     VolumeSSASimulator, DelayVolumeSSASimulator, ArrayDelayQueue)
    from bioscrape.types import Volume, StochasticTimeThresholdVolume, StateDependentVolume
    from bioscrape.random import py_seed_random, py_rand_int
    warnings.simplefilter("ignore")
    M = G.build_model(case["spec"])
    I = SafeModelCSimInterface(M) if case.get("safe") else ModelCSimInterface(M)
    T = np.array(case["times"], dtype=float); dt = float(T[1] - T[0])
    if case.get("strided_grid"):
        # the same time points handed over as a non-contiguous view (a column / slice of a larger array), as users' grids often are
        # (seeded change S5_C05: the simulator read the grid through a raw pointer, ignoring the stride)
        Tb = np.full(2 * len(T), -7.0); Tb[::2] = T; T = Tb[::2]
    I.py_set_dt(dt); I.py_set_initial_time(case.get("t0", 0.0))
    x0 = np.array(I.py_get_initial_state(), dtype=float).copy()
    p_before = np.array(M.get_parameter_values(), dtype=float).copy()
    out = {"sim": G.sim_tokens(M, bool(case.get("safe")), dt, case.get("t0", 0.0), x0), "kind": case["kind"]}
    # which species each mass-action propensity of the built model reads (its post-processed 'species' string)
    try:
        out["ma_species"] = [(sorted(x_.strip() for x_ in str(d_[3].get("species", "")).split("*") if x_.strip() not in ("", "0")) if d_[2] == "massaction" else None) for d_ in G.reaction_defs(M)]
    except Exception: out["ma_species"] = None
    vtoks = None; seed = int(case["seed"])
    if case.get("warmup") and not case["spec"].get("rules"):
        # an earlier simulation through the SAME model and interface must leave nothing behind (seeded change S3_C05: the model's
        # stoichiometry updated in place by a run); the replayed run below is compared with a model built from the definition
        py_seed_random(seed + 1)
        try:
            SSASimulator().py_simulate(I, T)
            if case["kind"] == "dssa": DelaySSASimulator().py_delay_simulate(I, ArrayDelayQueue.setup_queue(I.py_get_num_reactions(), len(T), dt), T)
        except Exception: pass
        # ... and so must an earlier run of the volume-aware simulators (seeded changes S4_C06 / S4_C08: the volume simulator added the
        # delayed stoichiometry to the model's own update array in place)
        try:
            wv = Volume(); wv.py_set_volume(1.0)
            VolumeSSASimulator().py_volume_simulate(I, wv, T)
            if case["kind"] in ("dssa", "dvssa"):
                wv2 = Volume(); wv2.py_set_volume(1.0)
                DelayVolumeSSASimulator().py_delay_volume_simulate(I, ArrayDelayQueue.setup_queue(I.py_get_num_reactions(), len(T), dt), wv2, T)
        except Exception: pass
    py_seed_random(seed)
    pre = 0
    if case["kind"] == "ssa":
        res = SSASimulator().py_simulate(I, T)
    elif case["kind"] == "dssa":
        # case["queue_cols"]: a user-made queue SHORTER than the simulated span: the ring buffer wraps (seeded change S5_C06)
        q = ArrayDelayQueue.setup_queue(I.py_get_num_reactions(), int(case.get("queue_cols") or len(T)), dt)
        res = DelaySSASimulator().py_delay_simulate(I, q, T)
    else:
        vs = case["volume"]
        if vs["type"] == "base":
            v = Volume(); v.py_set_volume(vs["V0"]); vtoks = ["base", fhex(vs["V0"])]
        elif vs["type"] == "sd":
            # StateDependentVolume: growth rate from an expression, division when the volume exceeds the division volume (no noise:
            # normal_rv(1, 0) = 1 exactly, two uniforms consumed by initialize)
            v = StateDependentVolume(); v.setup(vs["avg"], 0.0, vs["growth"], M)
            v.py_initialize(x0.copy(), p_before.copy(), case.get("t0", 0.0), vs["V0"]); pre = 2
            vtoks = ["sd"] + G.term_tokens(M.parse_general_expression(vs["growth"])) + [fhex(vs["avg"]), fhex(vs["V0"])]
        elif vs["type"] == "tt":
            v = StochasticTimeThresholdVolume(vs["cycle"], vs["avg"], vs["noise"])
            v.py_initialize(x0.copy(), p_before.copy(), case.get("t0", 0.0), vs["V0"]); pre = 2
            vtoks = ["tt?", fhex(vs["cycle"]), fhex(vs["avg"]), fhex(vs["noise"]), fhex(vs["V0"])]
        if case["kind"] == "dvssa":
            q = ArrayDelayQueue.setup_queue(I.py_get_num_reactions(), int(case.get("queue_cols") or len(T)), dt)
            res = DelayVolumeSSASimulator().py_delay_volume_simulate(I, q, v, T)
        else:
            res = VolumeSSASimulator().py_volume_simulate(I, v, T)
    nxt = py_rand_int()
    py_seed_random(seed)
    raws = []; pos = -1
    for k in range(MAXRAW):
        r = py_rand_int(); raws.append(str(r))
        if r == nxt:
            pos = k; break
    out["rows"] = [[fhex(v) for v in row] for row in np.asarray(res.py_get_result())]
    tp = res.py_get_timepoints()
    out["times_out"] = None if tp is None else [fhex(v) for v in np.asarray(tp)]
    out["pos"] = pos - pre if pos >= 0 else -1; out["pre"] = pre
    out["raws"] = raws[: pos + 4] if pos >= 0 else []
    out["params_after"] = [fhex(v) for v in np.asarray(I.py_get_param_values(), dtype=float)]
    out["model_params_after"] = [fhex(v) for v in np.asarray(M.get_parameter_values(), dtype=float)]
    out["species_after"] = [fhex(v) for v in np.asarray(I.py_get_initial_state(), dtype=float)]
    if case["kind"] in ("dssa", "dvssa"):
        qf = res.py_get_delay_queue(); c = qf.py_copy(); nrx = I.py_get_num_reactions()
        qd = [fhex(c.py_get_next_queue_time())]; ncols_ = int(case.get("queue_cols") or len(T))
        for _ in range(ncols_):
            a = np.zeros(nrx); c.py_get_next_reactions(a); qd += [fhex(v) for v in a]; c.py_advance_time()
        out["queue"] = qd; out["ncols"] = ncols_
    if case["kind"] in ("vssa", "dvssa"):
        out["vols"] = [fhex(v) for v in np.asarray(res.py_get_volume())]; out["divided"] = int(bool(res.py_cell_divided()))
        out["vtoks"] = vtoks
    return out

def driver_line(case, r):
    if not r or "sim" not in r or r.get("pos", -1) < 0: return None
    toks = ["sim", case["kind"]] + r["sim"] + G.flist(case["times"])
    raws = r["raws"][r.get("pre", 0):]
    toks += [str(len(raws))] + raws
    if case["kind"] == "dssa": toks += [str(r["ncols"])]
    if case["kind"] in ("vssa", "dvssa"):
        vt = r["vtoks"]
        if vt[0] == "base": toks += ["base", vt[1]]
        elif vt[0] == "sd": toks += vt
        else:
            # StochasticTimeThresholdVolume.initialize: division time from the first two uniforms of the stream
            toks += ["ttinit"] + vt[1:] + r["raws"][:2]
    if case["kind"] == "dvssa": toks += [str(r["ncols"])]
    return " ".join(toks)

def parse_model_out(out):
    toks = out.split(); res = {"rows": [], "fault": None}
    i = 0; cur = None; sect = None
    for t in toks:
        if t == "R": cur = []; res["rows"].append(cur); sect = "R"
        elif t in ("POS", "P", "Q", "V", "DIV"): sect = t; res.setdefault(t, [])
        elif t.startswith("FAULT") or t == "OUTOFFUEL" or t.startswith("ERR"): res["fault"] = t; sect = None
        elif sect == "R": cur.append(t)
        elif sect: res[sect].append(t)
    return res

def _close(a, b, tol=1e-9):
    if a == b: return True
    x, y = float.fromhex(a) if a not in ("nan", "inf", "-inf") else float(a), float.fromhex(b) if b not in ("nan", "inf", "-inf") else float(b)
    if math.isnan(x) or math.isnan(y): return math.isnan(x) and math.isnan(y)
    return abs(x - y) <= tol * max(abs(x), abs(y))

def compare(case, r, out):
    if not r or "rows" not in r: return "implementation failed: %s" % json.dumps(r)[:300]
    m = parse_model_out(out)
    if m["fault"]: return "model: %s" % m["fault"]
    if len(m["rows"]) != len(r["rows"]): return "row count: model %d implementation %d" % (len(m["rows"]), len(r["rows"]))
    for k, (a, b) in enumerate(zip(m["rows"], r["rows"])):
        if len(a) != len(b) or not all(_close(x, y) for x, y in zip(a, b)): return "row %d: model %r implementation %r" % (k, a, b)
    if int(m["POS"][0]) != r["pos"]: return "draw count: model consumed %s uniforms, implementation %d" % (m["POS"][0], r["pos"])
    if not all(_close(x, y) for x, y in zip(m["P"], r["params_after"])): return "parameter vector after the run: model %r implementation %r" % (m["P"], r["params_after"])
    if case["kind"] in ("dssa", "dvssa"):
        if len(m["Q"]) != len(r["queue"]) or not all(_close(x, y) for x, y in zip(m["Q"], r["queue"])): return "final queue: model %r implementation %r" % (m["Q"], r["queue"])
    if case["kind"] in ("vssa", "dvssa"):
        if len(m["V"]) != len(r["vols"]) or not all(_close(x, y) for x, y in zip(m["V"], r["vols"])): return "volume trace: model %r implementation %r" % (m["V"], r["vols"])
        if int(m["DIV"][0]) != r["divided"]: return "divided flag: model %s implementation %d" % (m["DIV"][0], r["divided"])
    return None
