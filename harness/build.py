"""Scratch build of /repo's working tree, cached by content hash, outside /repo and /verif."""
import hashlib, os, subprocess, sys, shutil, time, fcntl

REPO = os.environ.get("VERIF_REPO", "/repo")
CACHE = os.environ.get("VERIF_BUILD_CACHE", "/var/tmp/bioscrape_verif")
PY = "/venv/bin/python"
ITEMS = ["bioscrape", "lineage", "setup.py", "pyproject.toml", "README.md", "MANIFEST.in", "setup.cfg"]
SRC_EXT = (".pyx", ".pxd", ".py", ".toml", ".cfg", ".in", ".md")
KEEP = 4

def _files():
    out = []
    for it in ITEMS:
        p = os.path.join(REPO, it)
        if os.path.isdir(p):
            for d, dn, fn in os.walk(p):
                dn[:] = sorted(x for x in dn if x not in ("__pycache__", "build"))
                for f in sorted(fn):
                    if f.endswith(SRC_EXT):
                        out.append(os.path.join(d, f))
        elif os.path.exists(p):
            out.append(p)
    return out

CY_EXT = (".pyx", ".pxd", "setup.py", ".toml", ".cfg")
def source_hash(cython_only=False):
    h = hashlib.sha256()
    for f in _files():
        if cython_only and not f.endswith(CY_EXT): continue
        h.update(os.path.relpath(f, REPO).encode()); h.update(b"\0")
        h.update(open(f, "rb").read()); h.update(b"\0")
    return h.hexdigest()[:20]

def ensure_build(verbose=True):
    """Returns the path of a scratch copy of the package built from the current working tree."""
    os.makedirs(CACHE, exist_ok=True)
    hsh = source_hash()
    dst = os.path.join(CACHE, hsh)
    lock = open(os.path.join(CACHE, ".lock"), "w")
    fcntl.flock(lock, fcntl.LOCK_EX)
    try:
        if os.path.exists(os.path.join(dst, ".ok")):
            os.utime(os.path.join(dst, ".ok"))
            return dst
        if os.path.exists(dst):
            shutil.rmtree(dst)
        # prune old builds
        olds = sorted((d for d in os.listdir(CACHE) if os.path.isdir(os.path.join(CACHE, d))),
                      key=lambda d: os.path.getmtime(os.path.join(CACHE, d, ".ok")) if os.path.exists(os.path.join(CACHE, d, ".ok")) else 0)
        while len(olds) >= KEEP:
            shutil.rmtree(os.path.join(CACHE, olds.pop(0)), ignore_errors=True)
        # compiled extension modules depend on the Cython sources only: reuse them when just .py files changed
        cyh = source_hash(cython_only=True)
        for d in os.listdir(CACHE):
            cand = os.path.join(CACHE, d)
            if os.path.exists(os.path.join(cand, ".ok")) and os.path.exists(os.path.join(cand, ".cyhash")) \
               and open(os.path.join(cand, ".cyhash")).read() == cyh:
                os.makedirs(dst)
                for f in _files():
                    rel = os.path.relpath(f, REPO)
                    os.makedirs(os.path.dirname(os.path.join(dst, rel)) or dst, exist_ok=True)
                    shutil.copy2(f, os.path.join(dst, rel))
                for dd, dn, fn in os.walk(cand):
                    for f in fn:
                        if f.endswith(".so"):
                            rel = os.path.relpath(os.path.join(dd, f), cand)
                            shutil.copy2(os.path.join(dd, f), os.path.join(dst, rel))
                open(os.path.join(dst, ".cyhash"), "w").write(cyh)
                open(os.path.join(dst, ".ok"), "w").write("reused")
                if verbose: print("[build] reused compiled modules of %s for %s" % (cand, dst), file=sys.stderr)
                return dst
        os.makedirs(dst)
        for f in _files():
            rel = os.path.relpath(f, REPO)
            os.makedirs(os.path.dirname(os.path.join(dst, rel)) or dst, exist_ok=True)
            shutil.copy2(f, os.path.join(dst, rel))
        t0 = time.time()
        env = dict(os.environ, BIOSCRAPE_VERIF="1")
        env.pop("PYTHONPATH", None)
        r = subprocess.run([PY, "setup.py", "build_ext", "--inplace", "-j", "8"], cwd=dst, env=env,
                           stdout=subprocess.PIPE, stderr=subprocess.STDOUT, text=True)
        if r.returncode != 0:
            open(os.path.join(CACHE, "last_build_failure.log"), "w").write(r.stdout)
            shutil.rmtree(dst, ignore_errors=True)
            raise RuntimeError("scratch build of /repo failed; log in %s/last_build_failure.log\n%s" % (CACHE, r.stdout[-3000:]))
        shutil.rmtree(os.path.join(dst, "build"), ignore_errors=True)
        for d, dn, fn in os.walk(dst):
            for f in fn:
                if f.endswith(".cpp"):
                    os.remove(os.path.join(d, f))
        open(os.path.join(dst, ".cyhash"), "w").write(cyh)
        open(os.path.join(dst, ".ok"), "w").write("%.1f" % (time.time() - t0))
        if verbose:
            print("[build] built %s in %.0fs" % (dst, time.time() - t0), file=sys.stderr)
        return dst
    finally:
        fcntl.flock(lock, fcntl.LOCK_UN)

if __name__ == "__main__":
    print(ensure_build())
