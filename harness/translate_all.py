"""Runs every translator (used by setup.sh so that coq/Gen exists before the full build)."""
def run_all():
    from harness.props import c17
    return {"pickle": c17.translate()}
