"""Runs every translator (used by setup.sh so that coq/Gen exists before the full build)."""
def run_all():
    from harness.props import c17, c01
    out = {"pickle": c17.translate(), "propensity": c01.translate()}
    from harness.props import c09
    out["rules"] = c09.translate()
    from harness.props import c16, c18
    out["priors"] = c16.translate(); out["stencils"] = c18.translate()
    try:
        from harness.props import c20
        if hasattr(c20, "translate"): out["queue"] = c20.translate()
    except ImportError: pass
    return out
