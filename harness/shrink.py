"""Batch delta-debugging helpers: candidates of one round are evaluated in one implementation run."""
import time

def shrink_list(items, fails_many, budget_s=60, min_len=1):
    """Greedy removal of chunks then single elements; fails_many(list of candidate lists) -> list of bool."""
    t0 = time.time(); items = list(items); chunk = max(len(items) // 2, 1)
    while chunk >= 1 and time.time() - t0 < budget_s:
        cands = []
        for i in range(0, len(items), chunk):
            c = items[:i] + items[i + chunk:]
            if len(c) >= min_len: cands.append(c)
        if not cands: break
        res = fails_many(cands)
        hit = [c for c, f in zip(cands, res) if f]
        if hit:
            items = min(hit, key=len)
            chunk = min(chunk, max(len(items) // 2, 1))
        else:
            if chunk == 1: break
            chunk = max(chunk // 2, 1)
    return items
