"""Single-cell lineage loop (LineageSSASimulator.SimulateSingleCell): stream replay against coq/Model/Lineage.v
(extracted) and an independent oracle on the reported rows.  Used by C19 (family "single") and C09."""
import json, math, random
from harness.common import fhex
from harness import modelgen as G

MAXRAW = 60000

def gen_single(rng):
    species = ["A", "B"]
    rxs = rng.choice([
        [],
        [{"reactants": [], "products": ["A"], "type": "massaction", "params": {"k": "kb"}}, {"reactants": ["A"], "products": ["B"], "type": "massaction", "params": {"k": "kc"}},
         {"reactants": ["B"], "products": [], "type": "massaction", "params": {"k": "kd"}}],
        [{"reactants": ["A"], "products": [], "type": "massaction", "params": {"k": "kd"}}],
        [{"reactants": ["A", "A"], "products": ["B"], "type": "massaction", "params": {"k": "kc"}}, {"reactants": ["B"], "products": ["A", "A"], "type": "massaction", "params": {"k": "kd"}}],
        [{"reactants": [], "products": ["B"], "type": "hillpositive", "params": {"k": "kb", "K": "KK", "n": 2, "s1": "A"}}, {"reactants": ["B"], "products": [], "type": "massaction", "params": {"k": "kd"}}],
    ])
    params = {"kb": rng.choice([0.5, 2.0]), "kc": rng.choice([0.2, 0.6]), "kd": rng.choice([0.3, 1.5]), "KK": 3.0,
              "gr": rng.choice([0.2, 0.5, 1.0]), "ge": rng.choice([0.1, 0.3]), "thr_t": rng.choice([1.0, 2.0, 3.5]), "thr_v": rng.choice([1.5, 2.0, 3.0]),
              "thr_d": rng.choice([0.5, 1.0]), "thr_k": float(rng.choice([0, 8, 12])), "kve": rng.choice([0.5, 2.0]), "kde": rng.choice([0.05, 0.3]), "kke": rng.choice([0.02, 0.1])}
    # rules may carry their normal noise term (a parameter name as a third / fifth entry): two uniforms per evaluation
    params["nz_g"] = rng.choice([0.05, 0.2]); params["nz_t"] = rng.choice([0.1, 0.3]); params["nz_k"] = rng.choice([0.5, 2.0])
    NZ = lambda name: ([name] if rng.random() < 0.35 else [])
    vrules = []
    k = rng.random()
    if k < 0.35: vrules.append(["linear", "gr"] + NZ("nz_g"))
    elif k < 0.6: vrules.append(["multiplicative", "gr"] + NZ("nz_g"))
    elif k < 0.75: vrules.append(["ode", "gr*volume/(1+volume)"])
    elif k < 0.85: vrules += [["linear", "gr"] + NZ("nz_g"), ["multiplicative", "ge"]]
    drules = []
    k = rng.random()
    if k < 0.25: drules.append(["volume", "thr_v"] + NZ("nz_t"))
    elif k < 0.45: drules.append(["time", "thr_t"] + NZ("nz_t"))
    elif k < 0.6: drules.append(["deltaV", "thr_d"] + NZ("nz_t"))
    elif k < 0.7: drules += [["time", "thr_t"] + NZ("nz_t"), ["volume", "thr_v"]]
    krules = []
    if rng.random() < 0.3: krules.append(["species", "B", "thr_k", rng.choice([">", "<", "="])] + NZ("nz_k"))
    vevents = [["linear volume", "ge", "kve", rng.choice(["", "A"])]] if rng.random() < 0.3 else []
    # a multiplicative volume event with a volume-proportional propensity blows up in finite time: its propensity reads a species
    # ... and only in networks without zero-order production (production ~ V and V *= 1.1 at a rate ~ A feed each other: blow-up)
    if rng.random() < 0.15 and not any(not r["reactants"] for r in rxs):
        vevents.append(["multiplicative volume", "ge", "kve", "A"])
        for ev in vevents: ev[3] = "A"      # no volume-proportional event propensity next to multiplicative growth (event rate ~ V ~ exp(exp))
    devents = [["kde", rng.choice(["", "B"])]] if rng.random() < 0.3 else []
    kevents = [["kke", rng.choice(["", "A"])]] if rng.random() < 0.3 else []
    dt = rng.choice([0.1, 0.25, 0.5]); n = rng.randint(3, 14); t_first = rng.choice([0.0, 0.0, 1.5])
    times = [t_first + i * dt for i in range(n)]
    cell_t0 = times[0] if rng.random() < 0.8 else times[0] - 0.4 * dt
    return {"family": "single", "species": species, "reactions": rxs, "parameters": params, "x0": {"A": float(rng.randint(0, 9)), "B": float(rng.randint(0, 6))},
            "vrules": vrules, "drules": drules, "krules": krules, "vevents": vevents, "devents": devents, "kevents": kevents,
            "times": times, "cell": {"V": rng.choice([0.5, 1.0, 1.7]), "t0": cell_t0}, "safe": rng.random() < 0.4, "seed": rng.randint(1, 2**31)}

def build(case):
    from bioscrape.lineage import LineageModel, LineageVolumeSplitter
    rx = [G.reaction_tuple(r) for r in case["reactions"]]
    M = LineageModel(species=list(case["species"]), reactions=rx, parameters=[(k, v) for k, v in case["parameters"].items()], initial_condition_dict=dict(case["x0"]))
    so = case.get("splitter")
    vs = LineageVolumeSplitter(M, options=dict(so["options"]), partition_noise=so["noise"]) if so else LineageVolumeSplitter(M)
    for vr in case["vrules"]:
        kind, g = vr[0], vr[1]
        if kind == "ode": M.create_volume_rule("ode", {"equation": g})
        else: M.create_volume_rule(kind, dict({"growth_rate": g}, **({"noise": vr[2]} if len(vr) > 2 else {})))
    for dr in case["drules"]: M.create_division_rule(dr[0], dict({"threshold": dr[1]}, **({"noise": dr[2]} if len(dr) > 2 else {})), vs)
    for kr in case["krules"]: M.create_death_rule("species", dict({"specie": kr[1], "threshold": kr[2], "comp": kr[3]}, **({"noise": kr[4]} if len(kr) > 4 else {})))
    for kind, g, k, sp in case["vevents"]: M.create_volume_event(kind, {"growth_rate": g}, "massaction", {"k": k, "species": sp})
    se = case.get("splitter_ev")
    vs_ev = LineageVolumeSplitter(M, options=dict(se["options"]), partition_noise=se["noise"]) if se else vs
    for k, sp in case["devents"]: M.create_division_event("division", {}, "massaction", {"k": k, "species": sp}, vs_ev)
    for k, sp in case["kevents"]: M.create_death_event("death", {}, "massaction", {"k": k, "species": sp})
    M.py_initialize()
    return M

def impl(case):
    import numpy as np, warnings
    from bioscrape.lineage import LineageSSASimulator, LineageVolumeCellState, LineageCSimInterface, SafeLineageCSimInterface
    from bioscrape.random import py_seed_random, py_rand_int
    warnings.simplefilter("ignore")
    M = build(case)
    s2i, p2i = M.get_species2index(), M.get_params2index()
    T = np.array(case["times"], dtype=float)
    x0 = np.zeros(len(s2i))
    for s, v in case["x0"].items(): x0[s2i[s]] = v
    I = SafeLineageCSimInterface(M) if case["safe"] else LineageCSimInterface(M)
    I.py_set_initial_time(T[0])
    cs = LineageVolumeCellState(v0=case["cell"]["V"], t0=case["cell"]["t0"], state=x0.copy())
    sim_toks = G.sim_tokens(M, case["safe"], float(T[1] - T[0]), float(T[0]), x0)
    py_seed_random(case["seed"])
    try:
        res = LineageSSASimulator().py_SimulateSingleCell(T, Model=M, interface=I, v=cs)
    except ValueError as e:
        return {"raised": str(e)[:160], "sim": sim_toks, "p2i": p2i, "s2i": s2i}
    nxt = py_rand_int(); py_seed_random(case["seed"]); raws = []; pos = -1
    for k in range(MAXRAW):
        r = py_rand_int(); raws.append(str(r))
        if r == nxt: pos = k; break
    rows = np.asarray(res.py_get_result()); tp = np.asarray(res.py_get_timepoints()); vol = np.asarray(res.py_get_volume())
    vterms = []
    for it in M.__getstate__():
        if isinstance(it, list) and it and all(type(x).__name__.endswith("VolumeRule") for x in it):
            for x in it:
                st = G._state_of(x)
                vterms.append(G.term_tokens(st[1]) if type(x).__name__ in ("ODEVolumeRule", "AssignmentVolumeRule") else None)
    return {"vterms": vterms, "rows": [[fhex(v) for v in row] for row in rows], "times_out": [float(v) for v in tp], "vols": [fhex(v) for v in vol],
            "divided": int(res.py_get_divided()), "dead": int(res.py_get_dead()), "pos": pos, "raws": raws, "sim": sim_toks, "p2i": p2i, "s2i": s2i}

def _evprop(k, sp, p2i, s2i):
    names = [x for x in sp.split("*") if x]
    return ["madisp", str(p2i[k]), str(len(names))] + [str(s2i[n]) for n in names]

def driver_line(case, r, term_tokens_of=None):
    if not r or "sim" not in r or r.get("pos", 0) < 0: return None
    p2i, s2i = r["p2i"], r["s2i"]
    toks = ["lsim"] + r["sim"]
    toks.append(str(len(case["vrules"])))
    nz = lambda lst, k: (str(p2i[lst[k]]) if len(lst) > k else "-")
    for i, vr in enumerate(case["vrules"]):
        kind, g = vr[0], vr[1]
        if kind == "ode":
            vt = (r.get("vterms") or [None] * (i + 1))[i]
            if vt is None: return None
            toks += ["ode"] + vt
        else: toks += [{"linear": "lin", "multiplicative": "mult"}[kind], str(p2i[g]), nz(vr, 2)]
    toks.append(str(len(case["drules"])))
    for dr in case["drules"]: toks += [{"time": "time", "volume": "vol", "deltaV": "dv"}[dr[0]], str(p2i[dr[1]]), nz(dr, 2)]
    toks.append(str(len(case["krules"])))
    for kr in case["krules"]: toks += ["sp", str(s2i[kr[1]]), str(p2i[kr[2]]), {">": "1", "<": "-1", "=": "0"}[kr[3]], nz(kr, 4)]
    toks.append(str(len(case["vevents"])))
    for kind, g, k, sp in case["vevents"]: toks += _evprop(k, sp, p2i, s2i) + [{"linear volume": "lin", "multiplicative volume": "mult"}[kind], str(p2i[g])]
    toks.append(str(len(case["devents"])))
    for k, sp in case["devents"]: toks += _evprop(k, sp, p2i, s2i)
    toks.append(str(len(case["kevents"])))
    for k, sp in case["kevents"]: toks += _evprop(k, sp, p2i, s2i)
    toks += G.flist(case["times"]) + [fhex(case["cell"]["t0"]), fhex(case["cell"]["t0"]), fhex(case["cell"]["V"]), fhex(case["cell"]["V"])]
    raws = r.get("raws") or ["0"]
    toks += [str(len(raws))] + raws
    return " ".join(toks)

def compare(case, r, out):
    if not r or "sim" not in r: return "implementation failed: %s" % json.dumps(r)[:300]
    toks = out.split()
    if "raised" in r:
        return None if toks and toks[0].startswith("FAULT4") else "single cell: implementation raised %r, model: %s" % (r["raised"], out[:120])
    if toks and toks[0].startswith(("FAULT", "OUTOFFUEL")): return "single cell: model %s, implementation returned %d rows" % (toks[0], len(r["rows"]))
    rows = []; i = 0
    while i < len(toks) and toks[i] == "R":
        j = i + 1; row = []
        while j < len(toks) and toks[j] not in ("R", "POS"): row.append(toks[j]); j += 1
        rows.append(row); i = j
    pos = int(toks[i + 1]); iv = toks.index("V"); idv = toks.index("DIV")
    vols = toks[iv + 1:idv]; div = int(toks[idv + 1]); dead = int(toks[idv + 3])
    if len(rows) != len(r["rows"]): return "single cell: model reports %d rows, implementation %d (divided %d/%d dead %d/%d)" % (len(rows), len(r["rows"]), div, r["divided"], dead, r["dead"])
    for k, (a, b) in enumerate(zip(rows, r["rows"])):
        if [float.fromhex(x) for x in a] != [float.fromhex(x) for x in b]: return "single cell: row %d: model %r implementation %r" % (k, a, b)
    for k, (a, b) in enumerate(zip(vols, r["vols"])):
        fa, fb = float.fromhex(a), float.fromhex(b)
        if not (fa == fb or abs(fa - fb) <= 1e-12 * abs(fb)): return "single cell: volume at row %d: model %r implementation %r" % (k, fa, fb)
    if div != r["divided"] or dead != r["dead"]: return "single cell: model divided=%d dead=%d, implementation divided=%d dead=%d" % (div, dead, r["divided"], r["dead"])
    if pos != r["pos"]: return "single cell: model consumed %d uniforms, implementation %d" % (pos, r["pos"])
    return None

def oracle(case, r):
    """what a user relies on: the rows are a prefix of the requested times; volumes are positive; every row is a state the
    cell passed through: counts are non-negative integers (mass action / safe) linked by reaction paths; a cell that neither
    divided nor died reports every requested time; a divided / dead cell reports at least its last state"""
    if not r or "sim" not in r: return "single cell failed: %s" % json.dumps(r)[:300]
    if "raised" in r: return None if "nonpositive volume" in r["raised"] else "single cell: raised %r" % r["raised"]
    T = case["times"]; n = len(r["rows"])
    if n < 1: return "single cell: empty result"
    if r["times_out"] != T[:n]: return "single cell: result times %r are not a prefix of the requested times" % (r["times_out"],)
    vols = [float.fromhex(v) for v in r["vols"]]
    if len(vols) != n: return "single cell: %d volumes for %d rows" % (len(vols), n)
    if any(not (v > 0) for v in vols): return "positive volume: volume trace %r (divided=%d dead=%d)" % (vols, r["divided"], r["dead"])
    if r["divided"] < 0 and r["dead"] < 0 and n != len(T): return "single cell: neither divided nor dead but %d of %d requested times reported" % (n, len(T))
    rows = [[float.fromhex(v) for v in row] for row in r["rows"]]
    for k, row in enumerate(rows):
        if any(v < 0 or v != int(v) for v in row): return "actually simulated: row %d = %r is no state of integer counts" % (k, row)
    has_growth = bool(case["vrules"]) and not case["vevents"]
    if has_growth and all(vr[0] in ("linear", "multiplicative") and len(vr) == 2 for vr in case["vrules"]):
        for a, b in zip(vols, vols[1:]):
            if b < a * (1 - 1e-12): return "single cell: volume decreases under pure growth: %r" % vols
    return None


# ------------------------------------------------------------------ whole lineages: py_SimulateCellLineage replayed against Model/Worklist.v
def gen_lineage(rng):
    c = gen_single(rng)
    while not (c["drules"] or c["devents"]): c = gen_single(rng)
    c["family"] = "lineage_replay"; c["cell"] = {"V": 1.0, "t0": 0.0}      # py_SimulateCellLineage's default initial cell
    c["splitter"] = {"options": {"A": rng.choice(["binomial", "perfect", "duplicate"]), "B": rng.choice(["binomial", "perfect", "duplicate"]),
                                 "volume": rng.choice(["binomial", "binomial", "perfect", "duplicate"])}, "noise": rng.choice([0.0, 0.2, 0.5])}
    # division events may come with a splitter of their own, next to division rules with theirs (which splitter applies is decided by
    # an index that counts rules first, then events -- seeded change S4_C19 lost the offset); in half of these the rules can never fire
    if c["devents"] and rng.random() < 0.6:
        if not c["drules"]: c["drules"] = [["time", "thr_t"]]
        ro = c["splitter"]["options"]
        flip = {"binomial": "duplicate", "perfect": "duplicate", "duplicate": "binomial"}
        c["splitter_ev"] = {"options": {"A": flip[ro["A"]], "B": rng.choice([flip[ro["B"]], ro["B"]]), "volume": rng.choice(["binomial", "perfect"])}, "noise": rng.choice([0.0, 0.3])}
        if rng.random() < 0.5: c["rules_cannot_fire"] = True
    dt = rng.choice([0.25, 0.5]); n = rng.randint(6, 16)
    # decimal grids: (t_k - t_0)/dt is not exactly k for some k (43, 81, 86, ... at dt = 0.1): a daughter's grid must still start at the
    # first point not before the mother's last time (seeded change S3_C19: index computed by a truncating division)
    if rng.random() < 0.35:
        dt = rng.choice([0.1, 0.1, 0.05]); n = rng.randint(50, 95)
        c["parameters"]["gr"] = min(c["parameters"]["gr"], 0.5); c["parameters"]["thr_v"] = max(c["parameters"]["thr_v"], 2.0); c["parameters"]["thr_d"] = 1.0   # at most ~2^7 cells
    c["times"] = list(__import__("numpy").linspace(0.0, dt * (n - 1), n)) if rng.random() < 0.5 else [i * dt for i in range(n)]
    c["times"] = [float(v) for v in c["times"]]
    # keep populations small: division not faster than about once per 1.5 time units
    c["parameters"]["thr_t"] = max(c["parameters"]["thr_t"], 2.0); c["parameters"]["kde"] = min(c["parameters"]["kde"], 0.3)
    # the noise of a division rule is redrawn at every iteration of the loop (every reaction event): keep it small, or a cell divides
    # as soon as one of many draws reaches far enough, and the population explodes
    c["parameters"]["nz_t"] = 0.02
    # a duplicated volume is never halved: with growth proportional to the volume, divisions come faster and faster
    if c["splitter"]["options"]["volume"] == "duplicate" and any(vr[0] in ("multiplicative", "ode") for vr in c["vrules"]): c["splitter"]["options"]["volume"] = "perfect"
    # a division event's propensity is proportional to the volume: keep the volume bounded (no multiplicative volume events, no
    # duplicated volume) and the event rate low on long grids, or the population explodes
    if c["devents"]:
        c["devents"] = [[k, ""] for k, sp in c["devents"]]
        c["vevents"] = [ev for ev in c["vevents"] if ev[0] != "multiplicative volume"]
        if c["splitter"]["options"]["volume"] == "duplicate": c["splitter"]["options"]["volume"] = "binomial"
        if len(c["times"]) > 40: c["parameters"]["kde"] = min(c["parameters"]["kde"], 0.1)
    # volume events that multiply the volume at a rate proportional to a count, next to a division rule on the volume: the volume (and
    # with duplicated species the population) runs away; such models are not generated for whole lineages
    if any(dr[0] in ("volume", "deltaV") for dr in c["drules"]): c["vevents"] = [ev for ev in c["vevents"] if ev[0] != "multiplicative volume"]
    if c.get("rules_cannot_fire"):
        c["parameters"]["thr_t"] = 1000.0; c["parameters"]["thr_v"] = 1000.0; c["parameters"]["thr_d"] = 1000.0
        c["drules"] = [dr[:2] for dr in c["drules"]]      # no noise term that could reach the threshold
    return c

def impl_lineage(case):
    import numpy as np, warnings
    from bioscrape.lineage import py_SimulateCellLineage
    from bioscrape.random import py_seed_random, py_rand_int
    warnings.simplefilter("ignore")
    M = build(case); s2i, p2i = M.get_species2index(), M.get_params2index()
    T = np.array(case["times"], dtype=float)
    x0 = np.zeros(len(s2i))
    for s, v in case["x0"].items(): x0[s2i[s]] = v
    sim_toks = G.sim_tokens(M, case["safe"], float(T[1] - T[0]), float(T[0]), x0)
    vterms = []
    for it in M.__getstate__():
        if isinstance(it, list) and it and all(type(x).__name__.endswith("VolumeRule") for x in it):
            for x in it:
                st = G._state_of(x); vterms.append(G.term_tokens(st[1]) if type(x).__name__ in ("ODEVolumeRule", "AssignmentVolumeRule") else None)
    py_seed_random(case["seed"]); raised = None
    try:
        lin = py_SimulateCellLineage(T, Model=M, safe=case["safe"])
    except ValueError as e:
        raised = str(e)[:160]
    nxt = py_rand_int(); py_seed_random(case["seed"]); raws = []; pos = -1
    for k in range(400000):
        r = py_rand_int(); raws.append(str(r))
        if r == nxt: pos = k; break
    if raised is not None: return {"raised": raised, "sim": sim_toks, "p2i": p2i, "s2i": s2i, "vterms": vterms, "raws": raws, "pos": pos}
    ids = {id(lin.py_get_schnitz(i)): i for i in range(lin.py_size())}
    cells = []
    for i in range(lin.py_size()):
        z = lin.py_get_schnitz(i); p = z.py_get_parent(); d = z.py_get_daughters()
        cells.append({"parent": -1 if p is None else ids.get(id(p), -2), "daughters": [-1 if x is None else ids.get(id(x), -2) for x in d],
                      "times": [fhex(v) for v in np.asarray(z.py_get_time())], "rows": [[fhex(v) for v in row] for row in np.asarray(z.py_get_data())],
                      "vols": [fhex(v) for v in np.asarray(z.py_get_volume())]})
    return {"cells": cells, "pos": pos, "raws": raws, "sim": sim_toks, "p2i": p2i, "s2i": s2i, "vterms": vterms}

def driver_line_lineage(case, r):
    line = driver_line(dict(case, times=case["times"]), r)
    if line is None: return None
    toks = line.split()
    # cut the single-cell tail (<times> <t_cur> <t_init> <V> <V_init> <stream>) and append the lineage tail
    nt = len(case["times"]); nraw = len(r.get("raws") or ["0"])
    head = toks[: len(toks) - (1 + nt) - 4 - (1 + nraw)]
    head[0] = "lineage"
    s2i = r["s2i"]; so = case["splitter"]; order = sorted(s2i, key=lambda s: s2i[s])
    vm = {"binomial": "0", "duplicate": "1", "perfect": "2"}[so["options"].get("volume", "binomial")]
    perfect = [str(s2i[s]) for s in order if so["options"].get(s, "binomial") == "perfect"]; binom = [str(s2i[s]) for s in order if so["options"].get(s, "binomial") == "binomial"]
    def one_of(so_):
        vm_ = {"binomial": "0", "duplicate": "1", "perfect": "2"}[so_["options"].get("volume", "binomial")]
        pf = [str(s2i[s]) for s in order if so_["options"].get(s, "binomial") == "perfect"]; bi = [str(s2i[s]) for s in order if so_["options"].get(s, "binomial") == "binomial"]
        return [vm_, str(len(pf))] + pf + [str(len(bi))] + bi + [fhex(so_["noise"])]
    one = one_of(so); one_ev = one_of(case.get("splitter_ev") or so)
    nsp = len(case["drules"]) + len(case["devents"])
    # the division index counts the division rules first, then the division events: each has its splitter
    tail = [str(nsp)] + one * len(case["drules"]) + one_ev * len(case["devents"]) + G.flist(case["times"]) + ["1", fhex(1.0), fhex(0.0)]
    raws = r.get("raws") or ["0"]
    return " ".join(head + tail + [str(len(raws))] + raws)

def compare_lineage(case, r, out):
    if not r or "sim" not in r: return "implementation failed: %s" % json.dumps(r)[:300]
    toks = out.split()
    if "raised" in r:
        return None if toks and toks[0] in ("FAULT4", "FAULT7") else "lineage: implementation raised %r, model: %s" % (r["raised"], out[:120])
    if toks and toks[0].startswith(("FAULT", "OUTOFFUEL")): return "lineage: model %s, implementation returned %d cells" % (toks[0], len(r["cells"]))
    cells = []; i = 0
    while i < len(toks) and toks[i] == "S":
        par, d1, d2 = int(toks[i + 1]), int(toks[i + 2]), int(toks[i + 3]); i += 4
        assert toks[i] == "T"; nt = int(toks[i + 1]); times = toks[i + 2:i + 2 + nt]; i += 2 + nt
        assert toks[i] == "N"; nr = int(toks[i + 1]); i += 2; rows = []
        for _ in range(nr):
            assert toks[i] == "R"; j = i + 1; row = []
            while toks[j] not in ("R", "V"): row.append(toks[j]); j += 1
            rows.append(row); i = j
        assert toks[i] == "V"; vols = toks[i + 1:i + 1 + nr]; i += 1 + nr
        cells.append((par, d1, d2, times, rows, vols))
    pos = int(toks[i + 1])
    if len(cells) != len(r["cells"]): return "lineage: model has %d cells, implementation %d" % (len(cells), len(r["cells"]))
    H = lambda xs: [float.fromhex(x) for x in xs]
    for k, (m, c) in enumerate(zip(cells, r["cells"])):
        if m[0] != c["parent"] or [m[1], m[2]] != c["daughters"]: return "lineage links: cell %d: model parent %d daughters %r, implementation parent %d daughters %r" % (k, m[0], [m[1], m[2]], c["parent"], c["daughters"])
        if H(m[3]) != H(c["times"]): return "lineage: cell %d: model times %r implementation %r" % (k, H(m[3]), H(c["times"]))
        if [H(x) for x in m[4]] != [H(x) for x in c["rows"]]: return "lineage: cell %d: rows differ: model %r implementation %r" % (k, [H(x) for x in m[4]][-2:], [H(x) for x in c["rows"]][-2:])
        for a, b in zip(H(m[5]), H(c["vols"])):
            if not (a == b or abs(a - b) <= 1e-12 * abs(b)): return "lineage: cell %d: volumes differ: model %r implementation %r" % (k, H(m[5]), H(c["vols"]))
    if pos != r["pos"]: return "lineage: model consumed %d uniforms, implementation %d" % (pos, r["pos"])
    return None

def oracle_lineage(case, r):
    """structure of the recorded lineage: mutual links, daughters start at the mother's last time from a partition of her last state"""
    if not r or "sim" not in r: return "lineage failed: %s" % json.dumps(r)[:300]
    if "raised" in r: return None if ("nonpositive volume" in r["raised"] or "dividing too" in r["raised"]) else "lineage: raised %r" % r["raised"]
    cells = r["cells"]; H = lambda xs: [float.fromhex(x) for x in xs]
    s2i = r["s2i"]; opts = case["splitter"]["options"]
    for k, c in enumerate(cells):
        if any(not (v > 0) for v in H(c["vols"])): return "positive volume: cell %d volume trace %r" % (k, H(c["vols"]))
        if len(c["rows"]) != len(c["times"]) or len(c["vols"]) != len(c["times"]) or not c["rows"]: return "lineage: cell %d: %d rows, %d times, %d volumes" % (k, len(c["rows"]), len(c["times"]), len(c["vols"]))
        d = c["daughters"]
        if (d[0] < 0) != (d[1] < 0): return "links: cell %d has one daughter" % k
        if d[0] >= 0:
            for j in d:
                if not (0 <= j < len(cells)) or cells[j]["parent"] != k: return "links: cell %d lists daughter %d whose parent is %r" % (k, j, cells[j]["parent"] if 0 <= j < len(cells) else None)
            m = H(c["rows"][-1]); a = H(cells[d[0]]["rows"][0]); b = H(cells[d[1]]["rows"][0])
            # daughters start at the mother's last time ... (their first reported time is the first grid time not before it)
            tm = H(c["times"])[-1]
            for j in d:
                if H(cells[j]["times"])[0] < tm: return "partition of the last state: daughter %d of cell %d starts at %r before the mother's last time %r" % (j, k, H(cells[j]["times"])[0], tm)
            # ... from a partition of her last state by the splitter of a mechanism that can have fired (a daughter's first row, when
            # reported for the mother's last time itself, is the state it was born with: no reaction precedes it)
            if all(H(cells[j]["times"])[0] == tm for j in d):
                cands = ([("the division rules' splitter", opts)] if case["drules"] and not case.get("rules_cannot_fire") else []) + \
                        ([("the division events' splitter", (case.get("splitter_ev") or case["splitter"])["options"])] if case["devents"] else [])
                vm_, va_, vb_ = H(c["vols"])[-1], H(cells[d[0]]["vols"])[0], H(cells[d[1]]["vols"])[0]
                def fits(o):
                    for s_, i_ in s2i.items():
                        if s_ not in ("A", "B"): continue
                        if o.get(s_, "binomial") == "duplicate":
                            if not (a[i_] == m[i_] and b[i_] == m[i_]): return False
                        elif abs(a[i_] + b[i_] - m[i_]) > 1e-9 * max(1.0, abs(m[i_])): return False
                    if o.get("volume", "binomial") == "duplicate": return abs(va_ - vm_) <= 1e-9 * vm_ and abs(vb_ - vm_) <= 1e-9 * vm_
                    return abs(va_ + vb_ - vm_) <= 1e-9 * vm_
                if cands and not any(fits(o) for _, o in cands):
                    return "partition of the last state: cell %d ends with %r (volume %r), its daughters start with %r (%r) and %r (%r): not a partition by %s" % (
                        k, m, vm_, a, va_, b, vb_, " nor by ".join("%s %r" % (n_, o) for n_, o in cands))
        if c["parent"] >= 0 and k not in cells[c["parent"]]["daughters"]: return "links: cell %d names parent %d which does not list it" % (k, c["parent"])
    if sum(1 for c in cells if c["parent"] < 0) != 1: return "links: %d roots for one initial cell" % sum(1 for c in cells if c["parent"] < 0)
    return None
