"""Single-cell lineage loop (LineageSSASimulator.SimulateSingleCell): stream replay against coq/Model/Lineage.v
(extracted) and an independent oracle on the reported rows.  Used by C19 (family "single") and C09."""
import json, math, random
from harness.common import fhex
from harness import modelgen as G

MAXRAW = 60000

def gen_single(rng):
    species = ["A", "B"]
    rxs = rng.choice([
        [],
        [{"reactants": [], "products": ["A"], "type": "massaction", "params": {"k": "kb"}}, {"reactants": ["A"], "products": ["B"], "type": "massaction", "params": {"k": "kc"}},
         {"reactants": ["B"], "products": [], "type": "massaction", "params": {"k": "kd"}}],
        [{"reactants": ["A"], "products": [], "type": "massaction", "params": {"k": "kd"}}],
        [{"reactants": ["A", "A"], "products": ["B"], "type": "massaction", "params": {"k": "kc"}}, {"reactants": ["B"], "products": ["A", "A"], "type": "massaction", "params": {"k": "kd"}}],
        [{"reactants": [], "products": ["B"], "type": "hillpositive", "params": {"k": "kb", "K": "KK", "n": 2, "s1": "A"}}, {"reactants": ["B"], "products": [], "type": "massaction", "params": {"k": "kd"}}],
    ])
    params = {"kb": rng.choice([0.5, 2.0]), "kc": rng.choice([0.2, 0.6]), "kd": rng.choice([0.3, 1.5]), "KK": 3.0,
              "gr": rng.choice([0.2, 0.5, 1.0]), "ge": rng.choice([0.1, 0.3]), "thr_t": rng.choice([1.0, 2.0, 3.5]), "thr_v": rng.choice([1.5, 2.0, 3.0]),
              "thr_d": rng.choice([0.5, 1.0]), "thr_k": float(rng.choice([0, 8, 12])), "kve": rng.choice([0.5, 2.0]), "kde": rng.choice([0.05, 0.3]), "kke": rng.choice([0.02, 0.1])}
    vrules = []
    k = rng.random()
    if k < 0.35: vrules.append(["linear", "gr"])
    elif k < 0.6: vrules.append(["multiplicative", "gr"])
    elif k < 0.75: vrules.append(["ode", "gr*volume/(1+volume)"])
    elif k < 0.85: vrules += [["linear", "gr"], ["multiplicative", "ge"]]
    drules = []
    k = rng.random()
    if k < 0.25: drules.append(["volume", "thr_v"])
    elif k < 0.45: drules.append(["time", "thr_t"])
    elif k < 0.6: drules.append(["deltaV", "thr_d"])
    elif k < 0.7: drules += [["time", "thr_t"], ["volume", "thr_v"]]
    krules = []
    if rng.random() < 0.3: krules.append(["species", "B", "thr_k", rng.choice([">", "<", "="])])
    vevents = [["linear volume", "ge", "kve", rng.choice(["", "A"])]] if rng.random() < 0.3 else []
    # a multiplicative volume event with a volume-proportional propensity blows up in finite time: its propensity reads a species
    # ... and only in networks without zero-order production (production ~ V and V *= 1.1 at a rate ~ A feed each other: blow-up)
    if rng.random() < 0.15 and not any(not r["reactants"] for r in rxs): vevents.append(["multiplicative volume", "ge", "kve", "A"])
    devents = [["kde", rng.choice(["", "B"])]] if rng.random() < 0.3 else []
    kevents = [["kke", rng.choice(["", "A"])]] if rng.random() < 0.3 else []
    dt = rng.choice([0.1, 0.25, 0.5]); n = rng.randint(3, 14); t_first = rng.choice([0.0, 0.0, 1.5])
    times = [t_first + i * dt for i in range(n)]
    cell_t0 = times[0] if rng.random() < 0.8 else times[0] - 0.4 * dt
    return {"family": "single", "species": species, "reactions": rxs, "parameters": params, "x0": {"A": float(rng.randint(0, 9)), "B": float(rng.randint(0, 6))},
            "vrules": vrules, "drules": drules, "krules": krules, "vevents": vevents, "devents": devents, "kevents": kevents,
            "times": times, "cell": {"V": rng.choice([0.5, 1.0, 1.7]), "t0": cell_t0}, "safe": rng.random() < 0.4, "seed": rng.randint(1, 2**31)}

def build(case):
    from bioscrape.lineage import LineageModel, LineageVolumeSplitter
    rx = [G.reaction_tuple(r) for r in case["reactions"]]
    M = LineageModel(species=list(case["species"]), reactions=rx, parameters=[(k, v) for k, v in case["parameters"].items()], initial_condition_dict=dict(case["x0"]))
    vs = LineageVolumeSplitter(M)
    for kind, g in case["vrules"]:
        if kind == "ode": M.create_volume_rule("ode", {"equation": g})
        else: M.create_volume_rule(kind, {"growth_rate": g})
    for kind, thr in case["drules"]: M.create_division_rule(kind, {"threshold": thr}, vs)
    for kind, sp, thr, comp in case["krules"]: M.create_death_rule("species", {"specie": sp, "threshold": thr, "comp": comp})
    for kind, g, k, sp in case["vevents"]: M.create_volume_event(kind, {"growth_rate": g}, "massaction", {"k": k, "species": sp})
    for k, sp in case["devents"]: M.create_division_event("division", {}, "massaction", {"k": k, "species": sp}, vs)
    for k, sp in case["kevents"]: M.create_death_event("death", {}, "massaction", {"k": k, "species": sp})
    M.py_initialize()
    return M

def impl(case):
    import numpy as np, warnings
    from bioscrape.lineage import LineageSSASimulator, LineageVolumeCellState, LineageCSimInterface, SafeLineageCSimInterface
    from bioscrape.random import py_seed_random, py_rand_int
    warnings.simplefilter("ignore")
    M = build(case)
    s2i, p2i = M.get_species2index(), M.get_params2index()
    T = np.array(case["times"], dtype=float)
    x0 = np.zeros(len(s2i))
    for s, v in case["x0"].items(): x0[s2i[s]] = v
    I = SafeLineageCSimInterface(M) if case["safe"] else LineageCSimInterface(M)
    I.py_set_initial_time(T[0])
    cs = LineageVolumeCellState(v0=case["cell"]["V"], t0=case["cell"]["t0"], state=x0.copy())
    sim_toks = G.sim_tokens(M, case["safe"], float(T[1] - T[0]), float(T[0]), x0)
    py_seed_random(case["seed"])
    try:
        res = LineageSSASimulator().py_SimulateSingleCell(T, Model=M, interface=I, v=cs)
    except ValueError as e:
        return {"raised": str(e)[:160], "sim": sim_toks, "p2i": p2i, "s2i": s2i}
    nxt = py_rand_int(); py_seed_random(case["seed"]); raws = []; pos = -1
    for k in range(MAXRAW):
        r = py_rand_int(); raws.append(str(r))
        if r == nxt: pos = k; break
    rows = np.asarray(res.py_get_result()); tp = np.asarray(res.py_get_timepoints()); vol = np.asarray(res.py_get_volume())
    vterms = []
    for it in M.__getstate__():
        if isinstance(it, list) and it and all(type(x).__name__.endswith("VolumeRule") for x in it):
            for x in it:
                st = G._state_of(x)
                vterms.append(G.term_tokens(st[1]) if type(x).__name__ in ("ODEVolumeRule", "AssignmentVolumeRule") else None)
    return {"vterms": vterms, "rows": [[fhex(v) for v in row] for row in rows], "times_out": [float(v) for v in tp], "vols": [fhex(v) for v in vol],
            "divided": int(res.py_get_divided()), "dead": int(res.py_get_dead()), "pos": pos, "raws": raws, "sim": sim_toks, "p2i": p2i, "s2i": s2i}

def _evprop(k, sp, p2i, s2i):
    names = [x for x in sp.split("*") if x]
    return ["madisp", str(p2i[k]), str(len(names))] + [str(s2i[n]) for n in names]

def driver_line(case, r, term_tokens_of=None):
    if not r or "sim" not in r or r.get("pos", 0) < 0: return None
    p2i, s2i = r["p2i"], r["s2i"]
    toks = ["lsim"] + r["sim"]
    toks.append(str(len(case["vrules"])))
    for i, (kind, g) in enumerate(case["vrules"]):
        if kind == "ode":
            vt = (r.get("vterms") or [None] * (i + 1))[i]
            if vt is None: return None
            toks += ["ode"] + vt
        else: toks += [{"linear": "lin", "multiplicative": "mult"}[kind], str(p2i[g])]
    toks.append(str(len(case["drules"])))
    for kind, thr in case["drules"]: toks += [{"time": "time", "volume": "vol", "deltaV": "dv"}[kind], str(p2i[thr])]
    toks.append(str(len(case["krules"])))
    for kind, sp, thr, comp in case["krules"]: toks += ["sp", str(s2i[sp]), str(p2i[thr]), {">": "1", "<": "-1", "=": "0"}[comp]]
    toks.append(str(len(case["vevents"])))
    for kind, g, k, sp in case["vevents"]: toks += _evprop(k, sp, p2i, s2i) + [{"linear volume": "lin", "multiplicative volume": "mult"}[kind], str(p2i[g])]
    toks.append(str(len(case["devents"])))
    for k, sp in case["devents"]: toks += _evprop(k, sp, p2i, s2i)
    toks.append(str(len(case["kevents"])))
    for k, sp in case["kevents"]: toks += _evprop(k, sp, p2i, s2i)
    toks += G.flist(case["times"]) + [fhex(case["cell"]["t0"]), fhex(case["cell"]["t0"]), fhex(case["cell"]["V"]), fhex(case["cell"]["V"])]
    raws = r.get("raws") or ["0"]
    toks += [str(len(raws))] + raws
    return " ".join(toks)

def compare(case, r, out):
    if not r or "sim" not in r: return "implementation failed: %s" % json.dumps(r)[:300]
    toks = out.split()
    if "raised" in r:
        return None if toks and toks[0].startswith("FAULT4") else "single cell: implementation raised %r, model: %s" % (r["raised"], out[:120])
    if toks and toks[0].startswith(("FAULT", "OUTOFFUEL")): return "single cell: model %s, implementation returned %d rows" % (toks[0], len(r["rows"]))
    rows = []; i = 0
    while i < len(toks) and toks[i] == "R":
        j = i + 1; row = []
        while j < len(toks) and toks[j] not in ("R", "POS"): row.append(toks[j]); j += 1
        rows.append(row); i = j
    pos = int(toks[i + 1]); iv = toks.index("V"); idv = toks.index("DIV")
    vols = toks[iv + 1:idv]; div = int(toks[idv + 1]); dead = int(toks[idv + 3])
    if len(rows) != len(r["rows"]): return "single cell: model reports %d rows, implementation %d (divided %d/%d dead %d/%d)" % (len(rows), len(r["rows"]), div, r["divided"], dead, r["dead"])
    for k, (a, b) in enumerate(zip(rows, r["rows"])):
        if [float.fromhex(x) for x in a] != [float.fromhex(x) for x in b]: return "single cell: row %d: model %r implementation %r" % (k, a, b)
    for k, (a, b) in enumerate(zip(vols, r["vols"])):
        fa, fb = float.fromhex(a), float.fromhex(b)
        if not (fa == fb or abs(fa - fb) <= 1e-12 * abs(fb)): return "single cell: volume at row %d: model %r implementation %r" % (k, fa, fb)
    if div != r["divided"] or dead != r["dead"]: return "single cell: model divided=%d dead=%d, implementation divided=%d dead=%d" % (div, dead, r["divided"], r["dead"])
    if pos != r["pos"]: return "single cell: model consumed %d uniforms, implementation %d" % (pos, r["pos"])
    return None

def oracle(case, r):
    """what a user relies on: the rows are a prefix of the requested times; volumes are positive; every row is a state the
    cell passed through: counts are non-negative integers (mass action / safe) linked by reaction paths; a cell that neither
    divided nor died reports every requested time; a divided / dead cell reports at least its last state"""
    if not r or "sim" not in r: return "single cell failed: %s" % json.dumps(r)[:300]
    if "raised" in r: return None if "nonpositive volume" in r["raised"] else "single cell: raised %r" % r["raised"]
    T = case["times"]; n = len(r["rows"])
    if n < 1: return "single cell: empty result"
    if r["times_out"] != T[:n]: return "single cell: result times %r are not a prefix of the requested times" % (r["times_out"],)
    vols = [float.fromhex(v) for v in r["vols"]]
    if len(vols) != n: return "single cell: %d volumes for %d rows" % (len(vols), n)
    if any(not (v > 0) for v in vols): return "positive volume: volume trace %r (divided=%d dead=%d)" % (vols, r["divided"], r["dead"])
    if r["divided"] < 0 and r["dead"] < 0 and n != len(T): return "single cell: neither divided nor dead but %d of %d requested times reported" % (n, len(T))
    rows = [[float.fromhex(v) for v in row] for row in r["rows"]]
    for k, row in enumerate(rows):
        if any(v < 0 or v != int(v) for v in row): return "actually simulated: row %d = %r is no state of integer counts" % (k, row)
    has_growth = bool(case["vrules"]) and not case["vevents"]
    if has_growth and all(kind in ("linear", "multiplicative") for kind, _ in case["vrules"]):
        for a, b in zip(vols, vols[1:]):
            if b < a * (1 - 1e-12): return "single cell: volume decreases under pure growth: %r" % vols
    return None
