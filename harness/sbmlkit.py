"""Helpers around libsbml used by the SBML properties: an independent evaluator of MathML ASTs as
plain SBML mathematics, readers of documents into plain Python structures."""
import math

def ast_eval(node, env):
    """env: identifier -> float.  Raises KeyError on an undefined identifier."""
    import libsbml as L
    t = node.getType()
    ch = [node.getChild(i) for i in range(node.getNumChildren())]
    if t in (L.AST_INTEGER,): return float(node.getInteger())
    if t in (L.AST_REAL, L.AST_REAL_E, L.AST_RATIONAL): return float(node.getReal())
    if t == L.AST_NAME: return env[node.getName()]
    if t == L.AST_NAME_TIME: return env.get("__time__", 0.0)
    if t == L.AST_CONSTANT_E: return math.e
    if t == L.AST_CONSTANT_PI: return math.pi
    if t == L.AST_PLUS: return sum(ast_eval(c, env) for c in ch)
    if t == L.AST_TIMES:
        v = 1.0
        for c in ch: v *= ast_eval(c, env)
        return v
    if t == L.AST_MINUS:
        return -ast_eval(ch[0], env) if len(ch) == 1 else ast_eval(ch[0], env) - ast_eval(ch[1], env)
    if t == L.AST_DIVIDE: return ast_eval(ch[0], env) / ast_eval(ch[1], env)
    if t in (L.AST_POWER, L.AST_FUNCTION_POWER): return ast_eval(ch[0], env) ** ast_eval(ch[1], env)
    if t == L.AST_FUNCTION_EXP: return math.exp(ast_eval(ch[0], env))
    if t == L.AST_FUNCTION_LN: return math.log(ast_eval(ch[0], env))
    if t == L.AST_FUNCTION_LOG: return math.log10(ast_eval(ch[-1], env))
    if t == L.AST_FUNCTION_ABS: return abs(ast_eval(ch[0], env))
    if t == L.AST_FUNCTION_MAX: return max(ast_eval(c, env) for c in ch)
    if t == L.AST_FUNCTION_MIN: return min(ast_eval(c, env) for c in ch)
    if t == L.AST_FUNCTION_ROOT: return ast_eval(ch[-1], env) ** 0.5
    if t == L.AST_FUNCTION and node.getName() in ("Heaviside", "heaviside"):
        return 1.0 if ast_eval(ch[0], env) >= 0 else 0.0
    raise ValueError("unsupported AST node type %d (%s)" % (t, node.getName()))

def ast_names(node):
    import libsbml as L
    out = []
    if node.getType() == L.AST_NAME: out.append(node.getName())
    for i in range(node.getNumChildren()): out += ast_names(node.getChild(i))
    return out

def read_doc(path):
    import libsbml
    doc = libsbml.SBMLReader().readSBML(path); m = doc.getModel()
    out = {"species": {}, "params": {}, "reactions": [], "rules": []}
    for s in m.getListOfSpecies():
        out["species"][s.getId()] = {"amount": s.getInitialAmount() if s.isSetInitialAmount() else None,
                                     "conc": s.getInitialConcentration() if s.isSetInitialConcentration() else None}
    for p in m.getListOfParameters(): out["params"][p.getId()] = p.getValue()
    for r in m.getListOfReactions():
        kl = r.getKineticLaw()
        out["reactions"].append({"id": r.getId(),
            "reactants": [(x.getSpecies(), x.getStoichiometry()) for x in r.getListOfReactants()],
            "products": [(x.getSpecies(), x.getStoichiometry()) for x in r.getListOfProducts()],
            "modifiers": [x.getSpecies() for x in r.getListOfModifiers()],
            "locals": {p.getId(): p.getValue() for p in kl.getListOfParameters()} if kl else {},
            "math": kl.getMath() if kl else None, "formula": libsbml.formulaToL3String(kl.getMath()) if kl else None,
            "annotation": r.getAnnotationString()})
    for r in m.getListOfRules():
        out["rules"].append({"kind": r.getElementName(), "variable": r.getVariable(), "math": r.getMath(), "formula": libsbml.formulaToL3String(r.getMath()),
                             "annotation": r.getAnnotationString()})
    out["_doc"] = doc
    return out
