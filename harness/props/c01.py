"""C01: built-in rate laws.  Correspondence: Model/Propensity.v + Model/Interface.v (extracted,
doubles) vs Propensity objects and plain/safe interfaces of the scratch build, four modes.
Oracle: documented closed forms evaluated independently (exact rationals for mass action)."""
import json, math, random
from fractions import Fraction as Fr
from harness.common import fhex
from harness import modelgen as G

PID = "C01"; COQ_TARGET = "C01"
MODES = ["det", "vol", "stoch", "stochvol"]
IMPL_MODE = {"det": "deterministic", "vol": "volume", "stoch": "stochastic", "stochvol": "stochastic_volume"}
RULE = ("random networks (1-5 species, 1-4 reactions, mass action of order 0-6 with repeats and catalysts, four Hill kinds, "
        "named and numeric parameters) x 4 states (integer and dyadic, zeros included) x volumes in (0.2,5) x 4 modes, through the "
        "bare propensity object and the plain and safe interfaces; non-trivial = contains a reaction of order >= 3 with a repeated reactant or a Hill law with fractional exponent")
TRUSTED = ["translator tools/tr_propensity.py (engine tools/tr_cython.py, Python ast after four Cython rewrites, fail-closed): regenerates coq/Gen/PropensityGen.v "
           "(8 propensity classes x 4 evaluators, virtual calls resolved through the inheritance chain) from bioscrape/types.pyx + types.pxd on every run; "
           "Proofs/TiePropensity.v proves each generated evaluator equal to the hand model's prop_eval for any arithmetic",
           "translator tools/tr_iface.py (same engine): the four per-reaction loops of the plain interface are regenerated from bioscrape/simulator.pyx on every run and proved equal to the model's compute_plain (Proofs/TieIface.v); the virtual call on the r-th propensity object is an oracle there",
           "hand model coq/Model/Propensity.v (dispatch, initialize = multiplicity_table), Interface.v (safe interface) tied by correspondence",
           "Cython's ** (complex pow) vs libm pow: values passing through ** compared with relative tolerance 1e-12"]
ASSUMPTIONS = ["theorems are over R; floating-point rounding is outside them", "states non-negative, V > 0 as in the property's quantifier"]

def translate():
    import importlib.util, os
    from harness.common import Broken
    p = os.path.join(os.path.dirname(os.path.dirname(os.path.dirname(os.path.abspath(__file__)))), "tools", "tr_propensity.py")
    spec = importlib.util.spec_from_file_location("tr_propensity", p); m = importlib.util.module_from_spec(spec); spec.loader.exec_module(m)
    try: out = m.run()
    except m.Refuse as e: raise Broken("tr_propensity refused: %s" % e, str(e))
    p2 = os.path.join(os.path.dirname(p), "tr_iface.py")
    spec2 = importlib.util.spec_from_file_location("tr_iface", p2); m2 = importlib.util.module_from_spec(spec2); spec2.loader.exec_module(m2)
    try: out.update(m2.run())
    except m2.Refuse as e: raise Broken("tr_iface refused: %s" % e, str(e))
    return out

def gen_cases(seed, tier):
    rng = random.Random(seed * 7919 + 1)
    n = 250 if tier == "quick" else 3000
    cases = []
    for i in range(n):
        spec = G.gen_network(rng, max_order=rng.choice([2, 3, 4, 4, 6]), nrx=(1, 4), nsp=(1, 5), allow_delay=rng.random() < 0.4)
        # delayed parts enter the safe interface's requirement table: include "taken now, handed back after the delay" and
        # "taken after the delay" shapes (immediate and delayed coefficients of opposite / equal sign) -- seeded change S2_C01
        # zero-order mass action written with an explicit blank species string: evaluated by the GENERAL mass-action class with no
        # species (k in the plain modes, k*V in the volume modes) instead of the constitutive class  (seeded change S3_C01)
        for rx in spec["reactions"]:
            if rx["type"] == "massaction" and not rx["reactants"] and rng.random() < 0.5: rx["params"]["species"] = " "
        for rx in spec["reactions"]:
            if "delay" in rx and rx["reactants"] and rng.random() < 0.5: rx["delay"]["products"] = rx["delay"]["products"] + [rx["reactants"][0]]
            if "delay" in rx and rx["products"] and rng.random() < 0.25: rx["delay"]["reactants"] = rx["delay"]["reactants"] + [rx["products"][0]]
        pts = []
        for _ in range(4):
            x = {s: rng.choice([0.0, 1.0, 2.0, 3.0, 5.0, 7.0, G.dyadic(rng, 0, 9, 8), 0.5]) for s in spec["species"]}
            pts.append({"x": x, "V": rng.choice([0.25, 0.5, 1.0, 2.0, 4.0, round(rng.uniform(0.2, 5), 3)]), "t": 0.0})
        # one parameter-dictionary OBJECT reused for several mass-action reactions with different reactants (deg = {"k": kdeg} handed to A -> 0 and
        # B -> 0): each reaction keeps its own rate law and its own exported kinetic law (seeded changes S8_C01 / S8_C14, as S6_C06: the model
        # wrote the implicit 'species' string into the caller's dictionary)
        if rng.random() < 0.3:
            ma_ = [rx for rx in spec["reactions"] if rx["type"] == "massaction" and "species" not in rx["params"]]
            if len(ma_) >= 2:
                for rx in ma_[1:]: rx["params"] = dict(ma_[0]["params"])
                spec["shared_param_dicts"] = True
        cases.append({"spec": spec, "points": pts})
    return cases

def nontrivial(case):
    for rx in case["spec"]["reactions"]:
        if rx["type"] == "massaction" and len(rx["reactants"]) >= 3 and len(set(rx["reactants"])) < len(rx["reactants"]): return True
        if rx["type"] != "massaction":
            n = rx["params"].get("n"); nv = case["spec"]["parameters"].get(n, n) if isinstance(n, str) else n
            if nv is not None and float(nv) != int(float(nv)): return True
    return False

def impl_case(case):
    import numpy as np, warnings
    from bioscrape.simulator import ModelCSimInterface, SafeModelCSimInterface
    warnings.simplefilter("ignore")
    M = G.build_model(case["spec"])
    s2i = M.get_species2index(); pv = np.array(M.get_parameter_values(), dtype=float)
    props = M.get_propensities()
    I = ModelCSimInterface(M); S = SafeModelCSimInterface(M)
    enc = {"simif": G.simif_tokens(M), "props": [G.prop_tokens(M, i) for i in range(len(props))],
           "params": G.flist(pv), "s2i": s2i}
    vals = []
    for pt in case["points"]:
        x = np.zeros(len(s2i))
        for s, v in pt["x"].items(): x[s2i[s]] = v
        V, t = pt["V"], pt["t"]
        row = {"x": [fhex(v) for v in x], "bare": {}, "plain": {}, "safe": {}}
        for m in MODES:
            b = []
            for p in props:
                if m == "det": v = p.py_get_propensity(x.copy(), pv, t)
                elif m == "vol": v = p.py_get_volume_propensity(x.copy(), pv, V, t)
                elif m == "stoch": v = p.py_get_stochastic_propensity(x.copy(), pv, t)
                else: v = p.py_get_stochastic_volume_propensity(x.copy(), pv, V, t)
                b.append(fhex(v))
            row["bare"][m] = b
            row["plain"][m] = [fhex(v) for v in I.py_compute_propensities(x.copy(), t, IMPL_MODE[m], V)]
            row["safe"][m] = [fhex(v) for v in S.py_compute_propensities(x.copy(), t, IMPL_MODE[m], V)]
        vals.append(row)
    return {"enc": enc, "vals": vals}

def driver_line(case, r):
    if not r or "enc" not in r: return None
    lines = []
    for pt, row in zip(case["points"], r["vals"]):
        xs = [str(len(row["x"]))] + row["x"]
        for m in MODES:
            head = [m, fhex(pt["V"]), fhex(pt["t"])] + xs
            for pt_toks in r["enc"]["props"]:
                lines.append(" ".join(["prop"] + head + r["enc"]["params"] + pt_toks))
            lines.append(" ".join(["iface", "plain"] + head + r["enc"]["simif"]))
            lines.append(" ".join(["iface", "safe"] + head + r["enc"]["simif"]))
    return lines

def _uses_pow(rx):
    return rx["type"] != "massaction" or len(rx["reactants"]) >= 3

def _close(a, b, tol):
    if a == b: return True
    if math.isnan(a) or math.isnan(b): return math.isnan(a) and math.isnan(b)
    return abs(a - b) <= tol * max(abs(a), abs(b))

def compare(case, r, out):
    if not r or "vals" not in r: return "implementation failed: %r" % (r,)
    k = 0; rxs = case["spec"]["reactions"]
    for pt, row in zip(case["points"], r["vals"]):
        for m in MODES:
            for i, rx in enumerate(rxs):
                a, b = float.fromhex(out[k]) if out[k] not in ("nan", "inf", "-inf") else float(out[k]), float.fromhex(row["bare"][m][i]); k += 1
                if not _close(a, b, 1e-12 if _uses_pow(rx) else 0.0):
                    return "bare %s reaction %d mode %s at %r: model %r impl %r" % (rx["type"], i, m, pt, a, b)
            for which in ("plain", "safe"):
                mv = [float.fromhex(v) for v in out[k].split()] if out[k] else []; k += 1
                iv = [float.fromhex(v) for v in row[which][m]]
                if len(mv) != len(iv): return "%s interface length" % which
                for i, rx in enumerate(rxs):
                    if not _close(mv[i], iv[i], 1e-12 if _uses_pow(rx) else 0.0):
                        return "%s interface reaction %d (%s) mode %s at %r: model %r impl %r" % (which, i, rx["type"], m, pt, mv[i], iv[i])
    return None

# ------------------------------------------------------------------ oracle: closed forms
def closed_form(spec, rx, m, x, V):
    P = lambda k: Fr(spec["parameters"][rx["params"][k]]) if isinstance(rx["params"][k], str) else Fr(rx["params"][k])
    X = lambda s: Fr(x[s])
    if rx["type"] == "massaction":
        rs = rx["reactants"]; k = P("k"); val = k
        if m in ("det", "vol"):
            for s in rs: val *= X(s)
        else:
            for s in set(rs):
                for j in range(rs.count(s)): val *= max(X(s) - j, 0)
        if m in ("vol", "stochvol"):
            val = val * Fr(V) if len(rs) == 0 else val / Fr(V) ** (len(rs) - 1)
        return float(val), 1e-13
    k, K, n = float(P("k")), float(P("K")), float(P("n"))
    s = float(X(rx["params"]["s1"])); 
    if m in ("vol", "stochvol"): s = s / V
    h = (s / K) ** n if s > 0 else (1.0 if n == 0 else 0.0)
    val = k * h / (1 + h) if "positive" in rx["type"] else k / (1 + h)
    if rx["type"].startswith("proportional"): val *= float(X(rx["params"]["d"]))
    return val, 1e-10

def needs(rx):
    """full complement of reactants for the safe interface, from the net stoichiometry"""
    sp = set(rx["reactants"]) | set(rx["products"]); d = rx.get("delay", {"reactants": [], "products": []})
    sp |= set(d["reactants"]) | set(d["products"]); out = {}
    for s in sp:
        a = rx["products"].count(s) - rx["reactants"].count(s); b = d["products"].count(s) - d["reactants"].count(s)
        if a < 0 or b < 0: out[s] = -(a + b) if (a < 0 and b < 0) else -min(a, b)
    return out

def oracle(case, r):
    if not r or "vals" not in r: return "implementation failed: %s" % json.dumps(r)[:400]
    spec = case["spec"]
    for pt, row in zip(case["points"], r["vals"]):
        for m in MODES:
            for i, rx in enumerate(spec["reactions"]):
                want, tol = closed_form(spec, rx, m, pt["x"], pt["V"])
                got = float.fromhex(row["bare"][m][i])
                if not _close(got, want, tol):
                    return "%s order %d mode %s: propensity object gives %r, closed form %r at x=%r V=%r" % (rx["type"], len(rx["reactants"]), m, got, want, pt["x"], pt["V"])
                gp = float.fromhex(row["plain"][m][i])
                if not _close(gp, want, tol):
                    return "%s mode %s: plain interface gives %r, closed form %r at x=%r V=%r" % (rx["type"], m, gp, want, pt["x"], pt["V"])
                gs = float.fromhex(row["safe"][m][i])
                short = any(pt["x"][s] < a for s, a in needs(rx).items())
                wants = 0.0 if (short and m in ("stoch", "stochvol")) else max(want, 0.0)
                if not _close(gs, wants, tol):
                    return "%s mode %s: safe interface gives %r, expected %r (short=%s) at x=%r V=%r" % (rx["type"], m, gs, wants, short, pt["x"], pt["V"])
    return None

def site(case, msg):
    return msg.split(":")[0] if msg else "any"

def shrink(case, fails):
    from harness.shrink import shrink_list
    spec = case["spec"]
    rx = shrink_list(spec["reactions"], lambda cands: fails([dict(case, spec=dict(spec, reactions=c)) for c in cands]))
    case = dict(case, spec=dict(spec, reactions=rx))
    pts = shrink_list(case["points"], lambda cands: fails([dict(case, points=c) for c in cands]))
    return dict(case, points=pts)

def stats(cases):
    from collections import Counter
    kinds = Counter(rx["type"] for c in cases for rx in c["spec"]["reactions"])
    orders = Counter(len(rx["reactants"]) for c in cases for rx in c["spec"]["reactions"] if rx["type"] == "massaction")
    return {"rate_law_kinds": dict(kinds), "massaction_orders": {str(k): v for k, v in sorted(orders.items())}}

def key(case): return json.dumps(case["spec"], sort_keys=True)
