"""C17: copies and pickles.  Translator tie: tools/tr_pickle.py regenerates coq/Gen/Pickle.v (field lists of
__getstate__/__setstate__, rebuilt vectors, declared attributes) from the current sources; Props/C17.v proves the
generic round-trip theorem and checks the generated layouts.  Behavioural oracle: pickled / deep-copied models
(plain and lineage), copies of copies, before and after simulations and edits: same species, parameters,
stoichiometry, rates in four modes, delays, rules, identical seeded simulations; editing one leaves the other
unchanged; results, cell states, Schnitzes and lineages survive pickling with data and links."""
import copy, json, math, pickle, random
from harness import modelgen as G
from harness.common import Broken
PID = "C17"; COQ_TARGET = "C17"
RULE = ("random models over every propensity kind (incl. general expressions using every node type), delays of each family, additive / assignment / ode rules; pickled or deep-copied, "
        "initialised or not, before or after a simulation and an edit, copies of copies; lineage models with volume/division/death rules and events and each splitter; "
        "non-trivial = a general propensity, a delay or a rule is present")
TRUSTED = ["translator tools/tr_pickle.py (regex-based, fail-closed) for the layouts", "CPython's pickle protocol and Cython's auto-pickle are outside the model: decided by the behavioural run"]
ASSUMPTIONS = ["tools/tr_pickle_exceptions.json lists attributes that are deliberately not saved (txt_dict: dead attribute)"]
NODE_POOL = ["kg*%s", "kg*%s*%s", "kg*%s/(1+%s)", "kg*%s^2/(Kg+%s^2)", "kg*exp(-%s/Kg)", "kg*Heaviside(%s-1.5)", "kg*Max(%s,%s)", "kg*Min(%s,2)", "kg*Abs(%s-%s)", "kg*log(1+%s)", "kg*(1+t)*%s", "kg*volume*%s"]

def translate():
    import importlib.util, os
    p = os.path.join(os.path.dirname(os.path.dirname(os.path.dirname(os.path.abspath(__file__)))), "tools", "tr_pickle.py")
    spec = importlib.util.spec_from_file_location("tr_pickle", p); m = importlib.util.module_from_spec(spec); spec.loader.exec_module(m)
    try: return m.run()
    except m.Refuse as e: raise Broken("tr_pickle refused: %s" % e, str(e))

def gen_cases(seed, tier):
    rng = random.Random(seed * 8009 + 17); n = 80 if tier == "quick" else 1000
    cases = []
    for _ in range(n):
        spec = G.gen_network(rng, kinds=("massaction", "massaction") + tuple(G.HILL) + ("general", "general"), nrx=(1, 4), nsp=(1, 4), max_order=4, allow_delay=rng.random() < 0.5,
                             general_pool=NODE_POOL, bounded=True, integer_state=True)
        spec["species"] = list(spec["x0"].keys())
        G.gen_rules(rng, spec, maxn=2)
        spec["species"] = list(spec["x0"].keys())
        for k in list(spec["parameters"]):
            if k.startswith(("k_", "kg_")): spec["parameters"][k] = rng.choice([0.05, 0.1, 0.3])
        cases.append({"kind": "model", "spec": spec, "how": rng.choice(["pickle", "deepcopy", "pickle_twice", "copy_of_copy"]), "when": rng.choice(["fresh", "uninitialised", "after_sim", "after_edit", "after_edit_uninit", "after_edit_uninit"]),
                      "seed": rng.randint(1, 2**31), "points": [{s: float(rng.randint(0, 6)) for s in spec["x0"]} for _ in range(2)]})
    for _ in range(25 if tier == "quick" else 300):
        cases.append({"kind": "lineage", "seed": rng.randint(1, 2**31), "splitter": rng.choice(["perfect", "general", "lineage"]), "how": rng.choice(["pickle", "deepcopy"]),
                      "growth": rng.choice([0.3, 0.6]), "div": rng.choice([1.8, 2.2]), "k": rng.choice([0.5, 1.0]),
                      # division by a rule, by an event, or both, next to the death event: the kinds of events are told apart by POSITION in
                      # one flat propensity list (seeded change S4_C17: the restored model listed death events before division events)
                      "divide_by": rng.choice(["rule", "event", "both"]), "init_twice": rng.random() < 0.4, "death_k": rng.choice([0.01, 0.15, 0.3])})
    # cell states (the records handed from mother to daughter, and what a lineage is continued from): every field survives a copy,
    # for every value of the fields -- including 0.0 for the current time / volume next to a non-zero birth time (seeded change S3_C17)
    for _ in range(40 if tier == "quick" else 400):
        cases.append({"kind": "cellstate", "how": rng.choice(["pickle", "deepcopy", "pickle_twice"]), "cls": rng.choice(["lineage", "lineage", "volume", "delayvolume"]),
                      "v0": rng.choice([0.5, 1.0, 2.5]), "t0": rng.choice([-3.0, -1.0, 0.0, 0.0, 2.0]), "volume": rng.choice([None, 0.0, 1.25, 3.0]), "time": rng.choice([None, 0.0, 0.0, 0.5, 4.0]),
                      "state": [float(rng.randint(0, 9)) for _ in range(rng.randint(1, 4))], "divided": rng.choice([-1, 0, 2]), "dead": rng.choice([-1, -1, 1]), "seed": rng.randint(1, 2**31),
                      "advance": rng.randint(0, 5), "adds": [[rng.choice([0.0, 0.5, 1.0, 1.5]), rng.randint(0, 1), float(rng.randint(1, 4))] for _ in range(rng.randint(0, 4))]})
    return cases

def _cellstate_case(case):
    import numpy as np
    from bioscrape.lineage import LineageVolumeCellState
    from bioscrape.simulator import VolumeCellState
    if case["cls"] == "lineage":
        kw = {"v0": case["v0"], "t0": case["t0"], "state": np.array(case["state"]), "divided": case["divided"], "dead": case["dead"]}
        if case["volume"] is not None: kw["volume"] = case["volume"]
        if case["time"] is not None: kw["time"] = case["time"]
        cs = LineageVolumeCellState(**kw)
        def get(c):
            g = c.__getstate__()       # (initial_volume, initial_time, state, volume, time, divided, dead): the flags have no Python getter
            return {"time": float(c.py_get_time()), "volume": float(c.py_get_volume()), "t0": float(c.py_get_initial_time()), "v0": float(c.py_get_initial_volume()),
                    "state": np.asarray(c.py_get_state()).tolist(), "divided": int(g[5]), "dead": int(g[6])}
    elif case["cls"] == "volume":
        cs = VolumeCellState(time=case["time"] if case["time"] is not None else 0.0, state=np.array(case["state"]), volume=case["volume"] if case["volume"] is not None else case["v0"])
        get = lambda c: {"time": float(c.py_get_time()), "volume": float(c.py_get_volume()), "state": np.asarray(c.py_get_state()).tolist()}
    else:
        from bioscrape.simulator import DelayVolumeCellState, ArrayDelayQueue
        q = ArrayDelayQueue.setup_queue(2, 4, 0.5); q.py_add_reaction(0.7, 1, 2.0)
        # a queue that has been in use: its read position is not at column 0 and entries are pending behind it in the ring
        # (seeded change S5_C17: the restored cell state's queue was rebuilt with the read position reset)
        for _k in range(int(case.get("advance", 0))): q.py_advance_time()
        for _j, (_t, _r, _a) in enumerate(case.get("adds", [])): q.py_add_reaction(q.py_get_next_queue_time() + _t, _r, _a)
        cs = DelayVolumeCellState(time=case["time"] if case["time"] is not None else 0.0, state=np.array(case["state"]), volume=case["volume"] if case["volume"] is not None else case["v0"], queue=q)
        def qdump(c):
            qq = c.py_get_delay_queue()
            if qq is None: return None
            c2_ = qq.py_copy(); out_ = [float(c2_.py_get_next_queue_time())]
            for _ in range(4):
                a_ = np.zeros(2); c2_.py_get_next_reactions(a_); out_ += [float(v) for v in a_]; c2_.py_advance_time()
            return out_
        get = lambda c: {"time": float(c.py_get_time()), "volume": float(c.py_get_volume()), "state": np.asarray(c.py_get_state()).tolist(), "has_queue": c.py_get_delay_queue() is not None, "queue": qdump(c)}
    c2 = _dup(cs, case["how"]); a, b = get(cs), get(c2)
    out = {"problems": []}
    want_time = case["time"] if case["time"] is not None else (case["t0"] if case["cls"] == "lineage" else 0.0)
    if a["time"] != want_time: out["problems"].append("cell state: constructed with time=%r (birth time %r) but reports time %r" % (case["time"], case["t0"], a["time"]))
    for k in a:
        if a[k] != b[k]: out["problems"].append("cell state: field %s: original %r copy %r (%s)" % (k, a[k], b[k], case["how"]))
    c2.py_set_state(np.array(case["state"]) + 1.0)
    if get(cs)["state"] != a["state"]: out["problems"].append("independence: editing the copied cell state changed the original")
    if case["cls"] == "delayvolume":
        # last: what the two queues actually DELIVER when they are used (read and advanced themselves, not through a copy)
        def drain(c):
            qq = c.py_get_delay_queue(); o_ = [float(qq.py_get_next_queue_time())]
            for _ in range(4):
                a_ = np.zeros(2); qq.py_get_next_reactions(a_); o_ += [float(v) for v in a_]; qq.py_advance_time()
            return o_
        da, db = drain(cs), drain(c2)
        if da != db: out["problems"].append("cell state: the delay queue of the copy delivers %r, the original's %r (%s)" % (db, da, case["how"]))
    return out

def _observe(M, points, V=2.0):
    import numpy as np
    s2i = M.get_species2index(); pv = np.array(M.get_parameter_values(), dtype=float)
    out = {"species": {s: float(v) for s, v in M.get_species_dictionary().items()}, "params": {k: float(v) for k, v in M.get_parameter_dictionary().items()},
           "S": np.asarray(M.py_get_update_array()).tolist(), "Sd": np.asarray(M.py_get_delay_update_array()).tolist(),
           "delays": [type(d).__name__ for d in M.get_delays()], "has_delays": bool(M.has_delays()), "n_reactions": int(M.get_number_of_reactions()) if hasattr(M, "get_number_of_reactions") else len(M.get_propensities()), "rules": [[r[0], json.dumps(r[1], sort_keys=True), str(r[2])] for r in M.get_rules()], "rates": [], "delay_vals": []}
    for pt in points:
        x = np.zeros(len(s2i))
        for s, v in pt.items():
            if s in s2i: x[s2i[s]] = v
        out["rates"].append([[float(p.py_get_propensity(x.copy(), pv, 0.5)), float(p.py_get_volume_propensity(x.copy(), pv, V, 0.5)),
                              float(p.py_get_stochastic_propensity(x.copy(), pv, 0.5)), float(p.py_get_stochastic_volume_propensity(x.copy(), pv, V, 0.5))] for p in M.get_propensities()])
    return out

def _sim(M, seed, delay):
    import numpy as np
    from bioscrape.simulator import py_simulate_model
    from bioscrape.random import py_seed_random
    T = np.linspace(0, 3, 7)
    py_seed_random(seed)
    try: a = np.asarray(py_simulate_model(T, Model=M, stochastic=True, delay=delay, safe=True, return_dataframe=False).py_get_result()).tolist()
    except Exception as e: a = "EXC:" + type(e).__name__
    try: b = np.asarray(py_simulate_model(T, Model=M, stochastic=False, safe=False, return_dataframe=False).py_get_result()).tolist()
    except Exception as e: b = "EXC:" + type(e).__name__      # e.g. LSODA overshoots below zero under a fractional Hill exponent
    return {"stoch": a, "det": b}

def _dup(M, how):
    if how == "pickle": return pickle.loads(pickle.dumps(M))
    if how == "deepcopy": return copy.deepcopy(M)
    if how == "pickle_twice": return pickle.loads(pickle.dumps(pickle.loads(pickle.dumps(M))))
    return copy.deepcopy(pickle.loads(pickle.dumps(M)))

def _nan_eq(a, b):
    if isinstance(a, list): return isinstance(b, list) and len(a) == len(b) and all(_nan_eq(x, y) for x, y in zip(a, b))
    if isinstance(a, dict): return isinstance(b, dict) and set(a) == set(b) and all(_nan_eq(a[k], b[k]) for k in a)
    if isinstance(a, float) and isinstance(b, float): return a == b or (math.isnan(a) and math.isnan(b))
    return a == b

def impl_case(case):
    import numpy as np, warnings
    warnings.simplefilter("ignore")
    if case["kind"] == "lineage": return _lineage_case(case)
    if case["kind"] == "cellstate": return _cellstate_case(case)
    M = G.build_model(case["spec"], initialize=(case["when"] != "uninitialised"))
    has_delay = any("delay" in rx for rx in case["spec"]["reactions"])
    if case["when"] == "after_sim": _sim(M, 3, has_delay)
    if case["when"] == "after_edit":
        M.create_parameter("extra_p", 2.5); M.create_reaction(["Znew"], [], "massaction", {"k": "extra_p"}); M.set_species({"Znew": 4.0}); M.py_initialize()
    if case["when"] == "after_edit_uninit":
        # edited since the last initialisation and copied BEFORE re-initialisation: a (first or further) delayed reaction and a new
        # parameter; flags and lists that are only rebuilt at initialisation are stale at this moment (seeded changes S_C17, S2_C17)
        M.create_parameter("extra_p", 2.5); M.create_reaction(["Znew"], [], "massaction", {"k": "extra_p"}, "fixed", [], ["Znew2"], {"delay": 0.5}); M.set_species({"Znew": 4.0})
        has_delay = True
    C = _dup(M, case["how"])
    out = {"problems": []}
    if bool(M.has_delays()) != bool(C.has_delays()): out["problems"].append("observation has_delays: original %r copy %r (copied %s)" % (bool(M.has_delays()), bool(C.has_delays()), case["when"]))
    if case["when"] in ("uninitialised", "after_edit_uninit"): M.py_initialize(); C.py_initialize()
    pts = [dict(p, Znew=2.0, Znew2=0.0) for p in case["points"]]
    oa, ob = _observe(M, pts), _observe(C, pts)
    for k in oa:
        if not _nan_eq(oa[k], ob[k]): out["problems"].append("observation %s: original %r copy %r" % (k, str(oa[k])[:200], str(ob[k])[:200]))
    sa, sb = _sim(M, case["seed"], has_delay), _sim(C, case["seed"], has_delay)
    for k in sa:
        if not _nan_eq(sa[k], sb[k]): out["problems"].append("simulation %s from the same seed differs between original and copy" % k)
    # independence: edit the copy, the original must not move (and vice versa)
    before = _observe(M, pts)
    C.set_params({k: v + 1.0 for k, v in list(C.get_parameter_dictionary().items())[:2]}); C.set_species({s: 9.0 for s in list(C.get_species_dictionary())[:1]})
    C.create_reaction([list(C.get_species_dictionary())[0]], [], "massaction", {"k": 0.123}); C.py_initialize()
    after = _observe(M, pts)
    for k in before:
        if not _nan_eq(before[k], after[k]): out["problems"].append("independence: editing the copy changed the original's %s" % k)
    return out

def _lineage_case(case):
    import numpy as np, warnings
    from bioscrape.lineage import LineageModel, LineageVolumeSplitter, py_SimulateCellLineage, LineageSSASimulator
    from bioscrape.simulator import PerfectBinomialVolumeSplitter, GeneralVolumeSplitter
    from bioscrape.random import py_seed_random
    warnings.simplefilter("ignore")
    M = LineageModel(species=["A", "B"], reactions=[([], ["A"], "massaction", {"k": case["k"]}), (["A"], ["B"], "massaction", {"k": 0.3})], initial_condition_dict={"A": 4, "B": 1})
    # lineage simulations cast the daughters to LineageVolumeCellState unchecked: only LineageVolumeSplitter is valid there;
    # the simulator-level splitters are pickled and exercised through py_partition below
    vs = LineageVolumeSplitter(M, options={"A": "binomial", "B": "perfect"}, partition_noise=0.2)
    out_split = []
    if case["splitter"] in ("perfect", "general"):
        from bioscrape.simulator import VolumeCellState
        if case["splitter"] == "perfect": sp0 = PerfectBinomialVolumeSplitter()
        else:
            sp0 = GeneralVolumeSplitter(); sp0.py_set_partitioning({"default": "binomial", "B": "duplicate"}, M); sp0.py_set_partition_noise(0.3)
        sp1 = pickle.loads(pickle.dumps(sp0)) if case["how"] == "pickle" else copy.deepcopy(sp0)
        def part(sp):
            cs = VolumeCellState(time=1.0, state=np.array([7.0, 4.0]), volume=2.0)
            py_seed_random(case["seed"]); d = sp.py_partition(cs)
            return [(np.asarray(x.py_get_state()).tolist(), float(x.py_get_volume())) for x in d]
        if part(sp0) != part(sp1): out_split.append("splitter %s: partition from the same seed differs after %s" % (case["splitter"], case["how"]))
    M.create_volume_rule("linear", {"growth_rate": case["growth"]})
    if case.get("divide_by", "rule") in ("rule", "both"): M.create_division_rule("volume", {"threshold": case["div"]}, vs)
    if case.get("divide_by", "rule") in ("event", "both"): M.create_division_event("division", {}, "massaction", {"k": 0.4, "species": ""}, vs)
    M.create_death_event("death", {}, "massaction", {"k": case.get("death_k", 0.01), "species": ""})
    M.py_initialize()
    # a model that has been initialised more than once with its events in place (every simulation entry point may do that): what a copy
    # carries must not depend on it (seeded change S6_C17: event counts taken from lists that grow with every initialisation)
    if case.get("init_twice"): M.py_initialize()
    C = pickle.loads(pickle.dumps(M)) if case["how"] == "pickle" else copy.deepcopy(M)
    T = np.arange(0, 6.0, 0.25)
    def run(model):
        py_seed_random(case["seed"]); lin = py_SimulateCellLineage(T, Model=model, initial_cell_count=1)
        return [(np.asarray(lin.py_get_schnitz(i).py_get_time()).tolist(), np.asarray(lin.py_get_schnitz(i).py_get_data()).tolist(), np.asarray(lin.py_get_schnitz(i).py_get_volume()).tolist()) for i in range(lin.py_size())], lin
    out = {"problems": list(out_split)}
    a, lin = run(M)
    b, _ = run(C)
    if not _nan_eq(a, b): out["problems"].append("lineage simulation from the same seed differs between original and %s (%d vs %d cells)" % (case["how"], len(a), len(b)))
    if _observe(M, [{"A": 3.0, "B": 2.0}]) != _observe(C, [{"A": 3.0, "B": 2.0}]): out["problems"].append("lineage model observations differ after %s" % case["how"])
    # results / lineages survive pickling with data and links
    lin2 = pickle.loads(pickle.dumps(lin))
    if lin2.py_size() != lin.py_size(): out["problems"].append("pickled lineage has %d cells, original %d" % (lin2.py_size(), lin.py_size()))
    else:
        idx = {id(lin.py_get_schnitz(i)): i for i in range(lin.py_size())}; idx2 = {id(lin2.py_get_schnitz(i)): i for i in range(lin2.py_size())}
        for i in range(lin.py_size()):
            s, s2 = lin.py_get_schnitz(i), lin2.py_get_schnitz(i)
            if not _nan_eq(np.asarray(s.py_get_data()).tolist(), np.asarray(s2.py_get_data()).tolist()) or not _nan_eq(np.asarray(s.py_get_volume()).tolist(), np.asarray(s2.py_get_volume()).tolist()):
                out["problems"].append("pickled lineage: data of cell %d differ" % i); break
            p, p2 = s.py_get_parent(), s2.py_get_parent()
            if (p is None) != (p2 is None) or (p is not None and idx.get(id(p)) != idx2.get(id(p2))): out["problems"].append("pickled lineage: parent link of cell %d differs" % i); break
            d, d2 = s.py_get_daughters(), s2.py_get_daughters()
            da = [idx.get(id(x)) if x is not None else None for x in d]; db = [idx2.get(id(x)) if x is not None else None for x in d2]
            if da != db: out["problems"].append("pickled lineage: daughter links of cell %d differ (%r vs %r)" % (i, da, db)); break
    # one cell of the lineage pickled / deep-copied ON ITS OWN (a branch handed to an analysis): it still knows its mother, with her data,
    # and a cell linked upwards only (py_set_parent, as tracking data are assembled) keeps that link  (seeded change S7_C17: the mother link
    # was dropped from the pickle and restored only from the mother's daughter slots)
    kids = [i for i in range(lin.py_size()) if lin.py_get_schnitz(i).py_get_parent() is not None]
    for i in kids[:3]:
        s = lin.py_get_schnitz(i); s2 = pickle.loads(pickle.dumps(s)) if case["how"] == "pickle" else copy.deepcopy(s)
        p, p2 = s.py_get_parent(), s2.py_get_parent()
        if p2 is None: out["problems"].append("cell pickled on its own: mother link of cell %d lost (original has a mother)" % i); break
        if not _nan_eq(np.asarray(p.py_get_data()).tolist(), np.asarray(p2.py_get_data()).tolist()): out["problems"].append("cell pickled on its own: the mother of cell %d has other data" % i); break
        if not _nan_eq(np.asarray(s.py_get_data()).tolist(), np.asarray(s2.py_get_data()).tolist()): out["problems"].append("cell pickled on its own: data of cell %d differ" % i); break
    if lin.py_size() >= 1:
        from bioscrape.types import Schnitz
        root = lin.py_get_schnitz(0)
        orphan = Schnitz(np.asarray(root.py_get_time()).copy(), np.asarray(root.py_get_data()).copy() + 1.0, np.asarray(root.py_get_volume()).copy()); orphan.py_set_parent(root)
        o2 = pickle.loads(pickle.dumps(orphan)) if case["how"] == "pickle" else copy.deepcopy(orphan)
        if o2.py_get_parent() is None: out["problems"].append("cell linked with py_set_parent: mother link lost after %s" % case["how"])
        elif not _nan_eq(np.asarray(o2.py_get_parent().py_get_data()).tolist(), np.asarray(root.py_get_data()).tolist()): out["problems"].append("cell linked with py_set_parent: mother's data differ after %s" % case["how"])
    out["cells"] = len(a)
    return out

def driver_line(case, r): return None
def compare(case, r, out): return None
def oracle(case, r):
    if not r or "problems" not in r: return "copy failed: %s" % json.dumps(r)[:400]
    return [p for p in r["problems"]][:3] or None
def site(case, msg): return (msg or "any").split(":")[0].split(" of ")[0][:40]
def nontrivial(case):
    if case["kind"] in ("lineage", "cellstate"): return True
    return any(rx["type"] == "general" or "delay" in rx for rx in case["spec"]["reactions"]) or bool(case["spec"].get("rules"))
def key(case): return json.dumps(case, sort_keys=True)
def stats(cases):
    from collections import Counter
    return {"kinds": dict(Counter(c["kind"] for c in cases)), "how": dict(Counter(c["how"] for c in cases)), "when": dict(Counter(c.get("when", "-") for c in cases))}
def extra_checks(ctx):
    return {"obligations": 0}
