"""C02: expressions.  Correspondence: (a) Model/Term.v evaluators (extracted, doubles) vs the Term object
built by the implementation, at sampled points, with and without volume; (b) Model/Sympy.v translate vs the
node tree the implementation built from the same sympy tree.  Oracle: the written expression tree is
evaluated independently in Python at the same points; unknown names / unsupported functions / unbalanced
strings must be rejected at build time."""
import json, math, random
from harness.common import fhex
from harness import modelgen as G
PID = "C02"; COQ_TARGET = "C02"
SPECIES = ["A", "B2", "X_1", "C", "S", "E", "N"]
PARAMS = ["k", "k_2", "O", "Q", "I", "alpha9"]        # 'I', 'O', 'Q', 'N', 'E', 'S', 'C' collide with sympy constants/functions
UNDERSCORE_PARAMS = ["_k", "_alpha9", "__k"]          # spelled with a leading underscore in the formula; exactly ONE leading underscore is the escape: __k reads the parameter _k (seeded change S8_C02: every leading underscore stripped)
RULE = ("random expression trees of depth <= 5 over + - * / ^ exp log abs Heaviside Max Min, numbers, species, parameters (incl. names colliding with sympy constants and "
        "leading-underscore spellings), t, volume; printed to strings; compiled as general propensity / assignment rule / parse_expression; evaluated at 3 finite points "
        "with and without volume; malformed stream: unknown names, unsupported functions, unbalanced parentheses, constant sub-expressions without a real value; non-trivial = depth >= 3 and a colliding or underscore name")
TRUSTED = ["hand models coq/Model/Term.v, Sympy.v tied by correspondence", "sympy's parser and automatic simplification are outside the model (sampled)",
           "values passing through ** compared with relative tolerance 1e-12 (Cython's complex pow)"]
ASSUMPTIONS = ["Heaviside arguments kept >= 1e-3 away from 0; only finite points are compared", "oracle tolerance 1e-9 relative"]

def gen_tree(rng, depth):
    if depth == 0 or rng.random() < 0.25:
        k = rng.random()
        if k < 0.3: return ["num", rng.choice([0.5, 1.0, 2.0, 3.0, 1.5, 0.25, 7.0])]
        if k < 0.6: return ["sp", rng.choice(SPECIES)]
        if k < 0.85: return ["par", rng.choice(PARAMS + UNDERSCORE_PARAMS)]
        if k < 0.93: return ["t"]
        return ["vol"]
    op = rng.choice(["add", "add", "mul", "mul", "sub", "div", "pow", "exp", "log", "abs", "hea", "max", "min"])
    if op in ("add", "mul", "max", "min"): return [op] + [gen_tree(rng, depth - 1) for _ in range(rng.randint(2, 3))]
    if op in ("sub", "div"): return [op, gen_tree(rng, depth - 1), gen_tree(rng, depth - 1)]
    if op == "pow": return [op, gen_tree(rng, depth - 1), ["num", rng.choice([2.0, 3.0, 0.5, 1.5])]]
    return [op, gen_tree(rng, depth - 1)]

def to_string(tr, rng=None):
    k = tr[0]
    if k == "num": return repr(tr[1])
    if k in ("sp", "par"): return tr[1]
    if k == "t": return "t"
    if k == "vol": return "volume"
    if k == "add": return "(" + " + ".join(to_string(a) for a in tr[1:]) + ")"
    if k == "mul": return "(" + "*".join(to_string(a) for a in tr[1:]) + ")"
    if k == "sub": return "(%s - %s)" % (to_string(tr[1]), to_string(tr[2]))
    if k == "div": return "(%s/%s)" % (to_string(tr[1]), to_string(tr[2]))
    if k == "pow": return "(%s^%s)" % (to_string(tr[1]), to_string(tr[2]))
    if k == "exp": return "exp(%s)" % to_string(tr[1])
    if k == "log": return "log(%s)" % to_string(tr[1])
    if k == "abs": return "Abs(%s)" % to_string(tr[1])
    if k == "hea": return "Heaviside(%s)" % to_string(tr[1])
    if k == "max": return "Max(%s)" % ", ".join(to_string(a) for a in tr[1:])
    if k == "min": return "Min(%s)" % ", ".join(to_string(a) for a in tr[1:])
    raise ValueError(k)

class _Und(Exception): pass
def py_eval(tr, env, vol):
    """independent evaluation of the written tree; raises _Und where it is not finite / Heaviside too close to 0"""
    k = tr[0]
    if k == "num": return tr[1]
    if k == "sp": return env[tr[1]]
    if k == "par": return env[tr[1][1:] if tr[1].startswith("_") else tr[1]]
    if k == "t": return env["t"]
    if k == "vol": return 1.0 if vol is None else vol
    a = [py_eval(x, env, vol) for x in tr[1:]]
    try:
        if k == "add": return math.fsum(a)
        if k == "mul": return math.prod(a)
        if k == "sub": return a[0] - a[1]
        if k == "div":
            if a[1] == 0: raise _Und()
            return a[0] / a[1]
        if k == "pow":
            if a[0] < 0 and a[1] != int(a[1]): raise _Und()
            if a[0] == 0 and a[1] < 0: raise _Und()
            return a[0] ** a[1]
        if k == "exp": return math.exp(a[0])
        if k == "log":
            if a[0] <= 0: raise _Und()
            return math.log(a[0])
        if k == "abs": return abs(a[0])
        if k == "hea":
            if abs(a[0]) < 1e-3: raise _Und()
            return 1.0 if a[0] >= 0 else 0.0
        if k == "max": return max(a)
        if k == "min": return min(a)
    except (OverflowError, ValueError):
        raise _Und()
    raise ValueError(k)

def depth(tr): return 0 if tr[0] in ("num", "sp", "par", "t", "vol") else 1 + max(depth(x) for x in tr[1:])
def names(tr): return [tr[1]] if tr[0] in ("sp", "par") else [n for x in tr[1:] if isinstance(x, list) for n in names(x)]

def gen_cases(seed, tier):
    rng = random.Random(seed * 3011 + 2); n = 300 if tier == "quick" else 4000
    cases = []
    for _ in range(n):
        tr = gen_tree(rng, rng.randint(1, 5))
        pts = []
        for _ in range(3):
            env = {s: rng.choice([0.0, 1.0, 2.0, 3.5, 6.0, 0.25]) for s in SPECIES}
            env.update({p: rng.choice([0.5, 1.0, 2.0, 0.1, 4.0]) for p in PARAMS}); env["t"] = rng.choice([0.0, 0.5, 2.0])
            env.setdefault("_k", 7.0 + 4.0 * (len(pts) % 2)); pts.append({"env": env, "V": rng.choice([0.5, 2.0, 3.0])})
        cases.append({"kind": "expr", "tree": tr, "string": to_string(tr), "points": pts, "via": rng.choice(["propensity", "rule", "parse", "oderule"])})
    # volume sweep: every operator x every argument position carries a volume-bearing subtree, the other positions simple
    # fillers; more evaluation points, so that for Max / Min the volume-bearing argument decides the value at some of them
    # (added after the seeded change S_C02: MinTerm.volume_evaluate reading its first argument without the volume)
    volsubs = [["vol"], ["mul", ["vol"], ["par", PARAMS[0]]], ["pow", ["vol"], ["num", 2.0]], ["div", ["sp", SPECIES[0]], ["vol"]], ["add", ["vol"], ["sp", SPECIES[1]]]]
    def filler():
        k = rng.random()
        if k < 0.4: return ["sp", rng.choice(SPECIES)]
        if k < 0.7: return ["add", ["sp", rng.choice(SPECIES)], ["num", rng.choice([0.5, 1.0, 2.0])]]
        return ["mul", ["par", rng.choice(PARAMS)], ["sp", rng.choice(SPECIES)]]
    reps = 1 if tier == "quick" else 6
    for _ in range(reps):
        for op, arities in (("add", (2, 3)), ("mul", (2, 3)), ("max", (2, 3)), ("min", (2, 3)), ("sub", (2,)), ("div", (2,)), ("pow", (2,)), ("exp", (1,)), ("log", (1,)), ("abs", (1,)), ("hea", (1,))):
            for ar in arities:
                for pos in range(ar if op != "pow" else 1):
                    for vs in volsubs:
                        args = [filler() for _ in range(ar)]; args[pos] = vs
                        if op == "pow": args[1] = ["num", rng.choice([2.0, 3.0, 0.5])]
                        tr = [op] + args
                        if rng.random() < 0.3: tr = ["add", tr, ["t"]]
                        pts = []
                        for _ in range(6):
                            env = {s_: rng.choice([0.0, 1.0, 2.0, 3.5, 6.0, 0.25]) for s_ in SPECIES}
                            env.update({p_: rng.choice([0.5, 1.0, 2.0, 0.1, 4.0]) for p_ in PARAMS}); env["t"] = rng.choice([0.0, 0.5, 2.0])
                            env.setdefault("_k", 7.0 + 4.0 * (len(pts) % 2)); pts.append({"env": env, "V": rng.choice([0.5, 2.5, 3.0, 0.2])})
                        cases.append({"kind": "expr", "tree": tr, "string": to_string(tr), "points": pts, "via": rng.choice(["propensity", "rule", "parse", "oderule"]), "family": "volsweep"})
    # role swap: ONE expression text compiled in several models of the same process in which its names change role (species /
    # parameter) and position (padding species and parameters shift the indices): every build must evaluate to the written
    # formula, whatever was compiled before (seeded change S2_C02: a parse cache keyed by text and slot numbers)
    RN = ["na", "nb", "nc", "I", "X", "gain"]
    def rtree(d):
        if d == 0 or rng.random() < 0.3: return ["sp", rng.choice(RN)] if rng.random() < 0.8 else ["num", rng.choice([0.5, 2.0, 3.0])]
        op = rng.choice(["add", "mul", "div", "pow", "max"])      # no differences: x - x or 1/(x - x) is degenerate (sympy: 0, zoo)
        if op == "pow": return [op, rtree(d - 1), ["num", 2.0]]
        if op == "div": return [op, rtree(d - 1), ["add", ["num", 1.0], rtree(d - 1)]]
        return [op, rtree(d - 1), rtree(d - 1)]
    for _ in range(25 if tier == "quick" else 300):
        tr = rtree(rng.randint(2, 3)); used = sorted(set(names(tr)))
        if not used: continue
        builds = []
        for _b in range(6):
            sp_ = [n_ for n_ in used if rng.random() < 0.5]; pr_ = [n_ for n_ in used if n_ not in sp_]
            sp_ = ["pad_s%d" % i for i in range(rng.randint(0, 3))] + sp_; pr_ = ["pad_p%d" % i for i in range(rng.randint(0, 3))] + pr_
            rng.shuffle(sp_); rng.shuffle(pr_)
            builds.append({"species": sp_, "params": pr_})
        pts = [{"env": dict({n_: rng.choice([0.25, 1.0, 2.0, 3.5, 6.0]) for n_ in used}, t=0.5), "V": 2.0} for _ in range(2)]
        cases.append({"kind": "roles", "tree": tr, "string": to_string(tr), "builds": builds, "points": pts, "via": "propensity"})
    for _ in range(40 if tier == "quick" else 400):
        bad = rng.choice(["unknown", "function", "unbalanced", "unknown_under", "nonreal_pow", "nonreal_log", "nonreal_max"])
        base = to_string(gen_tree(rng, 2))
        # a constant sub-expression without a real value has no meaning as a rate: it must be rejected, not quietly replaced by a number
        # (seeded change S4_C02: non-real constants became 0)
        s = {"unknown": base + " + zz_unknown", "function": "sin(A + 1.5) + " + base, "unbalanced": "(" + base, "unknown_under": base + " + 3*_nosuch",
             "nonreal_pow": base + " + (0.5 - 4.5)^0.5", "nonreal_log": "log(-1.5) + " + base, "nonreal_max": "Max(A, exp((-4.0)^0.5))"}[bad]
        cases.append({"kind": "malformed", "string": s, "bad": bad, "via": rng.choice(["propensity", "rule", "parse"])})
    return cases

def _build(string, via):
    """returns (term object, model); raises whatever the implementation raises at build time"""
    from bioscrape.types import Model, parse_expression
    x0 = {s: 1.0 for s in SPECIES}
    # a leading-underscore spelling registers BOTH '_name' and 'name' as parameters (sympy_species_and_parameters):
    # give the spurious '_name' a value so that check_parameters passes; the expression reads 'name'
    params = [(p, 1.0) for p in PARAMS] + [(p, 123.0) for p in UNDERSCORE_PARAMS]
    if via == "propensity":
        M = Model(species=SPECIES + ["OUT"], reactions=[([], ["OUT"], "general", {"rate": string})], parameters=params, initial_condition_dict=dict(x0, OUT=0.0))
        return M.get_propensities()[0].py_get_term(), M
    if via == "rule":
        M = Model(species=SPECIES + ["OUT"], parameters=params, rules=[("assignment", {"equation": "OUT = " + string})], initial_condition_dict=dict(x0, OUT=0.0))
        rule = [it for it in M.__getstate__() if isinstance(it, list) and it and type(it[0]).__name__.endswith("Rule")][0][0]
        return G._state_of(rule)[3], M
    if via == "oderule":
        # the same expression as the right-hand side of an ODE rule; the compiled tree is read through parse_general_expression,
        # the rule object itself is EXECUTED in impl_case (seeded change S6_C02: the ODE rule's volume path swapped volume and time)
        M = Model(species=SPECIES + ["OUT"], parameters=params, rules=[("ode", {"equation": string, "target": "OUT"})], initial_condition_dict=dict(x0, OUT=0.0))
        return M.parse_general_expression(string), M
    M = Model(species=SPECIES + ["OUT"], parameters=params, initial_condition_dict=dict(x0, OUT=0.0))
    return M.parse_general_expression(string), M

def _sympy_tokens(string, ids):
    """the parsed sympy tree as tokens for the translation model (same preprocessing and sympify call as parse_expression)"""
    import sympy
    from sympy.abc import _clash1
    s = string.strip().replace("^", "**").replace("|", "_").replace("heaviside", "Heaviside")
    tree = sympy.sympify(s, _clash1)
    def nid(n):
        if n not in ids: ids[n] = len(ids)
        return ids[n]
    def walk(tr):
        ty = type(tr)
        if ty == sympy.Symbol:
            n = str(tr); u = n[0] == "_"
            return ["sym", "1" if u else "0", str(nid(n[1:] if u else n)), str(nid(n))]
        lab = {sympy.Add: "add", sympy.Mul: "mul", sympy.Max: "max", sympy.Min: "min"}.get(ty)
        if lab:
            out = [lab, str(len(tr.args))]
            for a in tr.args: out += walk(a)
            return out
        if ty == sympy.Pow: return ["pow"] + walk(tr.args[0]) + walk(tr.args[1])
        one = {sympy.exp: "exp", sympy.log: "log", sympy.Heaviside: "hea", sympy.Abs: "abs"}.get(ty)
        if one: return [one] + walk(tr.args[0])
        try: return ["num", fhex(float(tr.evalf()))]
        except Exception: return ["other"]
    return walk(tree)

def _roles_case(case):
    import numpy as np, pickle
    from bioscrape.types import Model
    out = {"builds": []}
    for bi, b in enumerate(case["builds"]):
        M = Model(species=list(b["species"]) + ["OUT"], reactions=[([], ["OUT"], "general", {"rate": case["string"]})], parameters=[(p, 1.0) for p in b["params"]],
                  initial_condition_dict={s_: 1.0 for s_ in b["species"]})
        if bi % 2 == 1:
            # every other build: the model is copied, and the COPY is extended with a new parameter and a new general reaction before
            # the original expression is evaluated on it (a name added later must get a slot of its own)  -- seeded change S3_C02
            M = pickle.loads(pickle.dumps(M)); M.create_parameter("added_later", 5.5)
            M.create_reaction([], ["OUT"], "general", {"rate": "added_later + 0*" + (b["species"][0] if b["species"] else "OUT")}); M.py_initialize()
        term = M.get_propensities()[0].py_get_term(); s2i, p2i = M.get_species2index(), M.get_params2index(); vals = []
        for pt in case["points"]:
            x = np.zeros(len(s2i)); pv = np.zeros(len(p2i))
            for s_, i in s2i.items(): x[i] = pt["env"].get(s_, 7.0)          # padding names read 7 / 9: a shifted read shows
            for p_, i in sorted(p2i.items(), key=lambda kv: kv[0] == "added_later"): pv[i] = pt["env"].get(p_, 9.0 if p_ != "added_later" else 55.5)   # 'added_later' is written last: a slot it shares with an older name shows
            try: vals.append(fhex(float(term.py_evaluate(x, pv, pt["env"]["t"]))))
            except BaseException as e: vals.append(None)
        out["builds"].append(vals)
    return out

def impl_case(case):
    import numpy as np, warnings
    warnings.simplefilter("ignore")
    if case["kind"] == "roles":
        try: return _roles_case(case)
        except BaseException as e: return {"roles_error": type(e).__name__, "msg": str(e)[:160]}
    try:
        term, M = _build(case["string"], case["via"])
    except BaseException as e:
        return {"rejected": type(e).__name__, "msg": str(e)[:160]}
    s2i, p2i = M.get_species2index(), M.get_params2index()
    out = {"term": G.term_tokens(term), "vals": [], "s2i": s2i, "p2i": p2i}
    ids = {}
    for nme in list(s2i) + list(p2i) + ["volume", "t"]: ids.setdefault(nme, len(ids))
    try: out["stree"] = _sympy_tokens(case["string"], ids)
    except Exception as e: out["stree"] = None
    out["env_tokens"] = [str(len(s2i))] + [str(ids[s]) for s in sorted(s2i, key=lambda s: s2i[s])] + [str(len(p2i))] + [str(ids[p]) for p in sorted(p2i, key=lambda p: p2i[p])] + [str(ids["volume"]), str(ids["t"])]
    if case["kind"] == "expr":
        for pt in case["points"]:
            x = np.zeros(len(s2i)); pv = np.zeros(len(p2i))
            for s, i in s2i.items(): x[i] = pt["env"].get(s, 0.0)
            for p, i in p2i.items(): pv[i] = pt["env"].get(p, 1.0)
            t = pt["env"]["t"]
            try: v0 = float(term.py_evaluate(x, pv, t))
            except BaseException as e: v0 = None
            try: v1 = float(term.py_volume_evaluate(x, pv, pt["V"], t))
            except BaseException as e: v1 = None
            out["vals"].append({"x": G.flist(x), "p": G.flist(pv), "t": fhex(t), "V": fhex(pt["V"]), "plain": None if v0 is None else fhex(v0), "vol": None if v1 is None else fhex(v1)})
            if case["via"] in ("rule", "oderule"):
                # the rule object executed as the simulators execute it: OUT := value (assignment) or OUT += value * dt (ODE rule)
                rule = [it for it in M.__getstate__() if isinstance(it, list) and it and type(it[0]).__name__.endswith("Rule")][0][0]
                ex = {}
                for key_, call in (("plain", lambda xc: rule.py_execute_rule(xc, pv.copy(), t, 0.25, True)), ("vol", lambda xc: rule.py_execute_volume_rule(xc, pv.copy(), pt["V"], t, 0.25, True))):
                    xc = x.copy(); xc[s2i["OUT"]] = 0.5
                    try: call(xc); ex[key_] = fhex(float(xc[s2i["OUT"]]))
                    except BaseException: ex[key_] = None
                out["vals"][-1]["exec"] = ex
    return out

def driver_line(case, r):
    if not r or "term" not in r: return None
    lines = []
    for v in r["vals"]:
        lines.append(" ".join(["teval", "none", v["t"]] + v["x"] + v["p"] + r["term"]))
        lines.append(" ".join(["teval", v["V"], v["t"]] + v["x"] + v["p"] + r["term"]))
    if r.get("stree"): lines.append(" ".join(["translate"] + r["env_tokens"] + r["stree"]))
    return lines

def _num(s): return float(s) if s in ("nan", "inf", "-inf") else float.fromhex(s)
def _close(a, b, tol):
    if a == b: return True
    if math.isnan(a) or math.isnan(b): return math.isnan(a) and math.isnan(b)
    if math.isinf(a) or math.isinf(b): return False
    return abs(a - b) <= tol * max(abs(a), abs(b), 1e-300)

def compare(case, r, out):
    if not r or "term" not in r: return None
    k = 0
    for v in r["vals"]:
        for key in ("plain", "vol"):
            if v[key] is not None and not _close(_num(out[k]), _num(v[key]), 1e-12):
                return "evaluator (%s): model %s implementation %s for %s" % (key, out[k], v[key], case["string"])
            k += 1
    if r.get("stree"):
        if out[k].split() != ["OK"] + r["term"]: return "translation: model %r implementation %r for %s" % (out[k], " ".join(r["term"]), case["string"])
    return None

def oracle(case, r):
    if not r: return "no result"
    if case["kind"] == "malformed":
        return None if "rejected" in r else "rejection: malformed expression %r (%s) was accepted when built through %s" % (case["string"], case["bad"], case["via"])
    if "rejected" in r:
        # the property is about ACCEPTED expressions and about rejecting malformed ones; a well-formed expression that is
        # rejected at build time (e.g. sympy rewrites Abs(exp(z)) to exp(re(z))) is counted in the evidence, not a violation
        return None
    if case["kind"] == "roles":
        # every build of this family is well-formed (names declared, supported operators): a failure is not a rejection of a malformed expression
        if "roles_error" in r: return "value: building / copying / extending a model around the well-formed expression %s failed from inside: %s: %s" % (case["string"], r["roles_error"], r["msg"])
        for b, vals in zip(case["builds"], r["builds"]):
            for pt, v in zip(case["points"], vals):
                try: want = py_eval(case["tree"], pt["env"], None)
                except _Und: continue
                if not math.isfinite(want) or v is None: continue
                if not _close(_num(v), want, 1e-9):
                    return "value: %s evaluates to %r, the written formula gives %r at %r, in the model with species %r and parameters %r (built after other models using the same text)" % (
                        case["string"], _num(v), want, pt["env"], b["species"], b["params"])
        return None
    for pt, v in zip(case["points"], r["vals"]):
        for key, vol in (("plain", None), ("vol", pt["V"])):
            try: want = py_eval(case["tree"], pt["env"], vol)
            except _Und: continue
            if not math.isfinite(want): continue
            if v[key] is None: return "value: %s raised at a point where it is finite (%r) [%s]" % (case["string"], want, key)
            got = _num(v[key])
            if not _close(got, want, 1e-9): return "value: %s evaluates to %r, the written formula gives %r at %r (volume=%r) [%s, %s]" % (case["string"], got, want, pt["env"], vol, key, case["via"])
            if v.get("exec") and v["exec"].get(key) is not None:
                wex = want if case["via"] == "rule" else 0.5 + want * 0.25
                if math.isfinite(wex) and not _close(_num(v["exec"][key]), wex, 1e-9):
                    return "value: executing the %s with right-hand side %s leaves OUT = %r, the written formula gives %r at %r (volume=%r, time=%r) [%s]" % (
                        "assignment rule" if case["via"] == "rule" else "ODE rule (OUT was 0.5, dt 0.25)", case["string"], _num(v["exec"][key]), wex, pt["env"], vol, pt["env"]["t"], key)
    return None

def nontrivial(case):
    if case["kind"] != "expr": return True
    ns = names(case["tree"])
    return depth(case["tree"]) >= 3 and any(n in ("C", "S", "E", "N", "O", "Q", "I") or n.startswith("_") for n in ns)
def site(case, msg): return (msg or "any").split(":")[0]
def key(case): return case["string"] + "|" + case["via"]
def stats(cases):
    from collections import Counter
    return {"kinds": dict(Counter(c["kind"] for c in cases)), "via": dict(Counter(c["via"] for c in cases)),
            "depth": dict(Counter(str(depth(c["tree"])) for c in cases if c["kind"] == "expr")),
            "role_swap_builds": sum(len(c["builds"]) for c in cases if c["kind"] == "roles"),
            "volume_position_sweep": sum(1 for c in cases if c.get("family") == "volsweep"),
            "colliding_names_used": sum(1 for c in cases if c["kind"] == "expr" and any(n in ("C", "S", "E", "N", "O", "Q", "I") for n in names(c["tree"])))}
def shrink(case, fails):
    if case["kind"] != "expr": return case
    # replace subtrees by their children while the failure persists
    cur = case
    for _ in range(30):
        tr = cur["tree"]; cands = []
        def subs(t, path):
            if t[0] in ("num", "sp", "par", "t", "vol"): return
            for i, ch in enumerate(t[1:], 1):
                if isinstance(ch, list): cands.append((path + [i], ch)); subs(ch, path + [i])
        subs(tr, [])
        tries = [dict(cur, tree=ch, string=to_string(ch)) for _, ch in cands[:12]]
        if not tries: break
        res = fails(tries)
        hit = [c for c, f in zip(tries, res) if f]
        if not hit: break
        cur = min(hit, key=lambda c: len(c["string"]))
    return cur

def extra_checks(ctx):
    rej = [c["string"] for c, r in zip(ctx["cases"], ctx["impl_res"]) if c.get("kind") == "expr" and r and "rejected" in r]
    return {"coverage": {"wellformed_rejected_at_build": len(rej), "wellformed_rejected_samples": rej[:5]}}
