"""C15: inference cost.  Correspondence: Model/Likelihood.v's data alignment (extracted) vs
InferenceSetup.LL_data (exact).  Oracle: cost(theta) = log-prior - (sum |data - sim|^p)^(1/p) with each
trajectory simulated on a FRESH copy of the model (defaults (+) theta (+) condition_n, own x0, own times);
sequences of evaluation points with repeats; permutations of measurement columns and of trajectories;
-inf outside the prior's support; stochastic cost with a fixed seed for alignment."""
import json, math, random
from harness.common import fhex
PID = "C15"; COQ_TARGET = "C15"
RULE = ("2-species linear/bimolecular models x 1-4 trajectories x 1-3 measured species x p in {1,2,3} x per-trajectory initial and parameter conditions (also with different key sets) x "
        "uniform grids of 2-7 points (different per trajectory) x random data x sequences of 3-5 evaluation points with repeats and out-of-support points x permutations; "
        "non-trivial = M > 1 and T > 1, or conditions with different key sets")
TRUSTED = ["hand model coq/Model/Likelihood.v; the alignment function is tied by exact correspondence, the cost by the harness oracle (the ODE integrator is outside the model)"]
ASSUMPTIONS = ["oracle tolerance 1e-8 relative (LSODA on a fresh model vs on the shared one)", "uniform priors wide enough to contain the in-support points"]

def gen_case(rng):
    N = rng.randint(1, 4); Mm = rng.randint(1, 3); p = rng.choice([1, 2, 3])
    species = ["A", "B", "C"]; meas = rng.sample(species, Mm)
    trajs = []
    T = rng.randint(2, 7)
    for n in range(N):
        dt = rng.choice([0.25, 0.5, 1.0]); times = [i * dt for i in range(T)]
        x0 = {s: float(rng.randint(0, 9)) for s in rng.sample(species, rng.randint(1, 3))}
        cond = {}
        if rng.random() < 0.6: cond["k2"] = rng.choice([0.1, 0.5, 1.5])
        if rng.random() < 0.4: cond["k3"] = rng.choice([0.2, 0.7])
        data = {m: [round(rng.uniform(0, 10), 3) for _ in range(T)] for m in meas}
        trajs.append({"times": times, "x0": x0, "cond": cond, "data": data})
    if rng.random() < 0.3:
        for tj in trajs: tj["cond"] = {}
    thetas = []
    for _ in range(rng.randint(3, 5)):
        th = {"k1": round(rng.uniform(0.05, 2.0), 3)}
        if rng.random() < 0.2: th["k1"] = rng.choice([-0.5, 7.5])          # outside the uniform prior [0, 5]
        thetas.append(th)
    if rng.random() < 0.7: thetas.append(dict(thetas[0]))                  # a repeat
    stoch = rng.random() < 0.15
    if stoch:
        for tj in trajs: tj["times"] = list(trajs[0]["times"])       # the stochastic likelihood is exercised on one common grid
    return {"meas": meas, "p": p, "trajs": trajs, "thetas": thetas, "seed": rng.randint(1, 2**31), "stochastic": stoch,
            "variant": rng.choice(["incremental", "incremental", "with_rule", "with_rule", "with_rule", "at_once", "at_once", "at_once", "at_once", "at_once"])}

def gen_cases(seed, tier):
    rng = random.Random(seed * 4001 + 15); n = 60 if tier == "quick" else 800
    return [gen_case(rng) for _ in range(n)]

def _model(variant="at_once", reference=False):
    from bioscrape.types import Model
    if variant == "with_rule":
        # the same network with a repeated assignment rule on an extra species: models with rules take another path through the
        # deterministic simulator (a private parameter copy) -- seeded change S6_C15
        return Model(species=["A", "B", "C", "Rr"], reactions=[(["A"], ["B"], "massaction", {"k": "k1"}), (["B"], ["C"], "massaction", {"k": "k2"}),
                                                               (["A", "C"], ["A"], "massaction", {"k": "k3"})],
                     parameters=[("k1", 0.6), ("k2", 0.3), ("k3", 0.05)], rules=[("assignment", {"equation": "Rr = A + 2*B"})],
                     initial_condition_dict={"A": 5.0, "B": 1.0, "C": 0.5, "Rr": 0.0})
    if variant == "incremental" and not reference:
        # built step by step and never initialised before it is handed over: species C has never been given a value (it is 0 once the
        # model is initialised), and the per-trajectory initial conditions may omit it  (seeded change S3_C15)
        M = Model(species=["A", "B"], reactions=[(["A"], ["B"], "massaction", {"k": "k1"})], parameters=[("k1", 0.6), ("k2", 0.3), ("k3", 0.05)],
                  initial_condition_dict={"A": 5.0, "B": 1.0})
        M.create_reaction(["B"], ["C"], "massaction", {"k": "k2"}); M.create_reaction(["A", "C"], ["A"], "massaction", {"k": "k3"})
        return M
    if variant == "incremental":
        return Model(species=["A", "B", "C"], reactions=[(["A"], ["B"], "massaction", {"k": "k1"}), (["B"], ["C"], "massaction", {"k": "k2"}),
                                                         (["A", "C"], ["A"], "massaction", {"k": "k3"})],
                     parameters=[("k1", 0.6), ("k2", 0.3), ("k3", 0.05)], initial_condition_dict={"A": 5.0, "B": 1.0, "C": 0.0})
    return Model(species=["A", "B", "C"], reactions=[(["A"], ["B"], "massaction", {"k": "k1"}), (["B"], ["C"], "massaction", {"k": "k2"}),
                                                     (["A", "C"], ["A"], "massaction", {"k": "k3"})],
                 parameters=[("k1", 0.6), ("k2", 0.3), ("k3", 0.05)], initial_condition_dict={"A": 5.0, "B": 1.0, "C": 0.5})

def _setup(case, meas, trajs, stochastic=False):
    import pandas as pd
    from bioscrape.inference_setup import InferenceSetup
    M = _model(case.get("variant", "at_once"))
    frames = []
    for tj in trajs:
        d = {"time": tj["times"]}; d.update({m: tj["data"][m] for m in tj["data"]}); frames.append(pd.DataFrame(d))
    conds = [dict(tj["cond"]) for tj in trajs]
    kw = dict(Model=M, params_to_estimate=["k1"], prior={"k1": ["uniform", 0.0, 5.0]}, exp_data=frames if len(frames) > 1 else frames[0],
              measurements=list(meas), time_column="time", initial_conditions=[dict(tj["x0"]) for tj in trajs] if len(trajs) > 1 else dict(trajs[0]["x0"]),
              norm_order=case["p"], sim_type="stochastic" if stochastic else "deterministic")
    if any(conds): kw["parameter_conditions"] = conds if len(conds) > 1 else conds[0]
    if stochastic: kw["N_simulations"] = 1
    return InferenceSetup(**kw), M

def _spec_cost(case, meas, trajs, theta):
    """independent statement of the cost, each trajectory on a fresh model"""
    import numpy as np
    from bioscrape.simulator import py_simulate_model
    if not (0.0 <= theta["k1"] <= 5.0): return float("-inf")
    lp = math.log(1 / 5.0); err = 0.0
    for tj in trajs:
        M = _model(case.get("variant", "at_once"), reference=True); M.set_params(dict(theta)); M.set_params(dict(tj["cond"])); M.set_species(dict(tj["x0"]))
        res = py_simulate_model(np.array(tj["times"]), Model=M, stochastic=False, return_dataframe=True)
        for m in meas:
            for t in range(len(tj["times"])): err += abs(tj["data"][m][t] - float(res[m][t])) ** case["p"]
    return lp - err ** (1.0 / case["p"])

def impl_case(case):
    import numpy as np, warnings
    from bioscrape.random import py_seed_random
    warnings.simplefilter("ignore")
    meas, trajs = case["meas"], case["trajs"]
    out = {}
    setup, M = _setup(case, meas, trajs)
    out["LL_data"] = [[[fhex(v) for v in row] for row in tr] for tr in np.asarray(setup.LL_data)]
    out["costs"] = [float(setup.cost_function([th["k1"]])) for th in case["thetas"]]
    out["spec"] = [float(_spec_cost(case, meas, trajs, th)) for th in case["thetas"]]
    # permutations: measurement columns, trajectories
    rng = random.Random(case["seed"])
    pm = list(meas); rng.shuffle(pm); pt = list(trajs); rng.shuffle(pt)
    s2, _ = _setup(case, pm, trajs); out["perm_meas"] = float(s2.cost_function([case["thetas"][0]["k1"]]))
    s3, _ = _setup(case, meas, pt); out["perm_traj"] = float(s3.cost_function([case["thetas"][0]["k1"]]))
    out["perm_meas_order"] = pm
    if case["stochastic"]:
        ss, _ = _setup(case, meas, trajs, stochastic=True); py_seed_random(case["seed"]); a = float(ss.cost_function([0.6]))
        ss2, _ = _setup(case, pm, trajs, stochastic=True); py_seed_random(case["seed"]); b = float(ss2.cost_function([0.6]))
        out["stoch"] = [a, b]
        out["stoch_LL"] = [[[fhex(v) for v in row] for row in tr] for tr in np.asarray(ss.LL_data)]
    return out

def driver_line(case, r):
    # one line per trajectory: c15align nT M col_0 ... col_{M-1}
    lines = []
    for tj in case["trajs"]:
        T = len(tj["times"]); toks = ["c15align", str(T), str(len(case["meas"]))]
        for m in case["meas"]: toks += [fhex(v) for v in tj["data"][m]]
        lines.append(" ".join(toks))
    return lines

def compare(case, r, out):
    if not r or "LL_data" not in r: return "implementation failed: %s" % json.dumps(r)[:300]
    for n, line in enumerate(out):
        want = " ".join(v for row in r["LL_data"][n] for v in row)
        if line.strip() != want: return "alignment: trajectory %d model %r implementation %r" % (n, line, want)
    return None

def _eq(a, b, tol=1e-8):
    if a == b: return True
    if math.isinf(a) or math.isinf(b) or math.isnan(a) or math.isnan(b): return False
    return abs(a - b) <= tol * max(1.0, abs(a), abs(b))

def oracle(case, r):
    if not r or "costs" not in r: return "implementation failed: %s" % json.dumps(r)[:400]
    T = len(case["trajs"][0]["times"]); Mm = len(case["meas"])
    for n, tj in enumerate(case["trajs"]):
        for t in range(T):
            for i, m in enumerate(case["meas"]):
                if float.fromhex(r["LL_data"][n][t][i]) != tj["data"][m][t]:
                    return "alignment: LL_data[%d][%d][%d] = %r but %s at row %d is %r (T=%d, M=%d)" % (n, t, i, float.fromhex(r["LL_data"][n][t][i]), m, t, tj["data"][m][t], T, Mm)
    for k, (th, c, s) in enumerate(zip(case["thetas"], r["costs"], r["spec"])):
        if not (0 <= th["k1"] <= 5):
            if c != float("-inf"): return "support: theta=%r outside the prior but the cost is %r" % (th, c)
            continue
        if not _eq(c, s): return "cost: evaluation %d at theta=%r returned %r, the stated posterior is %r (conditions %r)" % (k, th, c, s, [tj["cond"] for tj in case["trajs"]])
    th0 = case["thetas"][0]
    if 0 <= th0["k1"] <= 5:
        if not _eq(r["perm_meas"], r["costs"][0]): return "permutation: measurement order %r changes the cost %r -> %r" % (r["perm_meas_order"], r["costs"][0], r["perm_meas"])
        if not _eq(r["perm_traj"], r["costs"][0]): return "permutation: trajectory order changes the cost %r -> %r" % (r["costs"][0], r["perm_traj"])
    # repeats give the same value
    seen = {}
    for th, c in zip(case["thetas"], r["costs"]):
        k1 = th["k1"]
        if k1 in seen and not _eq(seen[k1], c, 1e-12): return "history: theta=%r evaluated twice gives %r and %r" % (th, seen[k1], c)
        seen[k1] = c
    if "stoch" in r and not _eq(r["stoch"][0], r["stoch"][1], 1e-9):
        return "permutation: stochastic cost with a fixed seed changes with the measurement order: %r vs %r" % (r["stoch"][0], r["stoch"][1])
    return None

def nontrivial(case):
    return (len(case["meas"]) > 1 and len(case["trajs"][0]["times"]) > 1) or len({tuple(sorted(tj["cond"])) for tj in case["trajs"]}) > 1
def site(case, msg): return (msg or "any").split(":")[0]
def key(case): return json.dumps(case, sort_keys=True)
def stats(cases):
    from collections import Counter
    return {"N": dict(Counter(str(len(c["trajs"])) for c in cases)), "M": dict(Counter(str(len(c["meas"])) for c in cases)), "p": dict(Counter(str(c["p"]) for c in cases)),
            "different_condition_keys": sum(1 for c in cases if len({tuple(sorted(tj["cond"])) for tj in c["trajs"]}) > 1)}
