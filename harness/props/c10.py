"""C10: delays.  Correspondence: stream replay of DelaySSASimulator (rows, draw count, final queue)
and of the delay samplers (py_get_delay) against Model/SSA.v + Random.v + Queue.v.  Oracle on a
canonical family A -> (delayed) B: nothing lost or duplicated, deliveries neither before nor later
than firing + delay to the resolution of the grid; zero delay behaves like the plain simulator;
simulators without delay support apply both parts at the firing time.  Thorough: KS tests of the
samplers against the exact CDFs (alarm p < 1e-9)."""
import json, math, random
from harness.common import fhex
from harness import modelgen as G, replay as R
from harness.props import c06, c20
PID = "C10"; COQ_TARGET = "C10"
RULE = ("replay: random bounded networks with delayed reactants/products, three delay families, delays from 1e-3*dt to 3x the horizon, plain/safe; sampler replay: 3 families x parameters; "
        "canonical family A->delayed B with fixed delays incl. 0 and beyond the horizon; non-trivial = a delayed part is present")
def translate(): return c20.translate()
TRUSTED = ["translator tools/tr_queue.py: the five numeric methods of ArrayDelayQueue are regenerated from simulator.pyx on every run and proved to simulate Model/Queue.v (Proofs/TieQueue.v)",
           "hand models coq/Model/SSA.v (delay loop), Queue.v, Random.v tied by stream replay", "values passing through ** in the gamma sampler compared with relative tolerance 1e-12"]
ASSUMPTIONS = ["whole-run accounting identity and the Normal/Gamma laws of the samplers are not mechanised (C10_partial)", "KS alarm threshold p < 1e-9 (thorough tier only)"]

def gen_cases(seed, tier):
    rng = random.Random(seed * 1013 + 10); n = 160 if tier == "quick" else 2000
    cases = []
    for _ in range(n):
        c = c06.gen_case(rng, kind="dssa")
        T = c["times"]; dt = T[1] - T[0]; hor = T[-1]
        for rx in c["spec"]["reactions"]:
            d = rx.get("delay")
            if d and d["type"] == "fixed": d["params"]["delay"] = rng.choice([0.0, 1e-3 * dt, 0.3 * dt, dt, 2.5 * dt, 0.5 * hor, 3 * hor + 1])
        c["family"] = "replay"; cases.append(c)
    # canonical family
    for _ in range(60 if tier == "quick" else 600):
        dt = rng.choice([0.25, 0.5, 1.0]); n_t = rng.randint(6, 14); T = [i * dt for i in range(n_t)]
        # incl. the band around the queue length n_t*dt = T[-1] + dt, where the slot index reaches the clamp (seeded change S_C10 / S_C20)
        dl = rng.choice([0.0, 0.2 * dt, dt, 2.0 * dt, 3.3 * dt, T[-1] + 5 * dt, T[-1] + 0.6 * dt, T[-1] + dt, T[-1] + 1.4 * dt, T[-1] - 0.4 * dt]); a0 = rng.randint(3, 10)
        kind = rng.choice(["dssa", "dssa", "ssa", "vssa", "dvssa"])
        spec = {"species": ["A", "B"], "reactions": [{"reactants": ["A"], "products": [], "type": "massaction", "params": {"k": rng.choice([0.3, 0.8, 2.0])},
                                                       "delay": {"type": "fixed", "reactants": [], "products": ["B"], "params": {"delay": dl}}}],
                "parameters": {}, "x0": {"A": float(a0), "B": 0.0}}
        c = {"spec": spec, "kind": kind, "safe": False, "times": T, "seed": rng.randint(1, 2**31), "family": "canonical", "delay": dl, "a0": a0}
        if kind in ("vssa", "dvssa"): c["volume"] = {"type": "base", "V0": 1.0}
        cases.append(c)
    # queue histories with a partition at cell division (the ring buffer read through the two daughter queues): what is pending is
    # delivered once, at its own time, by exactly one of the daughters (seeded change S5_C10: clear_copy reset the daughters' read position)
    for _ in range(40 if tier == "quick" else 400):
        for _try in range(50):
            c = c20.gen_case(rng, 40)
            if any(op[0] == "B" for op in c["ops"]) and sum(1 for op in c["ops"] if op[0] == "A") >= 3: break
        c["family"] = "queue_history"; cases.append(c)
    # sampler replays
    for _ in range(60 if tier == "quick" else 600):
        fam = rng.choice(["gauss", "gamma"])
        pr = [rng.choice([0.5, 1.0, 3.0]), rng.choice([0.1, 0.5, 2.0])] if fam == "gauss" else [rng.choice([1.0, 1.5, 2.0, 3.5, 7.25]), rng.choice([0.2, 0.5, 1.0])]
        cases.append({"family": "sampler", "dist": fam, "params": pr, "seed": rng.randint(1, 2**31), "draws": 5})
    return cases

def impl_case(case):
    if case["family"] == "queue_history": return c20.impl_case(case)
    if case["family"] != "sampler": return R.impl_replay(case)
    import numpy as np
    from bioscrape.types import Model
    from bioscrape.random import py_seed_random, py_rand_int
    dtype, dp = ("gaussian", {"mean": case["params"][0], "std": case["params"][1]}) if case["dist"] == "gauss" else ("gamma", {"k": case["params"][0], "theta": case["params"][1]})
    M = Model(species=["A", "B"], reactions=[(["A"], [], "massaction", {"k": 1.0}, dtype, [], ["B"], dp)], initial_condition_dict={"A": 1, "B": 0})
    d = M.get_delays()[0]; pv = np.array(M.get_parameter_values(), dtype=float); x = np.array([1.0, 0.0])
    py_seed_random(case["seed"]); vals = [float(d.py_get_delay(x, pv)) for _ in range(case["draws"])]; nxt = py_rand_int()
    py_seed_random(case["seed"]); raws = []; pos = -1
    for k in range(4000):
        r = py_rand_int(); raws.append(str(r))
        if r == nxt: pos = k; break
    return {"vals": [fhex(v) for v in vals], "pos": pos, "raws": raws, "pidx": [int(v) for v in G._state_of(d)[1:3]], "pv": G.flist(pv)}

def driver_line(case, r):
    if case["family"] == "queue_history": return c20.driver_line(case, r)
    if case["family"] != "sampler": return R.driver_line(case, r)
    if not r or r.get("pos", -1) < 0: return None
    return " ".join(["delaydraw", case["dist"], str(case["draws"]), fhex(case["params"][0]), fhex(case["params"][1]), str(len(r["raws"]))] + r["raws"])

def compare(case, r, out):
    if case["family"] == "queue_history": return getattr(c20, "compare", lambda c_, r_, m_: None if (isinstance(r_, dict) and r_.get("line") == m_) else "queue history: model %r vs implementation %r" % (m_, r_))(case, r, out)
    if case["family"] != "sampler": return R.compare(case, r, out)
    if not r or "vals" not in r: return "implementation failed: %s" % json.dumps(r)[:300]
    toks = out.split()
    if any(t.startswith(("FAULT", "OUTOFFUEL")) for t in toks): return "sampler %s%r: model %s (the implementation consumed %d uniforms)" % (case["dist"], case["params"], [t for t in toks if t.startswith(("FAULT", "OUTOFFUEL"))][0], r.get("pos", -1))
    mv, mpos = toks[:-2], int(toks[-1])
    if mpos != r["pos"]: return "sampler %s: model consumed %d uniforms, implementation %d" % (case["dist"], mpos, r["pos"])
    for a, b in zip(mv, r["vals"]):
        if not R._close(a, b, 1e-12): return "sampler %s%r: model %s implementation %s" % (case["dist"], case["params"], a, b)
    return None

def oracle(case, r):
    if case["family"] == "queue_history":
        m = c20.oracle(case, r); return ("queue history: " + m) if m else None
    if case["family"] == "sampler":
        if not r or "vals" not in r: return "implementation failed: %s" % json.dumps(r)[:300]
        vals = [float.fromhex(v) for v in r["vals"]]
        if case["dist"] == "gamma" and any(v <= 0 for v in vals): return "sampler gamma: non-positive draw %r" % vals
        return None
    if case["family"] == "replay": return c06.oracle(case, r)
    if not r or "rows" not in r: return "implementation failed: %s" % json.dumps(r)[:300]
    rows = [[float.fromhex(v) for v in row] for row in r["rows"]]; T = case["times"]; dt = T[1] - T[0]; dl = case["delay"]; a0 = case["a0"]
    A = [row[0] for row in rows]; B = [row[1] for row in rows]
    tag = "%s delay=%g dt=%g" % (case["kind"], dl, dt)
    if any(b < 0 or b != int(b) for b in B) or any(a < 0 for a in A): return "accounting (%s): rows %r" % (tag, rows)
    if case["kind"] not in ("dssa", "dvssa") or dl <= 0:
        # no delay support / zero delay: both parts at the firing time
        for k in range(len(rows)):
            if A[k] + B[k] != a0: return "both parts at the firing time (%s): A+B = %r at row %d, expected %d" % (tag, A[k] + B[k], k, a0)
        return None
    for k in range(len(rows)):
        fired_by = lambda t: a0 - A[max(j for j in range(len(T)) if T[j] <= t)] if t >= T[0] else 0
        if A[k] + B[k] > a0: return "duplicated (%s): A+B = %r > %d at row %d" % (tag, A[k] + B[k], a0, k)
        # not before firing + delay - resolution: B(T_k) <= firings up to T_k - dl + dt (rounded to the nearest slot: half a step; rows lag a slot: one step)
        if B[k] > (fired_by(T[k] - dl + dt) if T[k] - dl + dt >= 0 else 0):
            return "early delivery (%s): B=%r at t=%g but only %r firings before t - delay + dt" % (tag, B[k], T[k], fired_by(T[k] - dl + dt) if T[k] - dl + dt >= 0 else 0)
        # not later than firing + delay + resolution (unless beyond the horizon, where it is clamped to the last slot)
        if dl < T[-1] and T[k] - dl - 1.5 * dt >= 0 and B[k] < fired_by(T[k] - dl - 1.5 * dt):
            return "late or lost delivery (%s): B=%r at t=%g but %r firings before t - delay - 1.5dt" % (tag, B[k], T[k], fired_by(T[k] - dl - 1.5 * dt))
    q = [float.fromhex(v) for v in r["queue"][1:]]
    pend = sum(q)
    if abs(A[-1] + B[-1] + pend - a0) > 1: return "accounting (%s): last row A+B = %r, pending in the final queue %r, initial %d" % (tag, A[-1] + B[-1], pend, a0)
    return None

def extra_checks(ctx):
    if ctx["tier"] != "thorough": return {}
    from harness import common as C
    fails = []
    r = C.run_impl(ctx["build"], "c10_ks", [{"seed": 77 + ctx["seed"], "N": 50000}])[0]
    for f in (r or {}).get("fails", []): fails.append(({"family": "ks"}, f))
    return {"oracle_fail": fails, "coverage": {"ks_tests": (r or {}).get("tests", 0)}}

def nontrivial(case): return True
def site(case, msg): return (msg or "any").split("(")[0].split(":")[0].strip()
def key(case): return json.dumps(case, sort_keys=True)
def stats(cases):
    from collections import Counter
    return {"families": dict(Counter(c["family"] for c in cases)), "canonical_delays": dict(Counter(str(c.get("delay")) for c in cases if c["family"] == "canonical"))}
