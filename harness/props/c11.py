"""C11: volume-aware simulation.  Correspondence: stream replay of VolumeSSASimulator with constant,
growing and dividing volumes (rows, volume trace, divided flag, draw count).  Oracle: growth law
within one step, positivity/monotonicity, truncation at the first division step, flag; ensemble
chi-square against the CME with volume-scaled propensities."""
import json, math, random
from harness.common import fhex
from harness import modelgen as G, replay as R
from harness.props import c01, c05, c06
PID = "C11"; COQ_TARGET = "C11"
RULE = ("replay: bounded random networks x constant V in (0.2,5), growing (cell cycle 1-8) and dividing time-threshold volumes, state-dependent volumes dividing on the volume itself (also in the delay + volume simulator), grid steps 0.25-2; ensemble: closed networks x V in {0.5,2,3.3}; "
        "non-trivial = volume differs from 1 or grows")
TRUSTED = ["hand model coq/Model/SSA.v (volume loop, volume models) tied by stream replay", "chi-square only as violation search / soak"]
ASSUMPTIONS = ["count of volume steps before row k and the distributional clause are not mechanised (C11_partial)", "division times closer than 1e-9 to a step time are skipped by the oracle"]

def gen_cases(seed, tier):
    rng = random.Random(seed * 2003 + 11); n = 200 if tier == "quick" else 2500
    cases = []
    for _ in range(n):
        c = c06.gen_case(rng, kind="vssa")
        k = rng.random()
        if k < 0.4: c["volume"] = {"type": "base", "V0": rng.choice([0.25, 0.5, 1.0, 2.0, 4.0, round(rng.uniform(0.2, 5), 3)])}
        else:
            cyc = rng.choice([1.0, 2.0, 4.0, 8.0]); v0 = rng.choice([0.5, 1.0, 1.5])
            avg = v0 * rng.choice([1.3, 2.0, 4.0, 50.0])      # 50: no division within the horizon
            c["volume"] = {"type": "tt", "cycle": cyc, "avg": avg, "noise": rng.choice([0.0, 0.05, 0.2]), "V0": v0}
        if rng.random() < 0.3: c["spec"]["reactions"] = []      # nothing can ever fire
        elif rng.random() < 0.25:
            # a user-written rate law that mentions the volume itself, inside min / max (a capped, volume-diluted production): every
            # argument sees the current volume (seeded change S6_C11: only the first argument of a min did)
            sp0 = sorted(c["spec"]["x0"])[0]
            c["spec"]["parameters"].update({"kcap": rng.choice([0.5, 2.0, 6.0]), "kvol": rng.choice([0.2, 1.0])})
            c["spec"]["reactions"].append({"reactants": [], "products": [sp0], "type": "general",
                                           "params": {"rate": rng.choice(["Min(kcap, kvol*(1+%s)/volume)", "Max(0.1*kcap, kvol*volume/(1+%s))", "Min(kvol*volume, kcap, 1+%s)"]) % sp0}})
        cases.append(c)
    # volume models that divide on the volume itself (StateDependentVolume), in the volume-aware AND in the delay + volume simulator:
    # the result ends at the first requested time at which the stepped volume exceeds the division volume, and no reported volume
    # lies above it (seeded change S5_C11: the delay + volume simulator tested the volume of the step before)
    for _ in range(n // 4):
        kind = rng.choice(["vssa", "dvssa"]); c = c06.gen_case(rng, kind=kind); c["times"] = [t - c["times"][0] for t in c["times"]]
        sp0 = sorted(c["spec"]["x0"])[0]; v0 = rng.choice([0.5, 1.0, 1.5])
        c["volume"] = {"type": "sd", "V0": v0, "avg": v0 * rng.choice([1.2, 1.5, 2.0, 3.0, 50.0]),
                       "growth": rng.choice(["0.3", "0.7", "0.15", "0.1 + 0.25*%s/(1+%s)" % (sp0, sp0)])}
        cases.append(c)
    return cases

def impl_case(case):
    r = R.impl_replay(case)
    # the rates the volume-aware simulator is handed by ITS interface (plain or safe, as the case says) at the initial state and volume:
    # mass action must be the volume-scaled stochastic form there (seeded change S7_C11: the safe interface's volume path used the
    # deterministic form k a^2 / V for 2A -> ...)
    if isinstance(r, dict) and "rows" in r:
        try:
            import numpy as np
            from bioscrape.simulator import ModelCSimInterface, SafeModelCSimInterface
            M = G.build_model(case["spec"]); s2i = M.get_species2index()
            I = (SafeModelCSimInterface if case.get("safe") else ModelCSimInterface)(M)
            x = np.zeros(len(s2i))
            for s_, v_ in case["spec"]["x0"].items(): x[s2i[s_]] = v_
            r["rate_probe"] = [float(v) for v in I.py_compute_propensities(x.copy(), 0.0, "stochastic_volume", float(case["volume"]["V0"]))]
        except Exception as e: r["rate_probe_error"] = "%s: %s" % (type(e).__name__, str(e)[:120])
    return r
driver_line = R.driver_line
compare = R.compare

def oracle(case, r):
    if not r or "rows" not in r: return "implementation failed: %s" % json.dumps(r)[:300]
    T = case["times"]; dt = T[1] - T[0]; vs = case["volume"]
    if r.get("rate_probe") is not None and len(r["rate_probe"]) == len(case["spec"]["reactions"]):
        for j, rx in enumerate(case["spec"]["reactions"]):
            if rx["type"] != "massaction" or any(isinstance(v_, str) and v_ not in case["spec"]["parameters"] for k_, v_ in rx["params"].items() if k_ == "k"): continue
            want = float(c01.closed_form(case["spec"], rx, "stochvol", case["spec"]["x0"], vs["V0"])[0]); got = r["rate_probe"][j]
            short = any(case["spec"]["x0"][s_] < rx["reactants"].count(s_) + rx.get("delay", {}).get("reactants", []).count(s_) for s_ in set(rx["reactants"]) | set(rx.get("delay", {}).get("reactants", [])))
            if case.get("safe") and short: want_ok = (got == 0.0) or abs(got - want) <= 1e-12 * max(1.0, abs(want))
            else: want_ok = abs(got - want) <= 1e-12 * max(1.0, abs(want))
            if not want_ok: return "scaled rates: reaction %d (%s -> ...) has rate %r through the %s interface at x0, V=%r; volume-scaled mass action gives %r" % (j, "+".join(rx["reactants"]) or "0", got, "safe" if case.get("safe") else "plain", vs["V0"], want)
    vols = [float.fromhex(v) for v in r["vols"]]; nrows = len(r["rows"])
    if len(vols) != nrows: return "shape: %d volumes for %d rows" % (len(vols), nrows)
    if any(v <= 0 for v in vols): return "positivity: volume trace %r" % vols
    if r["times_out"] is None or [float.fromhex(t) for t in r["times_out"]] != T[:nrows]: return "shape: result times are not a prefix of the requested times"
    if vs["type"] == "base":
        if any(v != vs["V0"] for v in vols): return "constant volume: trace %r for V=%r" % (vols, vs["V0"])
        if r["divided"] or nrows != len(T): return "constant volume: reported division / truncated result"
        return None
    if vs["type"] == "sd":
        # growth rate >= 0.1 by construction: the volume never shrinks; it divides when a step takes it above the division volume
        for k in range(1, len(vols)):
            if vols[k] < vols[k - 1] * (1 - 1e-12): return "monotone: volume decreases at row %d: %r" % (k, vols)
        over = [k for k, v in enumerate(vols) if v > vs["avg"] * (1 + 1e-12)]
        if over: return "division: the volume reported at t=%g is %r, above the division volume %r: the result should have ended when the volume model reported division" % (T[over[0]], vols[over[0]], vs["avg"])
        if not r["divided"] and nrows != len(T): return "division: %d of %d rows without a division" % (nrows, len(T))
        if case["volume"]["growth"] in ("0.3", "0.7", "0.15"):
            gr = float(case["volume"]["growth"])
            for k, v in enumerate(vols):
                lo, hi = vs["V0"] * math.exp(gr * (T[k] - dt)) * (1 - 1e-9), vs["V0"] * math.exp(gr * (T[k] + dt)) * (1 + 1e-9)
                if not (lo <= v <= hi): return "growth law: volume %r at t=%g is more than one step away from V0*exp(g t) = %r" % (v, T[k], vs["V0"] * math.exp(gr * T[k]))
            # the step that first exceeds the division volume ends the result: rows are those recorded up to that step
            steps = [j * dt for j in range(1, int(T[-1] / dt) + 3)]
            cross = [t for t in steps if vs["V0"] * math.exp(gr * t) > vs["avg"] * (1 + 1e-9)]
            near = [t for t in steps if abs(vs["V0"] * math.exp(gr * t) - vs["avg"]) <= 1e-9 * vs["avg"]]
            if cross and not near and cross[0] < T[-1] - 1e-12:
                want = sum(1 for t in T if t <= cross[0])
                if not r["divided"]: return "division: the volume exceeds the division volume at the step ending %g but the result is not flagged as divided" % cross[0]
                if nrows != want: return "division: divided at the step ending %g: %d rows reported, expected %d" % (cross[0], nrows, want)
        return None
    g = 0.69314718056 / vs["cycle"]
    for k in range(1, len(vols)):
        if vols[k] < vols[k - 1] * (1 - 1e-12): return "monotone: volume decreases at row %d: %r" % (k, vols)
    for k, v in enumerate(vols):
        lo, hi = vs["V0"] * math.exp(g * (T[k] - dt)) * (1 - 1e-9), vs["V0"] * math.exp(g * (T[k] + dt)) * (1 + 1e-9)
        if not (lo <= v <= hi): return "growth law: volume %r at t=%g is more than one step away from V0*exp(g t) = %r" % (v, T[k], vs["V0"] * math.exp(g * T[k]))
    # division time from the stream (Box-Muller on the first two uniforms), as the volume model pre-samples it
    if not r.get("raws") or len(r["raws"]) < 2: return None
    u1, u2 = [(int(x) >> 11) * (1.0 / 9007199254740991.0) for x in r["raws"][:2]]
    nrm = math.sqrt(-2 * math.log(u1)) * math.cos(2 * 3.141592653589793238 * u2) * vs["noise"] + 1.0
    tdiv = nrm * math.log(vs["avg"] / vs["V0"]) / g
    steps = [j * dt for j in range(1, int(T[-1] / dt) + 3)]      # the volume clock ticks at t0 + j*dt, whatever the grid
    hit = [t for t in steps if t - dt < tdiv <= t]
    if any(abs(tdiv - t) < 1e-9 or abs(tdiv - (t - dt)) < 1e-9 for t in steps): return None
    if hit and hit[0] <= T[-1]:
        want = sum(1 for t in T if t <= hit[0])
        if not r["divided"]: return "division: division time %r falls in the step ending at %g but the result is not flagged as divided" % (tdiv, hit[0])
        if nrows != want: return "division: divided at the step ending %g: %d rows reported, expected %d (rows recorded before the division)" % (hit[0], nrows, want)
    else:
        # all requested times are reported.  On a grid that is not aligned with the volume clock the last row may be recorded by the
        # very clock tick (the first one >= T[-1]) at which the cell divides: the flag is then set although no row is missing
        last_tick = min(t for t in steps if t >= T[-1] - 1e-12)
        flag_may_be_set = bool(hit) and hit[0] <= last_tick
        if (r["divided"] and not flag_may_be_set) or nrows != len(T): return "division: no division within the horizon (division time %r) but flag=%r rows=%d/%d" % (tdiv, r["divided"], nrows, len(T))
    return None

def extra_checks(ctx):
    return c05.extra_checks(ctx, volume_of=lambda rng: rng.choice([0.5, 2.0, 3.3]))

def nontrivial(case): return case["volume"]["type"] != "base" or case["volume"]["V0"] != 1.0
def site(case, msg): return (msg or "any").split(":")[0]
def key(case): return json.dumps([case["spec"], case["volume"], case["times"], case["seed"]], sort_keys=True)
def stats(cases):
    from collections import Counter
    return {"volume_models": dict(Counter(c["volume"]["type"] for c in cases)), "no_reaction_models": sum(1 for c in cases if not c["spec"]["reactions"])}
