"""C07: py_simulate_model over the full option lattice (exhaustive) x models with/without delays and
rules.  Correspondence: Model/Dispatch.v (extracted) predicts rejection / simulator kind; the
implementation is called in a subprocess per batch (a crash is an observation).  Oracle: returned
or explicit ValueError about the options; shape, time axis, labels, first row.  The dispatcher model is also evaluated inside
Coq on every combination (coq/Gen/CasesC07.v, regenerated on every run)."""
import itertools, json, math
from harness.common import fhex
PID = "C07"; COQ_TARGET = "C07"
RULE = ("exhaustive: {stochastic} x {delay None/False/True} x {safe} x {volume False/0/0.0/numpy.False_/True/1.7/Volume()/dividing StochasticTimeThresholdVolume} x {dataframe, result object} x {Model, pre-built interface} = 384 "
        "combinations x 6 models (with/without delayed reactions, with/without assignment rules, rules on the dt schedule, rules scheduled at the start), uniform grid from 0; non-trivial = every combination")
TRUSTED = ["hand model coq/Model/Dispatch.v tied by exhaustive correspondence over the option lattice"]
ASSUMPTIONS = ["numeric volumes are positive (quantifier)", "shape / label / first-row clauses are decided by the harness oracle on the lattice; mechanised only for the SSA loop's row count"]

MODELS = {
 "plain": {"species": ["A", "B"], "reactions": [[["A"], ["B"], "massaction", {"k": 0.8}], [["B"], [], "massaction", {"k": 0.3}]], "rules": [], "x0": {"A": 9.0, "B": 2.0}},
 "delay": {"species": ["A", "B"], "reactions": [[["A"], [], "massaction", {"k": 0.8}, "fixed", [], ["B"], {"delay": 0.5}], [["B"], [], "massaction", {"k": 0.3}]], "rules": [], "x0": {"A": 9.0, "B": 2.0}},
 "rules": {"species": ["A", "B", "R", "T2"], "reactions": [[["A"], ["B"], "massaction", {"k": 0.8}]],
           "rules": [["assignment", {"equation": "R = 2*A + 1"}], ["additive", {"equation": "T2 = A + R"}]], "x0": {"A": 9.0, "B": 2.0, "R": 0.0, "T2": 0.0}},
 # rules on the dt schedule (frequency "dt") are assignment rules too: the first row shows them applied in every mode
 # (seeded change S4_C07: the delay simulator started with rule_step = 0)
 "dtrules": {"species": ["A", "B", "R", "D1"], "reactions": [[["A"], ["B"], "massaction", {"k": 0.8}], [["B"], [], "massaction", {"k": 0.3}, "fixed", [], ["A"], {"delay": 0.4}]],
             "rules": [["assignment", {"equation": "R = 2*A + 1"}], ["assignment", {"equation": "D1 = 3*A + 2"}, "dt"]], "x0": {"A": 9.0, "B": 2.0, "R": 0.0, "D1": 0.0}},
 # ... and so are rules with frequency "start" (time 0) and rules scheduled for the first requested time (seeded change S5_C07: the
 # volume path compared the time flag only when it was > 0)
 "startrules": {"species": ["A", "B", "ST", "S0"], "reactions": [[["A"], ["B"], "massaction", {"k": 0.8}]],
                "rules": [["assignment", {"equation": "ST = 5*A + 1"}, "start"], ["assignment", {"equation": "S0 = A + B"}, 0.0]], "x0": {"A": 9.0, "B": 2.0, "ST": 0.0, "S0": 0.0}},
 "delay+rules": {"species": ["A", "B", "R"], "reactions": [[["A"], [], "massaction", {"k": 0.8}, "gamma", [], ["B"], {"k": 2.0, "theta": 0.2}]],
                 "rules": [["assignment", {"equation": "R = A + B"}]], "x0": {"A": 9.0, "B": 2.0, "R": 0.0}},
}
FIRST_ROW = {"plain": {"A": 9.0, "B": 2.0}, "delay": {"A": 9.0, "B": 2.0}, "rules": {"A": 9.0, "B": 2.0, "R": 19.0, "T2": 28.0}, "delay+rules": {"A": 9.0, "B": 2.0, "R": 11.0},
             "dtrules": {"A": 9.0, "B": 2.0, "R": 19.0, "D1": 29.0}, "startrules": {"A": 9.0, "B": 2.0, "ST": 46.0, "S0": 11.0}}
# off0 / off0f / offnp: the flag "off" as users' code often holds it -- 0, 0.0, numpy.False_ -- not the singleton False (seeded change S6_C07)
VOLS = ["off", "true", "num", "obj", "divobj", "off0", "off0f", "offnp"]   # divobj: an initialised StochasticTimeThresholdVolume that divides inside the window

def gen_cases(seed, tier):
    cases = []
    for mname in MODELS:
        for stoch, delay, safe, vol, df, via in itertools.product([False, True], [None, False, True], [False, True], VOLS, [True, False], ["model", "interface"]):
            cases.append({"model": mname, "stochastic": stoch, "delay": delay, "safe": safe, "volume": vol, "df": df, "via": via, "seed": 1000 + seed})
            # the same combination on a grid with as many time points as the model has species: a square result array
            # (seeded change S2_C07: orientation guessed from the shape)
            cases.append({"model": mname, "stochastic": stoch, "delay": delay, "safe": safe, "volume": vol, "df": df, "via": via, "seed": 2000 + seed, "grid": "square"})
    # the two rejections by the entry point itself
    for mname in ["plain"]:
        cases.append({"model": mname, "stochastic": True, "delay": None, "safe": False, "volume": "off", "df": True, "via": "both", "seed": 1})
        cases.append({"model": mname, "stochastic": True, "delay": None, "safe": False, "volume": "off", "df": True, "via": "neither", "seed": 1})
    return cases

def impl_case(case):
    import numpy as np, warnings
    from bioscrape.types import Model, Volume, StochasticTimeThresholdVolume
    from bioscrape.simulator import py_simulate_model, ModelCSimInterface, SafeModelCSimInterface
    from bioscrape.random import py_seed_random
    warnings.simplefilter("ignore")
    m = MODELS[case["model"]]
    M = Model(species=list(m["species"]), reactions=[tuple(r) for r in m["reactions"]], rules=[tuple(r) for r in m["rules"]], initial_condition_dict=dict(m["x0"]))
    T = np.linspace(0, 2, 9) if case.get("grid") != "square" else np.linspace(0, 2, len(m["species"]))
    kw = {"stochastic": case["stochastic"], "delay": case["delay"], "safe": case["safe"], "return_dataframe": case["df"]}
    if case["volume"] == "off": kw["volume"] = False
    elif case["volume"] == "off0": kw["volume"] = 0
    elif case["volume"] == "off0f": kw["volume"] = 0.0
    elif case["volume"] == "offnp": kw["volume"] = np.False_
    elif case["volume"] == "true": kw["volume"] = True
    elif case["volume"] == "num": kw["volume"] = 1.7
    elif case["volume"] == "obj":
        v = Volume(); v.py_set_volume(1.3); kw["volume"] = v
    else:
        # cycle 1.0, division volume 2.0, 2% noise, initial volume 1.0: divides near t = 1 (window is [0, 2])
        v = StochasticTimeThresholdVolume(1.0, 2.0, 0.02); py_seed_random(case["seed"] + 7)
        v.py_initialize(np.array([m["x0"][s_] for s_ in M.get_species_list()], dtype=float), np.array(M.get_parameter_values(), dtype=float), 0.0, 1.0); kw["volume"] = v
    if case["via"] in ("model", "both"): kw["Model"] = M
    if case["via"] in ("interface", "both"):
        kw["Interface"] = SafeModelCSimInterface(M) if case["safe"] else ModelCSimInterface(M)
        if case.get("grid") == "square":
            # the user sets the interface's initial state from an INTEGER array of molecule counts (same values): S3_C07
            kw["Interface"].py_set_initial_state(np.array([int(m["x0"][s_]) for s_ in M.get_species_list()]))
    # what the model hands out belongs to the caller: the list of names may be sorted, extended, emptied (seeded change S7_C07: the list was
    # a cache shared with the data-frame labelling); the expected labels below come from the index map, not from that list
    s2i_ = M.get_species2index(); true_order = [None] * len(s2i_)
    for s_, i_ in s2i_.items(): true_order[i_] = s_
    scribble = M.get_species_list(); scribble.sort(reverse=True); scribble.append("time")
    py_seed_random(case["seed"])
    try:
        res = py_simulate_model(T, **kw)
    except ValueError as e:
        return {"outcome": "ValueError", "msg": str(e)[:200]}
    except BaseException as e:
        return {"outcome": "inside:" + type(e).__name__, "msg": str(e)[:200]}
    out = {"outcome": "returned", "type": type(res).__name__, "species": true_order}
    if case["df"]:
        out["columns"] = [str(c) for c in res.columns]; out["nrows"] = int(len(res))
        out["time"] = [None if v is None or (isinstance(v, float) and math.isnan(v)) else float(v) for v in list(res["time"])] if "time" in res.columns else None
        out["first"] = [float(v) for v in res.iloc[0].values[: len(true_order)]]
    else:
        arr = np.asarray(res.py_get_result()); tp = res.py_get_timepoints()
        out["nrows"] = int(arr.shape[0]); out["ncols"] = int(arr.shape[1])
        out["time"] = None if tp is None else [float(v) for v in np.asarray(tp)]
        out["first"] = [float(v) for v in arr[0]]
        out["has_volume"] = hasattr(res, "py_get_volume")
        if out["has_volume"]: out["nvol"] = int(len(np.asarray(res.py_get_volume()))); out["divided"] = bool(res.py_cell_divided())
    out["T"] = [float(v) for v in T]
    return out

def driver_line(case, r):
    b = lambda x: "1" if x else "0"
    d = {None: "none", False: "false", True: "true"}[case["delay"]]
    v = {"off": "off", "true": "true", "num": "numpos", "obj": "obj", "divobj": "obj", "off0": "off", "off0f": "off", "offnp": "off"}[case["volume"]]
    return " ".join(["dispatch", b(case["via"] in ("model", "both")), b(case["via"] in ("interface", "both")), b(case["stochastic"]), d, b(case["safe"]), v, b(case["df"])])

KIND_TYPE = {"det": "SSAResult", "ssa": "SSAResult", "volssa": "VolumeSSAResult", "delayssa": "DelaySSAResult", "delayvolssa": "DelayVolumeSSAResult"}
def compare(case, r, out):
    if not r or "outcome" not in r: return "implementation failed: %s" % json.dumps(r)[:300]
    toks = out.split()
    if toks[0] == "REJECT":
        return None if r["outcome"] == "ValueError" else "model: options rejected; implementation: %s" % json.dumps(r)[:200]
    if toks[0] == "FAULT": return "model predicts an internal fault (%s); implementation: %s" % (out, json.dumps(r)[:200])
    if r["outcome"] != "returned": return "model: runs %s; implementation: %s %s" % (toks[1], r["outcome"], r.get("msg"))
    if not case["df"] and r["type"] != KIND_TYPE[toks[1]]: return "model: simulator %s; implementation returned %s" % (toks[1], r["type"])
    return None

def oracle(case, r):
    if not r or "outcome" not in r: return "from inside: %s" % json.dumps(r)[:300]
    tag = "stochastic=%s delay=%s safe=%s volume=%s df=%s via=%s model=%s grid=%s" % (case["stochastic"], case["delay"], case["safe"], case["volume"], case["df"], case["via"], case["model"], case.get("grid", "9 points"))
    if case["via"] in ("both", "neither"):
        return None if r["outcome"] == "ValueError" else "options: neither/both of Model and Interface not rejected (%s)" % tag
    if r["outcome"] == "ValueError":
        return None if ("Model" in r["msg"] or "Interface" in r["msg"] or "option" in r["msg"].lower()) else "from inside: ValueError not about the options: %s (%s)" % (r["msg"], tag)
    if r["outcome"] != "returned": return "from inside: %s: %s (%s)" % (r["outcome"], r.get("msg"), tag)
    T = r["T"]; sp = r["species"]; uses_vol = not case["volume"].startswith("off") and (case["stochastic"] or case["delay"] is True)
    if r.get("has_volume") and r["nvol"] != r["nrows"]: return "rows: %d rows but %d volume entries (%s)" % (r["nrows"], r["nvol"], tag)
    if r["nrows"] > len(T) or r["nrows"] < 1: return "rows: %d rows for %d time points (%s)" % (r["nrows"], len(T), tag)
    if r["nrows"] != len(T) and not (case["volume"] == "divobj" and uses_vol): return "rows: %d rows for %d time points (%s)" % (r["nrows"], len(T), tag)
    if r["time"] is None or any(t is None for t in r["time"]) or [float(t) for t in r["time"]] != T[: r["nrows"]]:
        return "time axis: %r is not the requested times (%s)" % (r["time"], tag)
    if case["df"]:
        want = (sp if case["via"] == "model" else [str(i) for i in range(len(sp))]) + ["time"] + (["volume"] if uses_vol else [])
        if r["columns"] != want: return "columns: %r, expected %r (%s)" % (r["columns"], want, tag)
    else:
        if r["ncols"] != len(sp): return "columns: %d columns for %d species (%s)" % (r["ncols"], len(sp), tag)
        if uses_vol and not r.get("has_volume"): return "volume: result carries no volume although one is used (%s)" % tag
    fr = FIRST_ROW[case["model"]]; want = [fr[s] for s in sp]
    if any(abs(a - b) > 1e-9 for a, b in zip(r["first"], want)): return "first row: %r, expected initial condition with rules applied %r (%s)" % (r["first"], want, tag)
    return None

def site(case, msg): return (msg or "any").split(":")[0]
def nontrivial(case): return True
def key(case): return json.dumps(case, sort_keys=True)
def stats(cases):
    from collections import Counter
    return {"per_model": dict(Counter(c["model"] for c in cases)), "exhaustive_option_combinations": 384}
def extra_checks(ctx):
    """Besides the counts: the dispatcher model is ALSO evaluated inside Coq on every distinct option combination of the run -- the
    harness writes coq/Gen/CasesC07.v with one Example per combination, `class (dispatch options) = what the implementation did`
    (0 rejected with an error about the options, 1 SSAResult, 2 VolumeSSAResult, 3 DelaySSAResult, 4 DelayVolumeSSAResult; for data
    frames only rejected / returned), closed by vm_compute; reflexivity.  coqc accepting the file cross-checks extraction and the driver."""
    import os, subprocess, re
    from harness import common as C
    ended = sum(1 for r in ctx["impl_res"] if isinstance(r, dict) and r.get("outcome") == "returned" and r.get("nrows", 0) < len(r.get("T", [])))
    cov = {"exhaustive": True, "results_ended_by_cell_division": ended}
    seen = {}; fails = []
    for c, r in zip(ctx["cases"], ctx["impl_res"]):
        if not isinstance(r, dict) or r.get("outcome") not in ("returned", "ValueError"): continue
        k = (c["via"], c["stochastic"], c["delay"], c["safe"], c["volume"], c["df"])
        if r["outcome"] == "ValueError": code = 0
        elif c["df"]: code = 1
        else: code = {"SSAResult": 1, "VolumeSSAResult": 2, "DelaySSAResult": 3, "DelayVolumeSSAResult": 4}.get(r.get("type"), 8)
        seen.setdefault(k, (code, c))
    B = lambda x: "true" if x else "false"
    lines = ["(* GENERATED by harness/props/c07.py on every run -- do not edit *)", "From Coq Require Import List.", "From BS Require Import Model.Dispatch.", "",
             "Definition class (df : bool) (v : verdict) : nat :=",
             "  match v with RejectOptions => 0 | InternalFault _ => 9",
             "  | Run k _ _ => if df then 1 else match k with KDet => 1 | KSSA => 1 | KVolSSA => 2 | KDelaySSA => 3 | KDelayVolSSA => 4 end end.", ""]
    keys = sorted(seen, key=lambda k_: json.dumps(k_, default=str))
    for n_, k in enumerate(keys):
        via, st, d, sf, v, df = k; code = seen[k][0]
        o = "mkOpts %s %s %s %s %s %s %s" % (B(via in ("model", "both")), B(via in ("interface", "both")), B(st), {None: "TNone", False: "TFalse", True: "TTrue"}[d], B(sf),
                                          {"off": "VOff", "true": "VTrue", "num": "VNumPos", "obj": "VObj", "divobj": "VObj", "off0": "VOff", "off0f": "VOff", "offnp": "VOff"}[v], B(df))
        lines.append("Example d_%d : class %s (dispatch (%s)) = %d. Proof. vm_compute. reflexivity. Qed." % (n_, B(df), o, code))
    gen = os.path.join(C.COQ, "Gen", "CasesC07.v"); os.makedirs(os.path.dirname(gen), exist_ok=True)
    open(gen, "w").write("\n".join(lines) + "\n")
    p = subprocess.run(["timeout", "600", "coqc", "-Q", ".", "BS", "Gen/CasesC07.v"], cwd=C.COQ, stdout=subprocess.PIPE, stderr=subprocess.STDOUT, text=True)
    if p.returncode != 0:
        m = re.search(r'line (\d+)', p.stdout); ln = int(m.group(1)) if m else 0
        which = lines[ln - 1][:200] if 0 < ln <= len(lines) else "?"
        m2 = re.search(r'Example d_(\d+) ', which); kk = keys[int(m2.group(1))] if m2 else keys[0]
        fails.append((seen[kk][1], "in-Coq evaluation: the dispatcher model evaluated by vm_compute differs from what the implementation did at `%s` (%s)" % (which, p.stdout.strip().splitlines()[-1][:160] if p.stdout.strip() else "coqc failed")))
    cov.update({"combinations_evaluated_inside_coq": len(keys), "in_coq_examples": len(keys)})
    return {"oracle_fail": fails, "coverage": cov}
