"""C05: SSA samples the CME.  Correspondence = stream replay of SSASimulator (rows + draw count) on
time-independent networks.  Oracle/search = exact CME reference on finite state spaces (generator
matrix, expm) against seeded ensembles, chi-square with alarm threshold p < 1e-9."""
import json, re, math, random
from harness import modelgen as G, replay as R
from harness.props import c01, c06
PID = "C05"; COQ_TARGET = "C05"
RULE = ("replay: random finite-state networks (all propensity kinds, orders 0-3 with repeats, catalysts, 1-4 reactions), grids with several events per step and several steps "
        "per event, seeds; ensemble: closed networks whose reachable set is enumerated, N seeded runs, chi-square of the state histogram at every grid time "
        "against p0*expm(Q t); non-trivial = some reaction fired")
TRUSTED = ["hand model coq/Model/SSA.v + Random.v tied by stream replay", "scipy.linalg.expm and the chi-square test are used only as violation search / soak (never as ground for the claim)"]
ASSUMPTIONS = ["the lift from the per-iteration jump kernel (theorems) to the law of the rows is cited, not mechanised (C05_distribution_partial)",
               "chi-square alarm threshold p < 1e-9 per test; < 60 tests per run: false-alarm probability < 6e-8 per run"]

def gen_cases(seed, tier):
    rng = random.Random(seed * 7001 + 5); n = 200 if tier == "quick" else 2500
    cases = []
    for _ in range(n):
        c = c06.gen_case(rng, kind="ssa")
        # a third of the cases keep the safe interface (its propensities are the master equation's too: a reaction short of a
        # reactant has propensity 0 there) -- seeded change S4_C05: the safe interface's "short of a reactant" flag leaked from one
        # reaction to the next
        keep_safe = c["safe"] and rng.random() < 0.5 or rng.random() < 0.15
        c["safe"] = bool(keep_safe)
        # plain interface: keep consumers mass action so that states stay non-negative
        for rx in ([] if keep_safe else c["spec"]["reactions"]):
            # the plain interface cannot hold back a reaction whose DELAYED part consumes (applied at once here): no delayed reactants
            if "delay" in rx: rx["delay"]["reactants"] = []
            if rx["reactants"] and rx["type"] != "massaction":
                rx["type"] = "massaction"; rx["params"] = {"k": rng.choice([0.1, 0.2, 0.5, 1.0])}
        cases.append(c)
        # time-rescaling family: all rate constants x 10^-e and the grid x 10^e.  The master equation is invariant under this
        # (same jump chain, waiting times x 10^e), so with the same seed the rows must be those of the unscaled run; the replay
        # also runs the scaled case itself.  (added after the seeded change S_C05: "Lambda < 1e-9" treated as "nothing can fire")
        if rng.random() < 0.3 and not c["spec"].get("rules"):       # (a rule's own rate is not rescaled)
            e = rng.choice([3, 6, 9, 12, 15]); c2 = json.loads(json.dumps(c)); f = 10.0 ** (-e)
            for k in c2["spec"]["parameters"]:
                if k.startswith(("k_", "kg_")): c2["spec"]["parameters"][k] *= f
            for rx in c2["spec"]["reactions"]:
                if not isinstance(rx["params"].get("k", ""), str): rx["params"]["k"] *= f
            c2["times"] = [t * 10.0 ** e for t in c2["times"]]; c2["rescaled"] = {"exponent": e, "base": c}
            cases.append(c2)
        # time-translation family: the master equation of a network whose rates do not mention t is invariant under a shift of the clock, and
        # nothing says the clock is positive: initial time and grid moved to (or across) the negative axis, same seed, same rows
        # (seeded change S7_C05: a proposed reaction time below zero was taken for the "nothing can fire" sentinel)
        elif rng.random() < 0.3 and not any(rx["type"] == "general" and re.search(r"\bt\b", rx["params"].get("rate", "")) for rx in c["spec"]["reactions"]) and not c["spec"].get("rules"):
            sh = rng.choice([-16.0, -64.0, -c["times"][len(c["times"]) // 2], -c["times"][-1]])
            if sh != 0.0:
                c3 = json.loads(json.dumps(c)); c3["times"] = [t + sh for t in c3["times"]]; c3["t0"] = c.get("t0", 0.0) + sh; c3["shifted"] = {"by": sh, "base": c}
                cases.append(c3)
    return cases

def impl_case(case):
    r = R.impl_replay(case)
    if case.get("strided_grid") and isinstance(r, dict) and "rows" in r:
        # the same run with the grid passed as an ordinary contiguous array: what is reported for a time point cannot depend on how
        # the caller's array is laid out in memory
        rc = R.impl_replay(dict(case, strided_grid=False))
        r["contiguous_rows"] = rc.get("rows") if isinstance(rc, dict) else None
    if "shifted" in case and isinstance(r, dict) and "rows" in r:
        rb = R.impl_replay(case["shifted"]["base"])
        r["unshifted_rows"] = rb.get("rows") if isinstance(rb, dict) else None
    if "rescaled" in case and isinstance(r, dict) and "rows" in r:
        rb = R.impl_replay(case["rescaled"]["base"])
        r["base_rows"] = rb.get("rows") if isinstance(rb, dict) else None
    return r
driver_line = R.driver_line
compare = R.compare
def oracle(case, r):
    m = c06.oracle(case, r)
    if m: return m
    if case.get("strided_grid") and isinstance(r, dict) and r.get("contiguous_rows") is not None and r["rows"] != r["contiguous_rows"]:
        k = next((i for i, (a, b) in enumerate(zip(r["rows"], r["contiguous_rows"])) if a != b), -1)
        return "grid layout: with the time grid passed as a non-contiguous view (same values, same seed) row %d is %r, with a contiguous grid %r" % (
            k, [float.fromhex(v) for v in r["rows"][k]] if k >= 0 else len(r["rows"]), [float.fromhex(v) for v in r["contiguous_rows"][k]] if k >= 0 else len(r["contiguous_rows"]))
    if "shifted" in case and isinstance(r, dict) and r.get("unshifted_rows") is not None and r["rows"] != r["unshifted_rows"]:
        k = next((i for i, (a, b) in enumerate(zip(r["rows"], r["unshifted_rows"])) if a != b), -1)
        return "time translation: with the initial time and the grid shifted by %r (same seed, no rate mentions t) row %d is %r, the unshifted run has %r" % (
            case["shifted"]["by"], k, [float.fromhex(v) for v in r["rows"][k]] if k >= 0 else len(r["rows"]), [float.fromhex(v) for v in r["unshifted_rows"][k]] if k >= 0 else len(r["unshifted_rows"]))
    if "rescaled" in case and r.get("base_rows") is not None and r["rows"] != r["base_rows"]:
        k = next(i for i, (a, b) in enumerate(zip(r["rows"], r["base_rows"])) if a != b) if len(r["rows"]) == len(r["base_rows"]) else -1
        return "time rescaling: with every rate constant x 1e-%d and the grid x 1e%d (same seed) row %d is %r, the unscaled run has %r" % (
            case["rescaled"]["exponent"], case["rescaled"]["exponent"], k, [float.fromhex(v) for v in r["rows"][k]] if k >= 0 else len(r["rows"]), [float.fromhex(v) for v in r["base_rows"][k]] if k >= 0 else len(r["base_rows"]))
    return None
def nontrivial(case): return True
def site(case, msg): return (msg or "any").split(":")[0]
def key(case): return c06.key(case)
def stats(cases):
    d = c06.stats(cases); d["time_rescaled"] = sum(1 for c in cases if "rescaled" in c); d["time_shifted_to_negative_clock"] = sum(1 for c in cases if "shifted" in c); return d

# ------------------------------------------------------------------ ensemble check against the exact CME
def _cme_reference(spec, names, times, maxstates=400, V=None):
    import numpy as np
    from scipy.linalg import expm
    x0 = tuple(int(spec["x0"].get(s, 0)) for s in names)
    idx = {x0: 0}; todo = [x0]; trans = []
    while todo:
        x = todo.pop()
        xd = dict(zip(names, [float(v) for v in x]))
        for rx in spec["reactions"]:
            a = c01.closed_form(spec, rx, "stoch" if V is None else "stochvol", xd, 1.0 if V is None else V)[0]
            if a <= 0: continue
            y = tuple(x[i] + rx["products"].count(s) - rx["reactants"].count(s) for i, s in enumerate(names))
            if min(y) < 0: return None
            if y not in idx:
                idx[y] = len(idx); todo.append(y)
                if len(idx) > maxstates: return None
            trans.append((idx[x], idx[y], a))
    n = len(idx); Q = np.zeros((n, n))
    for i, j, a in trans: Q[i, j] += a; Q[i, i] -= a
    p0 = np.zeros(n); p0[0] = 1.0
    return idx, [p0 @ expm(Q * t) for t in times]

def ensemble_impl(case):
    """runs in the implementation process: N seeded simulations, returns state tuples per time"""
    import numpy as np, warnings
    from bioscrape.simulator import py_simulate_model
    from bioscrape.random import py_seed_random
    warnings.simplefilter("ignore")
    M = G.build_model(case["spec"]); T = np.array(case["times"], dtype=float)
    s2i = M.get_species2index(); names = sorted(s2i, key=lambda s: s2i[s])
    out = []
    py_seed_random(case["seed"])
    for k in range(case["N"]):
        if case.get("volume") is None: res = py_simulate_model(T, Model=M, stochastic=True, return_dataframe=False).py_get_result()
        else: res = py_simulate_model(T, Model=M, stochastic=True, volume=case["volume"], return_dataframe=False).py_get_result()
        out.append([[int(v) for v in row] for row in res])
    return {"names": names, "runs": out}

def extra_checks(ctx, volume_of=None):
    import numpy as np
    from scipy import stats as st
    from harness import common as C
    rng = random.Random(ctx["seed"] * 99991 + 55)
    N = 3000 if ctx["tier"] == "quick" else 20000
    nets = []
    nets.append({"species": ["A", "B"], "reactions": [{"reactants": ["A"], "products": ["B"], "type": "massaction", "params": {"k": 0.7}},
                                                       {"reactants": ["B"], "products": ["A"], "type": "massaction", "params": {"k": 0.4}}], "parameters": {}, "x0": {"A": 6.0, "B": 1.0}})
    nets.append({"species": ["A", "B"], "reactions": [{"reactants": ["A", "A"], "products": ["B"], "type": "massaction", "params": {"k": 0.15}},
                                                       {"reactants": ["B"], "products": ["A", "A"], "type": "massaction", "params": {"k": 0.5}}], "parameters": {}, "x0": {"A": 7.0, "B": 0.0}})
    nets.append({"species": ["A", "B", "C"], "reactions": [{"reactants": ["A", "A", "B"], "products": ["C"], "type": "massaction", "params": {"k": 0.05}},
                                                            {"reactants": ["C"], "products": ["A", "B"], "type": "hillpositive", "params": {"k": 1.0, "K": 2.0, "n": 2, "s1": "C"}}], "parameters": {}, "x0": {"A": 6.0, "B": 3.0, "C": 0.0}})
    tries = 0
    while len(nets) < (5 if ctx["tier"] == "quick" else 14) and tries < 200:
        tries += 1
        spec = G.gen_network(rng, kinds=("massaction",), nrx=(2, 3), nsp=(2, 3), max_order=3, integer_state=True, bounded=True, named=False)
        if any(len(rx["reactants"]) == 0 for rx in spec["reactions"]): continue
        for s in spec["x0"]: spec["x0"][s] = float(rng.randint(1, 5))
        nets.append(spec)
    fails = []; tests = 0; samples = []
    for spec in nets:
        times = [0.0, 0.5, 1.0, 2.0, 4.0]
        case = {"spec": spec, "times": times, "seed": rng.randint(1, 2**31), "N": N, "volume": (volume_of(rng) if volume_of else None)}
        r = C.run_impl(ctx["build"], "c05_ens", [case])[0]
        if not r or "runs" not in r:
            fails.append((case, "ensemble run failed: %s" % json.dumps(r)[:200])); continue
        ref = _cme_reference(spec, r["names"], times, V=case["volume"])
        if ref is None: continue
        idx, ps = ref; runs = r["runs"]
        for ti in range(1, len(times)):
            counts = np.zeros(len(idx)); outside = 0
            for run in runs:
                k = idx.get(tuple(run[ti]))
                if k is None: outside += 1
                else: counts[k] += 1
            if outside:
                fails.append((case, "distribution: %d of %d runs report a state outside the reachable set at t=%g" % (outside, N, times[ti]))); continue
            exp = ps[ti] * N; big = exp >= 5
            o = list(counts[big]) + [counts[~big].sum()]; e = list(exp[big]) + [exp[~big].sum()]
            if e[-1] < 1e-9: o, e = o[:-1], e[:-1]
            if len(o) < 2: continue
            e = np.array(e) * (sum(o) / sum(e))
            p = st.chisquare(o, e).pvalue; tests += 1
            if p < 1e-9: fails.append((case, "distribution: state histogram at t=%g differs from the CME solution (chi-square p=%.2e, N=%d)" % (times[ti], p, N)))
        samples.append({"network": spec["reactions"], "states": len(idx)})
    return {"oracle_fail": fails, "coverage": {"ensemble_networks": len(samples), "ensemble_runs_each": N, "chi_square_tests": tests, "ensemble_samples": samples[:2]}}
