"""C04: deterministic simulation.  Oracle: the trajectory returned by py_simulate_model starts at the initial
condition and agrees at every requested time with (a) the machine-checked closed forms of Props/C04.v,
(b) the matrix-exponential solution for random linear networks, (c) an independent high-accuracy integration
(scipy solve_ivp, rtol 1e-11) of a right-hand side built by the harness from the documented rate laws, for
mass-action / Hill / general (incl. explicitly time-dependent) networks; uniform and non-uniform grids;
delayed parts applied as if undelayed."""
import json, math, random
from harness import modelgen as G
from harness.props import c01
PID = "C04"; COQ_TARGET = "C04"
RULE = ("closed-form families (birth-death, A<->B as two reactions and as one signed net-flux rate, dimerisation, time-dependent production) with random positive parameters; random first-order networks (<= 5 species) vs expm; "
        "random bounded non-linear networks (mass action order <= 3, Hill, general rational / exponential incl. explicit t, delayed products) vs an independent integrator; "
        "uniform and non-uniform grids from 0; non-trivial = non-linear or time-dependent or delayed")
TRUSTED = ["scipy.integrate.solve_ivp / scipy.linalg.expm as independent references (harness)", "LSODA (scipy odeint) is outside the model"]
ASSUMPTIONS = ["tolerance 2e-5 * (1 + |reference|): the integrator's atol = rtol = 1.49e-8 with error accumulation over the horizon", "uniqueness of ODE solutions is cited"]

def _grid(rng):
    n = rng.randint(3, 9)
    if rng.random() < 0.5: dt = rng.choice([0.1, 0.25, 0.5]); return [i * dt for i in range(n)]
    ts = sorted({round(rng.uniform(0.01, 3.0), 3) for _ in range(n)}); return [0.0] + ts

def gen_cases(seed, tier):
    rng = random.Random(seed * 1409 + 4); n = 90 if tier == "quick" else 1200
    cases = []
    for _ in range(n):
        fam = rng.choice(["birthdeath", "reversible", "netflux", "dimer", "timedep", "linear", "nonlinear", "nonlinear"])
        U = lambda a, b: round(rng.uniform(a, b), 3)
        c = {"family": fam, "times": _grid(rng), "safe": (rng.random() < 0.35 and fam != "netflux")}
        if fam == "birthdeath": c.update(k=U(0.1, 5), g=U(0.1, 3), x0=U(0, 10))
        elif fam in ("reversible", "netflux"): c.update(a=U(0.1, 3), b=U(0.1, 3), A0=U(0, 10), B0=U(0, 10))
        elif fam == "dimer": c.update(k=U(0.01, 1), A0=U(0, 8))
        elif fam == "timedep": c.update(k=U(0.1, 5), a=U(0.1, 2), x0=U(0, 5))
        elif fam == "linear":
            nsp = rng.randint(2, 5); sp = ["L%d" % i for i in range(nsp)]; rx = []
            for _ in range(rng.randint(1, 6)):
                k_ = rng.random()
                if k_ < 0.2: rx.append({"reactants": [], "products": [rng.choice(sp)], "type": "massaction", "params": {"k": U(0.1, 2)}})
                elif k_ < 0.4: rx.append({"reactants": [rng.choice(sp)], "products": [], "type": "massaction", "params": {"k": U(0.1, 2)}})
                else:
                    a_ = rng.choice(sp); rx.append({"reactants": [a_], "products": [rng.choice(sp)] + ([a_] if rng.random() < 0.2 else []), "type": "massaction", "params": {"k": U(0.1, 2)}})
                if rng.random() < 0.2: rx[-1]["delay"] = {"type": "fixed", "reactants": [], "products": [rng.choice(sp)], "params": {"delay": 1.0}}
            c["spec"] = {"species": sp, "reactions": rx, "parameters": {}, "x0": {s: U(0, 6) for s in sp}}
        else:
            spec = G.gen_network(rng, kinds=("massaction", "massaction") + tuple(G.HILL) + ("general",), nrx=(1, 4), nsp=(1, 3), max_order=3, bounded=True, allow_delay=rng.random() < 0.3,
                                 general_pool=["kg*%s", "kg*%s/(1+%s)", "kg*%s/(Kg+%s^2)", "kg*exp(-t)*%s", "kg*(1+t)/(1+%s)"])   # at most linear growth in any species: no finite-time blow-up
            for rx in spec["reactions"]:
                if "delay" in rx: rx["delay"]["reactants"] = []
                # well-posed: a consumed species must switch its reaction off (mass action); Hill / general laws drive production only
                if rx["type"] != "massaction": rx["reactants"] = []; rx["products"] = rx["products"][:2] or [rng.choice(list(spec["x0"]))]
            # integer Hill exponents: LSODA may step slightly below zero and (negative)**fractional is complex (raises inside the RHS)
            for rx in spec["reactions"]:
                n_ = rx["params"].get("n")
                if isinstance(n_, str): spec["parameters"][n_] = float(rng.choice([1, 2, 3]))
                elif n_ is not None: rx["params"]["n"] = rng.choice([1, 2, 3])
            for s in spec["x0"]: spec["x0"][s] = U(0.2, 6)
            c["spec"] = spec
        # a user-held interface simulated repeatedly ("pass an existing interface for speed"): the k-th run integrates the same
        # equations as the first (seeded change S5_C04: preparing an interface again appended its sparse stoichiometry a second time)
        if rng.random() < 0.3: c["reuse_interface"] = rng.choice([2, 3])
        # interfaces prepared up front and simulated afterwards through the simulator object (a parameter sweep): each run integrates
        # ITS interface's equations, whichever interface was prepared last (seeded change S6_C04)
        elif rng.random() < 0.25: c["prepared_before_another"] = True
        # counts in the thousands, and ONLY the absolute tolerance relaxed by the caller (atol = 1e-3, rtol left at its default): the result stays
        # within that absolute tolerance (accumulated) of the exact solution  (seeded change S8_C04: a missing rtol was replaced by atol)
        if fam == "birthdeath" and not c.get("reuse_interface") and not c.get("prepared_before_another") and rng.random() < 0.5:
            c.update(k=U(500, 3000), g=U(0.3, 2), x0=U(0, 50), only_atol=1e-3, safe=False)
        cases.append(c)
    return cases

def _spec_of(case):
    f = case["family"]
    if f == "birthdeath": return {"species": ["X"], "reactions": [{"reactants": [], "products": ["X"], "type": "massaction", "params": {"k": case["k"]}}, {"reactants": ["X"], "products": [], "type": "massaction", "params": {"k": case["g"]}}], "parameters": {}, "x0": {"X": case["x0"]}}
    if f == "reversible": return {"species": ["A", "B"], "reactions": [{"reactants": ["A"], "products": ["B"], "type": "massaction", "params": {"k": case["a"]}}, {"reactants": ["B"], "products": ["A"], "type": "massaction", "params": {"k": case["b"]}}], "parameters": {}, "x0": {"A": case["A0"], "B": case["B0"]}}
    # A <-> B written as ONE reaction A -> B with the signed net flux a*A - b*B as a general rate (negative while B is in excess)
    if f == "netflux": return {"species": ["A", "B"], "reactions": [{"reactants": ["A"], "products": ["B"], "type": "general", "params": {"rate": "ka*A - kb*B"}}], "parameters": {"ka": case["a"], "kb": case["b"]}, "x0": {"A": case["A0"], "B": case["B0"]}}
    if f == "dimer": return {"species": ["A", "B"], "reactions": [{"reactants": ["A", "A"], "products": ["B"], "type": "massaction", "params": {"k": case["k"]}}], "parameters": {}, "x0": {"A": case["A0"], "B": 0.0}}
    if f == "timedep": return {"species": ["X"], "reactions": [{"reactants": [], "products": ["X"], "type": "general", "params": {"rate": "kk*exp(-aa*t)"}}], "parameters": {"kk": case["k"], "aa": case["a"]}, "x0": {"X": case["x0"]}}
    return case["spec"]

def impl_case(case):
    import numpy as np, warnings
    from bioscrape.simulator import py_simulate_model
    warnings.simplefilter("ignore")
    spec = _spec_of(case); M = G.build_model(spec); T = np.array(case["times"], dtype=float)
    # the safe interface integrates the same rate equations (it only clips negative rates): S3_C04
    names = list(M.get_species_list())
    if case.get("reuse_interface"):
        from bioscrape.simulator import ModelCSimInterface, SafeModelCSimInterface
        I = SafeModelCSimInterface(M) if case.get("safe") else ModelCSimInterface(M)
        for _ in range(int(case["reuse_interface"])):
            r_ = py_simulate_model(T, Interface=I, stochastic=False, return_dataframe=False, safe=bool(case.get("safe")))
        arr = np.asarray(r_.py_get_result()); s2i = M.get_species2index()
        return {"names": names, "rows": {s_: [float(v) for v in arr[:, s2i[s_]]] for s_ in names}, "time": [float(v) for v in T]}
    if case.get("prepared_before_another"):
        from bioscrape.simulator import ModelCSimInterface, SafeModelCSimInterface, DeterministicSimulator
        from bioscrape.types import Model
        I = SafeModelCSimInterface(M) if case.get("safe") else ModelCSimInterface(M)
        I.py_prep_deterministic_simulation()
        D = Model(species=["Dq", "Dr"], reactions=[([], ["Dq"], "massaction", {"k": 3.0}), (["Dq"], ["Dr"], "massaction", {"k": 0.7})], initial_condition_dict={"Dq": 1.0, "Dr": 2.0})
        ID = ModelCSimInterface(D); ID.py_prep_deterministic_simulation()
        r_ = DeterministicSimulator().py_simulate(I, T)
        arr = np.asarray(r_.py_get_result()); s2i = M.get_species2index()
        return {"names": names, "rows": {s_: [float(v) for v in arr[:, s2i[s_]]] for s_ in names}, "time": [float(v) for v in T]}
    res = py_simulate_model(T, Model=M, stochastic=False, return_dataframe=True, safe=bool(case.get("safe")), **({"atol": case["only_atol"]} if case.get("only_atol") else {}))
    return {"names": names, "rows": {s: [float(v) for v in res[s]] for s in names}, "time": [float(v) for v in res["time"]]}

def _rate(spec, rx, x, t):
    if rx["type"] == "general":
        env = dict(spec["parameters"]); env.update(x); env["t"] = t; env["exp"] = math.exp
        return eval(rx["params"]["rate"].replace("^", "**"), {"__builtins__": {}}, env)
    return c01.closed_form(spec, rx, "det", x, 1.0)[0]

def _reference(case, names):
    import numpy as np
    from scipy.integrate import solve_ivp
    from scipy.linalg import expm
    f = case["family"]; T = case["times"]
    if f == "birthdeath": k, g, x0 = case["k"], case["g"], case["x0"]; return {"X": [k / g + (x0 - k / g) * math.exp(-g * t) for t in T]}
    if f in ("reversible", "netflux"):
        a, b, A0, B0 = case["a"], case["b"], case["A0"], case["B0"]; eq = b * (A0 + B0) / (a + b)
        A = [eq + (A0 - eq) * math.exp(-(a + b) * t) for t in T]; return {"A": A, "B": [A0 + B0 - v for v in A]}
    if f == "dimer": k, A0 = case["k"], case["A0"]; A = [A0 / (1 + 2 * k * A0 * t) for t in T]; return {"A": A, "B": [(A0 - v) / 2 for v in A]}
    if f == "timedep": k, a, x0 = case["k"], case["a"], case["x0"]; return {"X": [x0 + k / a * (1 - math.exp(-a * t)) for t in T]}
    spec = case["spec"]; n = len(names); idx = {s: i for i, s in enumerate(names)}
    def net(rx, s):
        d = rx.get("delay", {"reactants": [], "products": []})
        return rx["products"].count(s) - rx["reactants"].count(s) + d["products"].count(s) - d["reactants"].count(s)
    x0 = np.array([spec["x0"].get(s, 0.0) for s in names])
    if f == "linear":
        A = np.zeros((n + 1, n + 1))      # augmented with a constant 1 for zero-order sources
        for rx in spec["reactions"]:
            k = rx["params"]["k"]
            for s in names:
                c = net(rx, s)
                if c == 0: continue
                if rx["reactants"]: A[idx[s], idx[rx["reactants"][0]]] += c * k
                else: A[idx[s], n] += c * k
        y0 = np.append(x0, 1.0)
        return {s: [float((expm(A * t) @ y0)[idx[s]]) for t in T] for s in names}
    def rhs(t, y):
        x = {s: y[idx[s]] for s in names}; out = np.zeros(n)
        for rx in spec["reactions"]:
            r = _rate(spec, rx, x, t)
            for s in names:
                c = net(rx, s)
                if c: out[idx[s]] += c * r
        return out
    sol = solve_ivp(rhs, (0.0, max(T) + 1e-12), x0, method="Radau" if False else "DOP853", t_eval=T, rtol=1e-11, atol=1e-12)
    if not sol.success: return None
    return {s: [float(v) for v in sol.y[idx[s]]] for s in names}

def driver_line(case, r): return None
def compare(case, r, out): return None
def oracle(case, r):
    # LSODA may step a consumed species a hair below zero; a Hill term then evaluates (negative) ** (double) and Cython 3 raises
    # "Cannot convert 'complex' ..." (DESIGN.md, observations): the state has left the non-negative domain the property is about
    if isinstance(r, dict) and "Cannot convert 'complex'" in str(r.get("msg", "")) and any(rx["type"] in G.HILL for rx in _spec_of(case)["reactions"]): return None
    if not r or "rows" not in r: return "implementation failed: %s" % json.dumps(r)[:300]
    spec = _spec_of(case); T = case["times"]
    if r["time"] != T: return "time axis: %r is not the requested grid %r" % (r["time"], T)
    for s in r["names"]:
        if T[0] == 0.0 and abs(r["rows"][s][0] - spec["x0"].get(s, 0.0)) > 0: return "initial condition (%s): first row has %s = %r, initial condition %r" % (case["family"], s, r["rows"][s][0], spec["x0"].get(s, 0.0))
    ref = _reference(case, r["names"])
    if ref is None: return None
    for s in r["names"]:
        if s not in ref: continue
        for t, a, b in zip(T, r["rows"][s], ref[s]):
            if math.isnan(a) or abs(a - b) > 2e-5 * (1 + abs(b)) + 100.0 * case.get("only_atol", 0.0):
                return "trajectory (%s): %s(t=%g) = %r, the exact solution of dx/dt = S*rate(x,t) is %r" % (case["family"], s, t, a, b)
    return None

def site(case, msg): return (msg or "any").split(":")[0]
def nontrivial(case): return case["family"] in ("dimer", "timedep", "nonlinear", "netflux") or any("delay" in rx for rx in _spec_of(case)["reactions"])
def key(case): return json.dumps(case, sort_keys=True)
def stats(cases):
    from collections import Counter
    return {"families": dict(Counter(c["family"] for c in cases)), "nonuniform_grids": sum(1 for c in cases if len({round(b - a, 9) for a, b in zip(c["times"], c["times"][1:])}) > 1),
            "runs_on_a_reused_interface": sum(1 for c in cases if c.get("reuse_interface")),
            "runs_on_an_interface_prepared_before_another": sum(1 for c in cases if c.get("prepared_before_another"))}
