"""C06: every stochastic trajectory is a feasible reaction path.  Correspondence = stream replay of
SSA / safe SSA / delay SSA / volume SSA.  Oracle: each row difference is a non-negative integer
combination of net stoichiometries (small integer programme), integrality, conservation laws,
non-negativity for mass action, absorbing states, safe mode never starves."""
import itertools, json, math, random
from harness import modelgen as G, replay as R
PID = "C06"; COQ_TARGET = "C06"
RULE = ("random networks (1-4 species, 1-4 reactions; all propensity kinds; non-mass-action consumers run in safe mode), integer initial counts, "
        "uniform grids of 3-12 points, seeds; plain, safe, delay-capable and volume simulators; non-trivial = at least one reaction fired and one grid step contains >= 2 events or none")
TRUSTED = ["hand models coq/Model/SSA.v, Rules.v, Random.v tied by stream replay (rows, draw count, final queue)", "MT19937-64 outputs are read from the implementation"]
ASSUMPTIONS = ["selection draw of exactly 0 (probability 2^-53) excluded: model Fault 1", "theorems conditional on Done (termination with probability one not proved)"]
replay_mod = R

def gen_case(rng, kind=None, rules=False):
    kind = kind or rng.choice(["ssa", "ssa", "dssa", "vssa", "dvssa"])
    ma_only = rng.random() < 0.5
    kinds = ("massaction",) if ma_only else ("massaction",) + tuple(G.HILL) + ("general",)
    # mostly small networks; one in seven has 9 to 19 reactions (the total propensity and the selection then run over long arrays --
    # seeded change S6_C05: a pairwise array sum that dropped the last element of odd blocks longer than 8)
    many = rng.random() < 0.14
    spec = G.gen_network(rng, kinds=kinds, nrx=((9, 19) if many else (1, 4)), nsp=((3, 5) if many else (1, 4)), allow_delay=(kind in ("dssa", "dvssa") or rng.random() < 0.25), max_order=3, integer_state=True, bounded=True,   # delayed parts in the other simulators too: applied at once (S3_C05)
                         general_pool=["kg*%s", "kg*%s/(1+%s)", "kg+%s*0", "kg*%s*%s"])
    # keep event counts moderate
    for k in list(spec["parameters"]):
        if k.startswith(("k_", "kg_")): spec["parameters"][k] = rng.choice([0.05, 0.1, 0.2, 0.5, 1.0])
    for rx in spec["reactions"]:
        if not isinstance(rx["params"].get("k", ""), str): rx["params"]["k"] = rng.choice([0.05, 0.1, 0.2, 0.5])
    for s in spec["x0"]: spec["x0"][s] = float(rng.randint(0, 8))
    safe = (not ma_only) or rng.random() < 0.3
    # a delayed REACTANT can drive a count negative; with the plain interface a negative mass-action propensity then makes
    # sample_discrete return -1 (out-of-bounds read): such networks are run in safe mode (see DESIGN.md, observations)
    if not ma_only:
        # a delayed reactant can make a count negative after the delay; a Hill law with fractional exponent then
        # evaluates (negative)**n (complex, raises inside the simulator): delayed reactants only with mass action
        for rx in spec["reactions"]:
            if "delay" in rx: rx["delay"]["reactants"] = []
    if any(rx.get("delay", {}).get("reactants") for rx in spec["reactions"]): safe = True
    n = rng.randint(3, 12); dt = rng.choice([0.25, 0.5, 1.0, 2.0])
    # a quarter of the grids start AFTER the initial time 0 (events before the first requested time still happen -- S2_C05)
    off = rng.choice([0.5 * dt, dt, 3 * dt]) if rng.random() < 0.25 else 0.0
    case = {"spec": spec, "kind": kind, "safe": safe, "times": [off + i * dt for i in range(n)], "seed": rng.randint(1, 2**31)}
    if kind in ("vssa", "dvssa"): case["volume"] = {"type": "base", "V0": rng.choice([0.25, 0.5, 1.0, 2.0, 4.0])}
    if kind == "dvssa" and rng.random() < 0.5:
        case["volume"] = {"type": "tt", "cycle": rng.choice([1.0, 2.0, 4.0]), "avg": rng.choice([1.3, 2.0, 50.0]), "noise": rng.choice([0.0, 0.1]), "V0": 1.0}
    # a ramping constant: an ODE rule whose target is a PARAMETER writes no species, so rows stay reaction paths in every simulator
    # (seeded change S7_C06: the volume-aware variant of the rule wrote its increment into the species vector)
    if rng.random() < 0.2:
        spec["parameters"] = dict([("rq", 0.5)] + list(spec["parameters"].items())) if rng.random() < 0.5 else dict(list(spec["parameters"].items()) + [("rq", 0.5)])
        spec["rules"] = [["ode", {"equation": rng.choice(["0.0625", "0.125"]), "target": "rq"}]]
        ma = [rx for rx in spec["reactions"] if rx["type"] == "massaction"]
        if ma and rng.random() < 0.5: rng.choice(ma)["params"]["k"] = "rq"
    if rng.random() < 0.3: case["warmup"] = True       # a throwaway run on the same model / interface first
    # reactions with equal parameter dictionaries handed to the Model as ONE dict object (rate = {"k": 0.7} reused in several
    # tuples): the model must not write into it (seeded change S6_C06)
    if rng.random() < 0.3: spec["shared_param_dicts"] = True
    if rng.random() < 0.15: case["strided_grid"] = True  # the grid as a non-contiguous numpy view (S5_C05)
    # a user-made delay queue shorter than the simulated span, with a column count that is no power of two: the ring wraps (S5_C06)
    if kind in ("dssa", "dvssa") and rng.random() < 0.3: case["queue_cols"] = rng.choice([c_ for c_ in (3, 5, 6, 7) if c_ < n] or [n])
    return case

def gen_cases(seed, tier):
    rng = random.Random(seed * 6007 + 6); n = 240 if tier == "quick" else 3000
    return [gen_case(rng) for _ in range(n)]

impl_case = R.impl_replay
driver_line = R.driver_line
compare = R.compare

def _net(rx, s):
    d = rx.get("delay", {"reactants": [], "products": []})
    return (rx["products"].count(s) - rx["reactants"].count(s), d["products"].count(s) - d["reactants"].count(s))

def _decompose(diff, cols, bound=400):
    """is diff a non-negative integer combination of cols?  integer feasibility by scipy's MILP (HiGHS)"""
    import numpy as np
    from scipy.optimize import milp, LinearConstraint, Bounds
    cols = [c for c in cols if any(c)]
    if not any(diff): return True
    if not cols: return False
    Amat = np.array(cols, dtype=float).T           # species x reactions
    res = milp(c=np.ones(len(cols)), constraints=LinearConstraint(Amat, np.array(diff, dtype=float), np.array(diff, dtype=float)),
               integrality=np.ones(len(cols)), bounds=Bounds(0, bound))
    return bool(res.success)

def oracle(case, r):
    if not r or "rows" not in r: return "implementation failed: %s" % json.dumps(r)[:300]
    spec = case["spec"]; M_s2i = None
    # "mass action" means the law of THIS reaction's reactants: the built model's propensity must read exactly them (what the clause
    # "mass-action networks never report a negative count" rests on) -- seeded change S6_C06
    if r.get("ma_species") and len(r["ma_species"]) == len(spec["reactions"]):
        for i_, (rx_, got_) in enumerate(zip(spec["reactions"], r["ma_species"])):
            if rx_["type"] == "massaction" and "species" not in rx_["params"] and got_ is not None and got_ != sorted(rx_["reactants"]):
                return "mass action: reaction %d (%s -> %s) was built with a propensity over %r, not over its own reactants" % (i_, " + ".join(rx_["reactants"]) or "0", " + ".join(rx_["products"]) or "0", got_)
    rows = [[float.fromhex(v) for v in row] for row in r["rows"]]
    # species order of the implementation = order of the sim tokens' x0; recover names through the spec order of first use
    names = _species_order(spec)
    if rows and len(names) != len(rows[0]): return "row width %d but %d species" % (len(rows[0]), len(names))
    cols_imm = [[_net(rx, s)[0] for s in names] for rx in spec["reactions"]]
    cols_del = [[_net(rx, s)[1] for s in names] for rx in spec["reactions"]]
    cols_tot = [[a + b for a, b in zip(ci, cd)] for ci, cd in zip(cols_imm, cols_del)]
    x0 = [spec["x0"].get(s, 0.0) for s in names]
    if case["times"][0] == 0.0 and rows and rows[0] != x0: return "first row %r is not the initial condition %r" % (rows[0], x0)
    cols = cols_tot if case["kind"] not in ("dssa", "dvssa") else cols_imm + cols_del
    for k in range(len(rows)):
        if any(v != int(v) for v in rows[k]): return "integrality: row %d = %r from integer counts" % (k, rows[k])
        prev = x0 if k == 0 else rows[k - 1]
        diff = [int(a - b) for a, b in zip(rows[k], prev)]
        if any(diff) and not _decompose(diff, cols): return "lattice: row %d - row %d = %r is no non-negative integer combination of the net stoichiometries %r" % (k, k - 1, diff, cols)
    # conservation laws of S_tot hold at all rows for simulators without pending deliveries
    if case["kind"] not in ("dssa", "dvssa"):
        for w in _small_conservation_laws(cols_tot, len(names)):
            c0 = sum(a * b for a, b in zip(w, x0))
            for k, row in enumerate(rows):
                if sum(a * b for a, b in zip(w, row)) != c0: return "conservation: law %r broken at row %d" % (w, k)
    # delayed REACTANTS are removed when the delay expires, whatever is left by then: non-negativity is only
    # claimed for networks without them (the propensity cannot see the future)
    ma_closed = all(rx["type"] == "massaction" and not rx.get("delay", {}).get("reactants") for rx in spec["reactions"])
    if any(rx.get("delay", {}).get("reactants") for rx in spec["reactions"]): return None
    if (ma_closed or case["safe"]) and any(v < 0 for row in rows for v in row):
        return "negativity: %s network reports a negative count: %r" % ("mass-action" if ma_closed else "safe-mode", [row for row in rows if min(row) < 0][0])
    return None

def _species_order(spec):
    order = []
    def add(s):
        if s not in order and s not in (None, ""): order.append(s)
    for s in spec["species"]: add(s)
    for rx in spec["reactions"]:
        d = rx.get("delay", {"reactants": [], "products": []})
        for s in rx["reactants"] + rx["products"] + d["reactants"] + d["products"]: add(s)
    for s in spec["x0"]: add(s)
    return order

def _small_conservation_laws(cols, n):
    laws = []
    for w in itertools.product([0, 1, 2], repeat=n):
        if any(w) and all(sum(a * b for a, b in zip(w, c)) == 0 for c in cols): laws.append(w)
        if len(laws) > 6: break
    return laws

def nontrivial(case): return len(case["spec"]["reactions"]) >= 1
def site(case, msg): return (msg or "any").split(":")[0]
def shrink(case, fails):
    from harness.shrink import shrink_list
    spec = case["spec"]
    rx = shrink_list(spec["reactions"], lambda cands: fails([dict(case, spec=dict(spec, reactions=c)) for c in cands]))
    return dict(case, spec=dict(spec, reactions=rx))
def stats(cases):
    from collections import Counter
    return {"simulators": dict(Counter(c["kind"] + ("+safe" if c["safe"] else "") for c in cases)),
            "kinds": dict(Counter(rx["type"] for c in cases for rx in c["spec"]["reactions"])),
            "grids_starting_after_t0": sum(1 for c in cases if c["times"][0] > 0), "with_warmup_run": sum(1 for c in cases if c.get("warmup")),
            "grids_passed_as_strided_views": sum(1 for c in cases if c.get("strided_grid")), "queues_shorter_than_the_span": sum(1 for c in cases if c.get("queue_cols")),
            "networks_with_9_or_more_reactions": sum(1 for c in cases if len(c["spec"]["reactions"]) >= 9), "models_given_shared_parameter_dict_objects": sum(1 for c in cases if c["spec"].get("shared_param_dicts"))}
def key(case): return json.dumps([case["spec"], case["kind"], case["safe"], case["times"], case["seed"]], sort_keys=True)
