"""C08: history independence.  Correspondence: Model/History.v (extracted life-cycle machine: species order,
stoichiometric matrices after the implicit initialisation) vs the implementation after a random history of
operations.  Oracle: a model reached through the history is observed (dictionaries, matrices, deterministic
trajectory bit for bit, seeded stochastic trajectories in several modes) and compared with a model built at
once from the same final definition; seeding twice gives identical output; simulating changes neither the
initial condition nor any parameter (no rule assigns a parameter)."""
import json, math, random
from harness.common import fhex
from harness import modelgen as G
PID = "C08"; COQ_TARGET = "C08"
# NOTE (DESIGN.md, observations): simulating through an interface built BEFORE an edit is not in the alphabet: check_interface only
# tests Model.initialized, so once anything re-initialises the model a stale interface is accepted and runs with the old sizes
# (heap corruption observed: "free(): invalid next size").  Interfaces are still built in the middle of histories (and dropped).
RULE = ("random histories (length 6-40 quick) over {create reaction (mass action, Hill, general; delays), create parameter, set parameter values, set species values, create rule (assignment / ODE / use-before-define assignment pair), "
        "initialise, build an interface (used later), simulate deterministic / stochastic / safe / delay / volume, seed}; final definition rebuilt from scratch; "
        "non-trivial = the history contains a simulation or an initialisation before the last edit")
TRUSTED = ["hand model coq/Model/History.v (life cycle) tied by correspondence on species order and matrices", "shared numpy arrays / the global simulator pointer are covered by the history runs only"]
ASSUMPTIONS = ["no rule assigns a parameter (property's premise)", "deterministic output compared bit for bit in the same process; LSODA is deterministic for equal inputs"]
SP = ["A", "B", "C", "D", "Ez"]

def gen_case(rng, maxlen):
    ops = []; species = set(); params = {}; nrx = 0
    def rx():
        kind = rng.choice(["massaction", "massaction", "hillpositive", "general"])
        if kind != "massaction" and not species: kind = "massaction"
        if kind == "massaction":
            re = [rng.choice(SP) for _ in range(rng.randint(1, 2))]; pr = [rng.choice(SP) for _ in range(rng.randint(0, len(re)))]
            pd = {"k": rng.choice([0.1, 0.3, "kA", "kB"])}
        else:
            # consumers stay mass action (a non-mass-action consumer may leave the non-negative domain outside safe mode):
            # Hill / general laws drive pure production from an existing species
            src = rng.choice(sorted(species)); re = []; pr = [rng.choice(SP)]
            pd = {"k": rng.choice([0.2, "kA"]), "K": 2.0, "n": 2, "s1": src} if kind == "hillpositive" else {"rate": "kg*%s/(1+%s)" % (src, src)}
        t = [re, pr, kind, pd]
        if rng.random() < 0.3:
            # the delayed product replaces an immediate one where there is one: products (immediate + delayed) never outnumber the
            # reactants of a mass-action reaction, so that long histories cannot assemble an autocatalytic, exploding network
            if kind == "massaction" and pr: pr.pop(); t[1] = pr
            # fixed and sampled delays (the samplers draw from the shared generator: seeding must reset everything they keep -- S2_C08)
            t += rng.choice([["fixed", [], [rng.choice(SP)], {"delay": rng.choice([0.0, 0.5])}], ["gaussian", [], [rng.choice(SP)], {"mean": 0.5, "std": 0.1}],
                             ["gamma", [], [rng.choice(SP)], {"k": 2.0, "theta": 0.2}]])
        for s_ in re + pr + (t[6] if len(t) == 8 else []): species.add(s_)
        return t
    n = rng.randint(6, maxlen)
    ops.append(["reaction", rx()])
    for _ in range(n):
        k = rng.random()
        if k < 0.22: ops.append(["reaction", rx()])
        elif k < 0.34: ops.append(["set_params", {rng.choice(["kA", "kB", "kg"]): rng.choice([0.05, 0.2, 0.4, 0.8])}])
        elif k < 0.46: ops.append(["set_species", {rng.choice(SP): float(rng.randint(0, 9))}])
        elif k < 0.52: ops.append(["create_parameter", rng.choice(["kA", "kB", "kg", "unused_p"]), rng.choice([0.1, 0.5])])
        # rule kinds: a plain assignment; an ODE rule (applying the rule list twice per step doubles its Euler step); a pair in
        # use-before-define order U = Uv + 1; Uv = 2*src (one pass and two passes differ)  -- seeded change S_C08
        elif k < 0.60: ops.append(["rule", "Rz%d" % len(ops), rng.choice(sorted(species)), rng.choice(["assign", "ode", "ubd"])])
        elif k < 0.69: ops.append(["initialize"])
        elif k < 0.75: ops.append(["interface"])
        elif k < 0.95: ops.append(["simulate", rng.choice(["det", "det_loose", "ssa", "safe", "delay", "volume"]), rng.randint(1, 2**31)])
        else: ops.append(["seed", rng.randint(1, 2**31)])
    # a rule on the species "Lz" that the model has had from its construction (so that adding the rule introduces neither a species
    # nor a parameter), placed late: the only thing that tells the model to rebuild is create_rule itself  (seeded change S3_C08)
    if rng.random() < 0.4:
        pos = rng.randint(max(1, len(ops) - 4), len(ops)); seen = set()
        for o in ops[:pos]:
            if o[0] == "reaction": seen |= set(o[1][0]) | set(o[1][1]) | (set(o[1][6]) if len(o[1]) == 8 else set())
        if seen: ops.insert(pos, ["rule_late", rng.choice(sorted(seen))])
    # make sure every named parameter ends with a value and every species with a count
    ops.append(["set_params", {"kA": 0.3, "kB": 0.15, "kg": 0.6}])
    return {"ops": ops, "seed": rng.randint(1, 2**31)}

def _rule_kind(op): return op[3] if len(op) > 3 else "assign"
def _rule_species(op): return [op[1], op[1] + "v"] if _rule_kind(op) == "ubd" else [op[1]]
def _rule_tuples(op):
    k = _rule_kind(op)
    if k == "assign": return [("assignment", {"equation": "%s = 2*%s + 1" % (op[1], op[2])})]
    if k == "ode": return [("ode", {"equation": "0.5*%s + 1" % op[2], "target": op[1]})]
    return [("assignment", {"equation": "%s = %sv + 1" % (op[1], op[1])}), ("assignment", {"equation": "%sv = 2*%s" % (op[1], op[2])})]

def gen_cases(seed, tier):
    rng = random.Random(seed * 1201 + 8); n, ml = (70, 40) if tier == "quick" else (600, 400)
    return [gen_case(rng, ml) for _ in range(n)]

def _observe(M, seed):
    import numpy as np
    M.py_initialize()            # observing = initialise, then read (uninitialised species read -1 until then)
    from bioscrape.simulator import py_simulate_model
    from bioscrape.random import py_seed_random
    T = np.linspace(0, 1.5, 4)
    s2i = M.get_species2index(); names = sorted(s2i)
    out = {"species": {s: float(v) for s, v in M.get_species_dictionary().items()}, "params": {k: float(v) for k, v in M.get_parameter_dictionary().items()}}
    def cols(res):
        a = np.asarray(res.py_get_result()); return {s: [fhex(v) for v in a[:, s2i[s]]] for s in names}
    try: out["det"] = cols(py_simulate_model(T, Model=M, stochastic=False, return_dataframe=False))
    except TypeError as e:
        # LSODA stepped a consumed species a hair below zero and a Hill term raised (DESIGN.md, observations): the same definition
        # raises the same way however it was reached; the token stands for the run
        if "Cannot convert 'complex'" not in str(e): raise
        out["det"] = "left the non-negative domain (complex power)"
    for mode, kw in (("ssa", {}), ("safe", {"safe": True}), ("delay", {"delay": True}), ("volume", {"volume": 2.0})):
        py_seed_random(seed); out[mode] = cols(py_simulate_model(T, Model=M, stochastic=True, return_dataframe=False, **kw))
    py_seed_random(seed); again = cols(py_simulate_model(T, Model=M, stochastic=True, return_dataframe=False))
    py_seed_random(seed); again_d = cols(py_simulate_model(T, Model=M, stochastic=True, return_dataframe=False, delay=True))
    out["seed_twice_same"] = (again == out["ssa"]) and (again_d == out["delay"])
    S = np.asarray(M.py_get_update_array()); Sd = np.asarray(M.py_get_delay_update_array())
    out["S"] = {s: [int(v) for v in S[s2i[s]]] for s in names}; out["Sd"] = {s: [int(v) for v in Sd[s2i[s]]] for s in names}
    out["order"] = sorted(s2i, key=lambda s: s2i[s])
    return out

def impl_case(case):
    import numpy as np, warnings
    from bioscrape.types import Model
    from bioscrape.simulator import py_simulate_model, ModelCSimInterface, SafeModelCSimInterface
    from bioscrape.random import py_seed_random
    warnings.simplefilter("ignore")
    # a TWIN first: the same construction steps on a model whose species were declared up front in another (reversed) order, initialised and
    # thrown away -- what the history's model does afterwards cannot depend on a same-named model built earlier in the process
    # (seeded change S8_C08: compiled expressions cached by text, the SET of species names and the parameter table)
    try:
        names_ = ["Lz"]
        for op in case["ops"]:
            if op[0] == "reaction":
                d_ = op[1]
                for l_ in [d_[0], d_[1]] + ([d_[5], d_[6]] if len(d_) > 6 else []):
                    for n_ in l_:
                        if n_ not in names_: names_.append(n_)
                for k_ in ("s1", "d"):
                    if isinstance(d_[3], dict) and k_ in d_[3] and d_[3][k_] not in names_: names_.append(d_[3][k_])
            elif op[0] == "rule":
                for n_ in _rule_species(op):
                    if n_ not in names_: names_.append(n_)
        Tw = Model(species=list(reversed(names_)))
        for op in case["ops"]:
            try:
                if op[0] == "reaction": Tw.create_reaction(*[x if not isinstance(x, dict) else dict(x) for x in op[1]])
                elif op[0] == "set_params": Tw.set_params(dict(op[1]))
                elif op[0] == "create_parameter": Tw.create_parameter(op[1], op[2])
                elif op[0] == "rule":
                    for rt in _rule_tuples(op): Tw.create_rule(*rt)
                elif op[0] == "rule_late": Tw.create_rule("assignment", {"equation": "Lz = 2*%s + 1" % op[1]})
            except Exception: pass
        try: Tw.py_initialize()
        except Exception: pass
        del Tw
    except Exception: pass
    M = Model(species=["Lz"]); ifaces = []; T = np.linspace(0, 2.0, 5); problems = []
    rx_defs = []; rules = []; created_params = []
    for op in case["ops"]:
        k = op[0]
        if k == "reaction":
            M.create_reaction(*[x if not isinstance(x, dict) else dict(x) for x in op[1]]); rx_defs.append(op[1])
        elif k == "set_params": M.set_params(dict(op[1]))
        elif k == "set_species": M.set_species(dict(op[1]))
        elif k == "create_parameter": M.create_parameter(op[1], op[2])
        elif k == "rule":
            for rt in _rule_tuples(op):
                for nm in _rule_species(op):
                    M._add_species(nm)
                M.create_rule(*rt); rules.append(rt)
        elif k == "rule_late":
            rt = ("assignment", {"equation": "Lz = 2*%s + 1" % op[1]}); M.create_rule(*rt); rules.append(rt)
        elif k == "initialize":
            try: M.py_initialize()
            except ValueError: pass        # a parameter still without a value: the history goes on
        elif k == "interface":
            try: ifaces.append(ModelCSimInterface(M))
            except ValueError: pass
        elif k == "seed": py_seed_random(op[1])
        elif k == "simulate":
            before = (dict(M.get_species_dictionary()), dict(M.get_parameter_dictionary()))
            try:
                py_seed_random(op[2])
                if op[1] == "det": py_simulate_model(T, Model=M, stochastic=False)
                # a deterministic run with the caller's own integrator tolerances: they belong to THAT call (seeded change S6_C08: one
                # shared simulator object kept them for every later deterministic run of the process)
                elif op[1] == "det_loose": py_simulate_model(T, Model=M, stochastic=False, rtol=1e-2, atol=1e-2)
                elif op[1] == "ssa": py_simulate_model(T, Model=M, stochastic=True)
                elif op[1] == "safe": py_simulate_model(T, Model=M, stochastic=True, safe=True)
                elif op[1] == "delay": py_simulate_model(T, Model=M, stochastic=True, delay=True)
                elif op[1] == "volume": py_simulate_model(T, Model=M, stochastic=True, volume=1.5)
                elif op[1] == "iface" and ifaces:
                    try: py_simulate_model(T, Interface=ifaces[-1], stochastic=True)
                    except RuntimeError: pass   # "Model has been changed since CSimInterface instantiation"
            except ValueError as e:
                if "Unspecified Parameters" not in str(e): problems.append("simulate %s raised %s" % (op[1], str(e)[:100]))
                continue
            except TypeError as e:
                # loose integrator tolerances let LSODA step a count below zero; a Hill term then raises "Cannot convert 'complex'"
                # (DESIGN.md, observations): the run is abandoned, the history goes on
                # (seen with the default tolerances too, in a thorough run: a species consumed by three reactions next to a Hill term in it)
                if op[1] in ("det", "det_loose") and "Cannot convert 'complex'" in str(e): continue
                raise
            after = (dict(M.get_species_dictionary()), dict(M.get_parameter_dictionary()))
            nan_eq = lambda a, b: set(a) == set(b) and all(a[x] == b[x] or (a[x] != a[x] and b[x] != b[x]) or (a[x] == -1 and b[x] == 0) for x in a)
            if not nan_eq(before[0], after[0]): problems.append("simulate %s changed the initial condition: %r -> %r" % (op[1], before[0], after[0]))
            if not nan_eq(before[1], after[1]): problems.append("simulate %s changed parameters: %r -> %r" % (op[1], before[1], after[1]))
    # the final definition, rebuilt at once
    spd = dict(M.get_species_dictionary()); pd = dict(M.get_parameter_dictionary())
    order = sorted(M.get_species2index(), key=lambda s: M.get_species2index()[s])
    fresh = Model(species=order, reactions=[tuple(x if not isinstance(x, dict) else dict(x) for x in r) for r in rx_defs],
                  parameters=[(k, v) for k, v in pd.items() if not k.startswith("DummyVar")],
                  rules=[(a, dict(b)) for a, b in rules], initial_condition_dict={s: (0.0 if v == -1 else v) for s, v in spd.items()})
    # first: simulate the history's model as it stands (no explicit initialisation: whatever is stale stays stale) and the fresh one
    # the same way  (seeded change S3_C08: create_rule leaving the model marked as initialised)
    def _raw(Mx):
        try:
            res = py_simulate_model(np.linspace(0, 1.5, 4), Model=Mx, stochastic=False, return_dataframe=True)
            return {s_: [fhex(v) for v in res[s_]] for s_ in order}
        except Exception as e: return "EXC:" + type(e).__name__
    def _decoy(**kw):
        """an unrelated model with the same number of species, every one of them changing, simulated in between: what the fresh model
        then reports must not depend on it (seeded change S5_C08: a derivative buffer kept between deterministic runs of equal size,
        with the entries of reaction-less species never written)"""
        try:
            D = Model(species=list(order), reactions=[([], [s_], "massaction", {"k": 1.0 + i_}) for i_, s_ in enumerate(order)], initial_condition_dict={s_: 1.0 for s_ in order})
            py_simulate_model(np.linspace(0, 1.0, 3), Model=D, stochastic=False, return_dataframe=False, **kw)
        except Exception: pass
    raw_h = _raw(M); _decoy(rtol=1e-10, atol=1e-12); raw_f = _raw(fresh)
    # ... nor on the integrator tolerances some earlier call asked for (S6_C08): once more after a decoy run with loose tolerances
    _decoy(rtol=1e-2, atol=1e-2); raw_f2 = _raw(fresh)
    if raw_f2 != raw_f: problems.insert(0, "history dependence (integrator tolerances of an earlier call): built-at-once model after a tight-tolerance run %r, after a loose-tolerance run %r" % (str(raw_f)[:160], str(raw_f2)[:160]))
    if raw_h != raw_f: problems.insert(0, "history dependence (simulation before any re-initialisation): %r vs built at once %r" % (str(raw_h)[:160], str(raw_f)[:160]))
    obs_h = _observe(M, case["seed"]); _decoy()
    out = {"hist": obs_h, "fresh": _observe(fresh, case["seed"]), "problems": problems, "order": order}
    return out

def driver_line(case, r):
    if not r or "hist" not in r: return None
    names = r["order"]
    allnames = list(SP) + ["Lz"] + [nm for op in case["ops"] if op[0] == "rule" for nm in _rule_species(op)]
    nid = {n: i for i, n in enumerate(allnames)}
    toks = ["c08hist"]
    ops = [["sp", str(nid["Lz"])]]
    for op in case["ops"]:
        if op[0] == "reaction":
            t = op[1]; d_re, d_pr = (t[5], t[6]) if len(t) == 8 else ([], [])
            ops.append(["rx"] + [str(len(t[0]))] + [str(nid[s]) for s in t[0]] + [str(len(t[1]))] + [str(nid[s]) for s in t[1]] + [str(len(d_re))] + [str(nid[s]) for s in d_re] + [str(len(d_pr))] + [str(nid[s]) for s in d_pr])
        elif op[0] == "rule":
            for nm in _rule_species(op): ops.append(["sp", str(nid[nm])])
        # set_species / set_params only write values of names that exist (they warn otherwise): no life-cycle effect
        elif op[0] == "initialize": ops.append(["init"])
        elif op[0] == "interface": ops.append(["iface"])
        elif op[0] == "simulate": ops.append(["sim"])
    toks.append(str(len(ops)))
    for o in ops: toks += o
    return " ".join(toks)

def compare(case, r, out):
    if not r or "hist" not in r: return "implementation failed: %s" % json.dumps(r)[:300]
    toks = out.split(); i = toks.index("S")
    allnames = list(SP) + ["Lz"] + [nm for op in case["ops"] if op[0] == "rule" for nm in _rule_species(op)]
    order = [allnames[int(t)] for t in toks[1:i]]
    if order != r["hist"]["order"]: return "species order: model %r implementation %r" % (order, r["hist"]["order"])
    j = toks.index("SD"); nrx = len(r["hist"]["S"][order[0]]) if order else 0
    S = [int(t) for t in toks[i + 1:j]]; Sd = [int(t) for t in toks[j + 1:]]
    wantS = [v for s in order for v in r["hist"]["S"][s]]; wantSd = [v for s in order for v in r["hist"]["Sd"][s]]
    if S != wantS or Sd != wantSd: return "matrices after the history: model %r/%r implementation %r/%r" % (S, Sd, wantS, wantSd)
    return None

def oracle(case, r):
    if not r or "hist" not in r: return "history failed: %s" % json.dumps(r)[:400]
    msgs = list(r["problems"][:2])
    h, f = r["hist"], r["fresh"]
    for k in ("species", "S", "Sd", "det", "ssa", "safe", "delay", "volume"):
        if h[k] != f[k]: msgs.append("history dependence (%s): model reached through the history %r, built at once %r" % (k, str(h[k])[:160], str(f[k])[:160]))
    hp = {k: v for k, v in h["params"].items() if not k.startswith("DummyVar")}; fp = {k: v for k, v in f["params"].items() if not k.startswith("DummyVar")}
    if hp != fp: msgs.append("history dependence (params): %r vs %r" % (hp, fp))
    if not h["seed_twice_same"] or not f["seed_twice_same"]: msgs.append("seed: seeding and simulating twice gives different stochastic output")
    seen = set(); out = []
    for m in msgs:
        k = m.split(":")[0]
        if k not in seen: seen.add(k); out.append(m)
    return out or None

def site(case, msg): return (msg or "any").split(":")[0]
def nontrivial(case):
    ops = [o[0] for o in case["ops"]]
    last_edit = max([i for i, o in enumerate(ops) if o in ("reaction", "create_parameter", "rule", "rule_late")] + [0])
    return any(o in ("simulate", "initialize", "interface") for o in ops[:last_edit])
def key(case): return json.dumps(case, sort_keys=True)
def stats(cases):
    from collections import Counter
    return {"op_kinds": dict(Counter(o[0] for c in cases for o in c["ops"])), "rule_kinds": dict(Counter(_rule_kind(o) for c in cases for o in c["ops"] if o[0] == "rule")), "len_mean": sum(len(c["ops"]) for c in cases) / len(cases)}
def _valid(ops):
    """every species a Hill / general law or a rule reads has been introduced by an earlier reaction"""
    seen = set()
    if not ops or ops[-1][0] != "set_params" or set(ops[-1][1]) != {"kA", "kB", "kg"}: return False
    for op in ops:
        if op[0] == "reaction":
            t = op[1]; src = t[3].get("s1") or (t[3]["rate"].split("*")[1].split("/")[0] if "rate" in t[3] else None)
            if src and src not in seen: return False
            seen |= set(t[0]) | set(t[1]) | (set(t[6]) if len(t) == 8 else set())
        elif op[0] == "rule" and op[2] not in seen: return False
        elif op[0] == "rule_late" and op[1] not in seen: return False
    return True
def shrink(case, fails):
    from harness.shrink import shrink_list
    def f(cs):
        ok = [c for c in cs if _valid(c)]; res = dict(zip(map(json.dumps, ok), fails([dict(case, ops=c) for c in ok]))) if ok else {}
        return [res.get(json.dumps(c), False) for c in cs]
    return dict(case, ops=shrink_list(case["ops"], f))
