"""C20: delay queue.  Correspondence of Model/Queue.v (extracted, doubles) with ArrayDelayQueue
through its py_* API on random op sequences; property oracle = abstract table in exact rationals."""
import json, random
from fractions import Fraction as Fr
from harness.common import fhex

PID = "C20"
COQ_TARGET = "C20"

TRUSTED = ["translator tools/tr_queue.py (engine tools/tr_cython.py, Python ast after four Cython rewrites, fail-closed): regenerates coq/Gen/QueueGen.v (ArrayDelayQueue.set_current_time, add_reaction, "
           "get_next_queue_time, get_next_reactions, advance_time) from bioscrape/simulator.pyx + simulator.pxd on every run; Proofs/TieQueue.v proves the generated methods simulate the hand model "
           "(any arithmetic, any history)", "hand model coq/Model/Queue.v: constructor, copy, clear_copy, binomial_partition tied by correspondence only",
           "C unsigned / int wrap-around is not modelled: indices are unbounded (the translated expressions stay far below 2^31 for any queue that fits in memory)"]

def translate():
    import importlib.util, os
    from harness.common import Broken
    p = os.path.join(os.path.dirname(os.path.dirname(os.path.dirname(os.path.abspath(__file__)))), "tools", "tr_queue.py")
    spec = importlib.util.spec_from_file_location("tr_queue", p); m = importlib.util.module_from_spec(spec); spec.loader.exec_module(m)
    try: return m.run()
    except m.Refuse as e: raise Broken("tr_queue refused: %s" % e, str(e))
DTS = [Fr(1, 8), Fr(1, 4), Fr(1, 2), Fr(1), Fr(2)]
FRACS = [Fr(0), Fr(1, 4), Fr(-1, 4), Fr(3, 8), Fr(-3, 8), Fr(1, 8), Fr(-1, 8), Fr(7, 16), Fr(-7, 16)]

def gen_case(rng, maxlen):
    nrx = rng.randint(1, 3); ncols = rng.randint(2, 6); dt = rng.choice(DTS)
    t0 = Fr(rng.randint(-16, 64), 8)
    ops = []; nxt = t0 + dt; start = 0; wrapped = clamped = 0
    n = rng.randint(1, maxlen)
    for _ in range(n):
        k = rng.random()
        if k < 0.55:
            j = rng.randint(-3, ncols + 3)
            time = nxt + (j + rng.choice(FRACS)) * dt
            r = rng.randrange(nrx); a = rng.choice([1, 1, 1, 2, 3])
            ops.append(["A", float(time), r, float(a)])
            import math
            idx = math.floor((time - nxt) / dt + Fr(1, 2))
            if idx < 0 or idx >= ncols: clamped += 1
            idx = min(max(idx, 0), ncols - 1)
            if idx + start >= ncols: wrapped += 1
        elif k < 0.80:
            ops.append(["P"]); nxt += dt; start = (start + 1) % ncols
        elif k < 0.86:
            # reading what is due is an observation: it may be repeated, and done without advancing (seeded change S7_C10: the read cleared the slot)
            ops.append(["R"])
        elif k < 0.90:
            ops.append(["C"])
        elif k < 0.93:
            ops.append(["K"])
        elif k < 0.96:
            t = Fr(rng.randint(-16, 64), 8); ops.append(["T", float(t)]); nxt = t + dt
        else:
            ops.append(["B", rng.choice([0.25, 0.5, 0.75, 0.1, 0.9]), rng.randint(0, 1), rng.randint(1, 2**31)])
    return {"nrx": nrx, "ncols": ncols, "dt": float(dt), "t0": float(t0), "ops": ops, "layout": rng.choice(["c", "c", "transposed", "window"]),
            "nontrivial": bool(wrapped and clamped)}

def gen_cases(seed, tier):
    rng = random.Random(seed * 1000003 + 20)
    n, maxlen = (600, 60) if tier == "quick" else (6000, 400)
    cases = [gen_case(rng, maxlen) for _ in range(n)]
    if tier != "quick":
        cases += [gen_case(rng, 2000) for _ in range(60)]
    return cases

# ------------------------------------------------------------------ implementation side
def _dump(q, nrx, ncols):
    import numpy as np
    c = q.py_copy()
    out = [fhex(c.py_get_next_queue_time())]
    for _ in range(ncols):
        a = np.zeros(nrx); c.py_get_next_reactions(a); out += [fhex(v) for v in a]; c.py_advance_time()
    return out

def impl_case(case):
    import numpy as np
    from bioscrape.simulator import ArrayDelayQueue
    from bioscrape.random import py_seed_random, py_rand_int
    nrx, ncols = case["nrx"], case["ncols"]
    # the count matrix is the caller's: any 2-D float64 array will do, C-contiguous or not (a transposed allocation, a column window of a
    # larger array)  (seeded change S8_C20: the head column read through a raw pointer with a C-contiguous offset)
    lay = case.get("layout", "c")
    mat = np.zeros((nrx, ncols)) if lay == "c" else (np.zeros((ncols, nrx)).T if lay == "transposed" else np.zeros((nrx, ncols + 3))[:, 1:1 + ncols])
    q = ArrayDelayQueue(mat, case["dt"], case["t0"])
    out = []; raws = []; watch = []   # (object, dump) pairs that must stay unchanged
    for op in case["ops"]:
        if op[0] == "A":
            q.py_add_reaction(op[1], op[2], op[3])
        elif op[0] == "P":
            a = np.zeros(nrx); t = q.py_get_next_queue_time(); q.py_get_next_reactions(a); q.py_advance_time()
            out += ["P", fhex(t)] + [fhex(v) for v in a]
        elif op[0] == "R":
            a = np.full(nrx, 3.25); q.py_get_next_reactions(a); out += ["R"] + [fhex(v) for v in a]
        elif op[0] == "C":
            old = q; watch.append((old, _dump(old, nrx, ncols))); q = old.py_copy()
            out += ["C"] + _dump(q, nrx, ncols)
        elif op[0] == "K":
            k = q.py_clear_copy(); out += ["K"] + _dump(k, nrx, ncols)
            k.py_add_reaction(q.py_get_next_queue_time(), 0, 5.0)     # mutate the clear copy: must not reach q
        elif op[0] == "T":
            q.py_set_current_time(op[1])
        elif op[0] == "B":
            before = _dump(q, nrx, ncols)
            total = sum(int(float.fromhex(v) + 0.5) for v in before[1:])
            py_seed_random(op[3]); parts = q.py_binomial_partition(op[1]); nxt = py_rand_int()
            py_seed_random(op[3]); rw = [py_rand_int() for _ in range(total + 1)]
            pos = total if rw[total] == nxt else -1
            raws.append([str(x) for x in rw])
            out += ["B", str(pos)] + _dump(parts[0], nrx, ncols) + _dump(parts[1], nrx, ncols)
            watch.append((q, before)); q = parts[op[2]]
    out += ["E"] + _dump(q, nrx, ncols)
    alias = [i for i, (o, d) in enumerate(watch) if _dump(o, nrx, ncols) != d]
    return {"line": " ".join(out), "raws": raws, "alias": alias}

def driver_line(case, impl_res):
    toks = ["queue", str(case["nrx"]), str(case["ncols"]), fhex(case["dt"]), fhex(case["t0"])]
    bi = 0
    for op in case["ops"]:
        if op[0] == "A": toks += ["A", fhex(op[1]), str(op[2]), fhex(op[3])]
        elif op[0] == "T": toks += ["T", fhex(op[1])]
        elif op[0] == "B":
            rw = impl_res["raws"][bi] if impl_res and bi < len(impl_res.get("raws", [])) else []
            bi += 1
            toks += ["B", fhex(op[1]), str(op[2]), str(len(rw))] + rw
        else: toks += [op[0]]
    return " ".join(toks)

# ------------------------------------------------------------------ property oracle (exact rationals)
def oracle(case, impl_res):
    """Independent statement of the property on this history: abstract table keyed by absolute
    slot number; returns None if the implementation's observations satisfy it, else a message.
    Partition: only conservation and shape are required (the split itself is random)."""
    import math
    if "line" not in impl_res: return "implementation failed: %r" % (impl_res,)
    if impl_res.get("alias"): return "a copy/partition/clear-copy shares state with its original (watch %r)" % impl_res["alias"]
    toks = impl_res["line"].split(); pos = 0
    nrx, ncols = case["nrx"], case["ncols"]; dt = Fr(case["dt"])
    nxt = Fr(case["t0"]) + dt
    table = {}          # (abs slot, r) -> amount ; base = abs index of offset 0
    base = 0
    def expect_dump(vals, what):
        nonlocal pos
        got = toks[pos:pos + 1 + nrx * ncols]; pos += 1 + nrx * ncols
        want = [fhex(float(nxt))] + [fhex(float(vals.get((base + off, r), 0))) for off in range(ncols) for r in range(nrx)]
        return None if got == want else "%s: table %r, expected %r" % (what, got, want)
    for op in case["ops"]:
        if op[0] == "A":
            y = (Fr(op[1]) - nxt) / dt + Fr(1, 2)
            idx = math.floor(y) if y >= 0 else -math.floor(-y)
            idx = min(max(idx, 0), ncols - 1)
            table[(base + idx, op[2])] = table.get((base + idx, op[2]), 0) + Fr(op[3])
        elif op[0] == "P":
            want = ["P", fhex(float(nxt))] + [fhex(float(table.pop((base, r), 0))) for r in range(nrx)]
            got = toks[pos:pos + 2 + nrx]; pos += 2 + nrx
            if got != want: return "read %r, expected %r" % (got, want)
            base += 1; nxt += dt
        elif op[0] == "R":
            want = ["R"] + [fhex(float(table.get((base, r), 0))) for r in range(nrx)]
            got = toks[pos:pos + 1 + nrx]; pos += 1 + nrx
            if got != want: return "read without advancing %r, expected %r" % (got, want)
        elif op[0] == "C":
            if toks[pos] != "C": return "desync"
            pos += 1; e = expect_dump(table, "copy")
            if e: return e
        elif op[0] == "K":
            pos += 1; e = expect_dump({}, "clear_copy")
            if e: return e
        elif op[0] == "T":
            nxt = Fr(op[1]) + dt
        elif op[0] == "B":
            pos += 1; p_ = toks[pos]; pos += 1
            d1 = toks[pos:pos + 1 + nrx * ncols]; pos += 1 + nrx * ncols
            d2 = toks[pos:pos + 1 + nrx * ncols]; pos += 1 + nrx * ncols
            if d1[0] != fhex(float(nxt)) or d2[0] != fhex(float(nxt)): return "partition changes the clock"
            new = {}
            k = 1
            for off in range(ncols):
                for r in range(nrx):
                    a, b = Fr(float.fromhex(d1[k])), Fr(float.fromhex(d2[k])); k += 1
                    tot = table.get((base + off, r), 0)
                    if a + b != tot or a < 0 or b < 0 or a.denominator != 1:
                        return "partition does not conserve slot %d reaction %d: %s + %s vs %s" % (off, r, a, b, tot)
                    v = a if op[2] == 0 else b
                    if v: new[(base + off, r)] = v
            table = new
    if toks[pos] != "E": return "desync at end"
    pos += 1
    return expect_dump(table, "final")

def shrink(case, fails):
    from harness.shrink import shrink_list
    return dict(case, ops=shrink_list(case["ops"], lambda opss: fails([dict(case, ops=o) for o in opss])))

def stats(cases):
    from collections import Counter
    c = Counter(op[0] for cs in cases for op in cs["ops"])
    return {"op_kinds": dict(c), "len_max": max(len(cs["ops"]) for cs in cases),
            "len_mean": sum(len(cs["ops"]) for cs in cases) / len(cases)}

def key(case):
    return json.dumps([case["nrx"], case["ncols"], case["dt"], case["t0"], case["ops"]])


# ------------------------------------------------------------------ evaluation INSIDE Coq, in exact rationals (no extraction, no OCaml, no doubles)
def extra_checks(ctx):
    """Histories without a partition are written into coq/Gen/CasesC20.v: the queue model over Q (Base/Arith.v: ArithQ) is run by
    vm_compute on the same operations, and its final table must EQUAL the one the implementation reported (all generated times and
    amounts are dyadic, so the doubles are exact rationals).  coqc accepting the file is the agreement."""
    import os, re, subprocess
    from harness import common as C
    def q(x):
        f = Fr(x); return "(%d # %d)%%Q" % (f.numerator, f.denominator)
    sel = []
    for c, r in zip(ctx["cases"], ctx["impl_res"]):
        if isinstance(r, dict) and "line" in r and not any(op[0] == "B" for op in c["ops"]) and len(c["ops"]) <= 80: sel.append((c, r))
    sel = sel[: (60 if ctx["tier"] == "quick" else 600)]
    if not sel: return {}
    lines = ["(* GENERATED by harness/props/c20.py on every run -- do not edit *)", "From Coq Require Import ZArith QArith List.",
             "From BS Require Import Base.Arith Model.Queue.", "Import ListNotations.", "",
             "Inductive op := OA (t : Q) (r : nat) (a : Q) | OP | OT (t : Q).",
             "Definition step (q : option (queue Q Q)) (o : op) : option (queue Q Q) :=",
             "  match q with None => None | Some q => match o with OA t r a => q_add ArithQ Qplus q t r a | OP => Some (q_advance ArithQ 0%Q q) | OT t => Some (q_set_time ArithQ q t) end end.",
             "Definition dump (nrx ncols : nat) (q : option (queue Q Q)) : option (Q * list (list Q)) :=",
             "  match q with None => None | Some q => Some (Qred (q_next_time q), map (fun off => map (fun r => Qred (q_pending 0%Q q off r)) (seq 0 nrx)) (seq 0 ncols)) end.", ""]
    for k, (c, r) in enumerate(sel):
        ops = []
        for op in c["ops"]:
            if op[0] == "A": ops.append("OA %s %d %s" % (q(op[1]), op[2], q(op[3])))
            elif op[0] == "P": ops.append("OP")
            elif op[0] == "T": ops.append("OT %s" % q(op[1]))
        toks = r["line"].split(); e = len(toks) - 1 - toks[::-1].index("E"); fin = toks[e + 1:]
        nrx, ncols = c["nrx"], c["ncols"]
        tab = "[" + "; ".join("[" + "; ".join(q(float.fromhex(fin[1 + off * nrx + rr])) for rr in range(nrx)) + "]" for off in range(ncols)) + "]"
        lines.append("Example hist_%d : dump %d %d (fold_left step [%s] (Some (q_make ArithQ 0%%Q %d %d %s %s))) = Some (%s, %s). Proof. vm_compute. reflexivity. Qed."
                     % (k, nrx, ncols, "; ".join(ops), nrx, ncols, q(c["dt"]), q(c["t0"]), q(float.fromhex(fin[0])), tab))
    gen = os.path.join(C.COQ, "Gen", "CasesC20.v"); os.makedirs(os.path.dirname(gen), exist_ok=True)
    open(gen, "w").write("\n".join(lines) + "\n")
    p = subprocess.run(["timeout", "900", "coqc", "-Q", ".", "BS", "Gen/CasesC20.v"], cwd=C.COQ, stdout=subprocess.PIPE, stderr=subprocess.STDOUT, text=True)
    fails = []
    if p.returncode != 0:
        m = re.search(r'line (\d+)', p.stdout); ln = int(m.group(1)) if m else 0
        which = lines[ln - 1] if 0 < ln <= len(lines) else ""
        mk = re.match(r'Example hist_(\d+)', which); k = int(mk.group(1)) if mk else 0
        fails.append((sel[min(k, len(sel) - 1)][0], "in-Coq evaluation: the queue model over Q, run by vm_compute, ends in another table than the implementation (%s)" % (p.stdout.strip().splitlines()[-1][:200] if p.stdout.strip() else "coqc failed")))
    return {"oracle_fail": fails, "coverage": {"histories_evaluated_inside_coq": len(sel), "operations_evaluated_inside_coq": sum(len(c["ops"]) for c, r in sel)}}
