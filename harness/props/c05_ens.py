from harness.props.c05 import ensemble_impl as impl_case
