"""C09: rules hold on every row and fire on schedule.  Correspondence: stream replay of SSA / safe /
delay / volume simulators on models with rules (Model/Rules.v inside Model/SSA.v).  Oracle (all modes,
incl. deterministic and lineage single-cell): repeated assignment rules satisfied exactly on every row,
scheduled rules leave earlier rows untouched and govern later ones, dt rules once per elapsed step,
ODE rules advance by rate*dt per step."""
import json, math, random
from harness import modelgen as G, replay as R
from harness.props import c06
PID = "C09"; COQ_TARGET = "C09"
RULE = ("bounded random networks (0-3 reactions) + rule sets chained in dependency order: repeated assignment to species (integer-valued formulas), additive on top of it, "
        "assignment to a parameter that a reaction rate uses, a dt counter rule, an ODE rule with constant rate, an assignment scheduled at a grid time; simulated "
        "deterministically, by SSA, safe SSA, volume SSA, delay SSA, delay + volume SSA (stream replay; grids from 0 and grids offset against the dt clock) and as a lineage single cell; non-trivial = at least two rule kinds present")
def translate():
    import importlib.util, os
    from harness.common import Broken
    p = os.path.join(os.path.dirname(os.path.dirname(os.path.dirname(os.path.abspath(__file__)))), "tools", "tr_rules.py")
    spec = importlib.util.spec_from_file_location("tr_rules", p); m = importlib.util.module_from_spec(spec); spec.loader.exec_module(m)
    try: out = m.run()
    except m.Refuse as e: raise Broken("tr_rules refused: %s" % e, str(e))
    p2 = os.path.join(os.path.dirname(p), "tr_ruleops.py")
    spec2 = importlib.util.spec_from_file_location("tr_ruleops", p2); m2 = importlib.util.module_from_spec(spec2); spec2.loader.exec_module(m2)
    try: out.update(m2.run())
    except m2.Refuse as e: raise Broken("tr_ruleops refused: %s" % e, str(e))
    return out
TRUSTED = ["translator tools/tr_ruleops.py (same engine): the operations of AdditiveAssignmentRule, GeneralAssignmentRule and GeneralODERule (plain and volume variants) are regenerated from bioscrape/types.pyx on every run and proved equal to the model's rule_operation (Proofs/TieRuleOps.v); the rule's right-hand side Term is an oracle there (tied by C02's correspondence)",
           "translator tools/tr_rules.py (engine tools/tr_cython.py): the firing conditions of Rule.execute_rule / execute_volume_rule are regenerated from bioscrape/types.pyx on every run and proved equal to the model's `fires` (Proofs/TieRules.v)",
           "hand models coq/Model/Rules.v (rule operations), SSA.v tied by stream replay", "deterministic and lineage single-cell modes are decided by the harness oracle only"]
ASSUMPTIONS = ["generic position: no reaction time coincides with a grid time", "per elapsed step is counted from the second row on (quantifier)"]
MODES = ["det", "ssa", "ssa_safe", "vssa", "dssa", "dvssa", "lineage"]

def gen_case(rng):
    mode = rng.choice(MODES)
    spec = G.gen_network(rng, kinds=("massaction",), nrx=(0, 3), nsp=(1, 3), allow_delay=(mode in ("dssa", "dvssa")), max_order=2, integer_state=True, bounded=True, named=False)
    for rx in spec["reactions"]: rx["params"]["k"] = rng.choice([0.05, 0.1, 0.25, 0.5])
    for s in spec["x0"]: spec["x0"][s] = float(rng.randint(0, 6))
    sp = list(spec["x0"].keys()); n = rng.randint(3, 8); dt = rng.choice([0.25, 0.5, 1.0, 0.1, 0.3])     # 0.1, 0.3: grid elements with binary round-off (3*0.1 = 0.30000000000000004) -- S3_C09
    if dt in (0.1, 0.3): n = rng.randint(5, 14)
    # very fine grids (the repository's own ODE-rule test uses a step of 1e-7): a scheduled rule fires AT its time, not near it
    # (seeded change S6_C09: the rule's time matched with an absolute tolerance of 1e-7)
    # (plain, safe and delay simulators; the volume-aware and lineage loops carry absolute 1e-7 / 1e-9 slacks of their own by design)
    if mode in ("ssa", "ssa_safe", "dssa") and rng.random() < 0.12: dt = 2.0 ** -26; n = rng.randint(6, 12)
    # a quarter of the stochastic grids start after the initial time 0, half of those between two steps of the simulators' own dt clocks
    # (defect F23: the delay + volume simulator re-applied dt rules after every bare move to a requested time lying between two volume steps)
    off = rng.choice([0.5 * dt, 0.5 * dt, dt, 3 * dt]) if (mode in ("ssa", "ssa_safe", "vssa", "dssa", "dvssa") and dt in (0.25, 0.5, 1.0) and rng.random() < 0.3) else 0.0
    times = [off + i * dt for i in range(n)]
    rules = []; expect = []
    a = rng.choice(sp)
    if rng.random() < 0.8:
        f = rng.choice(["2*%s + 1", "%s + 3", "%s*%s"]); args = tuple(rng.choice(sp) for _ in range(f.count("%s")))
        spec["x0"]["Ra"] = 0.0; rules.append(["assignment", {"equation": "Ra = " + f % args}, "repeated"])
        expect.append({"kind": "assign", "dest": "Ra", "formula": f, "args": args})
        if rng.random() < 0.6:
            spec["x0"]["Rb"] = 0.0; b = rng.choice(sp); rules.append(["additive", {"equation": "Rb = Ra + " + b}, "repeated"])
            expect.append({"kind": "assign", "dest": "Rb", "formula": "%s + %s", "args": ("Ra", b)})
    if rng.random() < 0.4 and spec["reactions"] and mode != "lineage":
        # a parameter assigned by a rule and used as a rate constant
        spec["parameters"]["kr"] = 0.5; rules.append(["assignment", {"equation": "kr = 0.125 + 0.125*" + a}, "repeated"])
        spec["reactions"][0]["params"]["k"] = "kr"
    if rng.random() < 0.6 and mode != "det":
        spec["x0"]["Cn"] = 0.0; rules.append(["assignment", {"equation": "Cn = Cn + 1"}, "dt"]); expect.append({"kind": "counter", "dest": "Cn", "step": 1.0})
    if rng.random() < 0.6 and mode != "det":
        rate = rng.choice([1.0, 2.0, 0.5]); spec["x0"]["Od"] = float(rng.randint(0, 3))
        rules.append(["ode", {"equation": repr(rate), "target": "Od"}]); expect.append({"kind": "counter", "dest": "Od", "step": rate * dt})
    if rng.random() < 0.6 and mode not in ("det",) and n >= 4:
        k = rng.randint(1, n - 2); val = float(rng.randint(5, 9)); spec["x0"]["Sc"] = 1.0
        rules.append(["assignment", {"equation": "Sc = %r" % val}, times[k]]); expect.append({"kind": "scheduled", "dest": "Sc", "k": k, "before": 1.0, "after": val})
    if rng.random() < 0.5 and rules:
        # a repeated rule given WITHOUT its frequency (the documented default), placed after rules with other frequencies
        # (seeded change S5_C09: the constructor's default frequency leaked from the previous rule of the list)
        spec["x0"]["Rz"] = 0.0; rules.append(["assignment", {"equation": "Rz = 2*%s + 3" % a}])
        expect.append({"kind": "assign", "dest": "Rz", "formula": "2*%s + 3", "args": (a,)})
    spec["rules"] = rules
    # construction history: the model is built (and initialised) with the first rules, the last k are added with create_rule afterwards
    # (seeded change S4_C09: the rule pointers of an earlier initialisation were kept and the whole list appended again)
    if len(rules) >= 2 and rng.random() < 0.35: spec["late_rules"] = rng.randint(1, len(rules) - 1)
    spec["species"] = list(spec["species"]) + [s_ for s_ in ("Ra", "Rb", "Cn", "Od", "Sc", "Rz") if s_ in spec["x0"]]
    case = {"spec": spec, "mode": mode, "times": times, "seed": rng.randint(1, 2**31), "expect": expect,
            "kind": {"ssa": "ssa", "ssa_safe": "ssa", "vssa": "vssa", "dssa": "dssa", "dvssa": "dvssa"}.get(mode), "safe": mode == "ssa_safe"}
    if any(rx.get("delay", {}).get("reactants") for rx in spec["reactions"]): case["safe"] = True
    if mode in ("vssa", "dvssa"): case["volume"] = {"type": "base", "V0": rng.choice([0.5, 1.0, 2.0])}
    # a lineage cell may be ENDED by a division or death rule before the grid ends: the row it leaves last is a reported row like any other
    # (seeded change S7_C09: the repeat rules were applied after the division / death checks, so the last row never saw them)
    if mode == "lineage" and rng.random() < 0.6:
        kind = rng.choice(["time", "deltaV", "death"])
        if kind == "time": case["end_rule"] = ["time", times[rng.randint(1, n - 1)]]
        elif kind == "deltaV": case["end_rule"] = ["deltaV", 0.1 * times[rng.randint(1, n - 1)]]
        else:
            s_ = rng.choice(sp); case["end_rule"] = ["death", s_, spec["x0"][s_] + rng.randint(0, 2)]
    return case

def gen_cases(seed, tier):
    rng = random.Random(seed * 9001 + 9); n = 240 if tier == "quick" else 3000
    return [gen_case(rng) for _ in range(n)]

def impl_case(case):
    import numpy as np, warnings
    warnings.simplefilter("ignore")
    if case["mode"] in ("ssa", "ssa_safe", "vssa", "dssa", "dvssa"):
        r = R.impl_replay(case)
        from bioscrape.types import Model
        r["species"] = _species_of(case)
        return r
    if case["mode"] == "det":
        from bioscrape.simulator import py_simulate_model
        M = G.build_model(case["spec"])
        res = py_simulate_model(np.array(case["times"]), Model=M, stochastic=False, return_dataframe=False)
        return {"rows": [[float(v) for v in row] for row in np.asarray(res.py_get_result())], "species": M.get_species_list(), "float": True,
                "params": dict(M.get_parameter_dictionary())}
    # lineage single cell
    from bioscrape.lineage import LineageModel, LineageSSASimulator
    from bioscrape.random import py_seed_random
    spec = case["spec"]
    rl = [tuple(r) for r in spec["rules"]]; late = min(int(spec.get("late_rules", 0) or 0), len(rl))
    M = LineageModel(species=list(spec["species"]), reactions=[G.reaction_tuple(r) for r in spec["reactions"]], parameters=list(spec["parameters"].items()),
                     rules=rl[:len(rl) - late], initial_condition_dict=dict(spec["x0"]))
    for r_ in rl[len(rl) - late:]: M.create_rule(*r_)
    M.create_volume_rule("linear", {"growth_rate": 0.1})
    er = case.get("end_rule")
    if er:
        from bioscrape.lineage import LineageVolumeSplitter
        if er[0] in ("time", "deltaV"): M.create_division_rule(er[0], {"threshold": er[1]}, LineageVolumeSplitter(M))
        else: M.create_death_rule("species", {"specie": er[1], "threshold": er[2], "comp": ">"})
    M.py_initialize()
    py_seed_random(case["seed"])
    res = LineageSSASimulator().py_SimulateSingleCell(np.array(case["times"]), Model=M)
    return {"rows": [[float(v) for v in row] for row in np.asarray(res.py_get_result())], "species": M.get_species_list(), "float": True,
            "vols": [float(v) for v in np.asarray(res.py_get_volume())], "params": dict(M.get_parameter_dictionary())}

def _species_of(case):
    return c06._species_order(case["spec"])

def driver_line(case, r):
    return R.driver_line(case, r) if case["kind"] else None
def compare(case, r, out):
    return R.compare(case, r, out)

def _mode_label(case):
    """the volume-aware and the lineage simulators keep their own step clock (next_queue_time += dt); on a grid whose step is no
    exact binary fraction that clock and the grid drift apart by an ulp (known finding F20): such cases get their own site key"""
    dt = case["times"][1] - case["times"][0]
    inexact = case["mode"] in ("vssa", "dvssa", "lineage") and (dt * 2.0 ** 40) != int(dt * 2.0 ** 40)      # not a binary fraction
    # ... and they stop only at reaction times, their own steps (initial time 0 + k dt) and queue slots, never at the requested times
    # (known finding F24): a grid lying BETWEEN those steps gets its own site key as well
    between = case["mode"] in ("vssa", "dvssa") and (case["times"][0] / dt) != int(case["times"][0] / dt)
    return case["mode"] + (", inexact grid step" if inexact else ", grid between volume steps" if between else "")

def oracle(case, r):
    if not r or "rows" not in r: return "implementation failed: %s" % json.dumps(r)[:300]
    names = r["species"]
    rows = [[(v if r.get("float") else float.fromhex(v)) for v in row] for row in r["rows"]]
    er = case.get("end_rule")
    if er:
        if not (1 <= len(rows) <= len(case["times"])): return "rows: %d rows for %d time points (%s, ended by a rule)" % (len(rows), len(case["times"]), case["mode"])
    elif len(rows) != len(case["times"]): return "rows: %d rows for %d time points (%s)" % (len(rows), len(case["times"]), case["mode"])
    # a death rule can end the cell between two steps of the dt clock: the last row then carries the state of that moment under the nearest grid
    # label, and "once per step" says nothing about it; division by time / added volume happens at a step of the clock
    last_counts = not (er and er[0] == "death" and len(rows) < len(case["times"]))
    col = lambda k, s: rows[k][names.index(s)]
    tol = 1e-6 if case["mode"] == "det" else 1e-12
    for e in case["expect"]:
        if e["kind"] == "assign":
            for k in range(len(rows)):
                vals = [col(k, a_) for a_ in e["args"]]
                want = eval(e["formula"].replace("%s", "{}").format(*["(%r)" % v for v in vals]))
                if abs(col(k, e["dest"]) - want) > tol * max(1.0, abs(want)):
                    return "repeated assignment (%s): row %d has %s = %r but %s = %r" % (case["mode"], k, e["dest"], col(k, e["dest"]), e["formula"] % tuple(e["args"]), want)
        elif e["kind"] == "counter":
            for k in range(2, len(rows) if last_counts else len(rows) - 1):
                d = col(k, e["dest"]) - col(k - 1, e["dest"])
                if abs(d - e["step"]) > 1e-9: return "per-step rule (%s): %s changes by %r between rows %d and %d, expected %r" % (_mode_label(case), e["dest"], d, k - 1, k, e["step"])
        elif e["kind"] == "scheduled":
            for k in range(len(rows)):
                v = col(k, e["dest"])
                if k < e["k"] and v != e["before"]: return "scheduled rule (%s): row %d before the scheduled time has %s = %r" % (_mode_label(case), k, e["dest"], v)
                if k > e["k"] and v != e["after"] and (last_counts or k < len(rows) - 1): return "scheduled rule (%s): row %d after the scheduled time has %s = %r, expected %r" % (_mode_label(case), k, e["dest"], v, e["after"])
    return None

def nontrivial(case): return len(set(e["kind"] for e in case["expect"])) >= 2
def site(case, msg): return (msg or "any").split(":")[0]
def key(case): return json.dumps([case["spec"], case["mode"], case["times"], case["seed"]], sort_keys=True)
def stats(cases):
    from collections import Counter
    return {"modes": dict(Counter(c["mode"] for c in cases)), "grids_starting_after_t0": sum(1 for c in cases if c["times"][0] > 0), "rule_expectations": dict(Counter(e["kind"] for c in cases for e in c["expect"])),
            "rules_added_after_first_initialisation": sum(1 for c in cases if c["spec"].get("late_rules"))}
def shrink(case, fails):
    from harness.shrink import shrink_list
    spec = case["spec"]
    rx = shrink_list(spec["reactions"], lambda cands: fails([dict(case, spec=dict(spec, reactions=c)) for c in cands]), min_len=0)
    return dict(case, spec=dict(spec, reactions=rx))
