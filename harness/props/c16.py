"""C16: priors.  Correspondence: Model/Priors.v (extracted, doubles; scipy's gamma/beta values passed in)
vs PIDInterface.check_prior and DeterministicInference.get_likelihood_function (stub likelihood = 0).
Oracle: scipy.stats log-densities and supports."""
import json, math, random
from harness.common import fhex
PID = "C16"; COQ_TARGET = "C16"
FAMS = ["uniform", "gaussian", "exponential", "gamma", "beta", "log-uniform", "log-gaussian"]
RULE = ("1-4 parameters, each with one of the seven prior families, parameters in range, values inside the support (incl. within 1e-9 of a "
        "boundary), on it and outside it, with/without the 'positive' flag; non-trivial = at least one value outside a support or a positive-flag hit, "
        "or >= 2 parameters")
TRUSTED = ["translator tools/tr_priors.py (Python ast, fail-closed): the seven prior functions and check_prior's dispatch are regenerated from bioscrape/pid_interfaces.py on every run (coq/Gen/PriorsGen.v) and proved equal to the hand model (Proofs/TiePriors.v, any arithmetic)", "hand model coq/Model/Priors.v (check_prior loop, posterior glue) tied by correspondence", "scipy.special.gamma/beta values are passed to the model (section variables G, B in the theorems)",
           "numpy's scalar exp/log/sqrt vs libm: values compared with relative tolerance 1e-12"]
ASSUMPTIONS = ["theorems over R; NaN/underflow routes to rejection (log-gaussian at x<=0, far Gaussian tails) are floating-point behaviour checked by correspondence only"]

def gen_term(rng):
    fam = rng.choice(FAMS); pos = rng.random() < 0.3
    U = lambda a, b: round(rng.uniform(a, b), 4)
    where = rng.choice(["in", "in", "in", "edge", "out", "out"])
    if fam in ("uniform", "log-uniform"):
        lb = U(0.01, 3) if fam == "log-uniform" else U(-3, 3); ub = lb + U(0.1, 5)
        if fam == "uniform" and rng.random() < 0.06:
            # a support far smaller than any absolute tolerance a comparison might carry
            lb, ub = 1e-10, 1e-9; return [pos, fam, lb, ub, rng.choice([5e-10, 5e-9, -5e-9, 2e-9, 0.0])]
        # outside the support by a hair: a few millionths of the bound, a few billionths in absolute terms (seeded change S5_C16: the
        # bounds were compared with np.isclose's default tolerances)
        near = rng.choice([ub + 3e-6 * abs(ub) + 2e-9, lb - 3e-6 * abs(lb) - 2e-9, ub + 4e-9, lb - 4e-9])
        x = {"in": U(lb, ub), "edge": rng.choice([lb, ub, lb + 1e-9, ub - 1e-9]), "out": rng.choice([lb - U(1e-6, 2), ub + U(1e-6, 2), near])}[where]
        return [pos, fam, lb, ub, x]
    if fam == "gaussian":
        mu, s = U(-3, 3), U(0.1, 3); return [pos, fam, mu, s, mu + s * U(-8, 8)]
    if fam == "log-gaussian":
        mu, s = U(-1, 1), U(0.1, 2)
        x = {"in": math.exp(mu + s * U(-4, 4)), "edge": 1e-9, "out": rng.choice([-U(0.01, 3), 0.0])}[where]
        return [pos, fam, mu, s, x]
    if fam == "exponential":
        lam = U(0.1, 5); x = {"in": U(0, 6), "edge": rng.choice([0.0, 1e-9]), "out": -U(1e-6, 3)}[where]
        return [pos, fam, lam, 0.0, x]
    if fam == "gamma":
        a = rng.choice([1.0, 2.0, 3.0, 4.0, 5.0, 0.5, 1.5, 2.5, U(0.5, 5)]); b = U(0.1, 4)
        # exactly on the boundary when the density has a finite limit there (shape >= 1): gamma(1, b) at 0 has density b  (S2_C16)
        x = {"in": U(0.01, 8), "edge": rng.choice([1e-9, 0.0]) if a >= 1 else 1e-9, "out": -U(1e-6, 3)}[where]
        return [pos, fam, a, b, x]
    a = rng.choice([1.0, 2.0, 3.0, 4.0, 0.5, 1.5, 2.5, U(0.5, 5)]); b = rng.choice([1.0, 2.0, 3.0, 0.5, 2.5, U(0.5, 5)])
    x = {"in": U(0.001, 0.999), "edge": rng.choice([1e-9, 1 - 1e-9] + ([0.0] if a >= 1 else []) + ([1.0] if b >= 1 else [])), "out": rng.choice([-U(1e-6, 2), 1 + U(1e-6, 2)])}[where]
    return [pos, "beta", a, b, x]

def translate():
    import importlib.util, os
    from harness.common import Broken
    p = os.path.join(os.path.dirname(os.path.dirname(os.path.dirname(os.path.abspath(__file__)))), "tools", "tr_priors.py")
    spec = importlib.util.spec_from_file_location("tr_priors", p); m = importlib.util.module_from_spec(spec); spec.loader.exec_module(m)
    try: return m.run()
    except m.Refuse as e: raise Broken("tr_priors refused: %s" % e, str(e))

def gen_cases(seed, tier):
    rng = random.Random(seed * 31337 + 16)
    n = 1500 if tier == "quick" else 20000
    cases = [{"terms": [gen_term(rng) for _ in range(rng.randint(1, 4))]} for _ in range(n)]
    # shared hyperparameters: several families in ONE interface with the same two numbers (a < b, both > 0, valid for every
    # family), in random order: no state may be shared between the terms of one prior (seeded change S_C16: a normaliser cache
    # keyed by the hyperparameters only)
    for _ in range(n // 10):
        a = rng.choice([0.5, 1.5, 2.0, 2.5]); b = rng.choice([3.0, 4.0, 5.0]); fams = rng.sample(["gamma", "beta", "gaussian", "log-gaussian", "uniform", "log-uniform"], rng.randint(2, 4))
        if rng.random() < 0.7 and not {"gamma", "beta"} <= set(fams): fams = ["gamma", "beta"] + fams[:2]; rng.shuffle(fams)
        U = lambda lo, hi: round(rng.uniform(lo, hi), 4)
        terms = []
        for fam in fams:
            x = {"gamma": U(0.05, 6), "beta": U(0.01, 0.99), "gaussian": U(-5, 8), "log-gaussian": U(0.05, 9), "uniform": U(a, b), "log-uniform": U(a, b)}[fam]
            terms.append([False, fam, a, b, x])
        cases.append({"terms": terms, "family": "shared-hyperparameters"})
    return cases

_CACHE = {}
def logpdf(t):
    k = tuple(t[1:])
    if k not in _CACHE: _CACHE[k] = _logpdf(t)
    return _CACHE[k]

def _logpdf(t):
    """textbook log-densities written out independently (math.lgamma for the normalisers)"""
    pos, fam, a, b, x = t
    NEG = float("-inf")
    if fam == "uniform": return -math.log(b - a) if a <= x <= b else NEG
    if fam == "gaussian": return -math.log(b * math.sqrt(2 * math.pi)) - (x - a) ** 2 / (2 * b * b)
    if fam == "exponential": return math.log(a) - a * x if x >= 0 else NEG
    if fam == "gamma":
        if x == 0: return math.log(b) if a == 1 else NEG          # limit of the density at the boundary (generated only for shape >= 1)
        return (a * math.log(b) - math.lgamma(a) + (a - 1) * math.log(x) - b * x) if x > 0 else NEG
    if fam == "beta" and x in (0.0, 1.0):
        lB = math.lgamma(a) + math.lgamma(b) - math.lgamma(a + b)
        return -lB if ((x == 0.0 and a == 1) or (x == 1.0 and b == 1)) else NEG
    if fam == "beta":
        return ((a - 1) * math.log(x) + (b - 1) * math.log1p(-x) - (math.lgamma(a) + math.lgamma(b) - math.lgamma(a + b))) if 0 < x < 1 else NEG
    if fam == "log-uniform": return (-math.log(x) - math.log(math.log(b) - math.log(a))) if a <= x <= b else NEG
    return (-math.log(x * b * math.sqrt(2 * math.pi)) - (math.log(x) - a) ** 2 / (2 * b * b)) if x > 0 else NEG

def nontrivial(case):
    return len(case["terms"]) >= 2 or any((not math.isfinite(logpdf(t))) or (t[0] and t[4] < 0) for t in case["terms"])

class _Stub:
    def set_init_params(self, d): pass
    def py_log_likelihood(self): return 0.0

_M = None
def impl_case(case):
    import numpy as np, warnings
    from scipy import special
    from bioscrape.types import Model
    from bioscrape.pid_interfaces import DeterministicInference
    global _M
    warnings.simplefilter("ignore")
    names = ["p%d" % i for i in range(len(case["terms"]))]
    if _M is None: _M = Model(species=["X"], parameters=[("p%d" % i, 1.0) for i in range(4)], initial_condition_dict={"X": 0})
    prior = {}
    for nm, t in zip(names, case["terms"]):
        pos, fam, a, b, x = t
        pr = [fam, a] if fam == "exponential" else [fam, a, b]
        if pos: pr.append("positive")
        prior[nm] = pr
    # the prior dictionary is written in another order than the parameter list for about half of the multi-parameter cases: flags and
    # densities belong to NAMES, never to positions (seeded change S3_C16)
    if len(names) >= 2 and (len(json.dumps(case["terms"])) % 2 == 0): prior = {k: prior[k] for k in reversed(list(prior))}
    pid = DeterministicInference(names, _M, prior); pid.LL_det = _Stub()
    singles = []; g = []
    for nm, t in zip(names, case["terms"]):
        pos, fam, a, b, x = t
        g.append(float(special.gamma(a)) if fam == "gamma" else float(special.beta(a, b)) if fam == "beta" else 0.0)
        try:
            one = DeterministicInference([nm], _M, {nm: [p for p in prior[nm] if p != "positive"]}).check_prior({nm: x})
            singles.append("REJECT" if (one == np.inf) else fhex(one))
        except ValueError: singles.append("RAISE")
    try:
        post = pid.get_likelihood_function([t[4] for t in case["terms"]])
        post = "-inf" if post == -np.inf else fhex(post)
    except ValueError: post = "RAISE"
    # the same point through an interface that samples in log space (log_space_parameters=True): the sampler's coordinates are the
    # logarithms, the posterior is that of the values (seeded change S6_C16: the 'positive' flag was tested on the coordinate)
    post_log = None
    if all(t[4] > 0 for t in case["terms"]):
        try:
            pidl = DeterministicInference(names, _M, prior, log_space_parameters=True); pidl.LL_det = _Stub()
            pl = pidl.get_likelihood_function([math.log(t[4]) for t in case["terms"]])
            post_log = "-inf" if pl == -np.inf else fhex(pl)
        except ValueError: post_log = "RAISE"
    return {"singles": singles, "post": post, "g": [fhex(v) for v in g], "post_log": post_log}

def driver_line(case, r):
    if not r or "g" not in r: return None
    toks = ["prior", str(len(case["terms"]))]
    for t, g in zip(case["terms"], r["g"]):
        toks += ["1" if t[0] else "0", t[1], fhex(t[2]), fhex(t[3]), fhex(t[4]), g]
    return " ".join(toks)

def _num(s):
    return {"nan": float("nan"), "inf": float("inf"), "-inf": float("-inf")}.get(s) if s in ("nan", "inf", "-inf") else float.fromhex(s)

def _same(a, b, tol=1e-12):
    if a == b: return True
    if a in ("REJECT", "RAISE") or b in ("REJECT", "RAISE"): return False
    x, y = _num(a), _num(b)
    if math.isnan(x) or math.isnan(y): return math.isnan(x) and math.isnan(y)
    if math.isinf(x) or math.isinf(y): return x == y
    return abs(x - y) <= tol * max(abs(x), abs(y)) + 1e-300

def compare(case, r, out):
    if not r or "singles" not in r: return "implementation failed: %s" % json.dumps(r)[:300]
    ms, mp = out.split(" | ")
    ms = ms.split()
    for i, (a, b) in enumerate(zip(ms, r["singles"])):
        if not _same(a, b): return "%s term %r: model %s implementation %s" % (case["terms"][i][1], case["terms"][i], a, b)
    if not _same(mp, r["post"]): return "posterior term: model %s implementation %s for %r" % (mp, r["post"], case["terms"])
    return None

def oracle(case, r):
    if not r or "post" not in r: return "implementation failed: %s" % json.dumps(r)[:300]
    tot = 0.0; rej = False
    for t in case["terms"]:
        lp = logpdf(t)
        if (t[0] and t[4] < 0) or not math.isfinite(lp): rej = True
        tot += lp if math.isfinite(lp) else 0.0
    got = r["post"]
    if rej:
        return None if got == "-inf" else "%s: value outside the support (or negative under 'positive') but the posterior is %s, not -inf: %r" % (_site_of(case), got, case["terms"])
    if got == "-inf" and any(logpdf(t) < -700 for t in case["terms"]):
        return "density underflow: a log-density below -700 (%r) is reported as -inf: %r" % (min(logpdf(t) for t in case["terms"]), case["terms"])
    if got in ("-inf", "RAISE"): return "%s: all values inside their supports but the posterior is %s: %r" % (_site_of(case), got, case["terms"])
    g = _num(got)
    if abs(g - tot) > 1e-9 * max(1.0, abs(tot)) and any(logpdf(t) < -700 for t in case["terms"]):
        # same defect as the -inf case (F13): below exp(-708) the density is a subnormal double and its logarithm loses digits
        return "density underflow: a log-density below -700 (%r) is reported inaccurately (%r, sum of log-densities %r): %r" % (min(logpdf(t) for t in case["terms"]), g, tot, case["terms"])
    if abs(g - tot) > 1e-9 * max(1.0, abs(tot)): return "%s: log-prior %r, sum of log-densities %r: %r" % (_site_of(case), g, tot, case["terms"])
    # log-space sampling: compared only well inside the supports (exp(log(x)) may differ from x in the last place)
    pl = r.get("post_log")
    if pl is not None and all(_well_inside(t) for t in case["terms"]):
        if pl in ("-inf", "RAISE") or abs(_num(pl) - tot) > 1e-6 * max(1.0, abs(tot)):
            return "%s: sampled in log space the posterior at the same values is %s, the sum of log-densities is %r: %r" % (_site_of(case), pl if pl in ("-inf", "RAISE") else _num(pl), tot, case["terms"])
    return None

def _well_inside(t):
    pos, fam, a, b, x = t
    if fam in ("uniform", "log-uniform"): return a + 1e-6 * (b - a) < x < b - 1e-6 * (b - a)
    if fam == "beta": return 1e-6 < x < 1 - 1e-6
    return x > 1e-6 and logpdf(t) > -600

def _site_of(case):
    return "+".join(sorted(set(t[1] for t in case["terms"])))
def site(case, msg): return (msg or "any").split(":")[0]

def shrink(case, fails):
    from harness.shrink import shrink_list
    return {"terms": shrink_list(case["terms"], lambda cs: fails([{"terms": c} for c in cs]))}

def stats(cases):
    from collections import Counter
    return {"families": dict(Counter(t[1] for c in cases for t in c["terms"])), "n_params": dict(Counter(str(len(c["terms"])) for c in cases)),
            "positive_flag": sum(1 for c in cases for t in c["terms"] if t[0]), "shared_hyperparameter_cases": sum(1 for c in cases if c.get("family"))}
def key(case): return json.dumps(case["terms"])
