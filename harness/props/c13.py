"""C13: plain SBML import.  Documents are generated DIRECTLY with libsbml (independently of bioscrape),
read with Model(sbml_filename=...).  Oracle: initial values (amount / concentration precedence), stoichiometric
matrix = nu_products - nu_reactants of the document, net rate equations = stoichiometry x kinetic law (local
parameters binding only in their reaction) + rate rules, assignment rules -> repeated assignment rules, each rate
rule exactly one reaction.  Correspondence: the extracted rule loop / initial-value function (Model/SbmlImport.v)
vs what the import produced."""
import json, math, os, random, tempfile
from harness.common import fhex
PID = "C13"; COQ_TARGET = "C13"
RULE = ("libsbml-built Level-3 documents: 2-4 species with amount and/or concentration set (zero, non-zero, tiny, unset, both attributes present), 1-3 global parameters, 1-3 reactions with stoichiometries 1-3, "
        "modifiers, local parameters whose names collide with globals and with each other, kinetic laws over + - * / ^ and names, 0-4 assignment / rate rules in every order; "
        "non-trivial = a colliding local parameter or >= 2 rules of different kinds")
TRUSTED = ["libsbml (document construction, XML, L3 formulas, renameSIdRefs) is outside the model", "hand model coq/Model/SbmlImport.v tied by correspondence on the rule loop and initial values"]
ASSUMPTIONS = ["generated names pid_rid are fresh in the generated documents", "subset: one compartment of size 1, ordinary species, no events / function definitions / initial assignments"]

LAWS = ["%(k)s * %(a)s", "%(k)s * %(a)s * %(b)s", "%(k)s * %(a)s / (%(K)s + %(a)s)", "%(k)s * %(a)s^2 / (%(K)s + %(b)s)", "%(k)s + %(K)s * %(a)s", "%(k)s * (%(a)s - %(b)s + 10)",
        # integer powers of a difference that is negative in some of the states (seeded change S5_C13: the power node clamped a negative base to 0)
        "%(k)s * (%(a)s - %(b)s)^2", "%(K)s + %(k)s * (%(a)s - 3.5)^3"]

def gen_case(rng):
    nsp = rng.randint(2, 4); species = ["S%d" % i for i in range(nsp)]
    sp = {}
    for s in species:
        # SBML (and libsbml's setters) make initialAmount and initialConcentration mutually exclusive
        mode = rng.choice(["amount", "conc", "amount_zero", "neither", "both", "both"])
        sp[s] = {"amount": None, "conc": None}
        if mode == "amount": sp[s]["amount"] = rng.choice([float(rng.randint(1, 9)), float(rng.randint(1, 9)), 2.5e-9, 1e-12])
        if mode == "amount_zero": sp[s]["amount"] = 0.0
        if mode == "conc": sp[s]["conc"] = float(rng.randint(1, 9)) + 0.5
        if mode == "both":
            # hand-written / other tools' documents carry both attributes (the second one is added to the serialised XML below): a
            # non-zero amount -- however small -- wins, a zero amount yields to the concentration (seeded change S4_C13: "amount == 0"
            # became a test with an absolute tolerance)
            sp[s]["amount"] = rng.choice([float(rng.randint(1, 9)), 0.0, 2.5e-9, 1e-12, 0.5, 3e-7])
            sp[s]["conc"] = float(rng.randint(1, 9)) + 0.5
    globs = {"k": round(rng.uniform(0.2, 2), 3), "K": float(rng.randint(1, 5))}
    if rng.random() < 0.5: globs["g2"] = 0.7
    # a VARIABLE global parameter driven by an assignment rule; reactions may declare a local parameter of the same id,
    # sometimes with exactly the global's declared value (local scoping must not depend on values) -- seeded change S2_C13
    gv = None
    if rng.random() < 0.45:
        gv = {"id": "gv", "value": rng.choice([0.5, 1.5, 2.0]), "formula": "1 + 0.25 * %s" % species[0]}; globs["gv"] = gv["value"]
    rxs = []
    for i in range(rng.randint(1, 3)):
        re = [(rng.choice(species), rng.randint(1, 3)) for _ in range(rng.randint(0, 2))]
        pr = [(rng.choice(species), rng.randint(1, 3)) for _ in range(rng.randint(0, 2))]
        # mostly one reference per species and side; a quarter of the reactions may list a species in two references of one side
        # (SBML Level 3 allows it: the effective stoichiometry is the sum) -- seeded change S6_C13: the last reference replaced the others
        if rng.random() < 0.75: re = list({s: n for s, n in re}.items()); pr = list({s: n for s, n in pr}.items())
        else:
            if re and rng.random() < 0.7: re.append((re[0][0], rng.randint(1, 2)))
            if pr and rng.random() < 0.7: pr.append((pr[0][0], rng.randint(1, 2)))
        locs = {}
        if rng.random() < 0.6: locs["k"] = round(rng.uniform(0.2, 3), 3)        # collides with the global k
        if rng.random() < 0.4: locs["K"] = float(rng.randint(1, 6))
        if rng.random() < 0.3: locs["kloc"] = 0.9                               # collides between reactions only
        a, b = rng.choice(species), rng.choice(species)
        kname = rng.choice(["k", "kloc"]) if "kloc" in locs else "k"
        if gv and rng.random() < 0.7:
            kname = "gv"
            if rng.random() < 0.7: locs["gv"] = gv["value"] if rng.random() < 0.6 else round(rng.uniform(0.2, 3), 3)
        law = rng.choice(LAWS) % {"k": kname, "K": "K", "a": a, "b": b}
        mods = [s for s in {a, b} if s not in [x for x, _ in re] and s not in [x for x, _ in pr]]
        rxs.append({"id": "rx%d" % i, "reactants": re, "products": pr, "locals": locs, "law": law, "modifiers": mods})
    rules = []
    extra_species = []
    for j in range(rng.randint(0, 4)):
        kind = rng.choice(["assignment", "rate"])
        var = "R%d" % j; extra_species.append(var)
        formula = rng.choice(["2 * %s + 1", "%s * k", "%s + %s", "(%s - 2.5)^3"]); formula = formula % tuple(rng.choice(species) for _ in range(formula.count("%s")))
        rules.append({"kind": kind, "var": var, "formula": formula})
    if gv: rules.insert(rng.randint(0, len(rules)), {"kind": "assignment", "var": "gv", "formula": gv["formula"], "target": "parameter"})
    # a CHAIN of assignment rules on variable parameters, listed in dependency order (u1, then w2 which reads u1), where the first formula
    # also mentions a constant whose id merely CONTAINS the second variable's id (w2x / w2): identifiers are tokens, not substrings
    # (seeded change S7_C13: rules re-ordered by a textual "reads" test, which saw a cycle here and evaluated w2 from a stale u1)
    if rng.random() < 0.35 and rxs:
        globs["u1"] = 1.0; globs["w2"] = 1.0; globs["w2x"] = rng.choice([0.75, 1.5])
        a_, b_ = rng.choice(species), rng.choice(species)
        at = rng.randint(0, len(rules))
        rules.insert(at, {"kind": "assignment", "var": "w2", "formula": "u1 / 2", "target": "parameter"})
        rules.insert(at, {"kind": "assignment", "var": "u1", "formula": "%s + w2x * %s" % (a_, b_), "target": "parameter"})
        rx_ = rng.choice(rxs); c_ = rng.choice(species); rx_["law"] = "w2 * %s" % c_; rx_["locals"] = {k_: v_ for k_, v_ in rx_["locals"].items() if k_ not in ("w2",)}
        rx_["modifiers"] = [s_ for s_ in {c_} if s_ not in [x_ for x_, _ in rx_["reactants"]] and s_ not in [x_ for x_, _ in rx_["products"]]]
    for v in extra_species: sp[v] = {"amount": 0.0, "conc": None}
    # the document lists its species in a random order (the importer's species indices follow it): nothing may depend on an order
    # seen in a document imported earlier in the same process (seeded change S3_C13: a parse cache keyed by the SET of species names)
    items = list(sp.items()); rng.shuffle(items); sp = dict(items)
    pts = [{s: float(rng.randint(0, 6)) + 0.25 * rng.randint(0, 3) for s in sp} for _ in range(3)]
    return {"species": sp, "globals": globs, "reactions": rxs, "rules": rules, "points": pts}

def gen_cases(seed, tier):
    rng = random.Random(seed * 7013 + 13); n = 120 if tier == "quick" else 1500
    cases = []
    for _ in range(n):
        c = gen_case(rng); cases.append(c)
        if rng.random() < 0.3 and len(c["species"]) >= 2:
            # a twin: the same document with its species listed in another order, imported right afterwards in the same process
            t = json.loads(json.dumps(c)); items = list(t["species"].items()); items = items[1:] + items[:1]; t["species"] = dict(items); t["twin"] = True
            cases.append(t)
    return cases

def _write_doc(case, path):
    import libsbml
    doc = libsbml.SBMLDocument(3, 2); m = doc.createModel(); m.setId("generated_by_the_harness")
    c = m.createCompartment(); c.setId("cell"); c.setConstant(True); c.setSize(1.0); c.setSpatialDimensions(3)
    for s, v in case["species"].items():
        x = m.createSpecies(); x.setId(s); x.setCompartment("cell"); x.setConstant(False); x.setBoundaryCondition(False); x.setHasOnlySubstanceUnits(False)
        if v["amount"] is not None: x.setInitialAmount(v["amount"])
        elif v["conc"] is not None: x.setInitialConcentration(v["conc"])
    for p, v in case["globals"].items():
        x = m.createParameter(); x.setId(p); x.setValue(v); x.setConstant(not any(ru["var"] == p for ru in case["rules"]))
    for rx in case["reactions"]:
        r = m.createReaction(); r.setId(rx["id"]); r.setReversible(False)
        for s, n in rx["reactants"]:
            x = r.createReactant(); x.setSpecies(s); x.setStoichiometry(float(n)); x.setConstant(True)
        for s, n in rx["products"]:
            x = r.createProduct(); x.setSpecies(s); x.setStoichiometry(float(n)); x.setConstant(True)
        for s in rx["modifiers"]:
            x = r.createModifier(); x.setSpecies(s)
        kl = r.createKineticLaw()
        for p, v in rx["locals"].items():
            x = kl.createLocalParameter(); x.setId(p); x.setValue(v)
        kl.setMath(libsbml.parseL3Formula(rx["law"]))
    for ru in case["rules"]:
        x = m.createAssignmentRule() if ru["kind"] == "assignment" else m.createRateRule()
        x.setVariable(ru["var"]); x.setMath(libsbml.parseL3Formula(ru["formula"]))
    libsbml.writeSBMLToFile(doc, path)
    both = {s: v for s, v in case["species"].items() if v["amount"] is not None and v["conc"] is not None}
    if both:
        # libsbml's setters keep only one of the two attributes: the concentration is added to the serialised document
        import re
        txt = open(path).read()
        for s, v in both.items():
            txt, n_ = re.subn(r'(<species\b[^>]*\bid="%s"[^>]*?)(\s*/?>)' % re.escape(s), lambda m_: m_.group(1) + ' initialConcentration="%r"' % v["conc"] + m_.group(2), txt, count=1)
            if n_ != 1: raise RuntimeError("harness: could not add initialConcentration to species " + s)
        open(path, "w").write(txt)

def impl_case(case):
    import numpy as np, warnings
    from bioscrape.types import Model
    from bioscrape.simulator import ModelCSimInterface
    warnings.simplefilter("ignore")
    fd, path = tempfile.mkstemp(suffix=".xml", dir="/var/tmp"); os.close(fd)
    try:
        _write_doc(case, path)
        M = Model(sbml_filename=path, sbml_warnings=False)
    finally:
        if os.path.exists(path): os.remove(path)
    s2i = M.get_species2index(); names = sorted(s2i, key=lambda s: s2i[s])
    S = np.asarray(M.py_get_update_array()); nrx = S.shape[1]
    I = ModelCSimInterface(M); I.py_prep_deterministic_simulation()
    out = {"species": {s: float(v) for s, v in M.get_species_dictionary().items()}, "S": {s: [int(v) for v in S[s2i[s]]] for s in names}, "nrx": int(nrx),
           "rules": [[r[0], r[1]["equation"].replace(" ", ""), str(r[2])] for r in M.get_rules()], "params": {k: float(v) for k, v in M.get_parameter_dictionary().items()}, "deriv": []}
    for pt in case["points"]:
        x = np.zeros(len(s2i))
        for s, v in pt.items(): x[s2i[s]] = v
        I.py_apply_repeated_rules(x, 0.0, True)
        dx = np.zeros(len(s2i)); I.py_calculate_deterministic_derivative(x.copy(), dx, 0.0)
        out["deriv"].append({"x": {s: float(x[s2i[s]]) for s in names}, "dx": {s: float(dx[s2i[s]]) for s in names}})
    return out

def driver_line(case, r):
    if not r or "rules" not in r: return None
    kinds = {"assignment": "a", "rate": "r"}
    lines = [" ".join(["c13rules", str(len(case["rules"]))] + [kinds[ru["kind"]] for ru in case["rules"]])]
    for s, v in case["species"].items():
        lines.append(" ".join(["c13init", "none" if v["amount"] is None else fhex(v["amount"]), "none" if v["conc"] is None else fhex(v["conc"])]))
    return lines

def compare(case, r, out):
    if not r or "rules" not in r: return "implementation failed: %s" % json.dumps(r)[:300]
    # rule loop: the model's emitted sequence vs the imported rules / extra reactions
    toks = out[0].split()          # e.g. "A 0 A 2 | R 1"
    sep = toks.index("|"); assigns = toks[:sep]; rates = toks[sep + 1:]
    want_assign = [case["rules"][int(assigns[i + 1])]["var"] for i in range(0, len(assigns), 2)]
    got_assign = [x[1].split("=")[0] for x in r["rules"]]
    if want_assign != got_assign: return "rule loop: model emits assignments for %r, the import produced %r" % (want_assign, got_assign)
    if r["nrx"] != len(case["reactions"]) + len(rates) // 2: return "rule loop: model emits %d rate-rule reactions, the import has %d reactions for %d document reactions" % (len(rates) // 2, r["nrx"], len(case["reactions"]))
    for (s, v), line in zip(case["species"].items(), out[1:]):
        if float.fromhex(line.strip()) != r["species"][s]: return "initial value of %s: model %r implementation %r" % (s, float.fromhex(line.strip()), r["species"][s])
    return None

def _eval(formula, env):
    import libsbml
    from harness import sbmlkit as K
    return K.ast_eval(libsbml.parseL3Formula(formula), env)

def oracle(case, r):
    if not r or "species" not in r: return "implementation failed: %s" % json.dumps(r)[:300]
    msgs = []
    for s, v in case["species"].items():
        a, c = v["amount"], v["conc"]
        want = a if (a is not None and a != 0) else (c if c is not None else (a if a is not None else 0.0))
        if r["species"].get(s) != want: msgs.append("initial values: %s has amount=%r concentration=%r, imported value %r" % (s, a, c, r["species"].get(s)))
    nrx = len(case["reactions"])
    for s in case["species"]:
        want = [sum(n for x, n in rx["products"] if x == s) - sum(n for x, n in rx["reactants"] if x == s) for rx in case["reactions"]]
        if r["S"][s][:nrx] != want: msgs.append("stoichiometry: row of %s is %r, document gives %r" % (s, r["S"][s][:nrx], want))
    want_rules = [["assignment", (ru["var"] + "=" + ru["formula"]).replace(" ", ""), "repeated"] for ru in case["rules"] if ru["kind"] == "assignment"]
    got = [[x[0], x[1], x[2]] for x in r["rules"]]
    if [w[0] for w in want_rules] != [g[0] for g in got] or [w[1].split("=")[0] for w in want_rules] != [g[1].split("=")[0] for g in got] or any(g[2] != "repeated" for g in got):
        msgs.append("rules: document has assignment rules on %r, the import produced %r" % ([w[1].split("=")[0] for w in want_rules], got))
    n_rate = sum(1 for ru in case["rules"] if ru["kind"] == "rate")
    if r["nrx"] != nrx + n_rate: msgs.append("rules: %d rate rules should contribute %d reactions; the model has %d reactions for %d document reactions" % (n_rate, n_rate, r["nrx"], nrx))
    for d in r["deriv"]:
        x = d["x"]
        for s in case["species"]:
            want = 0.0; scale = 0.0
            for rx in case["reactions"]:
                nu = sum(n for y, n in rx["products"] if y == s) - sum(n for y, n in rx["reactants"] if y == s)
                if nu == 0: continue
                env = dict(case["globals"])
                for ru in case["rules"]:            # rule-driven global parameters take their rule's value at this state
                    if ru.get("target") == "parameter": env[ru["var"]] = _eval(ru["formula"], dict(env, **x))
                env.update(rx["locals"]); env.update(x)
                v = _eval(rx["law"], env); want += nu * v; scale += abs(nu * v)
            for ru in case["rules"]:
                if ru["kind"] == "rate" and ru["var"] == s:
                    env = dict(case["globals"]); env.update(x); v = _eval(ru["formula"], env); want += v; scale += abs(v)
            if abs(d["dx"][s] - want) > 1e-9 * max(1.0, scale):
                msgs.append("net rate equations: d%s/dt = %r, stoichiometry x kinetic law (+ rate rules) of the document gives %r at %r" % (s, d["dx"][s], want, x)); break
        else: continue
        break
    seen = set(); out = []
    for m in msgs:
        k = m.split(":")[0]
        if k not in seen: seen.add(k); out.append(m)
    return out or None

def site(case, msg): return (msg or "any").split(":")[0]
def nontrivial(case):
    return any(set(rx["locals"]) & (set(case["globals"]) | {"kloc"}) for rx in case["reactions"]) or len({ru["kind"] for ru in case["rules"]}) >= 2
def key(case): return json.dumps(case, sort_keys=True)
def stats(cases):
    from collections import Counter
    return {"rule_sequences": dict(Counter("".join(ru["kind"][0] for ru in c["rules"]) for c in cases)), "colliding_locals": sum(1 for c in cases for rx in c["reactions"] if "k" in rx["locals"]),
            "locals_shadowing_a_rule_driven_global": sum(1 for c in cases for rx in c["reactions"] if "gv" in rx["locals"]),
            "of_which_with_the_globals_declared_value": sum(1 for c in cases for rx in c["reactions"] if "gv" in rx["locals"] and rx["locals"]["gv"] == c["globals"].get("gv")),
            "species_with_both_amount_and_concentration": sum(1 for c in cases for v in c["species"].values() if v["amount"] is not None and v["conc"] is not None),
            "of_which_amount_below_1e-6": sum(1 for c in cases for v in c["species"].values() if v["amount"] is not None and v["conc"] is not None and 0 < v["amount"] < 1e-6)}
def shrink(case, fails):
    from harness.shrink import shrink_list
    rules = shrink_list(case["rules"], lambda cands: fails([dict(case, rules=c) for c in cands]), min_len=0)
    case = dict(case, rules=rules)
    rxs = shrink_list(case["reactions"], lambda cands: fails([dict(case, reactions=c) for c in cands]), min_len=0)
    return dict(case, reactions=rxs)
