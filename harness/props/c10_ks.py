"""KS tests of the delay samplers against the exact CDFs (runs in the implementation process)."""
def impl_case(case):
    import numpy as np
    from scipy import stats
    from bioscrape.random import py_seed_random, py_normal_rv, py_gamma_rv, py_exponential_rv
    py_seed_random(case["seed"]); N = case["N"]; fails = []; tests = 0
    for mean, std in [(0.0, 1.0), (3.0, 0.5)]:
        xs = np.array([py_normal_rv(mean, std) for _ in range(N)]); p = stats.kstest(xs, stats.norm(mean, std).cdf).pvalue; tests += 1
        if p < 1e-9: fails.append("sampler law: normal_rv(%g,%g) KS p=%.2e" % (mean, std, p))
    for k, th in [(1.0, 1.0), (2.5, 0.5), (7.0, 2.0)]:
        xs = np.array([py_gamma_rv(k, th) for _ in range(N)]); p = stats.kstest(xs, stats.gamma(k, scale=th).cdf).pvalue; tests += 1
        if p < 1e-9: fails.append("sampler law: gamma_rv(%g,%g) KS p=%.2e" % (k, th, p))
    xs = np.array([py_exponential_rv(2.0) for _ in range(N)]); p = stats.kstest(xs, stats.expon(scale=0.5).cdf).pvalue; tests += 1
    if p < 1e-9: fails.append("sampler law: exponential_rv(2) KS p=%.2e" % p)
    return {"fails": fails, "tests": tests}
