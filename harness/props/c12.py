"""C12: SBML round trip.  Oracle: a generated model is written (deterministic and stochastic export) and read
back; species and initial values, parameter values, immediate and delayed stoichiometry, rate laws in all four
modes at sampled states, delay types and delay parameter values, assignment rules with their frequency must be
the same; writing twice gives the same document up to the model id.  Correspondence: the extracted annotation
printer/parser (Model/SbmlExport.v) vs the annotation strings of the written file."""
import json, math, os, random, re, tempfile
from harness.common import fhex
from harness import modelgen as G
PID = "C12"; COQ_TARGET = "C12"
RULE = ("random models: mass action of order 0-4 with repeats (named and numeric parameters), general rates, delayed reactants/products with each delay family, additive/assignment rules with "
        "frequencies repeated / start / dt / a numeric time, identifier-safe names; deterministic and stochastic export; 3 states x 4 modes; Hill reactions are included for the structural "
        "clauses (their re-imported rate goes through the annotation, not the kinetic law); non-trivial = a delay or a rule is present")
TRUSTED = ["libsbml's XML round trip and L3 formula printer/parser are outside the model", "hand model coq/Model/SbmlExport.v (annotation protocol) tied by correspondence with the written annotation strings"]
ASSUMPTIONS = ["reactions are created through the documented tuple without an explicit 'species' override", "rate comparison tolerance 1e-9 relative"]

LOWER_POOL = ["m", "v", "u", "me", "vol", "met", "um", "p", "g", "mrna", "lum"]

def gen_cases(seed, tier):
    rng = random.Random(seed * 6007 + 12); n = 100 if tier == "quick" else 1200
    cases = []
    for _ in range(n):
        spec = G.gen_network(rng, kinds=("massaction", "massaction") + tuple(G.HILL) + ("general",), nrx=(1, 4), nsp=(1, 4), max_order=4, allow_delay=rng.random() < 0.6,
                             general_pool=["kg*%s", "kg*%s*%s", "kg*%s/(1+%s)", "kg*%s^2/(Kg+%s^2)",
                                           # unary minus applied to a power: the two formula grammars of libSBML read it differently
                                           # (seeded change S6_C12: the kinetic law set through the Level-1 parser)
                                           "kg*exp(-%s^2/Kg)", "kg*(2 - -%s^2/(1+%s^2))"],
                             # a third of the models use short lower-case species names, as gene / mRNA / protein models do (seeded change
                             # S4_C12: the import's reserved-word test became a substring test, dropping species called m, vol, me, ...)
                             species_pool=(LOWER_POOL if rng.random() < 0.35 else None))
        spec["species"] = list(spec["x0"].keys())
        rules = []
        sp = list(spec["x0"].keys())
        if rng.random() < 0.6:
            spec["x0"]["Ra"] = 0.0; spec["species"].append("Ra")
            rules.append(["assignment", {"equation": "Ra = 2*%s + 1" % rng.choice(sp)}, rng.choice(["repeated", "start", "dt", 2.0, 0.5])])
        if rng.random() < 0.4:
            spec["x0"]["Rb"] = 0.0; spec["species"].append("Rb")
            rules.append(["additive", {"equation": "Rb = %s + %s" % (rng.choice(sp), rng.choice(sp))}, rng.choice(["repeated", "dt"])])
        spec["rules"] = rules
        pts = [{s: float(rng.randint(0, 6)) for s in spec["x0"]} for _ in range(3)]
        # one parameter-dictionary OBJECT reused for several mass-action reactions with different reactants (deg = {"k": kdeg} handed to A -> 0 and
        # B -> 0): each reaction keeps its own rate law and its own exported kinetic law (seeded changes S8_C01 / S8_C14, as S6_C06: the model
        # wrote the implicit 'species' string into the caller's dictionary)
        if rng.random() < 0.3:
            ma_ = [rx for rx in spec["reactions"] if rx["type"] == "massaction" and "species" not in rx["params"]]
            if len(ma_) >= 2:
                for rx in ma_[1:]: rx["params"] = dict(ma_[0]["params"])
                spec["shared_param_dicts"] = True
        cases.append({"spec": spec, "points": pts, "V": rng.choice([0.5, 2.0])})
    return cases

def _observe(M, case):
    import numpy as np
    s2i = M.get_species2index(); names = sorted(s2i)
    pd = dict(M.get_parameter_dictionary()); pv = np.array(M.get_parameter_values(), dtype=float)
    S = np.asarray(M.py_get_update_array()); Sd = np.asarray(M.py_get_delay_update_array())
    out = {"species": {s: float(v) for s, v in M.get_species_dictionary().items()},
           "S": {s: [int(v) for v in S[s2i[s]]] for s in names}, "Sd": {s: [int(v) for v in Sd[s2i[s]]] for s in names},
           "delays": [], "rules": [[r[0] if r[0] != "additive" else "assignment", re.sub(r"\s+", "", r[1]["equation"]), str(r[2])] for r in M.get_rules()], "rates": []}
    defs = G.reaction_defs(M)
    for d, dfn in zip(M.get_delays(), defs):
        dp = dfn[7] or {}
        out["delays"].append([type(d).__name__, sorted((k, float(pd[v]) if isinstance(v, str) and v in pd else float(v)) for k, v in dp.items()),
                              sorted(x_ for x_ in (dfn[5] or []) if x_), sorted(x_ for x_ in (dfn[6] or []) if x_)])
    for pt in case["points"]:
        x = np.zeros(len(s2i))
        for s, v in pt.items():
            if s in s2i: x[s2i[s]] = v
        row = []
        for p in M.get_propensities():
            row.append([float(p.py_get_propensity(x.copy(), pv, 0.0)), float(p.py_get_volume_propensity(x.copy(), pv, case["V"], 0.0)),
                        float(p.py_get_stochastic_propensity(x.copy(), pv, 0.0)), float(p.py_get_stochastic_volume_propensity(x.copy(), pv, case["V"], 0.0))])
        out["rates"].append(row)
    # parameter values by the names the reactions use (dummy names may be renumbered: compare through usage)
    out["param_values_used"] = sorted(float(v) for v in pd.values())
    return out

def impl_case(case):
    import warnings, libsbml
    from bioscrape.types import Model
    warnings.simplefilter("ignore")
    M = G.build_model(case["spec"])
    out = {"orig": _observe(M, case), "back": {}, "same_twice": {}, "annotations": []}
    for stoch in (False, True):
        key = "stoch" if stoch else "det"
        fd, p1 = tempfile.mkstemp(suffix=".xml", dir="/var/tmp"); os.close(fd)
        fd, p2 = tempfile.mkstemp(suffix=".xml", dir="/var/tmp"); os.close(fd)
        try:
            M.write_sbml_model(p1, stochastic_model=stoch); M.write_sbml_model(p2, stochastic_model=stoch)
            strip = lambda t: re.sub(r"bioscrape_generated_model_\d+", "ID", t)
            out["same_twice"][key] = strip(open(p1).read()) == strip(open(p2).read())
            M2 = Model(sbml_filename=p1)
            out["back"][key] = _observe(M2, case)
            if not stoch:
                doc = libsbml.SBMLReader().readSBML(p1)
                for r in doc.getModel().getListOfReactions():
                    a = r.getAnnotationString()
                    for tag in ("PropensityType", "DelayType"):
                        i0, i1 = a.find("<%s>" % tag), a.find("</%s>" % tag)
                        if i0 >= 0 and i1 >= 0: out["annotations"].append(a[i0 + len(tag) + 2:i1])
        except BaseException as e:
            out["back"][key] = {"error": type(e).__name__ + ": " + str(e)[:200]}
        finally:
            for p in (p1, p2):
                if os.path.exists(p): os.remove(p)
    return out

def _enc(word): return [str(ord(c) + 2) if c not in " =" else ("0" if c == " " else "1") for c in word]
def driver_line(case, r):
    if not r or "annotations" not in r: return None
    lines = []
    for a in r["annotations"]:
        toks = ["c12kv", str(len(a))] + _enc(a)
        lines.append(" ".join(toks))
    return lines
def compare(case, r, out):
    if not r or "annotations" not in r: return None
    for a, line in zip(r["annotations"], out):
        # the model parses the written annotation and prints it again: must reproduce the written string
        if line.strip() != " ".join(_enc(a)): return "annotation protocol: written %r, model's print(parse(.)) gives %r" % (a, line)
        # and agree with a direct split in Python
    return None

def _close(a, b): return a == b or (math.isnan(a) and math.isnan(b)) or abs(a - b) <= 1e-9 * max(1.0, abs(a), abs(b))
def oracle(case, r):
    if not r or "orig" not in r: return "implementation failed: %s" % json.dumps(r)[:300]
    o = r["orig"]; msgs = []
    hill = [i for i, rx in enumerate(case["spec"]["reactions"]) if rx["type"] in G.HILL]
    for key in ("det", "stoch"):
        b = r["back"].get(key)
        if not b or "error" in b: msgs.append("round trip (%s export): failed: %s" % (key, (b or {}).get("error"))); continue
        if not r["same_twice"].get(key): msgs.append("determinism: writing twice (%s export) gives different documents" % key)
        if set(b["species"]) != set(o["species"]) or any(not _close(b["species"][s], o["species"][s]) for s in o["species"]): msgs.append("species: %r -> %r" % (o["species"], b["species"]))
        if not all(_close(x, y) for x, y in zip(o["param_values_used"], b["param_values_used"])) or len(o["param_values_used"]) != len(b["param_values_used"]):
            msgs.append("parameters: values %r -> %r" % (o["param_values_used"], b["param_values_used"]))
        if b["S"] != o["S"]: msgs.append("stoichiometry: immediate %r -> %r" % (o["S"], b["S"]))
        if b["Sd"] != o["Sd"]: msgs.append("stoichiometry: delayed %r -> %r" % (o["Sd"], b["Sd"]))
        if [d[0] for d in b["delays"]] != [d[0] for d in o["delays"]] or any(not all(k1 == k2 and _close(v1, v2) for (k1, v1), (k2, v2) in zip(d1[1], d2[1])) or d1[2:] != d2[2:] for d1, d2 in zip(o["delays"], b["delays"])):
            msgs.append("delays: %r -> %r" % (o["delays"], b["delays"]))
        if b["rules"] != o["rules"] and [[x[0], x[1], str(float(x[2])) if x[2].replace('.', '', 1).isdigit() else x[2]] for x in b["rules"]] != [[x[0], x[1], str(float(x[2])) if x[2].replace('.', '', 1).isdigit() else x[2]] for x in o["rules"]]:
            msgs.append("rules: %r -> %r" % (o["rules"], b["rules"]))
        for pi, (ro, rb) in enumerate(zip(o["rates"], b["rates"])):
            for i, (a, c) in enumerate(zip(ro, rb)):
                if not all(_close(u, v) for u, v in zip(a, c)):
                    msgs.append("rates|%s: reaction %d %s re-imported from the %s export has rates %r, original %r at %r" % (case["spec"]["reactions"][i]["type"], i, case["spec"]["reactions"][i]["type"], key, c, a, case["points"][pi])); break
    seen = set(); out = []
    for m in msgs:
        k = m.split(":")[0]
        if k not in seen: seen.add(k); out.append(m)
    return out or None

def site(case, msg): return (msg or "any").split(":")[0]
def nontrivial(case): return bool(case["spec"].get("rules")) or any("delay" in rx for rx in case["spec"]["reactions"])
def key(case): return json.dumps(case["spec"], sort_keys=True)
def stats(cases):
    from collections import Counter
    return {"kinds": dict(Counter(rx["type"] for c in cases for rx in c["spec"]["reactions"])), "with_delay": sum(1 for c in cases for rx in c["spec"]["reactions"] if "delay" in rx),
            "rule_frequencies": dict(Counter(str(r[2]) for c in cases for r in c["spec"]["rules"])),
            "models_with_lower_case_species_names": sum(1 for c in cases if any(s_.islower() for s_ in c["spec"]["x0"]))}
def shrink(case, fails):
    from harness.shrink import shrink_list
    spec = case["spec"]
    rx = shrink_list(spec["reactions"], lambda cands: fails([dict(case, spec=dict(spec, reactions=c)) for c in cands]))
    return dict(case, spec=dict(spec, reactions=rx))
