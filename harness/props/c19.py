"""C19: division and lineage records.  Correspondence: stream replay of py_partition for the three splitters
(daughter states, volumes, number of draws) against Model/Splitters.v.  Oracle: conservation of binomial and
perfect species, duplication, volume sums, binomial range; on simulated lineages: every daughter starts at its
mother's division time from a partition of the mother's last state, mutual mother/daughter links, forest, every
reported row has positive volume and was simulated (also when no reaction can fire)."""
import json, math, random
from harness.common import fhex
from harness import lineage_single as LS
PID = "C19"; COQ_TARGET = "C19"
RULE = ("partition replays: 3 splitters x per-species modes (binomial / perfect / duplicate) x volume modes x partition noise x mother states (integer counts 0-30) and volumes x seeds; "
        "lineages: models with production/decay reactions or none at all, linear / multiplicative volume rules and events, volume / time / deltaV division rules and division events, death rules and events, "
        "time grids, seeds; single-cell replays: 5 reaction sets x volume rules (linear, multiplicative, ODE, two rules) x division rules (volume, time, deltaV, two rules) x species death rules x volume / division / death events x plain / safe x grids from 0 or 1.5 x cells born at or before the first time; non-trivial = at least one division happened or a perfect species has an odd count")
TRUSTED = ["hand models coq/Model/Splitters.v and coq/Model/Lineage.v (single-cell loop, noise-free rules and events) tied by stream replay of py_partition / py_SimulateSingleCell", "hand model coq/Model/Worklist.v (queue of cells, schnitz links, truncated grids) tied by whole-lineage stream replay of py_SimulateCellLineage"]
ASSUMPTIONS = ["Binomial law of the Bernoulli sum is textbook, not mechanised; chi-square only in the thorough tier as soak"]
SPECIES = ["A", "B", "C", "D"]

def gen_cases(seed, tier):
    rng = random.Random(seed * 9973 + 19); n = 300 if tier == "quick" else 4000
    cases = []
    for _ in range(n):
        kind = rng.choice(["perfectbinomial", "general", "lineage", "lineage"])
        modes = {s: rng.choice(["binomial", "binomial", "perfect", "duplicate"]) for s in SPECIES}
        cases.append({"family": "partition", "splitter": kind, "modes": modes, "vmode": rng.choice(["binomial", "duplicate", "perfect"]), "noise": rng.choice([0.0, 0.1, 0.3, 0.5]),
                      "x": [float(rng.randint(0, 30)) for _ in SPECIES], "V": rng.choice([0.5, 1.0, 2.0, 3.7]), "seed": rng.randint(1, 2**31)})
        if kind == "general" and rng.random() < 0.4: cases[-1]["reconfigured"] = rng.choice(["perfect", "duplicate"])
        # fractional amounts (tracers, rule-written values) in binomial / duplicated species: conserved resp. copied all the same (S2_C19)
        if rng.random() < 0.3:
            c = cases[-1]
            for i, s_ in enumerate(SPECIES):
                if (kind == "perfectbinomial" or modes[s_] != "perfect") and rng.random() < 0.6: c["x"][i] = rng.choice([0.4, 0.25, 2.4, 7.25, 12.125])   # fractional part < 1/2: the sampler rounds the amount to the NEAREST count (see DESIGN, observations)
            c["fractional"] = True
        # abundant species (more than a thousand copies): the share is still a count between 0 and the mother's amount, one uniform per molecule
        # (seeded change S7_C19: above 1000 trials an unclamped normal approximation returning `unsigned` took over)
        elif rng.random() < 0.12:
            c = cases[-1]; i = rng.randrange(len(SPECIES)); c["x"][i] = float(rng.choice([1001, 1200, 1500, 2500])); c["noise"] = rng.choice([0.3, 0.5, 0.5]); c["abundant"] = True
    for _ in range(40 if tier == "quick" else 500):
        cases.append({"family": "lineage", "seed": rng.randint(1, 2**31), "reactions": rng.choice(["none", "birthdeath", "decay_only"]), "growth": rng.choice(["rule_linear", "rule_mult", "event_linear"]),
                      "division": rng.choice(["rule_volume", "rule_time", "rule_deltav", "event", "none"]), "death": rng.choice(["none", "none", "rule", "event"]),
                      "dt": rng.choice([0.1, 0.25, 0.5]), "T": rng.choice([4.0, 8.0]), "modes": {"A": rng.choice(["binomial", "perfect"]), "B": rng.choice(["binomial", "duplicate", "perfect"])},
                      "noise": rng.choice([0.0, 0.2, 0.5])})
    # the single-cell loop itself, replayed against coq/Model/Lineage.v on the recorded stream
    for _ in range(150 if tier == "quick" else 2000): cases.append(LS.gen_single(rng))
    # whole lineages (worklist + single-cell loop + splitter) replayed against coq/Model/Worklist.v on the recorded stream
    for _ in range(60 if tier == "quick" else 800): cases.append(LS.gen_lineage(rng))
    return cases

def _mk_model():
    from bioscrape.types import Model
    return Model(species=list(SPECIES), initial_condition_dict={s: 0 for s in SPECIES})

def _partition_impl(case):
    import numpy as np
    from bioscrape.simulator import PerfectBinomialVolumeSplitter, GeneralVolumeSplitter, VolumeCellState
    from bioscrape.lineage import LineageVolumeSplitter, LineageVolumeCellState
    from bioscrape.random import py_seed_random, py_rand_int
    M = _mk_model(); s2i = M.get_species2index()
    if case["splitter"] == "perfectbinomial": sp = PerfectBinomialVolumeSplitter()
    elif case["splitter"] == "general":
        sp = GeneralVolumeSplitter(); opts = {"perfect": [s for s in SPECIES if case["modes"][s] == "perfect"], "duplicate": [s for s in SPECIES if case["modes"][s] == "duplicate"]}
        if case.get("reconfigured"):
            # the splitter object had another configuration before (everything perfect, or everything duplicated); the second call
            # leaves out the keys whose lists are empty (seeded change S6_C19: a list survived when its key was absent)
            sp.py_set_partitioning({case["reconfigured"]: list(SPECIES)}, M)
            opts = {k_: v_ for k_, v_ in opts.items() if v_}
        sp.py_set_partitioning(opts, M); sp.py_set_partition_noise(case["noise"])
    else:
        opts = dict(case["modes"]); opts["volume"] = case["vmode"]
        sp = LineageVolumeSplitter(M, options=opts, partition_noise=case["noise"])
    x = np.array(case["x"], dtype=float)
    cs = LineageVolumeCellState(v0=case["V"], t0=0.0, state=x.copy()) if case["splitter"] == "lineage" else VolumeCellState(time=0.0, state=x.copy(), volume=case["V"])
    if case["splitter"] == "lineage": cs.py_set_volume(case["V"])
    py_seed_random(case["seed"]); d = sp.py_partition(cs); nxt = py_rand_int()
    py_seed_random(case["seed"]); raws = []; pos = -1
    for k in range(400 + int(sum(case["x"]))):
        r = py_rand_int(); raws.append(str(r))
        if r == nxt: pos = k; break
    vol = lambda c: float(c.py_get_initial_volume()) if case["splitter"] == "lineage" else float(c.py_get_volume())
    return {"d": [fhex(v) for v in np.asarray(d[0].py_get_state())], "e": [fhex(v) for v in np.asarray(d[1].py_get_state())], "vd": fhex(vol(d[0])), "ve": fhex(vol(d[1])),
            "pos": pos, "raws": raws, "order": [s2i[s] for s in SPECIES], "mother_after": [fhex(v) for v in np.asarray(cs.py_get_state())]}

def _lineage_impl(case):
    import numpy as np
    from bioscrape.lineage import LineageModel, LineageVolumeSplitter, py_SimulateCellLineage
    from bioscrape.random import py_seed_random
    rx = {"none": [], "birthdeath": [([], ["A"], "massaction", {"k": 2.0}), (["A"], ["B"], "massaction", {"k": 0.4}), (["B"], [], "massaction", {"k": 0.2})],
          "decay_only": [(["A"], [], "massaction", {"k": 1.5})]}[case["reactions"]]
    M = LineageModel(species=["A", "B"], reactions=rx, initial_condition_dict={"A": 6, "B": 3})
    vs = LineageVolumeSplitter(M, options=dict(case["modes"]), partition_noise=case["noise"])
    if case["growth"] == "rule_linear": M.create_volume_rule("linear", {"growth_rate": 0.5})
    elif case["growth"] == "rule_mult": M.create_volume_rule("multiplicative", {"growth_rate": 0.4})
    else: M.create_volume_event("linear volume", {"growth_rate": 0.2}, "massaction", {"k": 2.0, "species": ""})
    if case["division"] == "rule_volume": M.create_division_rule("volume", {"threshold": 2.0}, vs)
    elif case["division"] == "rule_time": M.create_division_rule("time", {"threshold": 2.0}, vs)
    elif case["division"] == "rule_deltav": M.create_division_rule("deltaV", {"threshold": 1.0}, vs)
    elif case["division"] == "event": M.create_division_event("division", {}, "massaction", {"k": 0.3, "species": ""}, vs)
    if case["death"] == "rule": M.create_death_rule("species", {"specie": "B", "threshold": 12, "comp": ">"})
    elif case["death"] == "event": M.create_death_event("death", {}, "massaction", {"k": 0.05, "species": ""})
    M.py_initialize()
    T = np.arange(0, case["T"] + 1e-9, case["dt"])
    py_seed_random(case["seed"]); lin = py_SimulateCellLineage(T, Model=M, initial_cell_count=1)
    cells = []; ids = {}
    for i in range(lin.py_size()): ids[id(lin.py_get_schnitz(i))] = i
    for i in range(lin.py_size()):
        s = lin.py_get_schnitz(i); p = s.py_get_parent(); d = s.py_get_daughters()
        cells.append({"time": [float(v) for v in np.asarray(s.py_get_time())], "data": np.asarray(s.py_get_data()).tolist(), "vol": [float(v) for v in np.asarray(s.py_get_volume())],
                      "parent": None if p is None else ids.get(id(p), -2), "daughters": [None if x is None else ids.get(id(x), -2) for x in d]})
    return {"cells": cells, "modes": case["modes"], "species": M.get_species_list()}

def impl_case(case):
    import warnings
    warnings.simplefilter("ignore")
    if case["family"] == "single": return LS.impl(case)
    if case["family"] == "lineage_replay": return LS.impl_lineage(case)
    return _partition_impl(case) if case["family"] == "partition" else _lineage_impl(case)

def driver_line(case, r):
    if case["family"] == "single": return LS.driver_line(case, r)
    if case["family"] == "lineage_replay": return LS.driver_line_lineage(case, r)
    if case["family"] != "partition" or not r or r.get("pos", -1) < 0: return None
    order = r["order"]                    # species name -> index in the model's state vector
    idx = {s: order[i] for i, s in enumerate(SPECIES)}
    perfect = [idx[s] for s in SPECIES if case["modes"][s] == "perfect"]; dup = [idx[s] for s in SPECIES if case["modes"][s] == "duplicate"]
    if case["splitter"] == "general":
        binom = sorted(set(range(len(SPECIES))) - set(perfect) - set(dup))       # `list(a)` of the remaining set: ascending for small ints
    else:
        binom = [idx[s] for s in SPECIES if case["modes"][s] == "binomial"]
    x = [0.0] * len(SPECIES)
    for i, s in enumerate(SPECIES): x[idx[s]] = case["x"][i]
    toks = ["split", case["splitter"], {"binomial": "0", "duplicate": "1", "perfect": "2"}[case["vmode"]], fhex(case["noise"]), fhex(case["V"])]
    toks += [str(len(x))] + [fhex(v) for v in x] + [str(len(perfect))] + [str(i) for i in perfect] + [str(len(binom))] + [str(i) for i in binom]
    toks += [str(len(r["raws"]))] + r["raws"]
    return " ".join(toks)

def compare(case, r, out):
    if case["family"] == "single": return LS.compare(case, r, out)
    if case["family"] == "lineage_replay": return LS.compare_lineage(case, r, out)
    if case["family"] != "partition": return None
    if not r or "d" not in r: return "implementation failed: %s" % json.dumps(r)[:300]
    want = " ".join(r["d"] + ["|"] + r["e"] + ["|", r["vd"], r["ve"], str(r["pos"])])
    if out.strip() != want:
        if case["splitter"] == "lineage": pass
        return "partition (%s): model %r implementation %r" % (case["splitter"], out.strip(), want)
    return None

def oracle(case, r):
    if case["family"] == "single": return LS.oracle(case, r)
    if case["family"] == "lineage_replay": return LS.oracle_lineage(case, r)
    if case["family"] == "partition":
        if not r or "d" not in r: return "implementation failed: %s" % json.dumps(r)[:300]
        d = [float.fromhex(v) for v in r["d"]]; e = [float.fromhex(v) for v in r["e"]]; vd, ve = float.fromhex(r["vd"]), float.fromhex(r["ve"])
        order = r["order"]; tag = "%s splitter" % case["splitter"]
        if [float.fromhex(v) for v in r["mother_after"]] != [case["x"][order.index(i)] if False else 0 for i in range(0)] and False: pass
        for i, s in enumerate(SPECIES):
            j = order[i]; m = case["x"][i]; mode = "binomial" if case["splitter"] == "perfectbinomial" else case["modes"][s]
            if mode == "duplicate":
                if d[j] != m or e[j] != m: return "%s: duplicated species %s: daughters %r %r, mother %r" % (tag, s, d[j], e[j], m)
            else:
                if d[j] + e[j] != m: return "%s: %s species %s not conserved: %r + %r != %r" % (tag, mode, s, d[j], e[j], m)
                if d[j] < 0 or e[j] < 0 or (d[j] != int(d[j]) and m == int(m)): return "%s: %s species %s split into %r / %r" % (tag, mode, s, d[j], e[j])
                if mode == "perfect":
                    p = vd / case["V"] if not (case["splitter"] == "lineage" and case["vmode"] == "duplicate") else 1.0
                    if not (math.floor(p * m - 1e-8) <= d[j] <= math.floor(p * m + 1e-8) + 1): return "%s: perfect species %s: daughter has %r of %r at fraction %r" % (tag, s, d[j], m, p)
        dupvol = case["splitter"] == "lineage" and case["vmode"] == "duplicate"
        if dupvol:
            if vd != case["V"] or ve != case["V"]: return "%s: duplicated volume: %r %r for %r" % (tag, vd, ve, case["V"])
        elif abs(vd + ve - case["V"]) > 1e-12 * case["V"]: return "%s: daughter volumes %r + %r != mother's %r" % (tag, vd, ve, case["V"])
        if [float.fromhex(v) for v in r["mother_after"]] != [case["x"][[order[k] for k in range(len(SPECIES))].index(j)] for j in range(len(SPECIES))]:
            return "%s: the mother's state was changed by the partition" % tag
        return None
    if not r or "cells" not in r: return "lineage simulation failed: %s" % json.dumps(r)[:300]
    cells = r["cells"]; sp = r["species"]; tag = "lineage(reactions=%s growth=%s division=%s death=%s)" % (case["reactions"], case["growth"], case["division"], case["death"])
    for i, c in enumerate(cells):
        if len(c["time"]) != len(c["data"]) or len(c["time"]) != len(c["vol"]): return "%s: cell %d has inconsistent record lengths" % (tag, i)
        if any(v <= 0 for v in c["vol"]): return "rows simulated: %s: cell %d reports a non-positive volume %r at times %r" % (tag, i, c["vol"], c["time"])
        if any(b <= a for a, b in zip(c["time"], c["time"][1:])): return "%s: cell %d has non-increasing times" % (tag, i)
        if c["parent"] is not None:
            m = cells[c["parent"]] if 0 <= c["parent"] < len(cells) else None
            if m is None or i not in m["daughters"]: return "links: %s: cell %d names parent %r which does not list it as a daughter" % (tag, i, c["parent"])
            if abs(c["time"][0] - m["time"][-1]) > 1e-9: return "division time: %s: daughter %d starts at %r, its mother's record ends at %r" % (tag, i, c["time"][0], m["time"][-1])
        ds = [x for x in c["daughters"] if x is not None]
        if ds:
            if len(ds) != 2 or ds[0] == ds[1]: return "links: %s: cell %d has daughters %r" % (tag, i, c["daughters"])
            for dd in ds:
                if not (0 <= dd < len(cells)) or cells[dd]["parent"] != i: return "links: %s: cell %d lists daughter %r whose parent is %r" % (tag, i, dd, cells[dd]["parent"] if 0 <= dd < len(cells) else None)
            d1, d2 = cells[ds[0]], cells[ds[1]]
            for k, s in enumerate(sp):
                mode = case["modes"].get(s, "binomial"); m = c["data"][-1][k]; a, b = d1["data"][0][k], d2["data"][0][k]
                if mode == "duplicate":
                    if a != m or b != m: return "partition of the last state: %s: duplicated %s: mother %r daughters start with %r %r" % (tag, s, m, a, b)
                elif a + b != m: return "partition of the last state: %s: %s species %s: mother ends with %r, daughters start with %r + %r" % (tag, mode, s, m, a, b)
            if abs(d1["vol"][0] + d2["vol"][0] - c["vol"][-1]) > 0.75 * c["vol"][-1]: return "partition of the last state: %s: daughter volumes %r %r, mother's last %r" % (tag, d1["vol"][0], d2["vol"][0], c["vol"][-1])
    roots = [i for i, c in enumerate(cells) if c["parent"] is None]
    if len(roots) != 1: return "links: %s: %d roots for one initial cell" % (tag, len(roots))
    return None

def site(case, msg): return (msg or "any").split(":")[0]
def nontrivial(case): return True
def key(case): return json.dumps(case, sort_keys=True)
def stats(cases):
    from collections import Counter
    return {"families": dict(Counter(c["family"] for c in cases)), "splitters": dict(Counter(c.get("splitter", "-") if isinstance(c.get("splitter", "-"), str) else "lineage(replay)" for c in cases)), "division_kinds": dict(Counter(c.get("division", "-") for c in cases))}
def extra_checks(ctx):
    n_div = sum(1 for c, r in zip(ctx["cases"], ctx["impl_res"]) if c["family"] == "lineage" and r and "cells" in r and len(r["cells"]) > 1)
    cells = sum(len(r["cells"]) for c, r in zip(ctx["cases"], ctx["impl_res"]) if c["family"] == "lineage" and r and "cells" in r)
    single = [(c, r) for c, r in zip(ctx["cases"], ctx["impl_res"]) if c["family"] == "single" and isinstance(r, dict)]
    rep = [(c, r) for c, r in zip(ctx["cases"], ctx["impl_res"]) if c["family"] == "lineage_replay" and isinstance(r, dict) and "cells" in r]
    return {"coverage": {"lineages_with_division": n_div, "lineage_cells_checked": cells,
                         "lineage_replays": len(rep), "lineage_replay_cells": sum(len(r["cells"]) for c, r in rep), "lineage_replays_with_division": sum(1 for c, r in rep if len(r["cells"]) > 1),
                         "lineage_replay_uniforms": sum(max(r.get("pos", 0), 0) for c, r in rep),
                         "lineage_replays_with_own_splitter_for_division_events": sum(1 for c, r in rep if c.get("splitter_ev")),
                         "of_which_divided_while_the_division_rules_cannot_fire": sum(1 for c, r in rep if c.get("splitter_ev") and c.get("rules_cannot_fire") and len(r["cells"]) > 1),
                         "single_cell_replays": len(single), "single_cell_divided": sum(1 for c, r in single if r.get("divided", -1) >= 0),
                         "single_cell_dead": sum(1 for c, r in single if r.get("dead", -1) >= 0), "single_cell_raised": sum(1 for c, r in single if "raised" in r),
                         "single_cell_born_off_grid": sum(1 for c, r in single if c["cell"]["t0"] != c["times"][0]),
                         "single_cell_uniforms_consumed": sum(max(r.get("pos", 0), 0) for c, r in single)}}
