"""C18: Jacobian / parameter sensitivity.  Correspondence: Model/Sensitivity.v over Builder.derivative
(extracted, doubles) vs analysis.py.  Oracle: sympy-differentiated rate equations with a bound
from the scheme's leading error terms; parameters unchanged."""
import json, math, random
from harness.common import fhex
from harness import modelgen as G
PID = "C18"; COQ_TARGET = "C18"
SCHEMES = ["fourth_order_central_difference", "central_difference", "backward_difference", "forward_difference"]
RULE = ("random smooth networks (mass action order 0-4 with repeats, four Hill kinds with integer and fractional exponents, general rational / exponential rates), "
        "1-3 species, 1-3 reactions, states in [0.5,6] (mass-action networks also with one component below the stencil's reach), parameters >= 0.1, every parameter name, four schemes; plus small production/degradation networks evaluated AT exact fixed points / nullcline points (a rate equation exactly 0.0); non-trivial = a non-linear rate law is present")
TRUSTED = ["translator tools/tr_stencils.py (Python ast, fail-closed): the stencil expressions, the perturbed sample points and the index roles of compute_J / compute_Zj are regenerated from bioscrape/analysis.py on every run (coq/Gen/StencilsGen.v) and proved equal to the hand model's (Proofs/TieStencils.v)", "hand model coq/Model/Sensitivity.v (loop structure, set_params sequence) tied by correspondence", "np.round(.,10) applied by the harness to the model's output"]
ASSUMPTIONS = ["analytic derivative by sympy on the rate laws of the generated spec (harness oracle)", "error bound = 3 x (leading + next error term of the scheme at the point) + 1e-9"]
POOL = ["kg*%s", "kg*%s*%s", "kg*%s/(1+%s)", "kg*%s^2/(Kg+%s^2)", "kg*exp(-%s/Kg)", "kg/(Kg+%s)"]

def translate():
    import importlib.util, os
    from harness.common import Broken
    p = os.path.join(os.path.dirname(os.path.dirname(os.path.dirname(os.path.abspath(__file__)))), "tools", "tr_stencils.py")
    spec = importlib.util.spec_from_file_location("tr_stencils", p); m = importlib.util.module_from_spec(spec); spec.loader.exec_module(m)
    try: return m.run()
    except m.Refuse as e: raise Broken("tr_stencils refused: %s" % e, str(e))

def gen_cases(seed, tier):
    rng = random.Random(seed * 2718 + 18); n = 40 if tier == "quick" else 400
    cases = []
    for _ in range(n):
        spec = G.gen_network(rng, kinds=("massaction", "massaction") + tuple(G.HILL) + ("general",), nrx=(1, 3), nsp=(1, 3), general_pool=POOL)
        for rx in spec["reactions"]:   # parameters >= 0.1 by construction of the generator's value pool
            pass
        x = {s: round(rng.uniform(0.5, 6.0), 3) for s in spec["species"]}
        # a component smaller than the stencil's reach (2h = 0.02): the rate laws are evaluated below zero, where mass action is
        # still the same polynomial -- the derivative must not notice  (seeded change S3_C18: states clamped at 0 in the right-hand side)
        if all(rx["type"] == "massaction" for rx in spec["reactions"]) and rng.random() < 0.6:
            x[rng.choice(list(x))] = rng.choice([0.004, 0.011, 0.0005])
        # rate constants in other units (nM, counts per cell: a production rate of 1500, 3000): the step in the parameter is absolute (h = 0.01),
        # tiny next to such a value, and still has to be taken  (seeded change S8_C18: a perturbed parameter set "close" to the current one,
        # by numpy's relative tolerance, was not written to the model)
        if rng.random() < 0.35:
            named = sorted({rx["params"]["k"] for rx in spec["reactions"] if rx["type"] == "massaction" and isinstance(rx["params"].get("k"), str)})
            if named: spec["parameters"][rng.choice(named)] = rng.choice([1200.0, 1500.0, 3000.0])
        cases.append({"spec": spec, "x": x, "t": 0.0, "strided_state": rng.random() < 0.3})
    # states at which a rate equation is EXACTLY zero in floating point (fixed points / nullcline points with round numbers): the
    # derivatives there are as non-zero as anywhere else (seeded change S4_C18: a species whose rate equation evaluates to 0 at the
    # state was taken to have no dynamics and its row skipped)
    for _ in range(max(4, n // 6)):
        kp, kd, xa = rng.choice([(6.0, 2.0, 3.0), (4.0, 0.5, 8.0), (1.5, 0.25, 6.0), (8.0, 2.0, 4.0), (3.0, 0.75, 4.0)])
        spec = {"species": ["A"], "x0": {"A": 0.0}, "parameters": {"kp": kp, "kd": kd},
                "reactions": [{"reactants": [], "products": ["A"], "type": "massaction", "params": {"k": "kp"}},
                              {"reactants": ["A"], "products": [], "type": "massaction", "params": {"k": "kd"}}]}
        x = {"A": xa}
        if rng.random() < 0.7:
            kc, ke = rng.choice([(3.0, 1.5), (2.0, 0.5), (0.5, 0.25)])
            spec["species"].append("B"); spec["x0"]["B"] = 0.0; spec["parameters"].update({"kc": kc, "ke": ke})
            spec["reactions"] += [{"reactants": ["A"], "products": ["A", "B"], "type": "massaction", "params": {"k": "kc"}},
                                  {"reactants": ["B"], "products": [], "type": "massaction", "params": {"k": "ke"}}]
            x["B"] = kc * xa / ke if rng.random() < 0.7 else kc * xa / ke + 1.0        # on / off the second nullcline
            if rng.random() < 0.5:
                spec["parameters"].update({"kh": 8.0, "Kh": 4.0, "nh": 2.0})
                spec["reactions"].append({"reactants": [], "products": ["B"], "type": "hillpositive", "params": {"k": "kh", "K": "Kh", "n": "nh", "s1": "A"}})
        if rng.random() < 0.5: rng.shuffle(spec["species"])
        cases.append({"spec": spec, "x": x, "t": 0.0, "fixed_point": True})
    return cases

def nontrivial(case):
    return any(rx["type"] != "massaction" or len(rx["reactants"]) >= 2 for rx in case["spec"]["reactions"])

def impl_case(case):
    import numpy as np, warnings
    from bioscrape.analysis import py_get_jacobian, py_get_sensitivity_to_parameter
    warnings.simplefilter("ignore")
    M = G.build_model(case["spec"]); s2i = M.get_species2index(); p2i = M.get_params2index()
    x = np.zeros(len(s2i))
    for s, v in case["x"].items(): x[s2i[s]] = v
    out = {"J": {}, "Z": {}, "s2i": s2i, "p2i": p2i, "simif": G.simif_tokens(M), "x": [fhex(v) for v in x], "restored": True}
    # the state as callers often hold it: a non-contiguous float64 view (a column of a trajectory matrix) instead of a list
    # (seeded change S5_C18: the copies that made such a view contiguous were "optimised" away)
    if case.get("strided_state"):
        xb = np.full(2 * len(x), 97.0); xb[::2] = x; xarg = lambda: xb[::2]
    else: xarg = lambda: list(x)
    before = dict(M.get_parameter_dictionary())
    for sch in SCHEMES:
        out["J"][sch] = [float(v) for v in np.asarray(py_get_jacobian(M, xarg(), method=sch)).flatten()]
        if dict(M.get_parameter_dictionary()) != before: out["restored"] = False
        out["Z"][sch] = {}
        for pn in p2i:
            out["Z"][sch][pn] = [float(v) for v in np.asarray(py_get_sensitivity_to_parameter(M, xarg(), pn, method=sch)).flatten()]
            if dict(M.get_parameter_dictionary()) != before: out["restored"] = False
    # second phase on the SAME model object: parameters changed in place, then queried again (nothing computed for the old
    # values may be reused, and the new values must survive the query) -- seeded change S2_C18
    newp = {pn: round(float(v) * 1.7 + 0.1, 4) for pn, v in before.items() if pn in case["spec"]["parameters"]}
    if newp:
        M.set_params(dict(newp)); sch = SCHEMES[0]
        out["newp"] = newp; out["simif2"] = G.simif_tokens(M)
        out["J2"] = [float(v) for v in np.asarray(py_get_jacobian(M, xarg(), method=sch)).flatten()]
        out["Z2"] = {pn: [float(v) for v in np.asarray(py_get_sensitivity_to_parameter(M, xarg(), pn, method=sch)).flatten()] for pn in p2i}
        after = dict(M.get_parameter_dictionary()); out["kept2"] = all(after[k] == v for k, v in newp.items())
    return out

def driver_line(case, r):
    if not r or "simif" not in r: return None
    lines = []
    xs = [str(len(r["x"]))] + r["x"]
    for sch in SCHEMES:
        lines.append(" ".join(["sens", sch, fhex(0.01), fhex(case["t"])] + xs + ["J", "0"] + r["simif"]))
        for pn, k in r["p2i"].items():
            lines.append(" ".join(["sens", sch, fhex(0.01), fhex(case["t"])] + xs + ["Z", str(k)] + r["simif"]))
    if "simif2" in r:
        lines.append(" ".join(["sens", SCHEMES[0], fhex(0.01), fhex(case["t"])] + xs + ["J", "0"] + r["simif2"]))
        for pn, k in r["p2i"].items():
            lines.append(" ".join(["sens", SCHEMES[0], fhex(0.01), fhex(case["t"])] + xs + ["Z", str(k)] + r["simif2"]))
    return lines

def _cmp(model_hex, impl_vals, what):
    import numpy as np
    mv = np.round(np.array([float.fromhex(v) for v in model_hex]), 10)
    if len(mv) != len(impl_vals): return what + ": lengths differ"
    for a, b in zip(mv, impl_vals):
        if not (abs(a - b) <= 1e-9 + 1e-9 * max(abs(a), abs(b))): return "%s: model %r implementation %r" % (what, float(a), b)
    return None

def compare(case, r, out):
    if not r or "J" not in r: return "implementation failed: %s" % json.dumps(r)[:300]
    k = 0
    for sch in SCHEMES:
        e = _cmp(out[k].split(), r["J"][sch], "Jacobian " + sch); k += 1
        if e: return e
        for pn in r["p2i"]:
            z, p = out[k].split(" | "); k += 1
            e = _cmp(z.split(), r["Z"][sch][pn], "sensitivity to %s %s" % (pn, sch))
            if e: return e
            if p.split() != r["simif"][1:1 + int(r["simif"][0])]: return "model's parameter vector not restored"
    if "simif2" in r:
        e = _cmp(out[k].split(), r["J2"], "Jacobian after an in-place parameter change"); k += 1
        if e: return e
        for pn in r["p2i"]:
            z, p = out[k].split(" | "); k += 1
            e = _cmp(z.split(), r["Z2"][pn], "sensitivity to %s after an in-place parameter change" % pn)
            if e: return e
    return None

def _rates(spec):
    import sympy as sp
    syms = {}
    def S(n):
        if n not in syms: syms[n] = sp.Symbol("v_" + n, positive=True)
        return syms[n]
    rates = []
    for i, rx in enumerate(spec["reactions"]):
        P = lambda k: S(rx["params"][k]) if isinstance(rx["params"][k], str) else sp.Float(rx["params"][k])
        if rx["type"] == "massaction":
            e = P("k")
            for s in rx["reactants"]: e = e * S(s)
        elif rx["type"] == "general":
            loc = {n: S(n) for n in list(spec["species"]) + list(spec["parameters"])}
            e = sp.sympify(rx["params"]["rate"].replace("^", "**"), locals=loc)
        else:
            h = (S(rx["params"]["s1"]) / P("K")) ** P("n")
            e = P("k") * h / (1 + h) if "positive" in rx["type"] else P("k") / (1 + h)
            if rx["type"].startswith("proportional"): e = e * S(rx["params"]["d"])
        rates.append(e)
    return rates, syms

COEF = {"fourth_order_central_difference": (4, 1 / 30.0), "central_difference": (2, 1 / 6.0), "backward_difference": (1, 0.5), "forward_difference": (1, 0.5)}

def oracle(case, r):
    import sympy as sp
    if not r or "J" not in r: return "implementation failed: %s" % json.dumps(r)[:300]
    if not r["restored"]: return "parameters: the model's parameter dictionary changed after computing a Jacobian / sensitivity"
    spec = case["spec"]; rates, syms = _rates(spec)
    names = sorted(r["s2i"], key=lambda s: r["s2i"][s]); n = len(names)
    f = []
    for s in names:
        e = 0
        for rx, rate in zip(spec["reactions"], rates):
            e = e + (rx["products"].count(s) - rx["reactants"].count(s)) * rate
        f.append(e)
    subs = {syms[k]: v for k, v in list(case["x"].items()) + list(spec["parameters"].items()) if k in syms}
    h = 0.01
    def check(expr, var, got, what, sch):
        q, c = COEF[sch]
        d1 = float(sp.diff(expr, var).subs(subs)) if var in expr.free_symbols else 0.0
        dq = abs(float(sp.diff(expr, var, q + 1).subs(subs))) if var in expr.free_symbols else 0.0
        dq2 = abs(float(sp.diff(expr, var, q + 2).subs(subs))) if var in expr.free_symbols else 0.0
        # + floating-point cancellation in the stencil itself: the samples are sums of terms of size M, their differences are divided by h
        # (matters once a rate constant is in the thousands)
        try: M = sum(abs(float(t_.subs(subs))) for t_ in sp.Add.make_args(expr))
        except Exception: M = 0.0
        bound = 3 * (c * h ** q * dq + h ** (q + 1) * dq2) + 1e-9 + 1e-9 * abs(d1) + 64 * 2.220446049250313e-16 * M / h
        if not abs(got - d1) <= bound:
            return "%s %s: reported %r, analytic %r, bound %.3g" % (what, sch, got, d1, bound)
    if "newp" in r:
        if not r["kept2"]: return "parameters: values set in place before a query were changed by the query"
        subs2 = dict(subs); subs2.update({syms[k]: v for k, v in r["newp"].items() if k in syms})
        sch = SCHEMES[0]; subs_old = subs; subs = subs2
        for i in range(n):
            for j in range(n):
                v = syms.get(names[j])
                if v is not None:
                    e = check(sp.sympify(f[i]), v, r["J2"][i * n + j], "Jacobian[%s][%s] after an in-place parameter change" % (names[i], names[j]), sch)
                    if e: return e
        for pn, Z in r["Z2"].items():
            if pn in syms:
                for i in range(n):
                    e = check(sp.sympify(f[i]), syms[pn], Z[i], "dF[%s]/d%s after an in-place parameter change" % (names[i], pn), sch)
                    if e: return e
        subs = subs_old
    for sch in SCHEMES:
        J = r["J"][sch]
        for i in range(n):
            for j in range(n):
                v = syms.get(names[j])
                e = check(sp.sympify(f[i]), v, J[i * n + j], "Jacobian[%s][%s]" % (names[i], names[j]), sch) if v is not None else (None if abs(J[i * n + j]) < 1e-9 else "Jacobian entry for an unused species is non-zero")
                if e: return e
        for pn, Z in r["Z"][sch].items():
            if pn not in syms:
                # numeric (dummy) parameter: compare against the derivative w.r.t. a symbol only when named; skip dummies
                continue
            for i in range(n):
                e = check(sp.sympify(f[i]), syms[pn], Z[i], "dF[%s]/d%s" % (names[i], pn), sch)
                if e: return e
    return None

def site(case, msg): return (msg or "any").split(":")[0].split("[")[0]
def stats(cases):
    from collections import Counter
    return {"kinds": dict(Counter(rx["type"] for c in cases for rx in c["spec"]["reactions"]))}
def key(case): return json.dumps([case["spec"], case["x"]], sort_keys=True)
