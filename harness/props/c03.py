"""C03: stoichiometry, derivative, unset parameters.  Correspondence: Model/Builder.v (extracted)
vs Model / ModelCSimInterface of the scratch build.  Oracle: count-based matrices and sum S*rate."""
import json, math, random
from harness.common import fhex
from harness import modelgen as G
from harness.props import c01

PID = "C03"; COQ_TARGET = "C03"
RULE = ("random reaction lists (0-4 reactants/products with repeats, catalysts, empty sides, optional delayed reactants/products, "
        "all propensity kinds incl. general) x random partial species declarations and declaration orders x 3 states; plus variants with "
        "one named parameter left without a value; non-trivial = some species cancels or repeats, or a delayed part is present")
TRUSTED = ["hand model coq/Model/Builder.v tied by correspondence only", "propensity encodings for the derivative are read from the built model (index maps checked by C01)"]
ASSUMPTIONS = ["derivative theorem over R; doubles compared exactly with the model (same summation order), 1e-9 with the oracle"]

def gen_cases(seed, tier):
    rng = random.Random(seed * 104729 + 3)
    n = 300 if tier == "quick" else 4000
    cases = []
    for i in range(n):
        spec = G.gen_network(rng, kinds=("massaction", "massaction") + tuple(G.HILL) + ("general",), allow_delay=True, nrx=(1, 5), nsp=(1, 6))
        # delayed reactants / products may be declared with NO delay distribution (delay type None): they still belong to the
        # delayed matrix; sometimes for every delayed reaction of the model (seeded change S2_C03: matrix filled only if has_delay)
        strip_all = rng.random() < 0.25
        for rx in spec["reactions"]:
            if "delay" in rx and (strip_all or rng.random() < 0.2): rx["delay"]["type"] = None; rx["delay"]["params"] = {}
        order = spec["species"]; k = rng.randint(0, len(order))
        # species referenced only by a rate law (s1, d, names in a general rate) must be declared
        needed = []
        for rx in spec["reactions"]:
            for key_ in ("s1", "d"):
                if key_ in rx["params"] and rx["params"][key_] not in needed: needed.append(rx["params"][key_])
            if rx["type"] == "general":
                for s_ in order:
                    if s_ in rx["params"]["rate"] and s_ not in needed: needed.append(s_)
        rng.shuffle(needed)
        spec["species"] = needed + [s_ for s_ in order[:k] if s_ not in needed]
        if rng.random() < 0.5: rng.shuffle(spec["species"])
        keys = list(spec["x0"].keys()); rng.shuffle(keys)
        spec["x0"] = {s: spec["x0"][s] for s in keys}
        names = sorted(set(order))
        pts = [{"x": {s: rng.choice([0.0, 1.0, 2.0, 3.5, 6.0, G.dyadic(rng, 0, 9, 8)]) for s in names}, "t": G.dyadic(rng, 0, 4)} for _ in range(3)]
        # construction histories: the last k reactions are added to the initialised model with create_reaction, with constants that are
        # parameters of the model already and species that are declared already; nothing re-initialises it by hand  (seeded change S7_C03)
        if rng.random() < 0.3 and len(spec["reactions"]) >= 2:
            G.name_late_parameters(spec, rng.randint(1, len(spec["reactions"]) - 1))
            spec["species"] = spec["species"] + [s_ for s_ in order if s_ not in spec["species"]]
        case = {"spec": spec, "names": names, "points": pts, "unset": None}
        cand = sorted(k_ for k_ in spec["parameters"] if not k_.startswith(("kg_", "Kg_")))
        if rng.random() < 0.15 and cand and not spec.get("late_reactions"):
            u = rng.choice(cand); case["unset"] = u
            spec["parameters"] = {k_: v for k_, v in spec["parameters"].items() if k_ != u}
        cases.append(case)
    return cases

def nontrivial(case):
    for rx in case["spec"]["reactions"]:
        if "delay" in rx or set(rx["reactants"]) & set(rx["products"]) or len(set(rx["reactants"])) < len(rx["reactants"]): return True
    return False

def impl_case(case):
    import numpy as np, warnings
    from bioscrape.simulator import ModelCSimInterface
    warnings.simplefilter("ignore")
    try:
        M = G.build_model(case["spec"])
    except ValueError as e:
        out = {"init_error": "ValueError", "msg": str(e)[:200]}
        # the rejection must not wear off: the same model object, built without initialisation, must fail at EVERY later attempt to
        # initialise or use it (seeded change S4_C03: the model was marked initialised before its parameters were checked)
        later = []
        try:
            M2 = G.build_model(case["spec"], initialize=False)
            for attempt in ("py_initialize", "py_initialize", "interface", "simulate"):
                try:
                    if attempt == "py_initialize": M2.py_initialize()
                    elif attempt == "interface": ModelCSimInterface(M2)
                    else:
                        from bioscrape.simulator import py_simulate_model
                        py_simulate_model(np.linspace(0, 1, 3), Model=M2, stochastic=False)
                    later.append([attempt, "accepted"]); break       # already a violation: do not go on to simulate an unchecked model
                except ValueError: later.append([attempt, "ValueError"])
                except Exception as e2: later.append([attempt, type(e2).__name__])
        except Exception as e3: later.append(["construction without initialisation", type(e3).__name__])
        out["later"] = later
        return out
    s2i = M.get_species2index(); names = case["names"]
    order = [None] * len(s2i)
    for s, i in s2i.items(): order[i] = names.index(s)
    if case["spec"].get("late_reactions"):
        I = ModelCSimInterface(M)          # the first user after the edit: it has to re-initialise the model
        S = np.asarray(M.py_get_update_array()); Sd = np.asarray(M.py_get_delay_update_array())
    else:
        S = np.asarray(M.py_get_update_array()); Sd = np.asarray(M.py_get_delay_update_array())
        I = ModelCSimInterface(M)
    I.py_prep_deterministic_simulation()
    ds = []; rates = []
    for k_pt, pt in enumerate(case["points"]):
        # the derivative is a function of (state, time) only: preparing the same interface again between evaluations (as every
        # deterministic simulation through a user-held interface does) must not change it  (seeded change S3_C03)
        if k_pt >= 1: I.py_prep_deterministic_simulation()
        x = np.zeros(len(s2i))
        for s, v in pt["x"].items():
            if s in s2i: x[s2i[s]] = v
        # the output array is the caller's: it may hold anything before the call (np.empty, a scratch array used before); every entry
        # must be WRITTEN, the zero of a species no reaction changes included (seeded change S6_C03: such entries were skipped)
        dx = np.full(len(s2i), 7.0 + k_pt); I.py_calculate_deterministic_derivative(x.copy(), dx, pt["t"])
        ds.append([fhex(v) for v in dx])
        rates.append([float(p.py_get_propensity(x.copy(), np.array(M.get_parameter_values(), dtype=float), pt["t"])) for p in M.get_propensities()])
    # the matrices are a function of the reaction list only: a simulation run on the model in between must not change what it reports
    # (seeded change S5_C03: the plain stochastic simulator added the delayed matrix to the model's own update array in place)
    sim_done = False
    # (only networks that cannot blow up in finite time: no reaction of order >= 2 makes more molecules than it takes)
    def _tame(rx):
        npr = len(rx["products"]) + len(rx.get("delay", {}).get("products", []))
        return len(rx["reactants"]) <= 1 or npr <= len(rx["reactants"])
    if any("delay" in rx for rx in case["spec"]["reactions"]) and all(rx["type"] == "massaction" and _tame(rx) for rx in case["spec"]["reactions"]):
        from bioscrape.simulator import SSASimulator, SafeModelCSimInterface
        from bioscrape.random import py_seed_random
        try:
            py_seed_random(7); Is = SafeModelCSimInterface(M); Is.py_set_initial_time(0.0); Is.py_set_dt(0.01)
            SSASimulator().py_simulate(Is, np.array([0.0, 0.01, 0.02])); sim_done = True
        except Exception: pass
        S = np.asarray(M.py_get_update_array()); Sd = np.asarray(M.py_get_delay_update_array())
    return {"order": order, "S": [int(v) for v in S.flatten()], "Sd": [int(v) for v in Sd.flatten()], "shape": list(S.shape), "read_after_a_simulation": sim_done,
            "deriv": ds, "rates": rates, "params": G.flist(M.get_parameter_values()),
            "props": [G.prop_tokens(M, i) for i in range(S.shape[1])], "s2i": s2i}

def _ids(case, l): return [str(len(l))] + [str(case["names"].index(s)) for s in l]

def driver_line(case, r):
    spec = case["spec"]
    toks = ["c03"] + _ids(case, spec["species"]) + _ids(case, list(spec["x0"].keys())) + [str(len(spec["reactions"]))]
    for rx in spec["reactions"]:
        d = rx.get("delay", {"reactants": [], "products": []})
        toks += _ids(case, rx["reactants"]) + _ids(case, rx["products"]) + _ids(case, d["reactants"]) + _ids(case, d["products"])
    if r and "props" in r:
        toks += r["params"]
        for p in r["props"]: toks += p
        toks += [str(len(case["points"]))]
        inv = {i: s for s, i in r["s2i"].items()}
        for pt in case["points"]:
            xs = [pt["x"][inv[i]] for i in range(len(inv))]
            toks += G.flist(xs) + [fhex(pt["t"])]
    return " ".join(toks)

def compare(case, r, out):
    if not r: return "no implementation result"
    if "init_error" in r: return None     # rejection is decided by the oracle
    if "order" not in r: return "implementation failed: %s" % json.dumps(r)[:300]
    want = ["SP"] + [str(i) for i in r["order"]] + ["S"] + [str(v) for v in r["S"]] + ["SD"] + [str(v) for v in r["Sd"]]
    for d in r["deriv"]: want += ["D"] + d
    got = out.split()
    if got[:len(want) - sum(1 + len(d) for d in r["deriv"])] != want[:len(want) - sum(1 + len(d) for d in r["deriv"])]:
        return "species order / matrices differ: model %r implementation %r" % (out, " ".join(want))
    # derivatives: exact unless a reaction's rate passes through ** (then 1e-12)
    tol = 1e-12 if any(c01._uses_pow(rx) or rx["type"] == "general" for rx in case["spec"]["reactions"]) else 0.0
    gi = got[len(want) - sum(1 + len(d) for d in r["deriv"]):]; wi = want[len(want) - sum(1 + len(d) for d in r["deriv"]):]
    if len(gi) != len(wi): return "derivative rows differ in length"
    nsp, nrx = r["shape"]; k = 0
    for pi_, (d, rates) in enumerate(zip(r["deriv"], r["rates"])):
        k += 1   # the "D" token
        for i in range(nsp):
            a, b = gi[k], wi[k]; k += 1
            if a == b: continue
            fa, fb = float.fromhex(a), float.fromhex(b)
            # cancellation: the tolerance is relative to the size of the summed terms, not of the sum
            scale = sum(abs((r["S"][i * nrx + j] + r["Sd"][i * nrx + j]) * rates[j]) for j in range(nrx))
            if not (abs(fa - fb) <= tol * scale): return "derivative: model %r implementation %r (scale %r)" % (fa, fb, scale)
    return None

def oracle(case, r):
    spec = case["spec"]
    if case["unset"]:
        used = any(case["unset"] in [v for v in rx["params"].values() if isinstance(v, str)] or (rx["type"] == "general" and case["unset"] in rx["params"]["rate"]) for rx in spec["reactions"])
        if used and not (r and r.get("init_error") == "ValueError"):
            return "parameter %s has no value but model initialisation did not fail: %s" % (case["unset"], json.dumps(r)[:200])
        bad = [a for a in (r or {}).get("later", []) if a[1] != "ValueError"] if used else []
        if bad: return "parameter %s has no value: after a failed initialisation the same model was %s by a later %s" % (case["unset"], bad[0][1], bad[0][0])
        return None
    if not r or "S" not in r: return "implementation failed: %s" % json.dumps(r)[:400]
    names = case["names"]; nsp, nrx = r["shape"]
    if sorted(r["order"]) != sorted(set(r["order"])) : return "species index map is not injective"
    if nrx != len(spec["reactions"]) or len(r["S"]) != nsp * nrx or len(r["Sd"]) != nsp * nrx:
        return "the stoichiometric matrices have %d reaction columns (shape %r), the reaction list has %d reactions" % (nrx, r["shape"], len(spec["reactions"]))
    for i, sid in enumerate(r["order"]):
        s = names[sid]
        for j, rx in enumerate(spec["reactions"]):
            d = rx.get("delay", {"reactants": [], "products": []})
            ws = rx["products"].count(s) - rx["reactants"].count(s); wd = d["products"].count(s) - d["reactants"].count(s)
            if r["S"][i * nrx + j] != ws: return "S[%s][reaction %d] = %d, products - reactants = %d" % (s, j, r["S"][i * nrx + j], ws)
            if r["Sd"][i * nrx + j] != wd: return "Sd[%s][reaction %d] = %d, delayed products - reactants = %d" % (s, j, r["Sd"][i * nrx + j], wd)
    for pt, dx, rates in zip(case["points"], r["deriv"], r["rates"]):
        for i, sid in enumerate(r["order"]):
            s = names[sid]; want = 0.0; scale = 0.0
            for j, rx in enumerate(spec["reactions"]):
                coef = r["S"][i * nrx + j] + r["Sd"][i * nrx + j]
                rate = rates[j] if rx["type"] == "general" else c01.closed_form(spec, rx, "det", pt["x"], 1.0)[0]
                want += coef * rate; scale += abs(coef * rate)
            got = float.fromhex(dx[i])
            if not (abs(got - want) <= 1e-9 * scale + 1e-12): return "d%s/dt = %r, sum of (S+Sd)*rate = %r at %r" % (s, got, want, pt)
    return None

def site(case, msg): return (msg or "any").split("[")[0].split("=")[0][:40]

def shrink(case, fails):
    from harness.shrink import shrink_list
    spec = case["spec"]
    rx = shrink_list(spec["reactions"], lambda cands: fails([dict(case, spec=dict(spec, reactions=c)) for c in cands]))
    return dict(case, spec=dict(spec, reactions=rx))

def stats(cases):
    from collections import Counter
    return {"kinds": dict(Counter(rx["type"] for c in cases for rx in c["spec"]["reactions"])),
            "with_delay": sum(1 for c in cases for rx in c["spec"]["reactions"] if "delay" in rx),
            "unset_param_cases": sum(1 for c in cases if c["unset"])}
def key(case): return json.dumps(case["spec"], sort_keys=True)


# ------------------------------------------------------------------ evaluation INSIDE Coq (no extraction, no OCaml): the integer part
def extra_checks(ctx):
    """For a sample of cases the species order and both stoichiometric matrices reported by the implementation are written into
    coq/Gen/CasesC03.v as Examples `model applied to the case = implementation's answer`, closed by vm_compute; reflexivity.
    coqc accepting the file means the hand model, evaluated by Coq's own reduction machinery, agrees with the implementation on them;
    this cross-checks extraction and the OCaml driver (which answer the same questions in the correspondence above)."""
    import os, subprocess
    from harness import common as C
    cases = [(c, r) for c, r in zip(ctx["cases"], ctx["impl_res"]) if isinstance(r, dict) and "order" in r][: (40 if ctx["tier"] == "quick" else 400)]
    if not cases: return {}
    L = lambda xs: "[" + "; ".join(str(x) for x in xs) + "]"
    Z = lambda xs: "[" + "; ".join("(%d)%%Z" % int(x) for x in xs) + "]"
    lines = ["(* GENERATED by harness/props/c03.py on every run -- do not edit *)", "From Coq Require Import ZArith List.", "From BS Require Import Model.Builder.", "Import ListNotations.", ""]
    for k, (c, r) in enumerate(cases):
        spec = c["spec"]; ids = lambda l: [c["names"].index(x) for x in l]
        rxs = []
        for rx in spec["reactions"]:
            d = rx.get("delay", {"reactants": [], "products": []})
            rxs.append("mkRx %s %s %s %s" % (L(ids(rx["reactants"])), L(ids(rx["products"])), L(ids(d["reactants"])), L(ids(d["products"]))))
        nsp, nrx = r["shape"]
        S = [r["S"][i * nrx:(i + 1) * nrx] for i in range(nsp)]; Sd = [r["Sd"][i * nrx:(i + 1) * nrx] for i in range(nsp)]
        lines.append("Definition rxs_%d : list reaction := [%s]." % (k, "; ".join(rxs)))
        lines.append("Definition sp_%d : list nat := species_order %s rxs_%d %s." % (k, L(ids(spec["species"])), k, L(ids(list(spec["x0"].keys())))))
        lines.append("Example order_%d : sp_%d = %s. Proof. vm_compute. reflexivity. Qed." % (k, k, L(r["order"])))
        lines.append("Example S_%d : build_S sp_%d rxs_%d = [%s]. Proof. vm_compute. reflexivity. Qed." % (k, k, k, "; ".join(Z(row) for row in S)))
        lines.append("Example Sd_%d : build_Sd sp_%d rxs_%d = [%s]. Proof. vm_compute. reflexivity. Qed." % (k, k, k, "; ".join(Z(row) for row in Sd)))
    gen = os.path.join(C.COQ, "Gen", "CasesC03.v"); os.makedirs(os.path.dirname(gen), exist_ok=True)
    open(gen, "w").write("\n".join(lines) + "\n")
    p = subprocess.run(["timeout", "600", "coqc", "-Q", ".", "BS", "Gen/CasesC03.v"], cwd=C.COQ, stdout=subprocess.PIPE, stderr=subprocess.STDOUT, text=True)
    fails = []
    if p.returncode != 0:
        import re
        m = re.search(r'line (\d+)', p.stdout); ln = int(m.group(1)) if m else 0
        which = lines[ln - 1][:160] if 0 < ln <= len(lines) else "?"
        k = int(re.search(r'_(\d+) ', which).group(1)) if re.search(r'_(\d+) ', which) else 0
        fails.append((cases[min(k, len(cases) - 1)][0], "in-Coq evaluation: the model evaluated by vm_compute differs from the implementation at `%s` (%s)" % (which, p.stdout.strip().splitlines()[-1][:160] if p.stdout.strip() else "coqc failed")))
    return {"oracle_fail": fails, "coverage": {"cases_evaluated_inside_coq": len(cases), "in_coq_examples": 3 * len(cases)}}
