"""C14: exported kinetic laws.  The written SBML is parsed with libsbml in the harness; each kinetic law is
evaluated as plain SBML mathematics (independent evaluator over the MathML AST) over the exported species
and global parameters and compared with the model's own rate (deterministic export vs deterministic rate,
stochastic export vs combinatorial stochastic rate on integer states); identifiers must be defined in the
document; stoichiometries must equal multiplicities.  Correspondence: the extracted model of the mass-action
rate strings (Model/SbmlExport.v) vs libsbml's formula string for the law."""
import json, math, os, random, tempfile
from harness.common import fhex
from harness import modelgen as G
PID = "C14"; COQ_TARGET = "C14"
RULE = ("random models over every propensity type, reaction orders 0-5 with repeats, named and numeric parameters x deterministic and stochastic export x 4 non-negative states "
        "(integer for the stochastic export); non-trivial = a reaction of order >= 2 with a repeated reactant or a Hill / general law")
TRUSTED = ["hand model coq/Model/SbmlExport.v (mass-action rate expressions) tied by correspondence of its printed formula with libsbml's formulaToL3String",
           "libsbml (XML layer, L3 formula parser) is outside the model; the harness evaluates libsbml's AST independently"]
ASSUMPTIONS = ["Hill kinetic laws are a known finding (F8): the frozen-file tests pin the wrong strings", "relative tolerance 1e-9"]

NESTED_POOL = ["P", "P2", "P3", "X", "X_m", "S1", "S10", "P2b"]

def gen_cases(seed, tier):
    rng = random.Random(seed * 5003 + 14); n = 120 if tier == "quick" else 1500
    cases = []
    for _ in range(n):
        spec = G.gen_network(rng, kinds=("massaction", "massaction", "massaction") + tuple(G.HILL) + ("general",), nrx=(1, 4), nsp=(1, 4), max_order=rng.choice([2, 3, 5]),
                             general_pool=["kg*%s", "kg*%s*%s", "kg*%s/(1+%s)", "kg*%s^2/(Kg+%s^2)", "kg*exp(-%s/Kg)",
                                           "kg*exp(-%s^2/Kg)", "kg*1.1^%s^0.5", "kg*(2 - -%s^2/(1+%s^2))"],   # unary minus on a power, power towers: grammar-sensitive (S3_C14)
                             # a third of the models use species names that contain one another (P / P2 / P3, X / X_m, S1 / S10), as
                             # oligomer and mRNA models do (seeded change S6_C14: a reactant's order counted as a substring count)
                             species_pool=(NESTED_POOL if rng.random() < 0.35 else None))
        if rng.random() < 0.4: _plain_names(rng, spec)
        pts = [{s: float(rng.randint(0, 7)) for s in spec["x0"]} for _ in range(4)]
        # one parameter-dictionary OBJECT reused for several mass-action reactions with different reactants (deg = {"k": kdeg} handed to A -> 0 and
        # B -> 0): each reaction keeps its own rate law and its own exported kinetic law (seeded changes S8_C01 / S8_C14, as S6_C06: the model
        # wrote the implicit 'species' string into the caller's dictionary)
        if rng.random() < 0.3:
            ma_ = [rx for rx in spec["reactions"] if rx["type"] == "massaction" and "species" not in rx["params"]]
            if len(ma_) >= 2:
                for rx in ma_[1:]: rx["params"] = dict(ma_[0]["params"])
                spec["shared_param_dicts"] = True
        cases.append({"spec": spec, "points": pts})
    return cases

PLAIN = ["k", "K", "n", "cat", "k_cat", "on", "k_on", "kf", "kr", "k1", "off", "k_off"]   # not "deg": sympy reads it as a function (see DESIGN.md, observations)
def _plain_names(rng, spec):
    """rename the model's named parameters to the short names people use (k, K, n, cat / k_cat, on / k_on, ...): ids that are
    prefixes, suffixes or '_'-separated parts of one another and of the exporter's own dummy ids (seeded change S4_C14: a textual
    replacement of '_<parameter id>' inside the rate string)"""
    import re
    old = sorted(spec["parameters"]); new = list(PLAIN); rng.shuffle(new)
    ren = dict(zip(rng.sample(old, min(len(old), len(new))), new))
    spec["parameters"] = {ren.get(k_, k_): v for k_, v in spec["parameters"].items()}
    for rx in spec["reactions"]:
        for key, v in list(rx["params"].items()):
            if key == "rate":
                rx["params"]["rate"] = re.sub(r"[A-Za-z_][A-Za-z_0-9]*", lambda m_: ren.get(m_.group(0), m_.group(0)), v)
            elif isinstance(v, str) and v in ren: rx["params"][key] = ren[v]
    spec["plain_names"] = True

def impl_case(case):
    import numpy as np, warnings, libsbml
    from harness import sbmlkit as K
    warnings.simplefilter("ignore")
    M = G.build_model(case["spec"]); s2i = M.get_species2index(); pv = np.array(M.get_parameter_values(), dtype=float)
    defs = G.reaction_defs(M)
    out = {"exports": {}}
    for stoch in (False, True):
        fd, path = tempfile.mkstemp(suffix=".xml", dir="/var/tmp"); os.close(fd)
        try:
            M.write_sbml_model(path, stochastic_model=stoch)
            d = K.read_doc(path)
        finally:
            os.remove(path)
        defined = set(d["species"]) | set(d["params"])
        rx_out = []
        for i, (rx, dfn) in enumerate(zip(d["reactions"], defs)):
            ent = {"formula": rx["formula"], "undefined": sorted(set(n for n in K.ast_names(rx["math"]) if n not in defined and n not in rx["locals"])),
                   "reactants": sorted((s, float(c)) for s, c in rx["reactants"]), "products": sorted((s, float(c)) for s, c in rx["products"]), "vals": [], "rates": []}
            p = M.get_propensities()[i]
            for pt in case["points"]:
                env = dict(d["params"]); env.update(rx["locals"]); env.update(pt)
                try: ent["vals"].append(float(K.ast_eval(rx["math"], env)))
                except KeyError as e: ent["vals"].append("undefined:" + str(e))
                except (ZeroDivisionError, ValueError, OverflowError): ent["vals"].append("nan")
                x = np.zeros(len(s2i))
                for s, v in pt.items(): x[s2i[s]] = v
                ent["rates"].append(float(p.py_get_stochastic_propensity(x, pv, 0.0) if stoch else p.py_get_propensity(x, pv, 0.0)))
            ent["type"] = dfn[2]; ent["k"] = str(dfn[3].get("k")); ent["rs"] = list(dfn[0])
            rx_out.append(ent)
        out["exports"]["stoch" if stoch else "det"] = rx_out
    return out

def driver_line(case, r):
    if not r or "exports" not in r: return None
    lines = []
    for mode in ("det", "stoch"):
        for ent in r["exports"][mode]:
            if ent["type"] != "massaction": continue
            names = sorted(set(ent["rs"]))
            lines.append(" ".join(["c14rate", mode, str(len(ent["rs"]))] + [str(names.index(s)) for s in ent["rs"]]))
    return lines

def _canon(f): return f.replace(" ", "").replace("(", "").replace(")", "")
def compare(case, r, out):
    if not r or "exports" not in r: return "implementation failed: %s" % json.dumps(r)[:300]
    k = 0
    for mode in ("det", "stoch"):
        for ent in r["exports"][mode]:
            if ent["type"] != "massaction": continue
            names = sorted(set(ent["rs"]))
            want = out[k]; k += 1
            for i, nme in enumerate(names): want = want.replace("s%d" % i + "#", nme)
            want = want.replace("K#", ent["k"])
            if _canon(want) != _canon(ent["formula"]): return "rate string (%s export): model %r implementation %r" % (mode, want, ent["formula"])
    return None

def oracle(case, r):
    if not r or "exports" not in r: return "implementation failed: %s" % json.dumps(r)[:300]
    msgs = []
    for mode in ("det", "stoch"):
        for i, ent in enumerate(r["exports"][mode]):
            m_ = _oracle_one(case, mode, i, ent)
            if m_ and m_.split(":")[0] not in [x.split(":")[0] for x in msgs]: msgs.append(m_)
    return msgs or None

def _oracle_one(case, mode, i, ent):
    if True:
        if True:
            rx = case["spec"]["reactions"][i]
            tag = "%s|%s export" % (rx["type"], "stochastic" if mode == "stoch" else "deterministic")
            if ent["undefined"]: return "%s: kinetic law %r refers to identifiers not defined in the document: %r" % (tag, ent["formula"], ent["undefined"])
            wr = sorted((s, float(rx["reactants"].count(s))) for s in set(rx["reactants"])); wp = sorted((s, float(rx["products"].count(s))) for s in set(rx["products"]))
            if [list(x) for x in ent["reactants"]] != [list(x) for x in wr] or [list(x) for x in ent["products"]] != [list(x) for x in wp]:
                return "stoichiometry: document has reactants %r products %r, multiplicities are %r %r" % (ent["reactants"], ent["products"], wr, wp)
            for pt, v, rate in zip(case["points"], ent["vals"], ent["rates"]):
                if isinstance(v, str):
                    if v == "nan" and not math.isfinite(rate): continue
                    return "%s: kinetic law %r cannot be evaluated (%s) at %r" % (tag, ent["formula"], v, pt)
                if not (abs(v - rate) <= 1e-9 * max(1.0, abs(v), abs(rate))):
                    return "%s: kinetic law %r evaluates to %r, the model's rate is %r at %r" % (tag, ent["formula"], v, rate, pt)
    return None


def site(case, msg): return (msg or "any").split(":")[0]
def nontrivial(case):
    return any(rx["type"] != "massaction" or (len(rx["reactants"]) >= 2 and len(set(rx["reactants"])) < len(rx["reactants"])) for rx in case["spec"]["reactions"])
def key(case): return json.dumps(case["spec"], sort_keys=True)
def stats(cases):
    from collections import Counter
    return {"kinds": dict(Counter(rx["type"] for c in cases for rx in c["spec"]["reactions"])),
            "orders": dict(Counter(str(len(rx["reactants"])) for c in cases for rx in c["spec"]["reactions"] if rx["type"] == "massaction")),
            "models_with_short_parameter_names": sum(1 for c in cases if c["spec"].get("plain_names"))}
def shrink(case, fails):
    from harness.shrink import shrink_list
    spec = case["spec"]
    rx = shrink_list(spec["reactions"], lambda cands: fails([dict(case, spec=dict(spec, reactions=c)) for c in cands]))
    return dict(case, spec=dict(spec, reactions=rx))
