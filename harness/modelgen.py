"""Random reaction-network specs (JSON-able), building them with bioscrape (implementation side),
and encoding the built model for the OCaml driver."""
import math, random
from harness.common import fhex

SPECIES_POOL = ["A", "B", "C", "D", "Ez", "G", "X_1", "Y2z"]
HILL = ["hillpositive", "hillnegative", "proportionalhillpositive", "proportionalhillnegative"]

def dyadic(rng, lo=0, hi=8, den=4):
    return rng.randint(lo * den, hi * den) / den

def gen_reaction(rng, species, kinds, allow_delay=False, max_order=4, named=True, general_pool=None):
    kind = rng.choice(kinds)
    nre = rng.choice([0, 1, 1, 2, 2, 2, 3, 3, 4][:max(1, min(9, 2 * max_order + 1))]) if max_order else 0
    nre = min(nre, max_order)
    reactants = [rng.choice(species) for _ in range(nre)]
    if rng.random() < 0.35 and reactants: reactants[-1] = reactants[0]          # repeats
    npr = rng.choice([0, 1, 1, 2, 3])
    products = [rng.choice(species) for _ in range(npr)]
    if rng.random() < 0.3 and reactants: products = products[:1] + [reactants[0]]  # catalyst
    def val(name, lo=0.25, hi=4.0):
        v = rng.choice([0.5, 1.0, 2.0, 0.25, 1.5, 3.0, 0.75, round(rng.uniform(lo, hi), 3)])
        return (name, v)
    params = {}; pvals = {}
    def put(key, pname, v):
        if named and rng.random() < 0.6:
            params[key] = pname; pvals[pname] = v
        else:
            params[key] = v
    rid = "r%d" % rng.randint(0, 10**6)
    if kind == "massaction":
        put("k", "k_" + rid, val("k")[1])
    elif kind in HILL:
        put("k", "k_" + rid, val("k")[1]); put("K", "K_" + rid, rng.choice([0.5, 1.0, 2.0, 3.5, 10.0]))
        put("n", "n_" + rid, rng.choice([1, 2, 3, 1.5, 2.5, 0.5, 4]))
        params["s1"] = rng.choice(species)
        if kind.startswith("proportional"): params["d"] = rng.choice(species)
    elif kind == "general":
        pool = general_pool or ["kg*%s", "kg*%s*%s", "kg*%s/(1+%s)", "kg*%s^2/(Kg+%s^2)", "kg+%s*0", "kg*exp(-%s/Kg)", "kg*Heaviside(%s-1.5)", "kg*Max(%s,%s)", "kg*abs(%s-%s)", "kg*(%s-%s)"]   # the last one is signed (a net flux): negative where the second species is in excess
        tpl = rng.choice(pool)
        n = tpl.count("%s")
        if n >= 2 and len(species) >= 2: chosen = tuple(rng.sample(species, 2)) + tuple(rng.choice(species) for _ in range(n - 2))
        elif n >= 2 and ("-" in tpl or "Max" in tpl or "Min" in tpl): tpl = "kg*%s"; n = 1; chosen = (species[0],)
        else: chosen = tuple(rng.choice(species) for _ in range(n))
        rate = tpl % chosen
        kname, Kname = "kg_" + rid, "Kg_" + rid
        rate = rate.replace("kg", kname).replace("Kg", Kname)
        params["rate"] = rate; pvals[kname] = val("k")[1]
        if Kname in rate: pvals[Kname] = rng.choice([1.0, 2.0, 4.0])
    rx = {"reactants": reactants, "products": products, "type": kind, "params": params}
    if allow_delay and rng.random() < 0.6:
        dk = rng.choice(["fixed", "gaussian", "gamma"])
        dre = [rng.choice(species)] if rng.random() < 0.3 else []
        dpr = [rng.choice(species) for _ in range(rng.choice([1, 1, 2]))]
        if dk == "fixed": dp = {"delay": rng.choice([0.0, 0.01, 0.3, 1.0, 2.5, 7.0, 50.0])}
        elif dk == "gaussian": dp = {"mean": rng.choice([0.5, 1.0, 3.0]), "std": rng.choice([0.1, 0.5, 2.0])}
        else: dp = {"k": rng.choice([1.0, 2.0, 3.5]), "theta": rng.choice([0.2, 0.5, 1.0])}
        rx["delay"] = {"type": dk, "reactants": dre, "products": dpr, "params": dp}
    return rx, pvals

def bound_reaction(rng, rx, pvals):
    """bounded dynamics: a reaction with reactants never has more products than reactants (immediate + delayed);
    a reaction without reactants has a bounded rate (constant or non-proportional Hill)"""
    d = rx.get("delay")
    nre = len(rx["reactants"])      # delayed consumption comes too late to bound growth
    if nre == 0:
        if rx["type"] not in ("massaction", "hillpositive", "hillnegative"):
            rx["type"] = "massaction"; rx["params"] = {"k": rng.choice([0.1, 0.25, 0.5, 1.0])}
        rx["products"] = rx["products"][:2]
        if d: d["products"] = d["products"][:1]
    else:
        keep = nre
        rx["products"] = rx["products"][:keep]; keep -= len(rx["products"])
        if d: d["products"] = d["products"][:max(keep, 0)]
    return rx

def gen_network(rng, kinds=("massaction",) + tuple(HILL), nrx=(1, 4), nsp=(1, 5), allow_delay=False, max_order=4,
                named=True, integer_state=False, general_pool=None, bounded=False, species_pool=None):
    n = rng.randint(*nsp)
    species = rng.sample(species_pool or SPECIES_POOL, n)
    order = list(species); rng.shuffle(order)
    rxs = []; pvals = {}
    for _ in range(rng.randint(*nrx)):
        rx, pv = gen_reaction(rng, species, list(kinds), allow_delay, max_order, named, general_pool)
        pvals.update(pv)
        if bounded: rx = bound_reaction(rng, rx, pvals)
        rxs.append(rx)
    x0 = {s: (float(rng.randint(0, 12)) if integer_state or rng.random() < 0.5 else dyadic(rng, 0, 10, 8)) for s in species}
    return {"species": order, "reactions": rxs, "parameters": pvals, "x0": x0}

# ------------------------------------------------------------------ implementation side
def reaction_tuple(rx):
    if "delay" in rx:
        d = rx["delay"]
        return (list(rx["reactants"]), list(rx["products"]), rx["type"], dict(rx["params"]),
                d["type"], list(d["reactants"]), list(d["products"]), dict(d["params"]))
    return (list(rx["reactants"]), list(rx["products"]), rx["type"], dict(rx["params"]))

def build_model(spec, initialize=True, rules=True):
    from bioscrape.types import Model
    rl = [tuple(r) for r in spec.get("rules", [])] if rules else []
    # spec["late_rules"] = k: the last k rules are added with create_rule AFTER the model has been constructed (and, with
    # initialize=True, initialised) with the others -- a construction history, not a different model (seeded change S4_C09)
    late = min(int(spec.get("late_rules", 0) or 0), len(rl))
    rts = [reaction_tuple(r) for r in spec["reactions"]]
    if spec.get("shared_param_dicts"):
        # one dict OBJECT for all reactions whose parameter dictionaries are equal, and the first mass-action dict for every other
        # mass-action reaction with the same constant (S6_C06: the model wrote its 'species' default into the caller's dict)
        pool = []
        for i_, t_ in enumerate(rts):
            same = next((d_ for d_ in pool if d_ == t_[3]), None)
            if same is None: pool.append(t_[3])
            else: rts[i_] = t_[:3] + (same,) + t_[4:]
    # spec["late_reactions"] = k: the last k reactions are added with create_reaction AFTER the model has been constructed (and, with
    # initialize=True, initialised) with the others, and the model is NOT re-initialised by hand: whoever uses it next (an interface,
    # py_simulate_model) has to notice -- a construction history, not a different model (seeded change S7_C03: a reaction that brings no
    # new species and no new parameter no longer marked the model as changed)
    late_rx = min(int(spec.get("late_reactions", 0) or 0), max(len(rts) - 1, 0))
    M = Model(species=list(spec["species"]), reactions=rts[:len(rts) - late_rx],
              parameters=list(spec["parameters"].items()),
              rules=rl[:len(rl) - late],
              initial_condition_dict=dict(spec["x0"]), initialize_model=initialize)
    for r in rl[len(rl) - late:]: M.create_rule(*r)
    if late and initialize: M.py_initialize()
    for t_ in rts[len(rts) - late_rx:]: M.create_reaction(*t_)
    return M

def name_late_parameters(spec, k):
    """makes the last k reactions of spec 'late' and turns their numeric constants into named parameters that exist in the model from the start
    (with every species declared), so that adding them later brings nothing new but the reaction itself"""
    k = min(k, len(spec["reactions"]) - 1)
    if k <= 0: return spec
    n0 = len(spec["reactions"]) - k
    for j, rx in enumerate(spec["reactions"][n0:]):
        for dct in [rx["params"]] + ([rx["delay"]["params"]] if "delay" in rx and rx["delay"].get("params") else []):
            for key_, v in list(dct.items()):
                if isinstance(v, (int, float)) and not isinstance(v, bool) and key_ not in ("species",):
                    nm = "late_%s_%d_%d" % (key_, n0 + j, len(spec["parameters"])); spec["parameters"][nm] = float(v); dct[key_] = nm
    spec["late_reactions"] = k
    return spec

def term_tokens(term):
    """Structural dump of a bioscrape Term object through its pickle reduction."""
    name = type(term).__name__
    red = term.__reduce__()
    if name in ("SumTerm", "ProductTerm", "MaxTerm", "MinTerm"):
        ts = list(red[1][0])
        out = [{"SumTerm": "sum", "ProductTerm": "prod", "MaxTerm": "max", "MinTerm": "min"}[name], str(len(ts))]
        for t in ts: out += term_tokens(t)
        return out
    state = red[1][2] if len(red[1]) > 2 else None
    if state is None and len(red) > 2: state = red[2]
    if name == "ConstantTerm": return ["c", fhex(state[0])]
    if name == "SpeciesTerm": return ["s", str(state[0])]
    if name == "ParameterTerm": return ["p", str(state[0])]
    if name == "VolumeTerm": return ["vol"]
    if name == "TimeTerm": return ["t"]
    if name == "PowerTerm": return ["pow"] + term_tokens(state[0]) + term_tokens(state[1])
    if name in ("ExpTerm", "LogTerm", "StepTerm", "AbsTerm"):
        return [{"ExpTerm": "exp", "LogTerm": "log", "StepTerm": "step", "AbsTerm": "abs"}[name]] + term_tokens(state[0])
    raise ValueError("unknown term class " + name)

def reaction_defs(M):
    """Model.reaction_definitions (the post-processed reaction tuples, with dummy parameter names) is only
    reachable through __getstate__; found by shape so that a change of the tuple layout does not matter here."""
    st = M.__getstate__()
    for it in st:
        if isinstance(it, list) and it and all(isinstance(t, tuple) and len(t) == 8 and isinstance(t[2], str) for t in it):
            return it
    return []

def prop_tokens(M, i):
    """Encoding of reaction i's propensity object, mirroring Model.create_propensity's choice of class;
    indices come from the built model's own maps."""
    reactants, products, ptype, pd = reaction_defs(M)[i][:4]
    s2i, p2i = M.get_species2index(), M.get_params2index()
    P = lambda k: str(p2i[pd[k]]); S = lambda k: str(s2i[pd[k]])
    if ptype == "massaction":
        sp = pd.get("species", "")
        names = [x.strip() for x in str(sp).split("*") if x.strip() != ""] if sp not in ["0", "", None, 0] else []
        if not names and sp not in ["0", "", None, 0]:
            # a blank but non-empty species string falls through create_propensity's dispatch to the general MassActionPropensity class with no species
            return ["mass", P("k"), "0", "0"]
        return ["madisp", P("k"), str(len(names))] + [str(s2i[n]) for n in names]
    if ptype == "hillpositive": return ["hp", P("k"), P("K"), P("n"), S("s1")]
    if ptype == "hillnegative": return ["hn", P("k"), P("K"), P("n"), S("s1")]
    if ptype == "proportionalhillpositive": return ["php", P("k"), P("K"), P("n"), S("s1"), S("d")]
    if ptype == "proportionalhillnegative": return ["phn", P("k"), P("K"), P("n"), S("s1"), S("d")]
    if ptype == "general":
        return ["gen"] + term_tokens(M.get_propensities()[i].py_get_term())
    raise ValueError(ptype)

def flist(a):
    return [str(len(a))] + [fhex(v) for v in a]

def simif_tokens(M):
    import numpy as np
    S = np.asarray(M.py_get_update_array()); Sd = np.asarray(M.py_get_delay_update_array())
    nsp, nrx = S.shape
    toks = flist(M.get_parameter_values()) + [str(nsp), str(nrx)]
    toks += [str(int(v)) for v in S.flatten()] + [str(int(v)) for v in Sd.flatten()]
    for i in range(nrx): toks += prop_tokens(M, i)
    return toks

# ------------------------------------------------------------------ rules, delays, whole simulations
def _state_of(obj):
    red = obj.__reduce__()
    st = red[1][2] if len(red[1]) > 2 and red[1][2] is not None else (red[2] if len(red) > 2 else None)
    return st

def rule_tokens(M):
    """Cython's auto-pickle state lists the members in sorted name order:
    additive: (dest_index, frequency_flag, species_source_indices); general/ode: (dest_index, frequency_flag, param_flag, rhs)"""
    rules = None
    for it in M.__getstate__():
        if isinstance(it, list) and it and all(type(r).__name__ in ("AdditiveAssignmentRule", "GeneralAssignmentRule", "GeneralODERule") for r in it): rules = it
        elif isinstance(it, list) and it and all(type(r).__name__.endswith("Rule") for r in it) and not type(it[0]).__module__.endswith("lineage"): raise ValueError("rule class " + type(it[0]).__name__)
    rules = rules or []
    toks = [str(len(rules))]
    for r in rules:
        st = _state_of(r); name = type(r).__name__
        if name == "AdditiveAssignmentRule":
            toks += [fhex(st[1]), str(st[0]), "add", str(len(st[2]))] + [str(i) for i in st[2]]
        elif name == "GeneralAssignmentRule":
            toks += [fhex(st[1]), str(st[0]), "asg", str(int(st[2]))] + term_tokens(st[3])
        elif name == "GeneralODERule":
            toks += [fhex(st[1]), str(st[0]), "ode", str(int(st[2]))] + term_tokens(st[3])
        else: raise ValueError("rule class " + name)
    return toks

def delay_tokens(M):
    toks = []
    for d in M.get_delays():
        st = _state_of(d); name = type(d).__name__
        if name == "NoDelay": toks += ["none"]
        elif name == "FixedDelay": toks += ["fixed", str(st[0])]
        elif name == "GaussianDelay": toks += ["gauss", str(st[1]), str(st[2])]
        elif name == "GammaDelay": toks += ["gamma", str(st[1]), str(st[2])]
        else: raise ValueError("delay class " + name)
    return toks

def sim_tokens(M, safe, dt, t0, x0):
    """<safe> <dt> <t0> <x0 list> simif rules delays"""
    return [("1" if safe else "0"), fhex(dt), fhex(t0)] + flist(x0) + simif_tokens(M) + rule_tokens(M) + delay_tokens(M)

def gen_rules(rng, spec, kinds=("additive", "assignment", "ode"), freqs=("repeated", "start", "dt", "grid"), grid=None, maxn=3):
    """rules chained in dependency order on fresh destination species / parameters"""
    rules = []; species = list(spec["x0"].keys()); n = rng.randint(1, maxn)
    avail = list(species)
    for i in range(n):
        kind = rng.choice(kinds); freq = rng.choice(freqs)
        if freq == "grid": freq = rng.choice(grid) if grid else "repeated"
        if kind == "additive":
            dest = "R%d" % i; srcs = [rng.choice(avail) for _ in range(rng.randint(1, 3))]
            spec["x0"][dest] = 0.0
            rules.append(["additive", {"equation": "%s = %s" % (dest, " + ".join(srcs))}, freq]); avail.append(dest)
        elif kind == "assignment":
            if rng.random() < 0.5:
                dest = "R%d" % i; spec["x0"][dest] = 0.0
                rhs = rng.choice(["2*%s + 1", "%s*%s", "%s/(1+%s)", "%s + t"])
                rhs = rhs % tuple(rng.choice(avail) for _ in range(rhs.count("%s")))
                rules.append(["assignment", {"equation": "%s = %s" % (dest, rhs)}, freq]); avail.append(dest)
            else:
                dest = "rp%d" % i; spec["parameters"][dest] = 1.0
                rhs = rng.choice(["0.5 + 0.25*%s", "1 + %s/8"]) % rng.choice(avail)
                rules.append(["assignment", {"equation": "%s = %s" % (dest, rhs)}, freq])
        elif rng.random() < 0.35:
            # an ODE rule whose target is a PARAMETER (a ramping constant): it writes no species at all, in any simulator
            # (seeded change S7_C06: the volume-aware variant of the rule lost its parameter branch and wrote into the species vector)
            dest = "rq%d" % i; spec["parameters"][dest] = 0.5
            rhs = rng.choice(["0.125", "0.0625*%s", "0.25 - %s/16"]); rhs = rhs % tuple(rng.choice(avail) for _ in range(rhs.count("%s")))
            rules.append(["ode", {"equation": rhs, "target": dest}])
        else:
            dest = "R%d" % i; spec["x0"][dest] = float(rng.randint(0, 3))
            rhs = rng.choice(["1", "0.5*%s", "2 - %s/4"]); rhs = rhs % tuple(rng.choice(avail) for _ in range(rhs.count("%s")))
            rules.append(["ode", {"equation": rhs, "target": dest}]); avail.append(dest)
    spec["rules"] = rules
    return spec
