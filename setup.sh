#!/bin/sh
# Build the framework from files on disk only (offline): full Coq build of the development,
# extraction, OCaml driver, and the scratch build of /repo's working tree.
set -e
cd "$(dirname "$0")"
/venv/bin/python - <<'PY'
import sys, os
sys.path.insert(0, os.getcwd())
from harness import common as C
from harness.build import ensure_build
import glob
try:
    import harness.translate_all as T
    T.run_all()
except ImportError:
    pass
C.lint()
targets = [os.path.relpath(f, C.COQ)[:-2] + ".vo" for f in glob.glob(os.path.join(C.COQ, "Props", "*.v"))]
C.coq_make(targets + ["Extract/Extract.vo"], timeout=3000)
C.build_driver()
print(ensure_build())
PY
