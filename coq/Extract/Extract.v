(* Extraction of the executable models.  ExtrOcamlBasic only; no Extract Constant. *)
From Coq Require Extraction.
From Coq Require Import ExtrOcamlBasic.
From BS Require Import Base.Arith Model.Queue Model.Term Model.Propensity Model.Interface Model.Builder Model.Priors Model.Sensitivity Model.Rules Model.Random Model.SSA Model.Dispatch Model.Likelihood Model.Sympy Model.SbmlExport Model.SbmlImport Model.Splitters Model.History Model.Lineage Model.Worklist.
Extraction "../ocaml/extracted.ml" mkArith upd
  teval prop_eval massaction_dispatch compute_plain compute_safe need_row
  species_order build_S build_Sd index_of derivative initialize_ok mkRx
  prior_eval check_prior log_prior
  compute_J compute_Zj stencil
  apply_rules ssa_simulate dssa_simulate vssa_simulate dvssa_simulate normal_rv gamma_rv exponential_rv sample_discrete
  dispatch
  extract_frame cost
  translate mkEnv
  export_det export_stoch parse_kv print_kv
  import_rules initial_value expand mkSRule
  partition_perfect_binomial partition_general partition_lineage
  run empty observe mkDefn
  lssa_simulate mkLin simulate_lineage mkSplitter mkCell
  q_make q_add q_peek q_advance q_set_time q_copy q_clear_copy q_pending q_partition q_offset.
