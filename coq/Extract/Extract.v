(* Extraction of the executable models.  ExtrOcamlBasic only; no Extract Constant. *)
From Coq Require Extraction.
From Coq Require Import ExtrOcamlBasic.
From BS Require Import Base.Arith Model.Queue.
Extraction "../ocaml/extracted.ml" mkArith upd
  q_make q_add q_peek q_advance q_set_time q_copy q_clear_copy q_pending q_partition q_offset.
