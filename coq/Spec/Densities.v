(* Textbook log-densities of the seven prior families, with their supports. *)
From Coq Require Import Reals.
Local Open Scope R_scope.

Section D.
  Variables (G : R -> R) (B : R -> R -> R).     (* Euler's Gamma and Beta functions *)
  Definition ld_uniform (lb ub x : R) := - ln (ub - lb).                                   (* lb <= x <= ub *)
  Definition ld_gaussian (mu s x : R) := - ln (s * sqrt (2 * PI)) - (x - mu) * (x - mu) / (2 * (s * s)).
  Definition ld_exponential (lam x : R) := ln lam - lam * x.                               (* x >= 0 *)
  Definition ld_gamma (a b x : R) := a * ln b - ln (G a) + (a - 1) * ln x - b * x.         (* x > 0 *)
  Definition ld_beta (a b x : R) := (a - 1) * ln x + (b - 1) * ln (1 - x) - ln (B a b).    (* 0 < x < 1 *)
  Definition ld_loguniform (lb ub x : R) := - ln x - ln (ln ub - ln lb).                   (* lb <= x <= ub *)
  Definition ld_loggaussian (mu s x : R) :=
    - ln (x * s * sqrt (2 * PI)) - (ln x - mu) * (ln x - mu) / (2 * (s * s)).              (* x > 0 *)
End D.
