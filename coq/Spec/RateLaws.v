(* Documented closed forms of the built-in rate laws, over the reals. *)
From Coq Require Import Reals List Arith Lra.
From BS Require Import Base.Arith.
Import ListNotations.
Local Open Scope R_scope.

Definition rget (x : list R) (i : nat) : R := nth i x 0.
Definition prodl (l : list R) : R := fold_right Rmult 1 l.

(* mass action, deterministic: k * prod over the reactant LIST (multiplicity by construction) *)
Definition ma_det (k : R) (rs : list nat) (x : list R) : R := k * prodl (map (rget x) rs).

(* falling factorial with the clamp of the code: prod_{j<m} max(n - j, 0) *)
Fixpoint ff (n : R) (m : nat) : R :=
  match m with O => 1 | S m' => ff n m' * Rmax (n - INR m') 0 end.

(* stochastic: k * prod over DISTINCT species of ff x_s (multiplicity of s) *)
Definition ma_stoch (k : R) (rs : list nat) (x : list R) : R :=
  k * prodl (map (fun s => ff (rget x s) (count_occ Nat.eq_dec rs s)) (nodup Nat.eq_dec rs)).

(* with a volume: order r divides by V^(r-1); order 0 multiplies by V *)
Definition vol_factor (V : R) (r : nat) : R :=
  match r with O => V | S r' => / (V ^ r') end.

Definition hill_pos (k K n s : R) : R := k * rpow (s / K) n / (1 + rpow (s / K) n).
Definition hill_neg (k K n s : R) : R := k / (1 + rpow (s / K) n).
