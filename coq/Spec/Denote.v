(* The ordinary mathematical meaning of expression trees, over the reals. *)
From Coq Require Import Reals List.
From BS Require Import Base.Arith Model.Term Model.Sympy Spec.RateLaws.
Import ListNotations.
Local Open Scope R_scope.

Definition sumR (l : list R) : R := fold_right Rplus 0 l.
Definition heaviside (a : R) : R := if Rle_dec 0 a then 1 else 0.
Definition maxl (a : R) (rest : list R) : R := fold_left Rmax rest a.
Definition minl (a : R) (rest : list R) : R := fold_left Rmin rest a.

(* node trees built by bioscrape *)
Fixpoint tden (vol : option R) (x p : list R) (t : R) (tm : term R) : R :=
  match tm with
  | TConst v => v | TSpecies i => rget x i | TParam i => rget p i
  | TVolume => match vol with Some v => v | None => 1 end
  | TTime => t
  | TSum ts => sumR (map (tden vol x p t) ts)
  | TProd ts => prodl (map (tden vol x p t) ts)
  | TMax ts => match ts with [] => 0 | a :: r => maxl (tden vol x p t a) (map (tden vol x p t) r) end
  | TMin ts => match ts with [] => 0 | a :: r => minl (tden vol x p t a) (map (tden vol x p t) r) end
  | TPow b e => rpow (tden vol x p t b) (tden vol x p t e)
  | TExp a => exp (tden vol x p t a) | TLog a => ln (tden vol x p t a)
  | TStep a => heaviside (tden vol x p t a) | TAbs a => Rabs (tden vol x p t a)
  end.

(* parsed formula trees; val gives the value of a name *)
Fixpoint sden (val : nat -> R) (s : stree R) : R :=
  match s with
  | SSymbol u st fu => val (if u then st else fu)
  | SAdd args => sumR (map (sden val) args)
  | SMul args => prodl (map (sden val) args)
  | SMax args => match args with [] => 0 | a :: r => maxl (sden val a) (map (sden val) r) end
  | SMin args => match args with [] => 0 | a :: r => minl (sden val a) (map (sden val) r) end
  | SPow b e => rpow (sden val b) (sden val e)
  | SExp a => exp (sden val a) | SLog a => ln (sden val a)
  | SHeaviside a => heaviside (sden val a) | SAbs a => Rabs (sden val a)
  | SNumber v => v
  | SOther => 0
  end.

(* the value of a name under the name rule: species, then parameter, then volume (1 when no volume is in play), then t *)
Definition valuation (E : env) (vol : option R) (x p : list R) (t : R) (name : nat) : R :=
  match pos_of (e_species E) name with
  | Some i => rget x i
  | None => match pos_of (e_params E) name with
            | Some i => rget p i
            | None => if Nat.eqb name (e_volume E) then (match vol with Some v => v | None => 1 end)
                      else if Nat.eqb name (e_time E) then t else 0
            end
  end.
