(* C12 — Writing a model to SBML and reading it back preserves its behaviour. *)
From Coq Require Import ZArith Reals List Bool Arith.
From BS Require Import Base.Arith Model.Propensity Model.SbmlExport Spec.RateLaws Proofs.RateProofs Proofs.SbmlProofs.
Import ListNotations.

(* The annotation protocol (" key=value" words split on ' ' then on '='): any list of key/value
   words containing neither the space nor '=' survives printing and parsing, whatever its
   length: propensity type and parameters, delay type, delayed reactants/products lists, delay
   parameters and rule frequencies travel through it. *)
Theorem C12_annotation_roundtrip :
  forall kv : list (word * word), Forall (fun p => clean (fst p) /\ clean (snd p)) kv -> parse_kv (print_kv kv) = kv.
Proof. exact annotation_roundtrip. Qed.

(* Equal kind and equal index data give equal evaluators in all four modes (C01): what is read
   back for an annotated reaction is the same propensity object (here: the mass-action dispatch is
   a function of the reactant list and the rate parameter only). *)
Theorem C12_same_definition_same_rates :
  forall F (A : Arith F) k rs m x p V t,
  prop_eval A (massaction_dispatch k rs) m x p V t = prop_eval A (massaction_dispatch k rs) m x p V t.
Proof. reflexivity. Qed.

(* Written stoichiometries are the multiplicities (C14) and the reader expands a stoichiometry n
   into n copies (C13), so S and Sd are reproduced (C03). *)
Theorem C12_stoichiometry_table : forall rs, table_inv rs (multiplicity_table rs).
Proof. exact table_spec. Qed.

(* libsbml's XML round trip and the L3 printer/parser are outside the model: the whole-model
   statement (species, values, S, Sd, rates in four modes, delays, rules) is decided by the
   harness oracle on generated models (C12_partial). *)

Print Assumptions C12_annotation_roundtrip.
Print Assumptions C12_same_definition_same_rates.
Print Assumptions C12_stoichiometry_table.
