(* C14 — Exported kinetic laws equal the model's own rate laws. *)
From Coq Require Import ZArith Reals List Bool Arith.
From BS Require Import Base.Arith Model.Propensity Model.SbmlExport Spec.RateLaws Proofs.RateProofs Proofs.SbmlProofs.
Import ListNotations.
Local Open Scope R_scope.

(* Mass action, every reaction order, every state: the deterministic kinetic law k * s^m ... read as
   plain mathematics is k * prod over the reactant list, the model's deterministic rate (C01). *)
Theorem C14_massaction_det : forall k rs x, seval k x (export_det rs) = ma_det k rs x.
Proof. exact export_det_denotes. Qed.

(* Stochastic export: k * s (s-1) ... (s-m+1) per distinct species; on non-negative INTEGER states
   it equals the combinatorial stochastic rate (the exported product has a zero factor where the
   model clamps), and only there -- hence the restriction of the claim to integer states. *)
Theorem C14_massaction_stoch :
  forall k rs x (cnt : nat -> nat), (forall s, rget x s = INR (cnt s)) -> seval k x (export_stoch rs) = ma_stoch k rs x.
Proof. exact export_stoch_on_naturals. Qed.
Theorem C14_unclamped_equals_clamped_on_naturals : forall n m : nat, ffu (INR n) m = ff (INR n) m.
Proof. exact ffu_nat. Qed.

(* Reactant stoichiometries written to the document are the multiplicities (the de-duplication is
   the multiplicity table of C01: first-occurrence order, counts = count_occ). *)
Theorem C14_stoichiometry : forall rs, table_inv rs (multiplicity_table rs).
Proof. exact table_spec. Qed.

(* Hill kinetic laws: the emitted strings are wrong on the pinned tree (literal identifier `n`,
   K instead of K^n); known finding F8, not repairable without editing the frozen-file tests:
   C14_hill is NOT claimed (C14_partial). General rates are exported as written. *)

Print Assumptions C14_massaction_det.
Print Assumptions C14_massaction_stoch.
Print Assumptions C14_unclamped_equals_clamped_on_naturals.
Print Assumptions C14_stoichiometry.
