(* C17 — Copies and pickles of models and results behave like the original (layout logic). *)
From Coq Require Import String List Bool Arith.
From BS Require Import Gen.Pickle Proofs.PickleProofs.
Import ListNotations.
Open Scope string_scope.

(* For ALL field values and any number of fields: if __setstate__ assigns exactly the fields of
   __getstate__, in the same order, from indices 0,1,2,... then the restored object agrees with
   the original on every saved field. *)
Theorem C17_roundtrip_generic :
  forall V (dflt : V) get set (fresh m : record V), layout_ok get set = true ->
  forall f, In f get -> restore V dflt fresh (save V m get) set f = m f.
Proof. exact roundtrip. Qed.

(* The layouts GENERATED from the current sources satisfy that hypothesis; every vector rebuilt in
   __setstate__ is rebuilt from a saved list; and no declared attribute is forgotten (each is saved,
   rebuilt, or explicitly listed as derived / transient). *)
Theorem C17_layout_model : layout_ok model_get model_set = true.
Proof. vm_compute. reflexivity. Qed.
Theorem C17_rebuilt_model : rebuilt_ok model_get model_rebuilt = true.
Proof. vm_compute. reflexivity. Qed.
Theorem C17_declared_model : declared_ok model_declared model_get model_rebuilt model_transient = true.
Proof. vm_compute. reflexivity. Qed.

Theorem C17_layout_lineage : layout_ok lineage_get_additional lineage_set = true.
Proof. vm_compute. reflexivity. Qed.
Theorem C17_lineage_split : lineage_split = length lineage_get_additional.
Proof. vm_compute. reflexivity. Qed.
Theorem C17_rebuilt_lineage : rebuilt_ok lineage_get_additional lineage_rebuilt = true.
Proof. vm_compute. reflexivity. Qed.
Theorem C17_declared_lineage : declared_ok lineage_declared lineage_get_additional lineage_rebuilt lineage_transient = true.
Proof. vm_compute. reflexivity. Qed.

(* The pickle protocol, Cython's auto-pickle of propensities / terms / rules / delays, the classes that
   rely on default reduction, independence of the copy and seeded-simulation equality are decided by
   the behavioural run of the harness (C17_partial). *)

Print Assumptions C17_roundtrip_generic.
Print Assumptions C17_layout_model.
Print Assumptions C17_declared_model.
Print Assumptions C17_layout_lineage.
Print Assumptions C17_lineage_split.
Print Assumptions C17_declared_lineage.
