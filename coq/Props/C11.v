(* C11 — Volume-aware simulation scales rates with volume and tracks growth and division. *)
From Coq Require Import ZArith Reals List Bool Arith Sorted.
From BS Require Import Base.Arith Model.Term Model.Propensity Model.Interface Model.Rules Model.Random Model.SSA
                       Spec.RateLaws Proofs.RateProofs Proofs.VolumeProofs Proofs.VolumeRun Proofs.DvClock Model.Queue.
Import ListNotations.
Local Open Scope R_scope.

(* One iteration (any arithmetic, stream, network, volume model): the volume trace is extended by
   the CURRENT volume for each row recorded; the volume changes only in a volume-step iteration,
   by the model's step evaluated on the rule-updated state; the divided flag is the model's test
   after that step; a divided iteration ends the run (no further rows). *)
Theorem C11_iteration_volume :
  forall F (A : Arith F) (s : sim F) vm u st st' tnext todo,
  vs_todo st = tnext :: todo -> vssa_iter A s vm u st = Done st' ->
  (exists k, vs_vols st' = vs_vols st ++ repeat (vs_V st) k /\ length (vs_rows st') = (length (vs_rows st) + k)%nat) /\
  (vs_V st' = vs_V st \/
   exists x1 p1, (x1, p1) = apply_rules A (sm_rules s) (Some (vs_V st)) (vs_x st, vs_p st) (vs_time st) (sm_dt s) (vs_rule_step st) /\
                 vs_V st' = fadd A (vs_V st) (vol_step A vm x1 p1 (vs_time st') (vs_V st) (sm_dt s)) /\
                 vs_divided st' = vol_divided A vm (vs_time st') (vs_V st') (sm_dt s)) /\
  (vs_divided st' = true -> vs_todo st' = []) /\
  (vs_V st' = vs_V st -> vs_divided st' = false \/ vs_divided st' = vol_divided A vm (vs_time st') (vs_V st') (sm_dt s)).
Proof. exact @vssa_iter_volume. Qed.

(* constant volume: the base Volume never changes and never divides; the iteration's propensities
   are the StochVol evaluators at that V, i.e. (C01) the volume-scaled closed forms *)
Theorem C11_constant_volume :
  forall x p t V dt, (V + vol_step ArithR (VBase (F:=R)) x p t V dt = V) /\ vol_divided ArithR (VBase (F:=R)) t V dt = false.
Proof. exact base_volume_constant. Qed.
Theorem C11_scaled_rates :
  forall k rs x p V t, nonneg x -> 0 < V ->
  prop_eval ArithR (massaction_dispatch k rs) StochVol x p V t = ma_stoch (rget p k) rs x * vol_factor V (length rs).
Proof. intros k rs x p V t Hx HV. destruct (massaction_closed_forms k rs x p V t Hx HV) as (_ & _ & _ & H). exact H. Qed.

(* growth: each volume step multiplies by exp(g dt); after j steps V0 exp(g dt j); positive and
   non-decreasing *)
Theorem C11_growth_step : forall g dtime x p t V dt, V + vol_step ArithR (VTimeThreshold g dtime) x p t V dt = V * exp (g * dt).
Proof. exact growth_step. Qed.
Theorem C11_growth_law : forall V g dt j, grow V g dt j = V * exp (g * dt * INR j).
Proof. exact growth_law. Qed.
Theorem C11_growth_positive_monotone : forall g dt V, 0 < V -> 0 <= g * dt -> 0 < V * exp (g * dt) /\ V <= V * exp (g * dt).
Proof. exact growth_positive_monotone. Qed.

(* division tests *)
Theorem C11_threshold_division : forall g dtime t V dt, vol_divided ArithR (VTimeThreshold g dtime) t V dt = true <-> t - dt < dtime <= t.
Proof. exact threshold_division. Qed.
Theorem C11_state_dependent_division : forall (gr : Term.term R) dv t V dt, vol_divided ArithR (VStateDep gr dv) t V dt = true <-> dv < V.
Proof. exact state_dependent_division. Qed.

(* Whole run with exponential growth (reals; every network incl. rules, fuel, sorted grid not before t0, positive dt,
   uniforms in (0,1], non-negative propensities): every reported volume is V0 * exp(g dt)^j for the whole number j
   of volume steps with  t0 + j dt <= (grid time it is reported for) <= t0 + (j+1) dt  -- the growth law to within
   one time step; all requested times are reported unless the cell divided. *)
Theorem C11_whole_run_growth :
  forall (s : sim R) g dtime V0 (u : nat -> R), 0 < sm_dt s -> (forall n, 0 < u n <= 1) ->
  (forall x p V t, 0 <= array_sum ArithR (stoch_props ArithR s StochVol x p V t)) ->
  forall ts fuel pos st, StronglySorted Rle ts -> Forall (fun t => sm_t0 s <= t) ts ->
  vssa_simulate ArithR fuel s (VTimeThreshold g dtime) V0 ts u pos = Done st ->
  exists done rest, ts = done ++ rest /\
    Forall2 (fun T v => exists j : nat, v = V0 * exp (g * sm_dt s * INR j) /\
                         sm_t0 s + INR j * sm_dt s <= T <= sm_t0 s + INR (S j) * sm_dt s) done (vs_vols st) /\
    (rest = [] \/ vs_divided st = true).
Proof. exact volume_run_closed. Qed.
(* The same for the delay + volume loop (DelayVolumeSSASimulator), with the delay queue as a third source of stops: any queue whose clock
   is not behind the initial time and whose step is not negative. *)
Theorem C11_delay_volume_whole_run_growth :
  forall (s : sim R) g dtime V0 pi2 gfuel (u : nat -> R), 0 < sm_dt s -> (forall n, 0 < u n <= 1) ->
  (forall x p V t, 0 <= array_sum ArithR (stoch_props ArithR s StochVol x p V t)) ->
  forall ts fuel pos q st, StronglySorted Rle ts -> Forall (fun t => sm_t0 s <= t) ts ->
  sm_t0 s <= q_next_time q -> 0 <= q_dt q ->
  dvssa_simulate ArithR pi2 fuel gfuel s (VTimeThreshold g dtime) V0 q ts u pos = Done st ->
  exists done rest, ts = done ++ rest /\
    Forall2 (fun T v => exists j : nat, v = V0 * exp (g * sm_dt s * INR j) /\
                         sm_t0 s + INR j * sm_dt s <= T <= sm_t0 s + INR (S j) * sm_dt s) done (dv_vols st) /\
    (rest = [] \/ dv_divided st = true).
Proof. exact delay_volume_run_closed. Qed.
(* the hypothesis on the propensities holds for every model run through the safe interface *)
Theorem C11_safe_propensities_nonneg :
  forall (s : sim R), sm_safe s = true -> forall x p V t, 0 <= array_sum ArithR (stoch_props ArithR s StochVol x p V t).
Proof. exact safe_props_nonneg. Qed.

(* Not mechanised (C11_partial): state-dependent growth over whole runs, and the distributional statement for
   constant volume. *)

Print Assumptions C11_iteration_volume.
Print Assumptions C11_constant_volume.
Print Assumptions C11_scaled_rates.
Print Assumptions C11_growth_step.
Print Assumptions C11_growth_law.
Print Assumptions C11_growth_positive_monotone.
Print Assumptions C11_threshold_division.
Print Assumptions C11_state_dependent_division.
Print Assumptions C11_whole_run_growth.
Print Assumptions C11_delay_volume_whole_run_growth.
Print Assumptions C11_safe_propensities_nonneg.
