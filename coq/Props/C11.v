(* C11 — Volume-aware simulation scales rates with volume and tracks growth and division. *)
From Coq Require Import ZArith Reals List Bool Arith.
From BS Require Import Base.Arith Model.Term Model.Propensity Model.Interface Model.Rules Model.Random Model.SSA
                       Spec.RateLaws Proofs.RateProofs Proofs.VolumeProofs.
Import ListNotations.
Local Open Scope R_scope.

(* One iteration (any arithmetic, stream, network, volume model): the volume trace is extended by
   the CURRENT volume for each row recorded; the volume changes only in a volume-step iteration,
   by the model's step evaluated on the rule-updated state; the divided flag is the model's test
   after that step; a divided iteration ends the run (no further rows). *)
Theorem C11_iteration_volume :
  forall F (A : Arith F) (s : sim F) vm u st st' tnext todo,
  vs_todo st = tnext :: todo -> vssa_iter A s vm u st = Done st' ->
  (exists k, vs_vols st' = vs_vols st ++ repeat (vs_V st) k /\ length (vs_rows st') = (length (vs_rows st) + k)%nat) /\
  (vs_V st' = vs_V st \/
   exists x1 p1, (x1, p1) = apply_rules A (sm_rules s) (Some (vs_V st)) (vs_x st, vs_p st) (vs_time st) (sm_dt s) (vs_rule_step st) /\
                 vs_V st' = fadd A (vs_V st) (vol_step A vm x1 p1 (vs_time st') (vs_V st) (sm_dt s)) /\
                 vs_divided st' = vol_divided A vm (vs_time st') (vs_V st') (sm_dt s)) /\
  (vs_divided st' = true -> vs_todo st' = []) /\
  (vs_V st' = vs_V st -> vs_divided st' = false \/ vs_divided st' = vol_divided A vm (vs_time st') (vs_V st') (sm_dt s)).
Proof. exact @vssa_iter_volume. Qed.

(* constant volume: the base Volume never changes and never divides; the iteration's propensities
   are the StochVol evaluators at that V, i.e. (C01) the volume-scaled closed forms *)
Theorem C11_constant_volume :
  forall x p t V dt, (V + vol_step ArithR (VBase (F:=R)) x p t V dt = V) /\ vol_divided ArithR (VBase (F:=R)) t V dt = false.
Proof. exact base_volume_constant. Qed.
Theorem C11_scaled_rates :
  forall k rs x p V t, nonneg x -> 0 < V ->
  prop_eval ArithR (massaction_dispatch k rs) StochVol x p V t = ma_stoch (rget p k) rs x * vol_factor V (length rs).
Proof. intros k rs x p V t Hx HV. destruct (massaction_closed_forms k rs x p V t Hx HV) as (_ & _ & _ & H). exact H. Qed.

(* growth: each volume step multiplies by exp(g dt); after j steps V0 exp(g dt j); positive and
   non-decreasing *)
Theorem C11_growth_step : forall g dtime x p t V dt, V + vol_step ArithR (VTimeThreshold g dtime) x p t V dt = V * exp (g * dt).
Proof. exact growth_step. Qed.
Theorem C11_growth_law : forall V g dt j, grow V g dt j = V * exp (g * dt * INR j).
Proof. exact growth_law. Qed.
Theorem C11_growth_positive_monotone : forall g dt V, 0 < V -> 0 <= g * dt -> 0 < V * exp (g * dt) /\ V <= V * exp (g * dt).
Proof. exact growth_positive_monotone. Qed.

(* division tests *)
Theorem C11_threshold_division : forall g dtime t V dt, vol_divided ArithR (VTimeThreshold g dtime) t V dt = true <-> t - dt < dtime <= t.
Proof. exact threshold_division. Qed.
Theorem C11_state_dependent_division : forall (gr : Term.term R) dv t V dt, vol_divided ArithR (VStateDep gr dv) t V dt = true <-> dv < V.
Proof. exact state_dependent_division. Qed.

(* Not mechanised (C11_partial): the count of volume steps taken before row k (hence "within one
   time step of the growth law") and the distributional statement for constant volume. *)

Print Assumptions C11_iteration_volume.
Print Assumptions C11_constant_volume.
Print Assumptions C11_scaled_rates.
Print Assumptions C11_growth_step.
Print Assumptions C11_growth_law.
Print Assumptions C11_growth_positive_monotone.
Print Assumptions C11_threshold_division.
Print Assumptions C11_state_dependent_division.
