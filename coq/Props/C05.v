(* C05 — Stochastic simulation samples the chemical master equation exactly (kernel level). *)
From Coq Require Import ZArith QArith Reals List Bool Arith.
From BS Require Import Base.Arith Model.Random Model.SSA Proofs.SelectProofs Proofs.BuilderProofs Proofs.SSAProofs.
Import ListNotations.
Local Open Scope R_scope.

(* Next reaction: for any number of reactions with non-negative propensities and positive total,
   and u in (0,1], sample_discrete returns an index in range whose propensity is positive and
   whose bracket (prefix_j/Lambda, prefix_{j+1}/Lambda] contains u; the bracket has length
   a_j / Lambda: the reaction is chosen with probability proportional to its propensity. *)
Theorem C05_select_interval :
  forall data u0, Forall (fun v => 0 <= v) data -> 0 < sumR data -> 0 < u0 <= 1 ->
  let Lambda := sumR data in
  let j := sd_scan ArithR data (u0 * Lambda) 0 0 in
  exists k : nat, j = Z.of_nat k /\ (k < length data)%nat /\ 0 < nth k data 0 /\
    prefix data k / Lambda < u0 <= prefix data (S k) / Lambda /\
    prefix data (S k) / Lambda - prefix data k / Lambda = nth k data 0 / Lambda.
Proof. exact select_interval. Qed.

Theorem C05_total_is_sum : forall data, array_sum ArithR data = sumR data.
Proof. exact array_sum_R. Qed.

(* Waiting time: -(1/Lambda) ln u exceeds tau exactly when u < exp(-Lambda tau): under a uniform
   u the waiting time is exponential with rate the total propensity.  Memorylessness justifies
   discarding a proposed time that overshoots the next grid point and drawing afresh. *)
Theorem C05_waiting_time :
  forall Lambda tau u0, 0 < Lambda -> 0 < u0 -> (tau < -1 / Lambda * ln u0 <-> u0 < exp (- Lambda * tau)).
Proof. exact waiting_time. Qed.
Theorem C05_waiting_time_is_model :
  forall Lambda u pos, fst (exponential_rv ArithR Lambda u pos) = -1 / Lambda * ln (u pos) /\
                       snd (exponential_rv ArithR Lambda u pos) = S pos.
Proof. exact exponential_rv_R. Qed.
Theorem C05_memoryless :
  forall Lambda a b, exp (- Lambda * (a + b)) = exp (- Lambda * a) * exp (- Lambda * b).
Proof. exact memoryless. Qed.

(* Rows are the states reached by the events that precede them: the loop structure theorem is
   C06_rows_are_paths (same loop); here its restatement for this property. *)
Theorem C05_rows_follow_events :
  forall F (A : Arith F) (s : sim F), sm_rules s = [] ->
  forall fuel ts u pos st, ssa_simulate A fuel s ts u pos = Done st -> chain A s (sm_x0 s) (ss_rows st).
Proof. exact @ssa_rows_are_paths. Qed.

(* C05_distribution_partial: the passage from "every iteration realises the CME jump kernel and
   restarts are memoryless" to "the joint law of the reported rows solves the CME" needs a
   probability space over streams and is not mechanised. *)

Print Assumptions C05_select_interval.
Print Assumptions C05_total_is_sum.
Print Assumptions C05_waiting_time.
Print Assumptions C05_waiting_time_is_model.
Print Assumptions C05_memoryless.
Print Assumptions C05_rows_follow_events.
