(* C20 — The delay queue delivers each entry once, in order, at the nearest grid time.
   Only statements, closed by [exact], and Print Assumptions. *)
From Coq Require Import ZArith QArith List Bool Reals Arith.
From BS Require Import Base.Arith Base.CyPrelude Model.Queue Proofs.QueueProofs Proofs.QueueHistory Proofs.QueueReal
                       Gen.QueueGen Proofs.TieQueue.
Import ListNotations.

(* Refinement of the ring buffer to the "pending at offset" table: any time arithmetic
   (so also the doubles that are run), any amount monoid. *)
Theorem C20_refinement_add :
  forall F (A : Arith F) M (mzero : M) (madd : M -> M -> M) (q : queue F M) time r a q' off r',
  wfq q -> q_add A madd q time r a = Some q' -> (off < q_ncols q)%nat ->
  q_pending mzero q' off r' =
    if Nat.eqb off (q_offset A q time) && Nat.eqb r' r then madd (q_pending mzero q off r') a
    else q_pending mzero q off r'.
Proof. exact @pending_add. Qed.

Theorem C20_refinement_read :
  forall F M (mzero : M) (q : queue F M) r, wfq q -> (r < length (q_cells q))%nat ->
  nth r (q_peek mzero q) mzero = q_pending mzero q 0 r.
Proof. exact @peek_is_pending0. Qed.

Theorem C20_refinement_advance :
  forall F (A : Arith F) M (mzero : M) (q : queue F M) off r,
  wfq q -> (r < length (q_cells q))%nat -> (off < q_ncols q)%nat ->
  q_pending mzero (q_advance A mzero q) off r =
    if Nat.eqb off (q_ncols q - 1) then mzero else q_pending mzero q (S off) r.
Proof. exact @pending_advance. Qed.

(* Every interleaving of adds and read-and-advance, any length, any start time, any number
   of reactions and slots: exactly once, at the scheduled slot. *)
Theorem C20_exactly_once :
  forall F (A : Arith F) nrx ncols dt t0 (ops : list (qop (F:=F))) ds qf,
  (0 < ncols)%nat ->
  let q := q_make A (@nil nat) nrx ncols dt t0 in
  qrun A q ops = Some (ds, qf) ->
  length ds = npops ops /\
  (forall n r, (n < npops ops)%nat -> (r < nrx)%nat -> nth r (nth n ds []) [] = ids n r (schedule A q ops)) /\
  (forall off r, (off < ncols)%nat -> (r < nrx)%nat ->
      q_pending [] qf off r = ids (npops ops + off) r (schedule A q ops)) /\
  (NoDup (map snd (schedule A q ops)) ->
     forall n r id, In (n, r, id) (schedule A q ops) ->
       (forall n' r', (n' < npops ops)%nat -> (r' < nrx)%nat ->
          (In id (nth r' (nth n' ds []) []) <-> n' = n /\ r' = r) /\ NoDup (nth r' (nth n' ds []) [])) /\
       (forall off r', (off < ncols)%nat -> (r' < nrx)%nat ->
          (In id (q_pending [] qf off r') <-> (npops ops + off)%nat = n /\ r' = r) /\ NoDup (q_pending [] qf off r'))).
Proof. exact @exactly_once. Qed.

(* Same, from any well-formed (non-empty) queue: what was pending is delivered first. *)
Theorem C20_history_general :
  forall F (A : Arith F) (ops : list (qop (F:=F))) (q : queue F (list nat)) ds qf,
  wfq q -> qrun A q ops = Some (ds, qf) ->
  length ds = npops ops /\ wfq qf /\ length (q_cells qf) = length (q_cells q) /\
  q_ncols qf = q_ncols q /\
  (forall n r, (n < length ds)%nat -> (r < length (q_cells q))%nat ->
     nth r (nth n ds []) [] = pending0 q n r ++ ids n r (schedule A q ops)) /\
  (forall off r, (off < q_ncols q)%nat -> (r < length (q_cells q))%nat ->
     q_pending [] qf off r = pending0 q (npops ops + off) r ++ ids (npops ops + off) r (schedule A q ops)).
Proof. exact @qrun_characterised. Qed.

(* Slots are delivered in increasing time order: the n-th read is at clock next dt n. *)
Theorem C20_in_order :
  forall F (A : Arith F) (ops : list (qop (F:=F))) (q : queue F (list nat)) n,
  (n < npops ops)%nat -> nth_error (read_times A q ops) n = Some (clock A (q_next q) (q_dt q) n).
Proof. exact @read_times_in_order. Qed.

(* Nearest grid time, clamped to the window (over the reals). *)
Theorem C20_nearest :
  forall M (q : queue R M) time, (0 < q_ncols q)%nat -> (0 < q_dt q)%R ->
  let j := q_offset ArithR q time in
  ((time < q_next q)%R -> j = 0%nat) /\
  ((q_next q <= time)%R -> (time <= slot_time q (q_ncols q - 1))%R ->
     (slot_time q j - q_dt q / 2 <= time < slot_time q j + q_dt q / 2)%R) /\
  ((slot_time q (q_ncols q - 1) < time)%R -> j = (q_ncols q - 1)%nat).
Proof. exact @nearest_slot. Qed.

(* Binomial partition conserves every cell, whatever the stream; copy is the identity on
   the abstract table (q_copy q = q by definition of the model; independence of the copy is
   a store property checked on the implementation by the correspondence run). *)
Theorem C20_partition :
  forall (q : queue R R) p u pos qa qb pos',
  wfq q -> q_partition ArithR q p u pos = (qa, qb, pos') ->
  q_ncols qa = q_ncols q /\ q_ncols qb = q_ncols q /\
  q_start qa = q_start q /\ q_start qb = q_start q /\
  q_next qa = q_next q /\ q_next qb = q_next q /\ q_dt qa = q_dt q /\ q_dt qb = q_dt q /\
  forall off r, (off < q_ncols q)%nat -> (r < length (q_cells q))%nat ->
    (q_pending 0 qa off r + q_pending 0 qb off r = q_pending 0 q off r)%R.
Proof. exact partition_conserves. Qed.

Theorem C20_copy : forall F M (q : queue F M), q_copy q = q.
Proof. reflexivity. Qed.

(* Non-vacuity: a concrete history at exact rational arithmetic, 2 reactions, 3 slots,
   dt = 1/2, with a wrap of the ring, an add in the past and one beyond the horizon. *)
Example C20_example :
  let ops := [OAdd (7#4)%Q 0 1; OAdd (-1)%Q 1 2; OPop; OAdd (100)%Q 0 3; OPop; OPop; OAdd (17#8)%Q 1 4; OPop]%nat in
  match qrun ArithQ (q_make ArithQ [] 2 3 (1#2)%Q 0%Q) ops with
  | Some (ds, qf) => ds = [[[]; [2]]; [[]; []]; [[1]; []]; [[3]; [4]]]%nat
  | None => False
  end.
Proof. vm_compute. reflexivity. Qed.

(* ---- Tie to the CURRENT source: the methods of ArrayDelayQueue regenerated from bioscrape/simulator.pyx on this run
   (Gen/QueueGen.v, tools/tr_queue.py) simulate the hand model step for step, for ANY arithmetic and ANY history of
   add_reaction / read-and-advance / set_current_time: the abstraction (cells, num_cols, start_index, next_queue_time, dt)
   of the object the source's methods produce is the state the model reaches, and every delivery vector is the model's.
   The refinement / exactly-once / in-order / nearest-slot theorems above therefore speak about what the source says now
   (cells are doubles there: amount monoid (F, 0, +)); an edit of one of the five methods changes the generated term and
   breaks the corresponding lemma of Proofs/TieQueue.v.  copy / clear_copy / binomial_partition (numpy object construction)
   are not translated: they stay with the correspondence run. *)
Theorem C20_source_methods :
  forall F (A : Arith F) (o : @ArrayDelayQueue_obj F),
  (forall t, q_abs (gen_ArrayDelayQueue_set_current_time A o t) = q_set_time A (q_abs o) t) /\
  gen_ArrayDelayQueue_get_next_queue_time A o = q_next_time (q_abs o) /\
  (forall time r a q', (0 < ArrayDelayQueue_num_cols o)%nat ->
     q_add A (fadd A) (q_abs o) time r a = Some q' -> q_abs (gen_ArrayDelayQueue_add_reaction A o time r a) = q') /\
  (forall arr, wf_obj o -> length arr = ArrayDelayQueue_num_reactions o ->
     gen_ArrayDelayQueue_get_next_reactions A o arr = q_peek (fofZ A 0%Z) (q_abs o)) /\
  (wf_obj o -> q_abs (gen_ArrayDelayQueue_advance_time A o) = q_advance A (fofZ A 0%Z) (q_abs o)).
Proof. exact @source_methods. Qed.

Theorem C20_source_history :
  forall F (A : Arith F) ops (o : @ArrayDelayQueue_obj F) q' ds,
  wf_obj o -> (0 < ArrayDelayQueue_num_cols o)%nat ->
  hand_run A (q_abs o) ops = Some (q', ds) ->
  q_abs (fst (gen_run A o ops)) = q' /\ snd (gen_run A o ops) = ds /\ wf_obj (fst (gen_run A o ops)).
Proof. exact @tie_history. Qed.

(* Non-vacuity: the source's own methods on a ring of 3 slots (dt = 1/2), through the wrap, with an add in the past and
   one beyond the horizon: deliveries per read, at exact rationals. *)
Example C20_source_example :
  let o := @mk_ArrayDelayQueue Q (1#2)%Q (1#2)%Q 3 2 [[0;0;0];[0;0;0]]%Q 0 in
  snd (gen_run ArithQ o [GAdd (7#4)%Q 0 1%Q; GAdd (-1)%Q 1 2%Q; GPop; GAdd 100%Q 0 3%Q; GPop; GPop; GAdd (17#8)%Q 1 4%Q; GPop]%nat)
  = [[0; 2]; [0; 0]; [1; 0]; [3; 4]]%Q.
Proof. vm_compute. reflexivity. Qed.

Print Assumptions C20_refinement_add.
Print Assumptions C20_refinement_read.
Print Assumptions C20_refinement_advance.
Print Assumptions C20_exactly_once.
Print Assumptions C20_history_general.
Print Assumptions C20_in_order.
Print Assumptions C20_nearest.
Print Assumptions C20_partition.
Print Assumptions C20_copy.
Print Assumptions C20_source_methods.
Print Assumptions C20_source_history.
