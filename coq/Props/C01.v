(* C01 — Built-in rate laws equal their documented closed forms.
   Only statements, closed by [exact], and Print Assumptions. *)
From Coq Require Import ZArith QArith Reals List Bool Arith.
From BS Require Import Base.Arith Model.Term Model.Propensity Model.Interface Spec.RateLaws
                       Proofs.RateProofs Proofs.InterfaceProofs
                       Base.CyPrelude Gen.PropensityGen Proofs.TiePropensity Proofs.TieRate Gen.IfaceGen Proofs.TieIface.
Import ListNotations.
Local Open Scope R_scope.

(* Mass action through create_propensity's dispatch (constitutive / uni / bi / general class),
   EVERY reactant list (no bound on the order), every non-negative state, every V > 0, all
   four modes.  ma_det: k * prod over the list; ma_stoch: k * prod over distinct species of the
   clamped falling factorial; volume: / V^(r-1), order 0: * V. *)
Theorem C01_massaction :
  forall k rs x p V t, nonneg x -> 0 < V ->
  prop_eval ArithR (massaction_dispatch k rs) Det x p V t = ma_det (rget p k) rs x /\
  prop_eval ArithR (massaction_dispatch k rs) Vol x p V t = ma_det (rget p k) rs x * vol_factor V (length rs) /\
  prop_eval ArithR (massaction_dispatch k rs) Stoch x p V t = ma_stoch (rget p k) rs x /\
  prop_eval ArithR (massaction_dispatch k rs) StochVol x p V t = ma_stoch (rget p k) rs x * vol_factor V (length rs).
Proof. exact massaction_closed_forms. Qed.

(* the falling factorial is what it is called *)
Theorem C01_ff_zero : forall n m : nat, (n < m)%nat -> ff (INR n) m = 0.
Proof. exact ff_zero. Qed.
Theorem C01_ff_factorial : forall n m : nat, (m <= n)%nat -> ff (INR n) m * INR (fact (n - m)) = INR (fact n).
Proof. exact ff_factorial. Qed.
Theorem C01_stoch_zero_when_short :
  forall k rs x s (n : nat), In s rs -> rget x s = INR n -> (n < count_occ Nat.eq_dec rs s)%nat ->
  ma_stoch k rs x = 0.
Proof. exact massaction_stoch_zero_when_short. Qed.

(* Hill family: 4 kinds x 4 modes (stochastic = deterministic by the inherited default). *)
Theorem C01_hill :
  forall k K n s d x p V t,
  let X := rget x s in let D := rget x d in
  let kk := rget p k in let KK := rget p K in let nn := rget p n in
  0 < V -> 1 + rpow (X / KK) nn <> 0 -> 1 + rpow (X / V / KK) nn <> 0 ->
  (forall m, (m = Det \/ m = Stoch) ->
     prop_eval ArithR (PHillPos k K n s) m x p V t = hill_pos kk KK nn X /\
     prop_eval ArithR (PHillNeg k K n s) m x p V t = hill_neg kk KK nn X /\
     prop_eval ArithR (PPropHillPos k K n s d) m x p V t = D * hill_pos kk KK nn X /\
     prop_eval ArithR (PPropHillNeg k K n s d) m x p V t = D * hill_neg kk KK nn X) /\
  (forall m, (m = Vol \/ m = StochVol) ->
     prop_eval ArithR (PHillPos k K n s) m x p V t = hill_pos kk KK nn (X / V) /\
     prop_eval ArithR (PHillNeg k K n s) m x p V t = hill_neg kk KK nn (X / V) /\
     prop_eval ArithR (PPropHillPos k K n s d) m x p V t = D * hill_pos kk KK nn (X / V) /\
     prop_eval ArithR (PPropHillNeg k K n s d) m x p V t = D * hill_neg kk KK nn (X / V)).
Proof. exact hill_closed_forms. Qed.

(* Interfaces (any arithmetic): the plain interface reports each reaction's evaluator; the safe
   interface reports 0 for an under-supplied reaction and the (clipped) evaluator otherwise. *)
Theorem C01_interface_plain :
  forall F (A : Arith F) (si : simif F) m x V t r d pd, (r < length (si_props si))%nat ->
  nth r (compute_plain A si m x V t) d = prop_eval A (nth r (si_props si) pd) m x (si_params si) V t.
Proof. exact @plain_nth. Qed.

Theorem C01_interface_safe :
  forall F (A : Arith F) (si : simif F) m x V t r d pd, (r < length (si_props si))%nat ->
  nth r (compute_safe A si m x V t) d =
    let raw := prop_eval A (nth r (si_props si) pd) m x (si_params si) V t in
    match m with
    | Vol => raw
    | Det => clip A raw
    | Stoch | StochVol => if short A x (need_row si r) then f0 A else clip A raw
    end.
Proof. exact @safe_nth. Qed.

Theorem C01_safe_short :
  forall F (A : Arith F) x row, short A x row = true <->
  exists s a, In (s, a) row /\ fltb A (getv A x s) (fofZ A a) = true.
Proof. exact @short_spec. Qed.

Theorem C01_safe_scan_in_bounds :
  forall F (si : simif F) r, (length (need_row si r) <= si_nspecies si)%nat.
Proof. exact @need_row_length. Qed.

(* Non-vacuity: G + 2A -> ..., k = 2, (G, A) = (3, 5): 150 deterministic (the witness of the
   repaired defect F1: the pinned tree returned 30), 2*3*5*4 = 120 stochastic; V = 2. *)
Example C01_example :
  let pr := @massaction_dispatch Q 0 [0; 1; 1]%nat in
  let x := [3; 5]%Q in let p := [2]%Q in
  (prop_eval ArithQ pr Det x p 2%Q 0%Q, prop_eval ArithQ pr Stoch x p 2%Q 0%Q,
   prop_eval ArithQ pr Vol x p 2%Q 0%Q, prop_eval ArithQ pr StochVol x p 2%Q 0%Q)
  = (150, 120, 75 # 2, 30)%Q.
Proof. vm_compute. reflexivity. Qed.

(* ---- The same statements about the definitions REGENERATED from bioscrape/types.pyx on this run (Gen/PropensityGen.v,
   written by tools/tr_propensity.py): each class's four evaluators, resolved through the inheritance chain as a virtual
   call is, equal the hand model's prop_eval for ANY arithmetic (so the bit-exact correspondence of the hand model at
   doubles and the theorems over R are about one and the same term) ... *)
Theorem C01_source_tie :
  forall F (A : Arith F) m x p V t,
  (forall o, gen_Constitutive A o m x p V t = prop_eval A (PConst (ConstitutivePropensity_rate_index o)) m x p V t) /\
  (forall o, gen_Unimolecular A o m x p V t =
             prop_eval A (PUni (UnimolecularPropensity_rate_index o) (UnimolecularPropensity_species_index o)) m x p V t) /\
  (forall o, gen_Bimolecular A o m x p V t =
             prop_eval A (PBi (BimolecularPropensity_rate_index o) (BimolecularPropensity_s1_index o) (BimolecularPropensity_s2_index o)) m x p V t) /\
  (forall o, gen_PositiveHill A o m x p V t =
             prop_eval A (PHillPos (PositiveHillPropensity_rate_index o) (PositiveHillPropensity_K_index o) (PositiveHillPropensity_n_index o)
                                   (PositiveHillPropensity_s1_index o)) m x p V t) /\
  (forall o, gen_PositiveProportionalHill A o m x p V t =
             prop_eval A (PPropHillPos (PositiveProportionalHillPropensity_rate_index o) (PositiveProportionalHillPropensity_K_index o)
                                       (PositiveProportionalHillPropensity_n_index o) (PositiveProportionalHillPropensity_s1_index o)
                                       (PositiveProportionalHillPropensity_d_index o)) m x p V t) /\
  (forall o, gen_NegativeHill A o m x p V t =
             prop_eval A (PHillNeg (NegativeHillPropensity_rate_index o) (NegativeHillPropensity_K_index o) (NegativeHillPropensity_n_index o)
                                   (NegativeHillPropensity_s1_index o)) m x p V t) /\
  (forall o, gen_NegativeProportionalHill A o m x p V t =
             prop_eval A (PPropHillNeg (NegativeProportionalHillPropensity_rate_index o) (NegativeProportionalHillPropensity_K_index o)
                                       (NegativeProportionalHillPropensity_n_index o) (NegativeProportionalHillPropensity_s1_index o)
                                       (NegativeProportionalHillPropensity_d_index o)) m x p V t) /\
  (forall o, MassActionPropensity_num_species o = num_species (MassActionPropensity_sp_counts o) ->
             gen_MassAction A o m x p V t =
             prop_eval A (PMass (MassActionPropensity_k_index o) (MassActionPropensity_sp_inds o) (MassActionPropensity_sp_counts o)) m x p V t).
Proof. exact @source_tie_all. Qed.

(* ... hence the closed forms hold of the source's own evaluators: mass action of ANY order through the dispatch ... *)
Theorem C01_source_massaction :
  forall k rs x p V t, nonneg x -> 0 < V ->
  gen_massaction_dispatch ArithR k rs Det x p V t = ma_det (rget p k) rs x /\
  gen_massaction_dispatch ArithR k rs Vol x p V t = ma_det (rget p k) rs x * vol_factor V (length rs) /\
  gen_massaction_dispatch ArithR k rs Stoch x p V t = ma_stoch (rget p k) rs x /\
  gen_massaction_dispatch ArithR k rs StochVol x p V t = ma_stoch (rget p k) rs x * vol_factor V (length rs).
Proof. exact source_massaction_closed_forms. Qed.

(* ... and the Hill family (an object of a generated class is the record of its index attributes) *)
Theorem C01_source_hill :
  forall k K n s d x p V t,
  let X := rget x s in let D := rget x d in
  let kk := rget p k in let KK := rget p K in let nn := rget p n in
  let oP := {| PositiveHillPropensity_rate_index := k; PositiveHillPropensity_K_index := K; PositiveHillPropensity_n_index := n; PositiveHillPropensity_s1_index := s |} in
  let oN := {| NegativeHillPropensity_rate_index := k; NegativeHillPropensity_K_index := K; NegativeHillPropensity_n_index := n; NegativeHillPropensity_s1_index := s |} in
  let oPP := {| PositiveProportionalHillPropensity_rate_index := k; PositiveProportionalHillPropensity_K_index := K; PositiveProportionalHillPropensity_n_index := n;
                PositiveProportionalHillPropensity_s1_index := s; PositiveProportionalHillPropensity_d_index := d |} in
  let oNP := {| NegativeProportionalHillPropensity_rate_index := k; NegativeProportionalHillPropensity_K_index := K; NegativeProportionalHillPropensity_n_index := n;
                NegativeProportionalHillPropensity_s1_index := s; NegativeProportionalHillPropensity_d_index := d |} in
  0 < V -> 1 + rpow (X / KK) nn <> 0 -> 1 + rpow (X / V / KK) nn <> 0 ->
  (forall m, (m = Det \/ m = Stoch) ->
     gen_PositiveHill ArithR oP m x p V t = hill_pos kk KK nn X /\
     gen_NegativeHill ArithR oN m x p V t = hill_neg kk KK nn X /\
     gen_PositiveProportionalHill ArithR oPP m x p V t = D * hill_pos kk KK nn X /\
     gen_NegativeProportionalHill ArithR oNP m x p V t = D * hill_neg kk KK nn X) /\
  (forall m, (m = Vol \/ m = StochVol) ->
     gen_PositiveHill ArithR oP m x p V t = hill_pos kk KK nn (X / V) /\
     gen_NegativeHill ArithR oN m x p V t = hill_neg kk KK nn (X / V) /\
     gen_PositiveProportionalHill ArithR oPP m x p V t = D * hill_pos kk KK nn (X / V) /\
     gen_NegativeProportionalHill ArithR oNP m x p V t = D * hill_neg kk KK nn (X / V)).
Proof. exact source_hill_closed_forms. Qed.

(* ... and the plain interface's four per-reaction loops (ModelCSimInterface.compute_*propensities) regenerated from simulator.pyx
   (Gen/IfaceGen.v, tools/tr_iface.py): with the virtual call on the r-th propensity object instantiated, BY METHOD NAME (oracle3 / oracle4:
   get_propensity -> Det, get_volume_propensity -> Vol, get_stochastic_propensity -> Stoch, get_stochastic_volume_propensity -> StochVol), by the
   model's evaluator of the r-th propensity, each loop overwrites the caller's array with the hand model's compute_plain, whatever the array held. *)
Theorem C01_source_interface_plain :
  forall F (A : Arith F) (si : simif F) (x dest : list F) (V t : F),
  length dest = length (si_props si) ->
  gen_ModelCSimInterface_compute_propensities (oracle3 A si V) A (iface_obj si) x dest t = compute_plain A si Det x V t /\
  gen_ModelCSimInterface_compute_volume_propensities (oracle4 A si) A (iface_obj si) x dest V t = compute_plain A si Vol x V t /\
  gen_ModelCSimInterface_compute_stochastic_propensities (oracle3 A si V) A (iface_obj si) x dest t = compute_plain A si Stoch x V t /\
  gen_ModelCSimInterface_compute_stochastic_volume_propensities (oracle4 A si) A (iface_obj si) x dest V t = compute_plain A si StochVol x V t.
Proof. exact @tie_iface_plain. Qed.

(* Non-vacuity of the regenerated definitions: the same numbers as C01_example, computed by the source's own loops. *)
Example C01_source_example :
  let x := [3; 5]%Q in let p := [2]%Q in
  (gen_massaction_dispatch ArithQ 0 [0; 1; 1]%nat Det x p 2%Q 0%Q, gen_massaction_dispatch ArithQ 0 [0; 1; 1]%nat Stoch x p 2%Q 0%Q,
   gen_massaction_dispatch ArithQ 0 [0; 1; 1]%nat Vol x p 2%Q 0%Q, gen_massaction_dispatch ArithQ 0 [0; 1; 1]%nat StochVol x p 2%Q 0%Q)
  = (150, 120, 75 # 2, 30)%Q.
Proof. vm_compute. reflexivity. Qed.

Print Assumptions C01_massaction.
Print Assumptions C01_ff_zero.
Print Assumptions C01_ff_factorial.
Print Assumptions C01_stoch_zero_when_short.
Print Assumptions C01_hill.
Print Assumptions C01_interface_plain.
Print Assumptions C01_interface_safe.
Print Assumptions C01_safe_short.
Print Assumptions C01_safe_scan_in_bounds.
Print Assumptions C01_source_tie.
Print Assumptions C01_source_massaction.
Print Assumptions C01_source_hill.
Print Assumptions C01_source_interface_plain.
