(* C07 — Every simulation mode returns a complete, correctly labelled result. *)
From Coq Require Import ZArith List Bool Arith.
From BS Require Import Base.Arith Model.Dispatch Model.SSA Proofs.DispatchProofs.
Import ListNotations.

(* Finite domain, enumerated completely (2*2*2*3*2*5*2 = 480 option records): all_opts lists
   every option record, and on every record inside the quantifier (a numeric volume is
   positive) the dispatcher never reaches an internal fault (unbound name / abstract simulator). *)
Theorem C07_all_opts_complete : forall o, In o all_opts.
Proof. exact all_opts_complete. Qed.
Theorem C07_no_internal_fault : forall o, in_quantifier o = true -> is_fault (dispatch o) = false.
Proof. exact no_internal_fault. Qed.
(* the only rejection: neither or both of {model, interface} *)
Theorem C07_rejected_iff : forall o, dispatch o = RejectOptions <-> o_model o = o_iface o.
Proof. exact rejected_iff. Qed.

(* One row per requested time point (any number of time points, any network, stream, fuel). *)
Theorem C07_ssa_row_count :
  forall F (A : Arith F) (s : sim F) fuel ts u pos st,
  ssa_simulate A fuel s ts u pos = Done st -> length (ss_rows st) = length ts /\ ss_todo st = [].
Proof. exact @ssa_row_count. Qed.

(* The shapes of the delay / volume / deterministic results (row count up to division, time axis,
   column labels, first row) are covered by the exhaustive run over the option lattice and by
   the stream replays; they are not mechanised (C07_partial). *)

Example C07_example_volume_object :
  dispatch (mkOpts true false true TTrue true VObj true) = Run KDelayVolSSA true true.
Proof. reflexivity. Qed.

Print Assumptions C07_all_opts_complete.
Print Assumptions C07_no_internal_fault.
Print Assumptions C07_rejected_iff.
Print Assumptions C07_ssa_row_count.
