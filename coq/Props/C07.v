(* C07 — Every simulation mode returns a complete, correctly labelled result. *)
From Coq Require Import ZArith List Bool Arith.
From BS Require Import Base.Arith Model.Queue Model.Dispatch Model.SSA Proofs.DispatchProofs Proofs.ShapeProofs Proofs.RuleRows Proofs.DvShape.
Import ListNotations.

(* Finite domain, enumerated completely (2*2*2*3*2*5*2 = 480 option records): all_opts lists
   every option record, and on every record inside the quantifier (a numeric volume is
   positive) the dispatcher never reaches an internal fault (unbound name / abstract simulator). *)
Theorem C07_all_opts_complete : forall o, In o all_opts.
Proof. exact all_opts_complete. Qed.
Theorem C07_no_internal_fault : forall o, in_quantifier o = true -> is_fault (dispatch o) = false.
Proof. exact no_internal_fault. Qed.
(* the only rejection: neither or both of {model, interface} *)
Theorem C07_rejected_iff : forall o, dispatch o = RejectOptions <-> o_model o = o_iface o.
Proof. exact rejected_iff. Qed.

(* One row per requested time point (any number of time points, any network, stream, fuel). *)
Theorem C07_ssa_row_count :
  forall F (A : Arith F) (s : sim F) fuel ts u pos st,
  ssa_simulate A fuel s ts u pos = Done st -> length (ss_rows st) = length ts /\ ss_todo st = [].
Proof. exact @ssa_row_count. Qed.

(* The delay-capable loop: one row per requested time point as well (any queue, stream, fuel, network). *)
Theorem C07_delay_row_count :
  forall F (A : Arith F) pi2 (s : sim F) fuel gfuel q ts u pos st,
  dssa_simulate A pi2 fuel gfuel s q ts u pos = Done st -> length (ds_rows st) = length ts /\ ds_todo st = [].
Proof. exact @dssa_row_count. Qed.
(* The volume-aware loop: one volume per row, never more rows than requested times, and every requested time
   unless the cell divided ("one row per requested time point up to cell division"). *)
Theorem C07_volume_result_shape :
  forall F (A : Arith F) (s : sim F) fuel vm V0 ts u pos st,
  vssa_simulate A fuel s vm V0 ts u pos = Done st ->
  length (vs_rows st) = length (vs_vols st) /\ (length (vs_rows st) <= length ts)%nat /\
  (vs_divided st = false -> length (vs_rows st) = length ts).
Proof. exact @vssa_result_shape. Qed.

(* The delay + volume loop: the same shape (and every row a rule-applied state). *)
Theorem C07_delay_volume_result_shape :
  forall F (A : Arith F) pi2 (s : sim F) fuel gfuel vm V0 q ts u pos st,
  dvssa_simulate A pi2 fuel gfuel s vm V0 q ts u pos = Done st ->
  length (dv_rows st) = length (dv_vols st) /\ (length (dv_rows st) <= length ts)%nat /\
  (dv_divided st = false -> length (dv_rows st) = length ts) /\ Forall (rule_applied_v A s) (dv_rows st).
Proof. exact @dvssa_result_shape. Qed.

(* The deterministic result, the time axis, the column labels and the first row are covered
   by the exhaustive run over the option lattice and by the stream replays; not mechanised (C07_partial). *)

Example C07_example_volume_object :
  dispatch (mkOpts true false true TTrue true VObj true) = Run KDelayVolSSA true true.
Proof. reflexivity. Qed.

Print Assumptions C07_all_opts_complete.
Print Assumptions C07_no_internal_fault.
Print Assumptions C07_rejected_iff.
Print Assumptions C07_ssa_row_count.
Print Assumptions C07_delay_row_count.
Print Assumptions C07_volume_result_shape.
Print Assumptions C07_delay_volume_result_shape.
