(* C13 — An imported SBML file has the semantics of the SBML document. *)
From Coq Require Import ZArith Reals List Bool Arith.
From BS Require Import Base.Arith Model.SbmlImport Proofs.SbmlImportProofs Model.Builder Proofs.BuilderProofs.
Import ListNotations.

(* a non-zero finite initial amount takes precedence over the initial concentration *)
Theorem C13_initial_values :
  forall amount conc : option R,
  initial_value ArithR amount conc =
    match amount, conc with
    | Some a, Some c => if Req_EM_T a 0 then c else a
    | Some a, None => a
    | None, Some c => c
    | None, None => 0%R
    end.
Proof. exact initial_value_spec. Qed.

(* integer stoichiometries are honoured: n copies, so with C03 the stoichiometric matrices are
   nu_products - nu_reactants of the document *)
Theorem C13_stoichiometry_expansion :
  forall side s, count_occ Nat.eq_dec (expand side) s = total side s.
Proof. exact expand_counts. Qed.
Theorem C13_matrix_from_counts :
  forall rs ps s, dict_get (update_dict rs ps) s = (countz ps s - countz rs s)%Z.
Proof. exact update_dict_spec. Qed.

(* any number and order of rules: every assignment rule becomes exactly one repeated assignment,
   every rate rule contributes exactly one zero-reactant reaction for its own variable, and
   nothing else is emitted *)
Theorem C13_rules : forall rs, import_rules rs = (assigns_of rs, rates_of rs).
Proof. exact import_rules_spec. Qed.

(* Local-parameter scoping (renaming through libsbml's renameSIdRefs) and the equality of the
   imported net rate equations with stoichiometry x kinetic law are decided by the harness oracle
   on documents generated directly with libsbml (C13_partial). *)

Example C13_example_rules :
  import_rules [mkSRule RkAssignment 1 10 true; mkSRule RkRate 2 20 true; mkSRule RkAssignment 3 30 true]
  = ([EmitAssign 1 10; EmitAssign 3 30], [EmitRateReaction 2 20]).
Proof. reflexivity. Qed.

Print Assumptions C13_initial_values.
Print Assumptions C13_stoichiometry_expansion.
Print Assumptions C13_matrix_from_counts.
Print Assumptions C13_rules.
