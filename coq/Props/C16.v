(* C16 — Built-in priors are the log-densities they are named after. *)
From Coq Require Import ZArith QArith Reals List Bool.
From BS Require Import Base.Arith Model.Priors Spec.Densities Proofs.PriorProofs.
Import ListNotations.
Local Open Scope R_scope.

Section C16.
  (* Euler's Gamma and Beta (scipy.special.gamma / beta) are universally quantified: the
     theorems hold for whatever positive functions stand there. *)
  Variables (G : R -> R) (B : R -> R -> R).
  Notation pe := (prior_eval ArithR PI G B).

  Theorem C16_uniform_inside : forall lb ub x, lb < ub -> lb <= x <= ub -> pe (PrUniform lb ub) x = Val (ld_uniform lb ub x).
  Proof. exact (uniform_inside G B). Qed.
  Theorem C16_gaussian_inside : forall mu s x, 0 < s -> pe (PrGaussian mu s) x = Val (ld_gaussian mu s x).
  Proof. exact (gaussian_inside G B). Qed.
  Theorem C16_exponential_inside : forall lam x, 0 < lam -> 0 <= x -> pe (PrExponential lam) x = Val (ld_exponential lam x).
  Proof. exact (exponential_inside G B). Qed.
  Theorem C16_gamma_inside : forall a b x, 0 < b -> 0 < G a -> 0 < x -> pe (PrGamma a b) x = Val (ld_gamma G a b x).
  Proof. exact (gamma_inside G B). Qed.
  Theorem C16_beta_inside : forall a b x, 0 < B a b -> 0 < x < 1 -> pe (PrBeta a b) x = Val (ld_beta B a b x).
  Proof. exact (beta_inside G B). Qed.
  Theorem C16_loguniform_inside : forall lb ub x, 0 < lb -> lb < ub -> lb <= x <= ub ->
    pe (PrLogUniform lb ub) x = Val (ld_loguniform lb ub x).
  Proof. exact (loguniform_inside G B). Qed.
  Theorem C16_loggaussian_inside : forall mu s x, 0 < s -> 0 < x -> pe (PrLogGaussian mu s) x = Val (ld_loggaussian mu s x).
  Proof. exact (loggaussian_inside G B). Qed.

  Theorem C16_uniform_outside : forall lb ub x, x < lb \/ ub < x -> pe (PrUniform lb ub) x = Reject.
  Proof. exact (uniform_outside G B). Qed.
  Theorem C16_exponential_outside : forall lam x, x < 0 -> pe (PrExponential lam) x = Reject.
  Proof. exact (exponential_outside G B). Qed.
  Theorem C16_gamma_outside : forall a b x, x < 0 -> pe (PrGamma a b) x = Reject.
  Proof. exact (gamma_outside G B). Qed.
  Theorem C16_beta_outside : forall a b x, x < 0 \/ 1 < x -> pe (PrBeta a b) x = Reject.
  Proof. exact (beta_outside G B). Qed.
  Theorem C16_loguniform_outside : forall lb ub x, 0 <= lb -> 0 <= ub -> x < lb \/ ub < x -> pe (PrLogUniform lb ub) x = Reject.
  Proof. exact (loguniform_outside G B). Qed.

  Theorem C16_positive_flag : forall pr x rest lp, x < 0 -> check_prior ArithR PI G B ((true, pr, x) :: rest) lp = Reject.
  Proof. exact (positive_flag_rejects G B). Qed.
  Theorem C16_sum : forall l lp s, all_vals G B l = Some s -> check_prior ArithR PI G B l lp = Val (lp + s).
  Proof. exact (check_prior_sum G B). Qed.
  Theorem C16_reject_absorbs : forall l lp,
    (exists pos pr x, In (pos, pr, x) l /\ pe pr x = Reject) ->
    check_prior ArithR PI G B l lp = Reject \/ check_prior ArithR PI G B l lp = Raise.
  Proof. exact (check_prior_reject_absorbs G B). Qed.
End C16.

(* log-Gaussian on x <= 0 and Gaussian tails are rejected in the code through NaN / log 0 =
   -inf (non-finite lp); this is floating-point behaviour outside the real-number model and is
   covered by the correspondence run only. *)

(* Non-vacuity at exact rationals (no transcendental needed to decide the branch):
   exponential(1) at -1 is rejected (the repaired defect F10a returned +1), uniform inside is a value. *)
Example C16_example :
  (match prior_eval ArithQ 3%Q (fun _ => 1%Q) (fun _ _ => 1%Q) (PrExponential 1%Q) (-1)%Q with Reject => true | _ => false end) &&
  (match prior_eval ArithQ 3%Q (fun _ => 1%Q) (fun _ _ => 1%Q) (PrBeta 3%Q 3%Q) (3#2)%Q with Reject => true | _ => false end) &&
  (match prior_eval ArithQ 3%Q (fun _ => 1%Q) (fun _ _ => 1%Q) (PrUniform 0%Q 2%Q) 1%Q with Val _ => true | _ => false end) = true.
Proof. vm_compute. reflexivity. Qed.

Print Assumptions C16_uniform_inside. Print Assumptions C16_gaussian_inside.
Print Assumptions C16_exponential_inside. Print Assumptions C16_gamma_inside.
Print Assumptions C16_beta_inside. Print Assumptions C16_loguniform_inside.
Print Assumptions C16_loggaussian_inside. Print Assumptions C16_uniform_outside.
Print Assumptions C16_exponential_outside. Print Assumptions C16_gamma_outside.
Print Assumptions C16_beta_outside. Print Assumptions C16_loguniform_outside.
Print Assumptions C16_positive_flag. Print Assumptions C16_sum. Print Assumptions C16_reject_absorbs.
