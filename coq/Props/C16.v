(* C16 — Built-in priors are the log-densities they are named after. *)
From Coq Require Import ZArith QArith Reals List Bool.
From BS Require Import Base.Arith Base.CyPrelude Model.Priors Spec.Densities Proofs.PriorProofs Gen.PriorsGen Proofs.TiePriors Proofs.TiePriorsR.
From Coq Require Import String.
Import ListNotations.
Local Open Scope R_scope.

Section C16.
  (* Euler's Gamma and Beta (scipy.special.gamma / beta) are universally quantified: the
     theorems hold for whatever positive functions stand there. *)
  Variables (G : R -> R) (B : R -> R -> R).
  Notation pe := (prior_eval ArithR PI G B).

  Theorem C16_uniform_inside : forall lb ub x, lb < ub -> lb <= x <= ub -> pe (PrUniform lb ub) x = Val (ld_uniform lb ub x).
  Proof. exact (uniform_inside G B). Qed.
  Theorem C16_gaussian_inside : forall mu s x, 0 < s -> pe (PrGaussian mu s) x = Val (ld_gaussian mu s x).
  Proof. exact (gaussian_inside G B). Qed.
  Theorem C16_exponential_inside : forall lam x, 0 < lam -> 0 <= x -> pe (PrExponential lam) x = Val (ld_exponential lam x).
  Proof. exact (exponential_inside G B). Qed.
  Theorem C16_gamma_inside : forall a b x, 0 < b -> 0 < G a -> 0 < x -> pe (PrGamma a b) x = Val (ld_gamma G a b x).
  Proof. exact (gamma_inside G B). Qed.
  Theorem C16_beta_inside : forall a b x, 0 < B a b -> 0 < x < 1 -> pe (PrBeta a b) x = Val (ld_beta B a b x).
  Proof. exact (beta_inside G B). Qed.
  Theorem C16_loguniform_inside : forall lb ub x, 0 < lb -> lb < ub -> lb <= x <= ub ->
    pe (PrLogUniform lb ub) x = Val (ld_loguniform lb ub x).
  Proof. exact (loguniform_inside G B). Qed.
  Theorem C16_loggaussian_inside : forall mu s x, 0 < s -> 0 < x -> pe (PrLogGaussian mu s) x = Val (ld_loggaussian mu s x).
  Proof. exact (loggaussian_inside G B). Qed.

  Theorem C16_uniform_outside : forall lb ub x, x < lb \/ ub < x -> pe (PrUniform lb ub) x = Reject.
  Proof. exact (uniform_outside G B). Qed.
  Theorem C16_exponential_outside : forall lam x, x < 0 -> pe (PrExponential lam) x = Reject.
  Proof. exact (exponential_outside G B). Qed.
  Theorem C16_gamma_outside : forall a b x, x < 0 -> pe (PrGamma a b) x = Reject.
  Proof. exact (gamma_outside G B). Qed.
  Theorem C16_beta_outside : forall a b x, x < 0 \/ 1 < x -> pe (PrBeta a b) x = Reject.
  Proof. exact (beta_outside G B). Qed.
  Theorem C16_loguniform_outside : forall lb ub x, 0 <= lb -> 0 <= ub -> x < lb \/ ub < x -> pe (PrLogUniform lb ub) x = Reject.
  Proof. exact (loguniform_outside G B). Qed.

  Theorem C16_positive_flag : forall pr x rest lp, x < 0 -> check_prior ArithR PI G B ((true, pr, x) :: rest) lp = Reject.
  Proof. exact (positive_flag_rejects G B). Qed.
  Theorem C16_sum : forall l lp s, all_vals G B l = Some s -> check_prior ArithR PI G B l lp = Val (lp + s).
  Proof. exact (check_prior_sum G B). Qed.
  Theorem C16_reject_absorbs : forall l lp,
    (exists pos pr x, In (pos, pr, x) l /\ pe pr x = Reject) ->
    check_prior ArithR PI G B l lp = Reject \/ check_prior ArithR PI G B l lp = Raise.
  Proof. exact (check_prior_reject_absorbs G B). Qed.
End C16.

(* log-Gaussian on x <= 0 and Gaussian tails are rejected in the code through NaN / log 0 =
   -inf (non-finite lp); this is floating-point behaviour outside the real-number model and is
   covered by the correspondence run only. *)

(* Non-vacuity at exact rationals (no transcendental needed to decide the branch):
   exponential(1) at -1 is rejected (the repaired defect F10a returned +1), uniform inside is a value. *)
Example C16_example :
  (match prior_eval ArithQ 3%Q (fun _ => 1%Q) (fun _ _ => 1%Q) (PrExponential 1%Q) (-1)%Q with Reject => true | _ => false end) &&
  (match prior_eval ArithQ 3%Q (fun _ => 1%Q) (fun _ _ => 1%Q) (PrBeta 3%Q 3%Q) (3#2)%Q with Reject => true | _ => false end) &&
  (match prior_eval ArithQ 3%Q (fun _ => 1%Q) (fun _ _ => 1%Q) (PrUniform 0%Q 2%Q) 1%Q with Val _ => true | _ => false end) = true.
Proof. vm_compute. reflexivity. Qed.

(* ---- Tie to the CURRENT source: the seven prior functions regenerated from bioscrape/pid_interfaces.py on this run
   (Gen/PriorsGen.v, tools/tr_priors.py) equal the hand model for ANY arithmetic, constant pi and Gamma / Beta functions;
   check_prior's dispatch sends each prior type to the function of that name; and the log-density statements above hold of
   the regenerated functions themselves. *)
Theorem C16_source_tie :
  forall F (A : Arith F) (pi_ : F) (G : F -> F) (B : F -> F -> F),
  (forall lb ub x, gen_uniform_prior A lb ub x = prior_eval A pi_ G B (PrUniform lb ub) x) /\
  (forall mu s x, gen_gaussian_prior A pi_ mu s x = prior_eval A pi_ G B (PrGaussian mu s) x) /\
  (forall lam h2 x, gen_exponential_prior A lam h2 x = prior_eval A pi_ G B (PrExponential lam) x) /\
  (forall a b x, gen_gamma_prior A G a b x = prior_eval A pi_ G B (PrGamma a b) x) /\
  (forall a b x, gen_beta_prior A B a b x = prior_eval A pi_ G B (PrBeta a b) x) /\
  (forall lb ub x, gen_log_uniform_prior A lb ub x = prior_eval A pi_ G B (PrLogUniform lb ub) x) /\
  (forall mu s x, gen_log_gaussian_prior A pi_ mu s x = prior_eval A pi_ G B (PrLogGaussian mu s) x).
Proof. exact @source_priors_tie. Qed.

Theorem C16_source_dispatch :
  gen_prior_dispatch = [("uniform", "uniform_prior"); ("gaussian", "gaussian_prior"); ("exponential", "exponential_prior"); ("gamma", "gamma_prior");
                        ("log-uniform", "log_uniform_prior"); ("log-gaussian", "log_gaussian_prior"); ("beta", "beta_prior")]%string.
Proof. exact source_dispatch. Qed.

Theorem C16_source_inside :
  forall (G : R -> R) (B : R -> R -> R),
  (forall lb ub x, lb < ub -> lb <= x <= ub -> gen_uniform_prior ArithR lb ub x = Val (ld_uniform lb ub x)) /\
  (forall mu s x, 0 < s -> gen_gaussian_prior ArithR PI mu s x = Val (ld_gaussian mu s x)) /\
  (forall lam h2 x, 0 < lam -> 0 <= x -> gen_exponential_prior ArithR lam h2 x = Val (ld_exponential lam x)) /\
  (forall a b x, 0 < b -> 0 < G a -> 0 < x -> gen_gamma_prior ArithR G a b x = Val (ld_gamma G a b x)) /\
  (forall a b x, 0 < B a b -> 0 < x < 1 -> gen_beta_prior ArithR B a b x = Val (ld_beta B a b x)) /\
  (forall lb ub x, 0 < lb -> lb < ub -> lb <= x <= ub -> gen_log_uniform_prior ArithR lb ub x = Val (ld_loguniform lb ub x)) /\
  (forall mu s x, 0 < s -> 0 < x -> gen_log_gaussian_prior ArithR PI mu s x = Val (ld_loggaussian mu s x)).
Proof. exact source_priors_inside. Qed.

Theorem C16_source_outside :
  forall (G : R -> R) (B : R -> R -> R),
  (forall lb ub x, x < lb \/ ub < x -> gen_uniform_prior ArithR lb ub x = Reject) /\
  (forall lam h2 x, x < 0 -> gen_exponential_prior ArithR lam h2 x = Reject) /\
  (forall a b x, x < 0 -> gen_gamma_prior ArithR G a b x = Reject) /\
  (forall a b x, x < 0 \/ 1 < x -> gen_beta_prior ArithR B a b x = Reject) /\
  (forall lb ub x, 0 <= lb -> 0 <= ub -> x < lb \/ ub < x -> gen_log_uniform_prior ArithR lb ub x = Reject).
Proof. exact source_priors_outside. Qed.

Example C16_source_example :
  (match gen_exponential_prior ArithQ 1%Q 0%Q (-1)%Q with Reject => true | _ => false end) &&
  (match gen_beta_prior ArithQ (fun _ _ => 1%Q) 3%Q 3%Q (3#2)%Q with Reject => true | _ => false end) &&
  (match gen_uniform_prior ArithQ 0%Q 2%Q 1%Q with Val _ => true | _ => false end) = true.
Proof. vm_compute. reflexivity. Qed.

Print Assumptions C16_uniform_inside. Print Assumptions C16_gaussian_inside.
Print Assumptions C16_exponential_inside. Print Assumptions C16_gamma_inside.
Print Assumptions C16_beta_inside. Print Assumptions C16_loguniform_inside.
Print Assumptions C16_loggaussian_inside. Print Assumptions C16_uniform_outside.
Print Assumptions C16_exponential_outside. Print Assumptions C16_gamma_outside.
Print Assumptions C16_beta_outside. Print Assumptions C16_loguniform_outside.
Print Assumptions C16_positive_flag. Print Assumptions C16_sum. Print Assumptions C16_reject_absorbs.
Print Assumptions C16_source_tie. Print Assumptions C16_source_dispatch. Print Assumptions C16_source_inside. Print Assumptions C16_source_outside.
