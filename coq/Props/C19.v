(* C19 — Division conserves molecules and volume; lineage records are consistent (splitters). *)
From Coq Require Import ZArith Reals List Bool Arith.
From BS Require Import Base.Arith Model.Queue Model.Splitters Proofs.SplitProofs.
Import ListNotations.
Local Open Scope R_scope.

(* Every stream, every mother state and volume, any number of species: perfect and binomial species
   are conserved, the others (duplicate) are copied to both daughters; volumes sum to the mother's. *)
Theorem C19_general_splitter :
  forall perfect binomial noise x V u pos,
  NoDup (perfect ++ binomial) -> (forall i, In i (perfect ++ binomial) -> (i < length x)%nat) ->
  let r := partition_general ArithR perfect binomial noise x V u pos in
  (forall i, In i (perfect ++ binomial) -> gR (d_state r) i + gR (e_state r) i = gR x i) /\
  (forall i, (i < length x)%nat -> ~ In i (perfect ++ binomial) -> gR (d_state r) i = gR x i /\ gR (e_state r) i = gR x i) /\
  d_vol r + e_vol r = V.
Proof. exact general_conserves. Qed.

Theorem C19_lineage_splitter :
  forall vmode perfect binomial noise x V u pos,
  NoDup (perfect ++ binomial) -> (forall i, In i (perfect ++ binomial) -> (i < length x)%nat) ->
  let r := partition_lineage ArithR vmode perfect binomial noise x V u pos in
  (forall i, In i (perfect ++ binomial) -> gR (d_state r) i + gR (e_state r) i = gR x i) /\
  (forall i, (i < length x)%nat -> ~ In i (perfect ++ binomial) -> gR (d_state r) i = gR x i /\ gR (e_state r) i = gR x i) /\
  (if Nat.eqb vmode 1 then d_vol r = V /\ e_vol r = V else d_vol r + e_vol r = V).
Proof. exact lineage_conserves. Qed.

Theorem C19_perfect_binomial_splitter :
  forall x V u pos, let r := partition_perfect_binomial ArithR x V u pos in
  (forall i, (i < length x)%nat -> gR (d_state r) i + gR (e_state r) i = gR x i) /\ d_vol r + e_vol r = V.
Proof. exact perfect_binomial_conserves. Qed.

(* The binomial count is the number of successes among n = int(m + 1/2) consecutive uniforms
   compared with p (the daughter's volume fraction): a sum of Bernoulli(p) indicators under
   i.i.d. uniforms, between 0 and n; exactly n draws are consumed. *)
Theorem C19_binomial_is_bernoulli_sum :
  forall m p u pos, let n := Z.to_nat (Rtrunc (m + 1 / 2)) in
  binom_rnd_f ArithR m p u pos = (IZR (Z.of_nat (indicator_count n p u pos)), (pos + n)%nat) /\
  (indicator_count n p u pos <= n)%nat.
Proof. exact binomial_is_bernoulli_sum. Qed.

(* Not mechanised (C19_partial): that such a sum has the Binomial(n,p) law; the lineage worklist
   (daughters start at the mother's division time from such a partition, mutual links, forest) and
   "every reported row was simulated, with positive volume" are decided by the harness oracle and
   the stream replay of py_partition. *)

Print Assumptions C19_general_splitter.
Print Assumptions C19_lineage_splitter.
Print Assumptions C19_perfect_binomial_splitter.
Print Assumptions C19_binomial_is_bernoulli_sum.
