(* C19 — Division conserves molecules and volume; lineage records are consistent (splitters). *)
From Coq Require Import ZArith QArith Reals List Bool Arith Sorted.
From BS Require Import Base.Arith Model.Queue Model.Term Model.Propensity Model.Interface Model.Rules Model.Random Model.SSA Model.Splitters Model.Lineage Model.Worklist
                       Proofs.SplitProofs Proofs.SSAProofs Proofs.LineageProofs Proofs.LineageIdle Proofs.WorklistProofs Proofs.WorklistProvenance Proofs.CellPaths Proofs.LineageFirstRow Proofs.PairProvenance Proofs.LineageConservation Proofs.LineageFirstVolume Proofs.LineageVolumeConservation.
Import ListNotations.
Local Open Scope R_scope.

(* Every stream, every mother state and volume, any number of species: perfect and binomial species
   are conserved, the others (duplicate) are copied to both daughters; volumes sum to the mother's. *)
Theorem C19_general_splitter :
  forall perfect binomial noise x V u pos,
  NoDup (perfect ++ binomial) -> (forall i, In i (perfect ++ binomial) -> (i < length x)%nat) ->
  let r := partition_general ArithR perfect binomial noise x V u pos in
  (forall i, In i (perfect ++ binomial) -> gR (d_state r) i + gR (e_state r) i = gR x i) /\
  (forall i, (i < length x)%nat -> ~ In i (perfect ++ binomial) -> gR (d_state r) i = gR x i /\ gR (e_state r) i = gR x i) /\
  d_vol r + e_vol r = V.
Proof. exact general_conserves. Qed.

Theorem C19_lineage_splitter :
  forall vmode perfect binomial noise x V u pos,
  NoDup (perfect ++ binomial) -> (forall i, In i (perfect ++ binomial) -> (i < length x)%nat) ->
  let r := partition_lineage ArithR vmode perfect binomial noise x V u pos in
  (forall i, In i (perfect ++ binomial) -> gR (d_state r) i + gR (e_state r) i = gR x i) /\
  (forall i, (i < length x)%nat -> ~ In i (perfect ++ binomial) -> gR (d_state r) i = gR x i /\ gR (e_state r) i = gR x i) /\
  (if Nat.eqb vmode 1 then d_vol r = V /\ e_vol r = V else d_vol r + e_vol r = V).
Proof. exact lineage_conserves. Qed.

Theorem C19_perfect_binomial_splitter :
  forall x V u pos, let r := partition_perfect_binomial ArithR x V u pos in
  (forall i, (i < length x)%nat -> gR (d_state r) i + gR (e_state r) i = gR x i) /\ d_vol r + e_vol r = V.
Proof. exact perfect_binomial_conserves. Qed.

(* The binomial count is the number of successes among n = int(m + 1/2) consecutive uniforms
   compared with p (the daughter's volume fraction): a sum of Bernoulli(p) indicators under
   i.i.d. uniforms, between 0 and n; exactly n draws are consumed. *)
Theorem C19_binomial_is_bernoulli_sum :
  forall m p u pos, let n := Z.to_nat (Rtrunc (m + 1 / 2)) in
  binom_rnd_f ArithR m p u pos = (IZR (Z.of_nat (indicator_count n p u pos)), (pos + n)%nat) /\
  (indicator_count n p u pos <= n)%nat.
Proof. exact binomial_is_bernoulli_sum. Qed.

(* The single-cell loop of a lineage simulation (coq/Model/Lineage.v: reactions, volume / division / death rules with and without their normal noise terms,
   volume / division / death events; every stream, fuel, grid, cell state).

   Reals: a cell that starts with a positive volume reports only positive volumes, one per row -- also when no reaction
   can fire, when it divides or dies, and when it does so before anything was recorded. *)
Theorem C19_cell_volumes_positive :
  forall (l : lin R) pi2 eps9 eps7 fuel ts t_cur t_init V V_init x0 u pos st, 0 < V ->
  lssa_simulate ArithR pi2 eps9 eps7 fuel l ts t_cur t_init V V_init x0 u pos = Done st ->
  Forall (fun v => 0 < v) (ls_vols st) /\ length (ls_rows st) = length (ls_vols st).
Proof. exact lssa_volumes_positive. Qed.

(* Any arithmetic: every reported (row, volume) pair was actually produced by the loop: the volume is the initial one or a
   value that passed the loop's positivity test, and the row is a rule pass (with that volume) over a state the cell was in. *)
Theorem C19_cell_rows_were_simulated :
  forall F (A : Arith F) pi2 eps9 eps7 (l : lin F) fuel ts t_cur t_init V V_init x0 u pos st,
  lssa_simulate A pi2 eps9 eps7 fuel l ts t_cur t_init V V_init x0 u pos = Done st ->
  exists seen, In V seen /\ (forall v, In v seen -> v = V \/ fleb A v (f0 A) = false) /\
               length (ls_rows st) = length (ls_vols st) /\ Forall2 (row_ok A l seen) (ls_rows st) (ls_vols st).
Proof. exact @lssa_rows_ok. Qed.

(* Without rules on species: consecutive rows of a cell are linked by reaction paths from the state it was born with. *)
Theorem C19_cell_rows_are_paths :
  forall F (A : Arith F) pi2 eps9 eps7 (l : lin F), sm_rules (ln_sim l) = [] ->
  forall fuel ts t_cur t_init V V_init x0 u pos st,
  lssa_simulate A pi2 eps9 eps7 fuel l ts t_cur t_init V V_init x0 u pos = Done st -> chain A (ln_sim l) x0 (ls_rows st).
Proof. exact @lssa_rows_are_paths. Qed.

(* "Also after all reactions have become impossible" (reals, 0 < eps7): an iteration in which the total propensity is 0 and no
   rule stops the cell samples no reaction (the only uniforms it may consume are the noise terms of its rules), changes no count and moves the clock to the next queued time (advancing the
   queue by dt) or to the final time -- it never enters the reaction branch (defects F11 / F19 were such moves). *)
Theorem C19_idle_cell_never_fires :
  forall (l : lin R) pi2 eps9 eps7 dt final t_init V_init u st st' tnext rest,
  0 < eps7 -> ls_todo st = tnext :: rest ->
  let '(x1, p1) := apply_rules ArithR (sm_rules (ln_sim l)) (Some (ls_V st)) (ls_x st, ls_p st) (ls_time st) dt (ls_rule_step st) in
  let '(dead, posa) := first_true (fun r => krule_check ArithR pi2 eps9 r x1 p1 (ls_time st) (ls_V st) u) (ln_krules l) 0%Z (ls_pos st) in
  let '(divd, posb) := first_true (fun r => drule_check ArithR pi2 eps9 r x1 p1 (ls_time st) (ls_V st) t_init V_init u) (ln_drules l) 0%Z posa in
  dead = (-1)%Z -> divd = (-1)%Z ->
  array_sum ArithR (lin_props ArithR l x1 p1 (ls_V st) (ls_time st)) = 0 ->
  lssa_iter ArithR pi2 eps9 eps7 l dt final t_init V_init u st = Done st' ->
  ls_x st' = x1 /\ ls_rule_step st' = true /\ ls_divided st' = (-1)%Z /\ ls_dead st' = (-1)%Z /\
  ls_pos st' = snd (apply_volume_rules ArithR pi2 (ln_vrules l) x1 p1 (ls_V st) (ls_time st') dt u posb) /\
  ((ls_time st' = ls_next_q st /\ ls_next_q st' = ls_next_q st + dt) \/ ls_time st' = final).
Proof. exact lssa_idle_iteration. Qed.

(* The lineage worklist (coq/Model/Worklist.v: SimulateCellLineage with its queue of cell states and schnitzes, daughters
   simulated on the truncated grid from a partition of the mother's last state; any arithmetic, stream, model, fuel, any number
   of initial cells): in the recorded lineage every cell that names a parent is one of the two distinct daughters that parent
   lists and was recorded after it, and the two daughters a cell lists both name it as their parent. *)
Theorem C19_lineage_links_mutual :
  forall F (A : Arith F) pi2 eps9 eps7 eps12 cfuel fuel (l : lin F) sps ts cells u pos w,
  simulate_lineage A pi2 eps9 eps7 eps12 cfuel fuel l sps ts cells u pos = Done w ->
  parent_ok (w_lineage w) /\ daughters_ok (w_lineage w).
Proof. exact @lineage_links_mutual. Qed.

(* "Every daughter starts at its mother's division time from exactly such a partition of the mother's last state" -- the whole
   lineage, any arithmetic, stream, model, fuel, number of initial cells: every recorded cell that names a mother p was produced by
   the single-cell simulation (on the part of the grid from the mother's last reported time on) of one of the two cells which the
   splitter selected by the mother's division event made of the mother's get_final_cell_state (last reported row, volume, time). *)
Theorem C19_daughters_born_from_mother :
  forall F (A : Arith F) pi2 eps9 eps7 eps12 cfuel fuel (l : lin F) sps ts cells u pos w,
  simulate_lineage A pi2 eps9 eps7 eps12 cfuel fuel l sps ts cells u pos = Done w ->
  forall j s p, nth_error (w_lineage w) j = Some s -> sz_parent s = Some p ->
  exists m tts0 st0 sp upos upos' d st,
    nth_error (w_lineage w) p = Some m /\ data_of m tts0 st0 /\
    let c := final_cell A tts0 st0 in
    (0 <= cs_divided c)%Z /\ nth_error sps (Z.to_nat (cs_divided c)) = Some sp /\
    (d = fst (daughter_cells A c sp u upos) \/ d = snd (daughter_cells A c sp u upos)) /\
    cell_simulate A pi2 eps9 eps7 fuel l (truncate_lt A ts (cs_time c)) d u upos' = Done st /\
    data_of s (truncate_lt A ts (cs_time c)) st.
Proof. exact @lineage_daughters_born. Qed.

(* Reals: the same with what the partition guarantees spelled out -- both daughters start (time and birth time) at the mother's
   last reported time; perfect and binomial species sum to the mother's last counts, the others are copied; the volumes sum to
   the mother's last volume unless the splitter duplicates it. *)
Theorem C19_lineage_division_conserves :
  forall pi2 eps9 eps7 eps12 cfuel fuel (l : lin R) sps ts cells u pos w,
  simulate_lineage ArithR pi2 eps9 eps7 eps12 cfuel fuel l sps ts cells u pos = Done w ->
  forall j s p, nth_error (w_lineage w) j = Some s -> sz_parent s = Some p ->
  exists m tts0 st0 sp upos d e,
    nth_error (w_lineage w) p = Some m /\ data_of m tts0 st0 /\
    let c := final_cell ArithR tts0 st0 in
    (0 <= cs_divided c)%Z /\ nth_error sps (Z.to_nat (cs_divided c)) = Some sp /\
    (d, e) = daughter_cells ArithR c sp u upos /\
    cs_time d = cs_time c /\ cs_time e = cs_time c /\ cs_t0 d = cs_time c /\ cs_t0 e = cs_time c /\
    (NoDup (sp_perfect sp ++ sp_binomial sp) -> (forall i, In i (sp_perfect sp ++ sp_binomial sp) -> (i < length (cs_x c))%nat) ->
       (forall i, In i (sp_perfect sp ++ sp_binomial sp) -> gR (cs_x d) i + gR (cs_x e) i = gR (cs_x c) i) /\
       (forall i, (i < length (cs_x c))%nat -> ~ In i (sp_perfect sp ++ sp_binomial sp) -> gR (cs_x d) i = gR (cs_x c) i /\ gR (cs_x e) i = gR (cs_x c) i) /\
       (if Nat.eqb (sp_vmode sp) 1 then cs_V d = cs_V c /\ cs_V e = cs_V c else cs_V d + cs_V e = cs_V c)) /\
    exists st upos', (cell_simulate ArithR pi2 eps9 eps7 fuel l (truncate_lt ArithR ts (cs_time c)) d u upos' = Done st \/
                      cell_simulate ArithR pi2 eps9 eps7 fuel l (truncate_lt ArithR ts (cs_time c)) e u upos' = Done st) /\
                     data_of s (truncate_lt ArithR ts (cs_time c)) st.
Proof. exact lineage_division_conserves. Qed.

(* Without rules on species (any arithmetic, stream, model, fuel): the reported rows of every cell that has a mother are linked by
   reaction paths that START from the state the mother's splitter made for it of the mother's last reported state -- nothing but the
   partition and the cell's own reactions lies between a mother's last row and any row of her daughters. *)
Theorem C19_daughter_rows_from_partition :
  forall F (A : Arith F) pi2 eps9 eps7 eps12 (l : lin F), sm_rules (ln_sim l) = [] ->
  forall cfuel fuel sps ts cells u pos w,
  simulate_lineage A pi2 eps9 eps7 eps12 cfuel fuel l sps ts cells u pos = Done w ->
  forall j sc p, nth_error (w_lineage w) j = Some sc -> sz_parent sc = Some p ->
  exists m tts0 st0 sp upos d,
    nth_error (w_lineage w) p = Some m /\ data_of m tts0 st0 /\
    let c := final_cell A tts0 st0 in
    nth_error sps (Z.to_nat (cs_divided c)) = Some sp /\
    (d = fst (daughter_cells A c sp u upos) \/ d = snd (daughter_cells A c sp u upos)) /\
    chain A (ln_sim l) (cs_x d) (sz_rows sc).
Proof. exact @daughter_rows_from_partition. Qed.

(* ... and that state is what the cell reports first (reals, no rules on species, uniforms in (0,1], non-negative propensities): simulated
   on a grid whose first time is the cell's own time -- which is how a daughter is simulated, from her mother's last reported time -- a
   cell's FIRST row is exactly the state it was handed; nothing precedes it, also when it divides or dies at its very first check. *)
Theorem C19_first_row_is_birth_state :
  forall (l : lin R) pi2 eps9 eps7 (u : nat -> R), sm_rules (ln_sim l) = [] -> (forall n, 0 < u n <= 1) ->
  (forall x p V t, 0 <= array_sum ArithR (lin_props ArithR l x p V t)) ->
  forall fuel t0 t1 ts' t_init V V_init x0 pos st, t0 <= t1 -> t0 <= last (t0 :: t1 :: ts') t0 ->
  lssa_simulate ArithR pi2 eps9 eps7 fuel l (t0 :: t1 :: ts') t0 t_init V V_init x0 u pos = Done st ->
  exists rest, ls_rows st = x0 :: rest.
Proof. exact first_row_is_birth_state. Qed.

(* The two daughters a recorded cell lists come from ONE call of its splitter (any arithmetic, stream, model, fuel): they are the
   single-cell simulations, on the same part of the grid, of the first and of the second cell of one partition of its last reported state. *)
Theorem C19_daughter_pairs_from_one_partition :
  forall F (A : Arith F) pi2 eps9 eps7 eps12 cfuel fuel (l : lin F) sps ts cells u pos w,
  simulate_lineage A pi2 eps9 eps7 eps12 cfuel fuel l sps ts cells u pos = Done w ->
  forall p m a b, nth_error (w_lineage w) p = Some m -> sz_daughters m = Some (a, b) ->
  exists tts0 st0 sp upos pos1 pos2 st1 st2 sa sb,
    data_of m tts0 st0 /\
    let c := final_cell A tts0 st0 in
    let tts := truncate_lt A ts (cs_time c) in
    (0 <= cs_divided c)%Z /\ nth_error sps (Z.to_nat (cs_divided c)) = Some sp /\
    nth_error (w_lineage w) a = Some sa /\ nth_error (w_lineage w) b = Some sb /\
    cell_simulate A pi2 eps9 eps7 fuel l tts (fst (daughter_cells A c sp u upos)) u pos1 = Done st1 /\
    cell_simulate A pi2 eps9 eps7 fuel l tts (snd (daughter_cells A c sp u upos)) u pos2 = Done st2 /\
    data_of sa tts st1 /\ data_of sb tts st2.
Proof. exact @lineage_pairs_born. Qed.

(* The property in observable terms (reals; no rules on species; uniforms in (0,1]; non-negative propensities; strictly increasing grid): in a
   simulated lineage, whenever a cell's last reported time is one of the requested times, the FIRST reported rows of its two daughters are
   a partition of its LAST reported row -- species in its splitter's perfect and binomial lists sum to the mother's count, all others
   are copied to both -- for every stream, model, number of initial cells and fuel. *)
Theorem C19_lineage_rows_conserved :
  forall (l : lin R) pi2 eps9 eps7 eps12 (u : nat -> R), sm_rules (ln_sim l) = [] -> (forall n, 0 < u n <= 1) ->
  (forall x p V t, 0 <= array_sum ArithR (lin_props ArithR l x p V t)) ->
  forall cfuel fuel sps ts cells pos w, StronglySorted Rlt ts ->
  simulate_lineage ArithR pi2 eps9 eps7 eps12 cfuel fuel l sps ts cells u pos = Done w ->
  forall p m a b, nth_error (w_lineage w) p = Some m -> sz_daughters m = Some (a, b) ->
  exists tts0 st0 sp sa sb,
    data_of m tts0 st0 /\ nth_error (w_lineage w) a = Some sa /\ nth_error (w_lineage w) b = Some sb /\
    let c := final_cell ArithR tts0 st0 in
    nth_error sps (Z.to_nat (cs_divided c)) = Some sp /\
    (In (cs_time c) ts -> NoDup (sp_perfect sp ++ sp_binomial sp) -> (forall i, In i (sp_perfect sp ++ sp_binomial sp) -> (i < length (cs_x c))%nat) ->
     exists xa ra xb rb, sz_rows sa = xa :: ra /\ sz_rows sb = xb :: rb /\
       (forall i, In i (sp_perfect sp ++ sp_binomial sp) -> gR xa i + gR xb i = gR (cs_x c) i) /\
       (forall i, (i < length (cs_x c))%nat -> ~ In i (sp_perfect sp ++ sp_binomial sp) -> gR xa i = gR (cs_x c) i /\ gR xb i = gR (cs_x c) i)).
Proof. exact lineage_rows_conserved. Qed.

(* ... and the volumes likewise (same hypotheses): the FIRST reported volumes of the two daughters sum to the mother's LAST reported
   volume -- both equal it when her splitter duplicates the volume. *)
Theorem C19_lineage_volumes_conserved :
  forall (l : lin R) pi2 eps9 eps7 eps12 (u : nat -> R), sm_rules (ln_sim l) = [] -> (forall n, 0 < u n <= 1) ->
  (forall x p V t, 0 <= array_sum ArithR (lin_props ArithR l x p V t)) ->
  forall cfuel fuel sps ts cells pos w, StronglySorted Rlt ts ->
  simulate_lineage ArithR pi2 eps9 eps7 eps12 cfuel fuel l sps ts cells u pos = Done w ->
  forall p m a b, nth_error (w_lineage w) p = Some m -> sz_daughters m = Some (a, b) ->
  exists tts0 st0 sp sa sb,
    data_of m tts0 st0 /\ nth_error (w_lineage w) a = Some sa /\ nth_error (w_lineage w) b = Some sb /\
    let c := final_cell ArithR tts0 st0 in
    nth_error sps (Z.to_nat (cs_divided c)) = Some sp /\
    (In (cs_time c) ts ->
     exists va ra vb rb, sz_vols sa = va :: ra /\ sz_vols sb = vb :: rb /\
       (if Nat.eqb (sp_vmode sp) 1 then va = cs_V c /\ vb = cs_V c else va + vb = cs_V c)).
Proof. exact lineage_volumes_conserved. Qed.

(* Non-vacuity of the whole-lineage theorems: the worklist model, evaluated inside Coq over exact rationals, on a cell with counts (6, 3) and
   volume 1 that divides by a time rule (threshold 1) with a splitter that halves species 0 perfectly and species 1 binomially: three
   recorded cells, mutual links, the daughters' first rows (3, 0) and (3, 3) sum to the mother's last row (6, 3), their volumes to hers. *)
Definition ex_lin : lin Q :=
  mkLin (mkSimulation (mkSim [] [[]; []] [[]; []] [1%Q] 2) [] [] (1#2)%Q 0%Q false [6%Q; 3%Q]) [] [DRTime 0 None] [] [] [] [].
Definition ex_run :=
  simulate_lineage ArithQ 6%Q (1#1000000000)%Q (1#10000000)%Q (1#1000000000000)%Q 20 200 ex_lin [mkSplitter 2 [0%nat] [1%nat] 0%Q]
                   [0; 1#2; 1; 3#2; 2; 5#2]%Q [mkCell 0%Q 0%Q 1%Q 1%Q [6%Q; 3%Q] (-1)%Z (-1)%Z] (fun _ => (1#2)%Q) 0.
Example C19_lineage_nonvacuous :
  match ex_run with
  | Done w => map (fun s => (sz_times s, sz_rows s, sz_vols s, sz_parent s, sz_daughters s)) (w_lineage w)
  | _ => []
  end = [([0; 1#2; 1; 3#2], [[6; 3]; [6; 3]; [6; 3]; [6; 3]], [1; 1; 1; 1], None, Some (1%nat, 2%nat));
         ([3#2; 2; 5#2], [[3; 0]; [3; 0]; [3; 0]], [1#2; 1#2; 1#2], Some 0%nat, None);
         ([3#2; 2; 5#2], [[3; 3]; [3; 3]; [3; 3]], [1#2; 1#2; 1#2], Some 0%nat, None)]%Q.
Proof. vm_compute. reflexivity. Qed.

(* Not mechanised (C19_partial): that a Bernoulli sum has the Binomial(n,p) law; custom partition functions and custom rule classes -- decided by the harness on simulated lineages. *)

Print Assumptions C19_general_splitter.
Print Assumptions C19_lineage_splitter.
Print Assumptions C19_perfect_binomial_splitter.
Print Assumptions C19_binomial_is_bernoulli_sum.
Print Assumptions C19_cell_volumes_positive.
Print Assumptions C19_cell_rows_were_simulated.
Print Assumptions C19_cell_rows_are_paths.
Print Assumptions C19_idle_cell_never_fires.
Print Assumptions C19_lineage_links_mutual.
Print Assumptions C19_daughters_born_from_mother.
Print Assumptions C19_lineage_division_conserves.
Print Assumptions C19_daughter_rows_from_partition.
Print Assumptions C19_first_row_is_birth_state.
Print Assumptions C19_daughter_pairs_from_one_partition.
Print Assumptions C19_lineage_rows_conserved.
Print Assumptions C19_lineage_volumes_conserved.
