(* C06 — Every stochastic trajectory is a feasible reaction path. *)
From Coq Require Import ZArith Reals List Bool Arith.
From BS Require Import Base.Arith Model.Term Model.Propensity Model.Interface Model.Rules Model.Random Model.Queue Model.SSA Proofs.DelayAccounting Proofs.VolumePaths
                       Spec.RateLaws Proofs.RateProofs Proofs.SSAProofs Proofs.SSAReal Proofs.FeasibleProofs Proofs.BuilderProofs.
Import ListNotations.

(* For every network (any size), stream, fuel and grid, any arithmetic (so also the doubles that
   are run), plain or safe interface, no rules: the reported rows are linked by reachability —
   each is obtained from the previous one (the first from x0) by firing finitely many reactions,
   each adding one column of S + Sd. *)
Theorem C06_rows_are_paths :
  forall F (A : Arith F) (s : sim F), sm_rules s = [] ->
  forall fuel ts u pos st, ssa_simulate A fuel s ts u pos = Done st -> chain A s (sm_x0 s) (ss_rows st).
Proof. exact @ssa_rows_are_paths. Qed.

(* Over the reals: every linear conservation law of the network holds at every reported row,
   and integer initial counts stay integer. *)
Theorem C06_conservation :
  forall (s : sim R) w, conserved s w -> length (si_S (sm_if s)) = length (si_Sd (sm_if s)) ->
  forall rows from, length from = length (si_S (sm_if s)) -> chain ArithR s from rows ->
  Forall (fun row => dot w row = dot w from) rows.
Proof. exact chain_conserves. Qed.

Theorem C06_integrality :
  forall (s : sim R) rows from, Forall is_int from -> chain ArithR s from rows -> Forall (Forall is_int) rows.
Proof. exact chain_int. Qed.

(* A state whose total propensity is zero persists to the end and consumes no further draw. *)
Theorem C06_absorbing :
  forall F (A : Arith F) (s : sim F), sm_rules s = [] ->
  forall fuel u st st', dead A s (ss_x st) (ss_p st) -> ssa_loop A fuel s u st = Done st' ->
  ss_x st' = ss_x st /\ ss_pos st' = ss_pos st /\ exists k, ss_rows st' = ss_rows st ++ repeat (ss_x st) k.
Proof. exact @ssa_absorbing. Qed.

(* Safe mode: whatever the rate law, the reaction selected to fire has its full complement of
   reactants (and the requirement covers what the firing removes, C01/InterfaceProofs). *)
Theorem C06_safe_never_starves :
  forall (si : simif R) m x V t u0, (m = Stoch \/ m = StochVol) ->
  let props := compute_safe ArithR si m x V t in
  (0 < sumR props)%R -> (0 < u0 <= 1)%R ->
  exists k : nat, sd_scan ArithR props (u0 * sumR props)%R 0%R 0%Z = Z.of_nat k /\
                  (k < length (si_props si))%nat /\ short ArithR x (need_row si k) = false.
Proof. exact safe_fired_not_short. Qed.

Theorem C06_requirement_sufficient :
  forall a d, (a < 0 \/ d < 0)%Z ->
  (0 < need_amount a d)%Z /\ (- (a + d) <= need_amount a d)%Z /\ (- a <= need_amount a d)%Z.
Proof. exact Proofs.InterfaceProofs.need_amount_sufficient. Qed.

(* Mass action: a reaction with positive stochastic propensity at an integer state has every
   reactant present in its multiplicity, so firing it cannot make a count negative. *)
Theorem C06_massaction_supplied :
  forall k rs x (cnt : nat -> nat), (forall s, rget x s = INR (cnt s)) -> ma_stoch k rs x <> 0%R ->
  forall s, In s rs -> (count_occ Nat.eq_dec rs s <= cnt s)%nat.
Proof. exact massaction_positive_means_supplied. Qed.

(* Delay-capable simulator (reals; every stream, grid, fuel, queue size; no rules): every reported row is
   x0 + S n + Sd d with natural counts d_r <= n_r (lattice s row unfolds to exactly that). *)
Theorem C06_delay_rows_on_lattice :
  forall (s : sim R) ncols fuel gfuel qdt qt ts u pos st,
  sm_rules s = [] -> length (sm_x0 s) = length (si_S (sm_if s)) -> length (si_S (sm_if s)) = length (si_Sd (sm_if s)) ->
  (0 < ncols)%nat ->
  dssa_simulate ArithR (2 * PI)%R fuel gfuel s (q_make ArithR 0%R (length (si_props (sm_if s))) ncols qdt qt) ts u pos = Done st ->
  Forall (fun row => exists n d : nat -> nat,
            (forall r, (r < length (si_props (sm_if s)))%nat -> (d r <= n r)%nat) /\
            forall i, nth i row 0%R = (nth i (sm_x0 s) 0 +
              DelayAccounting.sumR (fun r => INR (n r) * IZR (sget (si_S (sm_if s)) i r) + INR (d r) * IZR (sget (si_Sd (sm_if s)) i r)) (length (si_props (sm_if s))))%R)
         (ds_rows st).
Proof.
  intros s ncols fuel gfuel qdt qt ts u pos st H1 H2 H3 Hn H.
  exact (proj1 (delay_run_accounting s H1 H2 H3 ncols fuel gfuel qdt qt ts u pos st Hn H)).
Qed.

(* Volume-aware simulator (any arithmetic, stream, fuel, grid, volume model; no rules): the reported rows are linked by
   reaction paths from the initial state, exactly as for the plain loop. *)
Theorem C06_volume_rows_are_paths :
  forall F (A : Arith F) (s : sim F) (vm : volmodel (F:=F)), sm_rules s = [] ->
  forall fuel V0 ts u pos st, vssa_simulate A fuel s vm V0 ts u pos = Done st -> chain A s (sm_x0 s) (vs_rows st).
Proof. exact @vssa_rows_are_paths. Qed.

Print Assumptions C06_rows_are_paths.
Print Assumptions C06_conservation.
Print Assumptions C06_integrality.
Print Assumptions C06_absorbing.
Print Assumptions C06_safe_never_starves.
Print Assumptions C06_requirement_sufficient.
Print Assumptions C06_massaction_supplied.
Print Assumptions C06_delay_rows_on_lattice.
Print Assumptions C06_volume_rows_are_paths.
