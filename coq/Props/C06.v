(* placeholder until the loop theorems are in: keeps the build cone of the SSA models *)
From BS Require Import Base.Arith Model.SSA.
Theorem C06_placeholder : True. Proof. exact I. Qed.
