(* C06 — Every stochastic trajectory is a feasible reaction path. *)
From Coq Require Import ZArith Reals List Bool Arith.
From BS Require Import Base.Arith Model.Term Model.Propensity Model.Interface Model.Rules Model.Random Model.SSA
                       Spec.RateLaws Proofs.RateProofs Proofs.SSAProofs Proofs.SSAReal Proofs.FeasibleProofs Proofs.BuilderProofs.
Import ListNotations.

(* For every network (any size), stream, fuel and grid, any arithmetic (so also the doubles that
   are run), plain or safe interface, no rules: the reported rows are linked by reachability —
   each is obtained from the previous one (the first from x0) by firing finitely many reactions,
   each adding one column of S + Sd. *)
Theorem C06_rows_are_paths :
  forall F (A : Arith F) (s : sim F), sm_rules s = [] ->
  forall fuel ts u pos st, ssa_simulate A fuel s ts u pos = Done st -> chain A s (sm_x0 s) (ss_rows st).
Proof. exact @ssa_rows_are_paths. Qed.

(* Over the reals: every linear conservation law of the network holds at every reported row,
   and integer initial counts stay integer. *)
Theorem C06_conservation :
  forall (s : sim R) w, conserved s w -> length (si_S (sm_if s)) = length (si_Sd (sm_if s)) ->
  forall rows from, length from = length (si_S (sm_if s)) -> chain ArithR s from rows ->
  Forall (fun row => dot w row = dot w from) rows.
Proof. exact chain_conserves. Qed.

Theorem C06_integrality :
  forall (s : sim R) rows from, Forall is_int from -> chain ArithR s from rows -> Forall (Forall is_int) rows.
Proof. exact chain_int. Qed.

(* A state whose total propensity is zero persists to the end and consumes no further draw. *)
Theorem C06_absorbing :
  forall F (A : Arith F) (s : sim F), sm_rules s = [] ->
  forall fuel u st st', dead A s (ss_x st) (ss_p st) -> ssa_loop A fuel s u st = Done st' ->
  ss_x st' = ss_x st /\ ss_pos st' = ss_pos st /\ exists k, ss_rows st' = ss_rows st ++ repeat (ss_x st) k.
Proof. exact @ssa_absorbing. Qed.

(* Safe mode: whatever the rate law, the reaction selected to fire has its full complement of
   reactants (and the requirement covers what the firing removes, C01/InterfaceProofs). *)
Theorem C06_safe_never_starves :
  forall (si : simif R) m x V t u0, (m = Stoch \/ m = StochVol) ->
  let props := compute_safe ArithR si m x V t in
  (0 < sumR props)%R -> (0 < u0 <= 1)%R ->
  exists k : nat, sd_scan ArithR props (u0 * sumR props)%R 0%R 0%Z = Z.of_nat k /\
                  (k < length (si_props si))%nat /\ short ArithR x (need_row si k) = false.
Proof. exact safe_fired_not_short. Qed.

Theorem C06_requirement_sufficient :
  forall a d, (a < 0 \/ d < 0)%Z ->
  (0 < need_amount a d)%Z /\ (- (a + d) <= need_amount a d)%Z /\ (- a <= need_amount a d)%Z.
Proof. exact Proofs.InterfaceProofs.need_amount_sufficient. Qed.

(* Mass action: a reaction with positive stochastic propensity at an integer state has every
   reactant present in its multiplicity, so firing it cannot make a count negative. *)
Theorem C06_massaction_supplied :
  forall k rs x (cnt : nat -> nat), (forall s, rget x s = INR (cnt s)) -> ma_stoch k rs x <> 0%R ->
  forall s, In s rs -> (count_occ Nat.eq_dec rs s <= cnt s)%nat.
Proof. exact massaction_positive_means_supplied. Qed.

(* The delay-capable and volume simulators share record / fire / deliver with this loop; their
   lattice statement is not mechanised (C06_partial): it is covered by the stream replay and the
   integer-programme oracle of the harness. *)

Print Assumptions C06_rows_are_paths.
Print Assumptions C06_conservation.
Print Assumptions C06_integrality.
Print Assumptions C06_absorbing.
Print Assumptions C06_safe_never_starves.
Print Assumptions C06_requirement_sufficient.
Print Assumptions C06_massaction_supplied.
