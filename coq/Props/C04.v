(* C04 — Deterministic simulation solves the model's rate equations (what is bioscrape's own). *)
From Coq Require Import ZArith Reals List Bool.
From Coquelicot Require Import Coquelicot.
From BS Require Import Base.Arith Model.Term Model.Propensity Model.Interface Model.Builder Proofs.BuilderProofs Proofs.OdeProofs.
Import ListNotations.
Local Open Scope R_scope.

(* The function handed to the integrator is the rate equation: for each species the sum over
   reactions of (S + Sd) x rate -- delayed products and reactants act as if the delay were zero
   (restated from C03). *)
Theorem C04_rhs_is_rate_equations :
  forall (si : simif R) x t s, (s < si_nspecies si)%nat ->
  nth s (derivative ArithR si x t) 0 =
  sumR (map (fun r => IZR (sget (si_S si) s r + sget (si_Sd si) s r) * nth r (compute_plain ArithR si Det x 0 t) 0)
            (seq 0 (length (si_props si)))).
Proof. exact derivative_spec. Qed.

(* The reference solutions used by the check ARE solutions of the right-hand side that the model of
   the current source defines, for all parameters and initial values (machine-checked with
   Coquelicot's is_derive): birth-death, reversible conversion, dimerisation (bimolecular class,
   same species twice), explicitly time-dependent production through a general rate. *)
Theorem C04_birth_death :
  forall k g x0, g <> 0 -> bd_phi k g x0 0 = x0 /\
  forall t, is_derive (bd_phi k g x0) t (nth 0 (derivative ArithR (bd_sim k g) [bd_phi k g x0 t] t) 0).
Proof. exact birth_death_solves. Qed.
Theorem C04_reversible :
  forall a b A0 B0, a + b <> 0 ->
  ab_A a b A0 B0 0 = A0 /\ ab_B a b A0 B0 0 = B0 /\
  forall t, let rhs := derivative ArithR (ab_sim a b) [ab_A a b A0 B0 t; ab_B a b A0 B0 t] t in
            is_derive (ab_A a b A0 B0) t (nth 0 rhs 0) /\ is_derive (ab_B a b A0 B0) t (nth 1 rhs 0).
Proof. exact reversible_solves. Qed.
Theorem C04_dimerisation :
  forall k A0, 0 <= k -> 0 <= A0 -> dim_A k A0 0 = A0 /\
  forall t, 0 <= t -> is_derive (dim_A k A0) t (nth 0 (derivative ArithR (dim_sim k) [dim_A k A0 t; 0] t) 0).
Proof. exact dimerisation_solves. Qed.
Theorem C04_time_dependent :
  forall k a x0, a <> 0 -> td_phi k a x0 0 = x0 /\
  forall t, is_derive (td_phi k a x0) t (nth 0 (derivative ArithR (td_sim k a) [td_phi k a x0 t] t) 0).
Proof. exact time_dependent_solves. Qed.

(* C04_partial: "agrees with the exact solution at every time point for every well-posed model"
   quantifies over LSODA's behaviour and is not a theorem here; uniqueness of solutions
   (Picard-Lindelof) is cited.  The check compares the implementation's trajectories with these
   closed forms, with matrix exponentials for linear networks and with an independent
   high-accuracy integration of an independently built right-hand side otherwise. *)

Print Assumptions C04_rhs_is_rate_equations.
Print Assumptions C04_birth_death.
Print Assumptions C04_reversible.
Print Assumptions C04_dimerisation.
Print Assumptions C04_time_dependent.
