(* C18 — Reported Jacobians and parameter sensitivities match analytic derivatives. *)
From Coq Require Import ZArith QArith Reals List Bool.
From BS Require Import Base.Arith Model.Sensitivity Proofs.SensProofs Gen.StencilsGen Proofs.TieStencils.
Import ListNotations.
Local Open Scope R_scope.

(* Each difference scheme is exact on the polynomials of its order (any real coefficients, any
   x, any h <> 0) and has the stated leading error on the next degree: this pins every weight. *)
Theorem C18_fourth_order :
  forall a0 a1 a2 a3 a4 a5 x h, h <> 0 ->
  let p := poly5 a0 a1 a2 a3 a4 a5 in
  stencil ArithR FourthOrder (p (x + 2*h)) (p (x + h)) (p x) (p (x - h)) (p (x - 2*h)) h
  = dpoly5 a1 a2 a3 a4 a5 x - 4 * a5 * h^4.
Proof. exact fourth_order_exact. Qed.
Theorem C18_central :
  forall a0 a1 a2 a3 x h, h <> 0 -> let p := poly5 a0 a1 a2 a3 0 0 in
  stencil ArithR Central 0 (p (x + h)) (p x) (p (x - h)) 0 h = dpoly5 a1 a2 a3 0 0 x + a3 * h^2.
Proof. exact central_exact. Qed.
Theorem C18_forward :
  forall a0 a1 a2 x h, h <> 0 -> let p := poly5 a0 a1 a2 0 0 0 in
  stencil ArithR Forward 0 (p (x + h)) (p x) 0 0 h = dpoly5 a1 a2 0 0 0 x + a2 * h.
Proof. exact forward_exact. Qed.
Theorem C18_backward :
  forall a0 a1 a2 x h, h <> 0 -> let p := poly5 a0 a1 a2 0 0 0 in
  stencil ArithR Backward 0 0 (p x) (p (x - h)) 0 h = dpoly5 a1 a2 0 0 0 x - a2 * h.
Proof. exact backward_exact. Qed.

(* Orientation (any arithmetic, any dimension): entry (i, j) of the reported matrix is the
   stencil applied to equation i along state j. *)
Theorem C18_orientation :
  forall F (A : Arith F) (f : list F -> list F) x h sch i j, (i < length x)%nat -> (j < length x)%nat ->
  nth j (nth i (compute_J A f x h sch) []) (f0 A) = J_entry A f x h sch i j.
Proof. exact @J_orientation. Qed.
Theorem C18_affine_exact :
  forall (a b c h : R) sch, h <> 0 -> let g d := c + a * d + b in
  forall xj, stencil ArithR sch (g (xj + 2*h)) (g (xj + h)) (g xj) (g (xj + - h)) (g (xj + - (2*h))) h = a.
Proof. exact J_affine_exact. Qed.

(* Parameter sensitivities: entry i is the stencil along the named parameter; afterwards the
   model's parameter vector is the one captured at construction (any n, any scheme). *)
Theorem C18_Z_entries :
  forall F (A : Arith F) g orig x k h sch,
  fst (compute_Zj A g orig x k h sch) = map (fun i => fst (Z_entry A g orig x k h sch i)) (seq 0 (length x)).
Proof. exact @Zj_entries. Qed.
Theorem C18_parameters_restored :
  forall F (A : Arith F) g orig x k h sch, snd (compute_Zj A g orig x k h sch) = orig.
Proof. exact @Zj_restores_parameters. Qed.

(* Non-vacuity: f(x) = (x0^2 * x1, 3 x1) at (2, 5), h = 1/100: J = [[20, 4], [0, 3]] exactly. *)
Example C18_example :
  let f := fun x : list Q => [Qred (nth 0 x 0 * nth 0 x 0 * nth 1 x 0); Qred (3 * nth 1 x 0)]%Q in
  compute_J ArithQ f [2; 5]%Q (1 # 100)%Q FourthOrder = [[20; 4]; [0; 3]]%Q.
Proof. vm_compute. reflexivity. Qed.

From Coq Require Import String.
(* ---- Tie to the CURRENT source: the expressions stored into J[i,j] / Z[i] under each `method`, the perturbed coordinates at which
   the samples are taken and the index roles are regenerated from bioscrape/analysis.py on this run (Gen/StencilsGen.v,
   tools/tr_stencils.py); the weights equal the model's stencils for ANY arithmetic, the sample points are x +- h, x +- 2h, and
   the source's own fourth-order expression at the source's own points is exact up to degree 4 with the stated error on degree 5. *)
Theorem C18_source_stencils :
  forall F (A : Arith F) f2h fh f0 fmh fm2h h,
  gen_J_stencil_fourth_order_central_difference A f2h fh f0 fmh fm2h h = stencil A FourthOrder f2h fh f0 fmh fm2h h /\
  gen_J_stencil_central_difference A f2h fh f0 fmh fm2h h = stencil A Central f2h fh f0 fmh fm2h h /\
  gen_J_stencil_backward_difference A f2h fh f0 fmh fm2h h = stencil A Backward f2h fh f0 fmh fm2h h /\
  gen_J_stencil_forward_difference A f2h fh f0 fmh fm2h h = stencil A Forward f2h fh f0 fmh fm2h h /\
  gen_Z_stencil_fourth_order_central_difference A f2h fh f0 fmh fm2h h = stencil A FourthOrder f2h fh f0 fmh fm2h h /\
  gen_Z_stencil_central_difference A f2h fh f0 fmh fm2h h = stencil A Central f2h fh f0 fmh fm2h h /\
  gen_Z_stencil_backward_difference A f2h fh f0 fmh fm2h h = stencil A Backward f2h fh f0 fmh fm2h h /\
  gen_Z_stencil_forward_difference A f2h fh f0 fmh fm2h h = stencil A Forward f2h fh f0 fmh fm2h h.
Proof. exact @tie_stencils. Qed.

Theorem C18_source_points :
  forall v h : R,
  gen_J_point_f_2h ArithR v h = v + 2 * h /\ gen_J_point_f_h ArithR v h = v + h /\ gen_J_point_f_0 v h = v /\
  gen_J_point_f_mh ArithR v h = v + - h /\ gen_J_point_f_m2h ArithR v h = v + - (2 * h) /\
  gen_Z_point_f_2h ArithR v h = v + 2 * h /\ gen_Z_point_f_h ArithR v h = v + h /\ gen_Z_point_f_0 v h = v /\
  gen_Z_point_f_mh ArithR v h = v + - h /\ gen_Z_point_f_m2h ArithR v h = v + - (2 * h).
Proof. exact tie_points. Qed.

Theorem C18_source_indices : gen_J_indices = ["(i, j)"; "i"; "j"]%string /\ gen_Z_indices = ["i"; "i"; "param_name"]%string.
Proof. exact tie_indices. Qed.

Theorem C18_source_fourth_order :
  forall a0 a1 a2 a3 a4 a5 x h, h <> 0 ->
  let p := poly5 a0 a1 a2 a3 a4 a5 in
  gen_J_stencil_fourth_order_central_difference ArithR
    (p (gen_J_point_f_2h ArithR x h)) (p (gen_J_point_f_h ArithR x h)) (p (gen_J_point_f_0 x h))
    (p (gen_J_point_f_mh ArithR x h)) (p (gen_J_point_f_m2h ArithR x h)) h
  = dpoly5 a1 a2 a3 a4 a5 x - 4 * a5 * h^4.
Proof. exact source_fourth_order_exact. Qed.

Print Assumptions C18_fourth_order.
Print Assumptions C18_central.
Print Assumptions C18_forward.
Print Assumptions C18_backward.
Print Assumptions C18_orientation.
Print Assumptions C18_affine_exact.
Print Assumptions C18_Z_entries.
Print Assumptions C18_parameters_restored.
Print Assumptions C18_source_stencils.
Print Assumptions C18_source_points.
Print Assumptions C18_source_indices.
Print Assumptions C18_source_fourth_order.
