(* C15 — The inference cost is the stated posterior on correctly aligned data. *)
From Coq Require Import ZArith QArith Reals List Bool Arith Permutation.
From BS Require Import Base.Arith Model.Likelihood Proofs.LikelihoodProofs Proofs.BuilderProofs.
Import ListNotations.

(* Data alignment, for EVERY number of time points and measured species: after numpy's array /
   transpose / reshape, entry (t, i) of a trajectory's data is measurement i's column at row t. *)
Theorem C15_alignment :
  forall T (d : T) nT (cols : list (list T)) t i, (0 < length cols)%nat -> (t < nT)%nat -> (i < length cols)%nat ->
  nth i (nth t (extract_frame d nT cols) []) d = nth t (nth i cols []) d.
Proof. exact @extract_frame_aligned. Qed.

(* The value is a function of theta alone: whatever earlier evaluations left in the model's
   parameter vector (any arithmetic, any simulator). *)
Theorem C15_history_independent :
  forall F (A : Arith F) sim defaults theta lp meas p_norm trajs pm1 pm2,
  fst (cost A sim defaults theta lp meas p_norm trajs pm1) = fst (cost A sim defaults theta lp meas p_norm trajs pm2).
Proof. exact @cost_history_independent. Qed.

(* Outside the prior's support: minus infinity (None), the model untouched. *)
Theorem C15_outside_support :
  forall F (A : Arith F) sim defaults theta meas p_norm trajs pm,
  cost A sim defaults theta None meas p_norm trajs pm = (None, pm).
Proof. exact @cost_outside_support. Qed.

(* Each trajectory n is simulated from its own x0 at its own times with defaults (+) theta (+)
   condition_n; the errors accumulate over the trajectories. *)
Theorem C15_trajectory_parameters :
  forall F (A : Arith F) sim entry meas p_norm trajs,
  fst (log_likelihood A sim entry meas p_norm trajs) =
  fneg A (fpow A (fold_left (fun e tj => traj_error A meas p_norm (sim (override entry (tj_cond tj)) (tj_x0 tj) (tj_times tj)) (tj_data tj) e) trajs (f0 A))
               (fdiv A (f1 A) p_norm)).
Proof. exact @log_likelihood_params. Qed.

(* Over the reals the accumulated error of a trajectory is the sum over measured species and time
   points of |data - simulation|^p, and sums are invariant under permutation (of the measured
   species with their data columns, or of the trajectories). *)
Theorem C15_error_is_sum :
  forall meas p_norm ans data err, traj_error ArithR meas p_norm ans data err = (err + traj_sum meas p_norm ans data)%R.
Proof. exact traj_error_is_sum. Qed.
Theorem C15_permutation_invariance :
  forall X (f : X -> R) l l', Permutation l l' -> sumR (map f l) = sumR (map f l').
Proof. exact @sum_permutation. Qed.

Example C15_example :
  extract_frame 0%Z 3 [[10; 11; 12]; [20; 21; 22]]%Z = [[10; 20]; [11; 21]; [12; 22]]%Z.
Proof. vm_compute. reflexivity. Qed.

Print Assumptions C15_alignment.
Print Assumptions C15_history_independent.
Print Assumptions C15_outside_support.
Print Assumptions C15_trajectory_parameters.
Print Assumptions C15_error_is_sum.
Print Assumptions C15_permutation_invariance.
