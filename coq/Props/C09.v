(* C09 — Rules hold on every reported row and fire on their schedule. *)
From Coq Require Import ZArith Reals List Bool Arith Sorted.
From BS Require Import Base.Arith Model.Term Model.Propensity Model.Interface Model.Rules Model.Random Model.SSA Proofs.RuleProofs Proofs.RuleCount Proofs.RuleRows Model.Queue.
Import ListNotations.

(* Expression evaluation depends only on the species the expression reads (any arithmetic). *)
Theorem C09_eval_frame :
  forall F (A : Arith F) vol p t (tm : term F) x y,
  (forall i, In i (reads tm) -> getv A x i = getv A y i) -> teval A vol x p t tm = teval A vol y p t tm.
Proof. exact @teval_frame. Qed.

(* Repeated assignment rules chained in dependency order (any number): after one pass in
   declaration order every one of them is satisfied exactly, parameters are untouched and the
   species that are no rule's destination are unchanged. *)
Theorem C09_assignment_fixpoint :
  forall F (A : Arith F) (rs : list (rule F * term F)) x p t dt step,
  Forall (fun rr => is_repeat_assign A (fst rr) (snd rr)) rs -> dep_order rs ->
  Forall (fun rr => (ru_dest (fst rr) < length x)%nat) rs ->
  let '(x', p') := apply_rules A (map fst rs) None (x, p) t dt step in
  p' = p /\ length x' = length x /\
  Forall (fun rr => satisfied A (fst rr) (snd rr) x' p t) rs /\
  (forall i, ~ In i (map (fun rr => ru_dest (fst rr)) rs) -> getv A x' i = getv A x i).
Proof. exact @assignments_hold_after_pass. Qed.

(* Every row reported by the SSA loop (plain / safe) is the species part of a rule pass taken
   before any reaction of that iteration (every stream, fuel, grid); the iteration's propensities
   are computed from that state and those parameters (by definition of ssa_iter). *)
Theorem C09_rows_are_rule_applied :
  forall F (A : Arith F) (s : sim F) fuel ts u pos st,
  ssa_simulate A fuel s ts u pos = Done st -> Forall (rule_applied A s) (ss_rows st).
Proof. exact @ssa_rows_rule_applied. Qed.

(* rule_step is set exactly after an iteration in which no reaction fired; a dt rule fires exactly
   when rule_step is set, a repeated rule always, a scheduled rule exactly at its time. *)
Theorem C09_rule_step_bookkeeping :
  forall F (A : Arith F) (s : sim F) u st st' tnext todo,
  ss_todo st = tnext :: todo -> ssa_iter A s u st = Done st' ->
  let x1p1 := apply_rules A (sm_rules s) None (ss_x st, ss_p st) (ss_time st) (sm_dt s) (ss_rule_step st) in
  (ss_rule_step st' = true -> ss_x st' = fst x1p1 /\ (ss_pos st' = ss_pos st \/ ss_pos st' = S (ss_pos st))) /\
  (ss_rule_step st' = false -> ss_pos st' = S (S (ss_pos st)) \/ ss_x st' = fst x1p1).
Proof. exact @ssa_iter_rule_step. Qed.
Theorem C09_dt_rule_fires_iff_rule_step :
  forall (r : rule R) (t : R) step, ru_freq r = IZR (-2) -> (0 <= t)%R -> fires ArithR r t step = step.
Proof. exact dt_rule_fires_iff_rule_step. Qed.
Theorem C09_repeat_rule_always_fires :
  forall (r : rule R) (t : R) step, ru_freq r = IZR (-1) -> fires ArithR r t step = true.
Proof. exact repeat_rule_always_fires. Qed.
Theorem C09_scheduled_rule_fires_at :
  forall (r : rule R) (t : R) step, (0 <= ru_freq r)%R -> (fires ArithR r t step = true <-> ru_freq r = t).
Proof. exact scheduled_rule_fires_at. Qed.

(* Whole-run counting for the SSA loop (reals; every network incl. rules, stream with uniforms in (0,1], fuel;
   strictly increasing grid not before t0; non-negative propensities): the iterations that start with rule_step
   set -- exactly those in which every dt rule fires (C09_dt_rule_fires_iff_rule_step) -- number, at EVERY
   iteration boundary m of the run, (rows reported so far) + (1 if rule_step is cleared, i.e. the application for
   the row to come has already been made): one application between consecutive rows, made before the row is
   recorded; over the whole run as many as requested times.  The only exclusion is the null event of a firing
   time equal to a grid time (notie_run). *)
Theorem C09_dt_rules_once_per_row :
  forall (s : sim R) (u : nat -> R), (forall n, 0 < u n <= 1)%R ->
  (forall x p V t, 0 <= array_sum ArithR (stoch_props ArithR s Stoch x p V t))%R ->
  forall ts fuel pos st, StronglySorted Rlt ts -> Forall (fun t => sm_t0 s <= t)%R ts ->
  ssa_simulate ArithR fuel s ts u pos = Done st ->
  exists n, ssa_run s u n (ssa_init s ts pos) = Done st /\
    (notie_run s u n (ssa_init s ts pos) ->
       apps s u n (ssa_init s ts pos) = length ts /\ length (ss_rows st) = length ts /\
       forall m stm, (m <= n)%nat -> ssa_run s u m (ssa_init s ts pos) = Done stm ->
         apps s u m (ssa_init s ts pos) = (length (ss_rows stm) + (if ss_rule_step stm then 0 else 1))%nat).
Proof. exact dt_rules_once_per_row. Qed.

(* The delay-capable and the volume-aware loops report only rule-applied states as well (any arithmetic, stream, fuel, grid,
   queue, volume model): every row is the species part of a rule pass -- volume rules reading the current volume -- taken
   before the firing / delivery / volume step of that iteration. *)
Theorem C09_delay_rows_are_rule_applied :
  forall F (A : Arith F) pi2 (s : sim F) fuel gfuel q ts u pos st,
  dssa_simulate A pi2 fuel gfuel s q ts u pos = Done st -> Forall (rule_applied_v A s) (ds_rows st).
Proof. exact @dssa_rows_rule_applied. Qed.
Theorem C09_volume_rows_are_rule_applied :
  forall F (A : Arith F) (s : sim F) fuel vm V0 ts u pos st,
  vssa_simulate A fuel s vm V0 ts u pos = Done st -> Forall (rule_applied_v A s) (vs_rows st).
Proof. exact @vssa_rows_rule_applied. Qed.

(* The counting statements for the delay / volume / deterministic / lineage loops (the lineage single-cell loop's rows are
   covered by Props/C19.v: C19_cell_rows_were_simulated) are decided by the stream
   replay and the harness oracle (counter, ODE and scheduled rules); not mechanised (C09_partial). *)

Print Assumptions C09_eval_frame.
Print Assumptions C09_assignment_fixpoint.
Print Assumptions C09_rows_are_rule_applied.
Print Assumptions C09_rule_step_bookkeeping.
Print Assumptions C09_dt_rule_fires_iff_rule_step.
Print Assumptions C09_repeat_rule_always_fires.
Print Assumptions C09_scheduled_rule_fires_at.
Print Assumptions C09_dt_rules_once_per_row.
Print Assumptions C09_delay_rows_are_rule_applied.
Print Assumptions C09_volume_rows_are_rule_applied.
