(* C09 — Rules hold on every reported row and fire on their schedule. *)
From Coq Require Import ZArith Reals List Bool Arith Sorted.
From BS Require Import Base.Arith Model.Term Model.Propensity Model.Interface Model.Rules Model.Random Model.SSA Proofs.RuleProofs Proofs.RuleCount Proofs.RuleRows Proofs.VolumeRuleCount Proofs.LineageRuleCount Proofs.DelayRuleCount Proofs.DvRuleCount Proofs.RuleSchedule Model.Queue Model.Splitters Model.Lineage Base.CyPrelude Gen.RulesGen Proofs.TieRules Gen.RuleOpsGen Proofs.TieRuleOps.
Import ListNotations.

(* Expression evaluation depends only on the species the expression reads (any arithmetic). *)
Theorem C09_eval_frame :
  forall F (A : Arith F) vol p t (tm : term F) x y,
  (forall i, In i (reads tm) -> getv A x i = getv A y i) -> teval A vol x p t tm = teval A vol y p t tm.
Proof. exact @teval_frame. Qed.

(* Repeated assignment rules chained in dependency order (any number): after one pass in
   declaration order every one of them is satisfied exactly, parameters are untouched and the
   species that are no rule's destination are unchanged. *)
Theorem C09_assignment_fixpoint :
  forall F (A : Arith F) (rs : list (rule F * term F)) x p t dt step,
  Forall (fun rr => is_repeat_assign A (fst rr) (snd rr)) rs -> dep_order rs ->
  Forall (fun rr => (ru_dest (fst rr) < length x)%nat) rs ->
  let '(x', p') := apply_rules A (map fst rs) None (x, p) t dt step in
  p' = p /\ length x' = length x /\
  Forall (fun rr => satisfied A (fst rr) (snd rr) x' p t) rs /\
  (forall i, ~ In i (map (fun rr => ru_dest (fst rr)) rs) -> getv A x' i = getv A x i).
Proof. exact @assignments_hold_after_pass. Qed.

(* Every row reported by the SSA loop (plain / safe) is the species part of a rule pass taken
   before any reaction of that iteration (every stream, fuel, grid); the iteration's propensities
   are computed from that state and those parameters (by definition of ssa_iter). *)
Theorem C09_rows_are_rule_applied :
  forall F (A : Arith F) (s : sim F) fuel ts u pos st,
  ssa_simulate A fuel s ts u pos = Done st -> Forall (rule_applied A s) (ss_rows st).
Proof. exact @ssa_rows_rule_applied. Qed.

(* rule_step is set exactly after an iteration in which no reaction fired; a dt rule fires exactly
   when rule_step is set, a repeated rule always, a scheduled rule exactly at its time. *)
Theorem C09_rule_step_bookkeeping :
  forall F (A : Arith F) (s : sim F) u st st' tnext todo,
  ss_todo st = tnext :: todo -> ssa_iter A s u st = Done st' ->
  let x1p1 := apply_rules A (sm_rules s) None (ss_x st, ss_p st) (ss_time st) (sm_dt s) (ss_rule_step st) in
  (ss_rule_step st' = true -> ss_x st' = fst x1p1 /\ (ss_pos st' = ss_pos st \/ ss_pos st' = S (ss_pos st))) /\
  (ss_rule_step st' = false -> ss_pos st' = S (S (ss_pos st)) \/ ss_x st' = fst x1p1).
Proof. exact @ssa_iter_rule_step. Qed.
Theorem C09_dt_rule_fires_iff_rule_step :
  forall (r : rule R) (t : R) step, ru_freq r = IZR (-2) -> (0 <= t)%R -> fires ArithR r t step = step.
Proof. exact dt_rule_fires_iff_rule_step. Qed.
Theorem C09_repeat_rule_always_fires :
  forall (r : rule R) (t : R) step, ru_freq r = IZR (-1) -> fires ArithR r t step = true.
Proof. exact repeat_rule_always_fires. Qed.
Theorem C09_scheduled_rule_fires_at :
  forall (r : rule R) (t : R) step, (0 <= ru_freq r)%R -> (fires ArithR r t step = true <-> ru_freq r = t).
Proof. exact scheduled_rule_fires_at. Qed.

(* Whole-run counting for the SSA loop (reals; every network incl. rules, stream with uniforms in (0,1], fuel;
   strictly increasing grid not before t0; non-negative propensities): the iterations that start with rule_step
   set -- exactly those in which every dt rule fires (C09_dt_rule_fires_iff_rule_step) -- number, at EVERY
   iteration boundary m of the run, (rows reported so far) + (1 if rule_step is cleared, i.e. the application for
   the row to come has already been made): one application between consecutive rows, made before the row is
   recorded; over the whole run as many as requested times.  The only exclusion is the null event of a firing
   time equal to a grid time (notie_run). *)
Theorem C09_dt_rules_once_per_row :
  forall (s : sim R) (u : nat -> R), (forall n, 0 < u n <= 1)%R ->
  (forall x p V t, 0 <= array_sum ArithR (stoch_props ArithR s Stoch x p V t))%R ->
  forall ts fuel pos st, StronglySorted Rlt ts -> Forall (fun t => sm_t0 s <= t)%R ts ->
  ssa_simulate ArithR fuel s ts u pos = Done st ->
  exists n, ssa_run s u n (ssa_init s ts pos) = Done st /\
    (notie_run s u n (ssa_init s ts pos) ->
       apps s u n (ssa_init s ts pos) = length ts /\ length (ss_rows st) = length ts /\
       forall m stm, (m <= n)%nat -> ssa_run s u m (ssa_init s ts pos) = Done stm ->
         apps s u m (ssa_init s ts pos) = (length (ss_rows stm) + (if ss_rule_step stm then 0 else 1))%nat).
Proof. exact dt_rules_once_per_row. Qed.

(* Scheduled rules over whole runs of the SSA loop (reals; strictly increasing grid not before t0; uniforms in (0,1]; non-negative
   propensities; no firing time equal to a grid time): the loop STOPS at every requested time.  At every iteration boundary the rows
   recorded so far are those of the first grid times, and whenever rule_step is set after something was recorded the clock stands exactly
   at the time of the last recorded row -- so the next iteration starts with the clock EQUAL to that requested time, which is when a rule
   scheduled for it fires (C09_scheduled_rule_fires_at), after that row was recorded and before any later one is.  (The volume-aware
   loops do not stop at requested times: known finding F24.) *)
Theorem C09_ssa_stops_at_requested_times :
  forall (s : sim R) (u : nat -> R), (forall n, 0 < u n <= 1)%R ->
  (forall x p V t, 0 <= array_sum ArithR (stoch_props ArithR s Stoch x p V t))%R ->
  forall ts pos n, StronglySorted Rlt ts -> Forall (fun t => sm_t0 s <= t)%R ts ->
  notie_run s u n (ssa_init s ts pos) ->
  forall m stm, (m <= n)%nat -> ssa_run s u m (ssa_init s ts pos) = Done stm ->
    ss_todo stm = skipn (length (ss_rows stm)) ts /\
    (ss_rule_step stm = true -> ss_rows stm <> [] -> ss_time stm = nth (length (ss_rows stm) - 1) ts 0%R).
Proof. exact ssa_stops_at_requested_times. Qed.

(* The delay-capable and the volume-aware loops report only rule-applied states as well (any arithmetic, stream, fuel, grid,
   queue, volume model): every row is the species part of a rule pass -- volume rules reading the current volume -- taken
   before the firing / delivery / volume step of that iteration. *)
Theorem C09_delay_rows_are_rule_applied :
  forall F (A : Arith F) pi2 (s : sim F) fuel gfuel q ts u pos st,
  dssa_simulate A pi2 fuel gfuel s q ts u pos = Done st -> Forall (rule_applied_v A s) (ds_rows st).
Proof. exact @dssa_rows_rule_applied. Qed.
Theorem C09_volume_rows_are_rule_applied :
  forall F (A : Arith F) (s : sim F) fuel vm V0 ts u pos st,
  vssa_simulate A fuel s vm V0 ts u pos = Done st -> Forall (rule_applied_v A s) (vs_rows st).
Proof. exact @vssa_rows_rule_applied. Qed.

(* Whole-run counting for the delay-capable loop (reals; every network incl. rules and delay laws, any queue, stream and fuel;
   strictly increasing grid not before t0; no firing time equal to a grid time): at the end
   one row per requested time, and at EVERY iteration boundary the iterations that started with rule_step set number (rows reported
   so far) + (1 if rule_step is cleared) -- one application per row, made before the row is recorded, however many reactions fire
   and however many queued deliveries are made in between. *)
Theorem C09_delay_dt_rules_once_per_row :
  forall (s : sim R) pi2 gfuel (u : nat -> R) q ts fuel pos st, StronglySorted Rlt ts -> Forall (fun t => sm_t0 s <= t)%R ts ->
  dssa_simulate ArithR pi2 fuel gfuel s q ts u pos = Done st ->
  exists n, drun s pi2 gfuel u n (dinit s q ts pos) = Done st /\
    (dnotie_run s pi2 gfuel u n (dinit s q ts pos) ->
       length (ds_rows st) = length ts /\
       forall m stm, (m <= n)%nat -> drun s pi2 gfuel u m (dinit s q ts pos) = Done stm ->
         dapps s pi2 gfuel u m (dinit s q ts pos) = (length (ds_rows stm) + (if ds_rule_step stm then 0 else 1))%nat).
Proof. exact delay_dt_rules_once_per_row. Qed.

(* Whole-run counting for the volume-aware loop ("applied exactly once per elapsed time step however many reactions fire";
   reals, 0 < dt, uniforms in (0,1], non-negative propensities; ANY volume model, network incl. rules, grid, fuel): the run is n
   iterations of the loop from vinit (= the state vssa_simulate starts from), and when j whole steps of length dt have elapsed since t0 (t0 + j dt <= clock <= t0 + (j+1) dt = the
   next volume step) the iterations that started with rule_step set -- exactly those in which every dt rule fires and every ODE
   rule advances by rate x dt -- number j, plus one iff the pass for the step in progress has been made (rule_step cleared). *)
Theorem C09_volume_dt_rules_once_per_step :
  forall (s : sim R) (vm : volmodel) (u : nat -> R), (0 < sm_dt s)%R -> (forall n, 0 < u n <= 1)%R ->
  (forall x p V t, 0 <= array_sum ArithR (stoch_props ArithR s StochVol x p V t))%R ->
  forall ts V0 pos fuel st, vssa_simulate ArithR fuel s vm V0 ts u pos = Done st ->
  exists n j : nat, vrun s vm u n (vinit s ts V0 pos) = Done st /\
    (vs_next_q st = sm_t0 s + INR (S j) * sm_dt s)%R /\
    (sm_t0 s + INR j * sm_dt s <= vs_time st <= sm_t0 s + INR (S j) * sm_dt s)%R /\
    vapps s vm u n (vinit s ts V0 pos) = (j + (if vs_rule_step st then 0 else 1))%nat.
Proof. exact volume_run_dt_rules. Qed.
(* ... and at every iteration boundary of such a run *)
Theorem C09_volume_dt_rules_every_boundary :
  forall (s : sim R) (vm : volmodel) (u : nat -> R), (0 < sm_dt s)%R -> (forall n, 0 < u n <= 1)%R ->
  (forall x p V t, 0 <= array_sum ArithR (stoch_props ArithR s StochVol x p V t))%R ->
  forall ts V0 pos n st,
  vrun s vm u n (vinit s ts V0 pos) = Done st ->
  exists j : nat,
    (vs_next_q st = sm_t0 s + INR (S j) * sm_dt s)%R /\
    (sm_t0 s + INR j * sm_dt s <= vs_time st <= sm_t0 s + INR (S j) * sm_dt s)%R /\
    vapps s vm u n (vinit s ts V0 pos) = (j + (if vs_rule_step st then 0 else 1))%nat.
Proof. exact volume_dt_rules_once_per_step. Qed.

(* Whole-run counting for the delay + volume loop (DelayVolumeSSASimulator as repaired by F23; reals; ANY network incl. rules and delay
   laws, queue, volume model, grid, stream, fuel -- no hypothesis at all): with j volume steps taken (the next is due at t0 + (j+1) dt)
   the iterations that started with rule_step set number j, plus one iff the pass for the step in progress has been made -- whatever
   reactions fired, deliveries were made, or bare moves to a requested time happened in between (the defect F23 was such a move
   setting rule_step). *)
Theorem C09_delay_volume_dt_rules_once_per_step :
  forall (s : sim R) (vm : volmodel) pi2 gfuel (u : nat -> R) q ts V0 pos fuel st,
  dvssa_simulate ArithR pi2 fuel gfuel s vm V0 q ts u pos = Done st ->
  exists n j : nat, dvrun s vm pi2 gfuel u n (dvinit s q ts V0 pos) = Done st /\
    (dv_next_vol st = sm_t0 s + INR (S j) * sm_dt s)%R /\
    dvapps s vm pi2 gfuel u n (dvinit s q ts V0 pos) = (j + (if dv_rule_step st then 0 else 1))%nat.
Proof. exact delay_volume_run_dt_rules. Qed.
Theorem C09_delay_volume_dt_rules_every_boundary :
  forall (s : sim R) (vm : volmodel) pi2 gfuel (u : nat -> R) q ts V0 pos n st,
  dvrun s vm pi2 gfuel u n (dvinit s q ts V0 pos) = Done st ->
  exists j : nat, (dv_next_vol st = sm_t0 s + INR (S j) * sm_dt s)%R /\
    dvapps s vm pi2 gfuel u n (dvinit s q ts V0 pos) = (j + (if dv_rule_step st then 0 else 1))%nat.
Proof. exact delay_volume_dt_rules_every_boundary. Qed.

(* "For plain and for lineage models alike": the single-cell lineage loop (coq/Model/Lineage.v; reals, 0 < eps7 (the 10e-8 of the
   code), uniforms in (0,1], non-negative propensities; any lineage model -- rules, volume / division / death rules with their noise,
   volume / division / death events -- and any grid t0 :: t1 :: _ with the cell's clock in [t0, t1]).  After n iterations none of
   which stopped the cell or jumped to the final time, with the dt clock j ticks past its first value t1, the iterations that started
   with rule_step set number j, plus one iff the pass for the step in progress has been made; and whatever iteration comes next --
   firing, tick, division, death, the jump to the final time -- leaves exactly j + 1 behind. *)
Theorem C09_lineage_dt_rules_once_per_step :
  forall (l : lin R) pi2 eps9 eps7 t_init V_init (u : nat -> R),
  (0 < eps7)%R -> (forall n, 0 < u n <= 1)%R -> (forall x p V t, 0 <= array_sum ArithR (lin_props ArithR l x p V t))%R ->
  forall t0 t1 ts' t_cur V x0 pos n st, (t0 <= t_cur <= t1)%R ->
  let ts := t0 :: t1 :: ts' in
  let init := mkLst t_cur ts x0 (si_params (sm_if (ln_sim l))) true pos [] [] t1 V (-1)%Z (-1)%Z false in
  lrun l pi2 eps9 eps7 (t1 - t0)%R (last ts t0) t_init V_init u n init = Done st ->
  lplain l pi2 eps9 eps7 (t1 - t0)%R (last ts t0) t_init V_init u n init ->
  exists j : nat,
    (ls_next_q st = t1 + INR j * (t1 - t0))%R /\ (ls_next_q st - (t1 - t0) <= ls_time st <= ls_next_q st)%R /\
    lapps l pi2 eps9 eps7 (t1 - t0)%R (last ts t0) t_init V_init u n init = (j + (if ls_rule_step st then 0 else 1))%nat.
Proof. exact lineage_dt_rules_once_per_step. Qed.
Theorem C09_lineage_dt_rules_next_iteration :
  forall (l : lin R) pi2 eps9 eps7 t_init V_init (u : nat -> R),
  (0 < eps7)%R -> (forall n, 0 < u n <= 1)%R -> (forall x p V t, 0 <= array_sum ArithR (lin_props ArithR l x p V t))%R ->
  forall t0 t1 ts' t_cur V x0 pos n st, (t0 <= t_cur <= t1)%R ->
  let ts := t0 :: t1 :: ts' in
  let init := mkLst t_cur ts x0 (si_params (sm_if (ln_sim l))) true pos [] [] t1 V (-1)%Z (-1)%Z false in
  lrun l pi2 eps9 eps7 (t1 - t0)%R (last ts t0) t_init V_init u n init = Done st ->
  lplain l pi2 eps9 eps7 (t1 - t0)%R (last ts t0) t_init V_init u n init -> llive st = true ->
  exists j : nat,
    (ls_next_q st = t1 + INR j * (t1 - t0))%R /\
    lapps l pi2 eps9 eps7 (t1 - t0)%R (last ts t0) t_init V_init u (S n) init = S j.
Proof. exact lineage_dt_rules_next_iteration. Qed.

(* Not mechanised (C09_partial): the counting statement for the deterministic post-pass, and the scheduled-rule
   clause over whole runs of the loops other than the SSA loop -- decided by the stream replay and the harness oracle (counter, ODE and scheduled rules). *)

From Coq Require Import String.
(* ---- Tie to the CURRENT source: the conditions under which Rule.execute_rule / Rule.execute_volume_rule call the rule's operation are
   regenerated from bioscrape/types.pyx on this run (Gen/RulesGen.v, tools/tr_rules.py) and equal the model's firing predicate `fires`
   for ANY arithmetic (repeat = -1, at a time = equality with the clock, dt = -2 together with the rule_step flag); what is handed on to
   the operation is the caller's own state, parameters, (volume,) time and dt. *)
Theorem C09_source_firing :
  forall F (A : Arith F) (r : rule F) (time dt volume : F) (rule_step : nat),
  gen_Rule_execute_rule_guard A {| Rule_frequency_flag := ru_freq r |} time dt rule_step = fires A r time (negb (Nat.eqb rule_step 0)) /\
  gen_Rule_execute_volume_rule_guard A {| Rule_frequency_flag := ru_freq r |} volume time dt rule_step = fires A r time (negb (Nat.eqb rule_step 0)).
Proof. exact tie_rule_guards. Qed.
Theorem C09_source_passes :
  gen_execute_rule_passes = ["state"; "params"; "time"; "dt"]%string /\
  gen_execute_volume_rule_passes = ["state"; "params"; "volume"; "time"; "dt"]%string.
Proof. exact tie_rule_passes. Qed.

(* ... and the OPERATIONS of the three rule classes (AdditiveAssignmentRule.rule_operation; GeneralAssignmentRule and GeneralODERule:
   rule_operation and rule_volume_operation) regenerated from types.pyx (Gen/RuleOpsGen.v, tools/tr_ruleops.py) are the model's
   rule_operation, for any arithmetic; the rule's right-hand side object is an oracle there, instantiated with the model's expression
   evaluator (without / with the volume).  param_flag is 1 for a parameter target, 0 for a species target. *)
Theorem C09_source_operations :
  forall F (A : Arith F) fr dest pf (rhs : term F) x p V t dt,
  gen_GeneralAssignmentRule_rule_operation (fun x p t => teval A None x p t rhs) A
     {| GeneralAssignmentRule_dest_index := dest; GeneralAssignmentRule_frequency_flag := fr; GeneralAssignmentRule_param_flag := flag_of pf |} x p t dt
    = rule_operation A (mkRule fr dest (RAssign pf rhs)) None x p t dt /\
  gen_GeneralAssignmentRule_rule_volume_operation (fun x p V t => teval A (Some V) x p t rhs) A
     {| GeneralAssignmentRule_dest_index := dest; GeneralAssignmentRule_frequency_flag := fr; GeneralAssignmentRule_param_flag := flag_of pf |} x p V t dt
    = rule_operation A (mkRule fr dest (RAssign pf rhs)) (Some V) x p t dt /\
  gen_GeneralODERule_rule_operation (fun x p t => teval A None x p t rhs) A
     {| GeneralODERule_dest_index := dest; GeneralODERule_frequency_flag := fr; GeneralODERule_param_flag := flag_of pf |} x p t dt
    = rule_operation A (mkRule fr dest (ROde pf rhs)) None x p t dt /\
  gen_GeneralODERule_rule_volume_operation (fun x p V t => teval A (Some V) x p t rhs) A
     {| GeneralODERule_dest_index := dest; GeneralODERule_frequency_flag := fr; GeneralODERule_param_flag := flag_of pf |} x p V t dt
    = rule_operation A (mkRule fr dest (ROde pf rhs)) (Some V) x p t dt.
Proof. exact @source_rule_operations. Qed.
Theorem C09_source_additive :
  forall F (A : Arith F) fr dest srcs vol x p t dt, fofZ A 0 = f0 A ->
  (gen_AdditiveAssignmentRule_rule_operation A
     {| AdditiveAssignmentRule_dest_index := dest; AdditiveAssignmentRule_frequency_flag := fr; AdditiveAssignmentRule_species_source_indices := srcs |} x p t dt, p)
  = rule_operation A (mkRule fr dest (RAdditive srcs)) vol x p t dt.
Proof. exact @tie_additive. Qed.

Print Assumptions C09_eval_frame.
Print Assumptions C09_assignment_fixpoint.
Print Assumptions C09_rows_are_rule_applied.
Print Assumptions C09_rule_step_bookkeeping.
Print Assumptions C09_dt_rule_fires_iff_rule_step.
Print Assumptions C09_repeat_rule_always_fires.
Print Assumptions C09_scheduled_rule_fires_at.
Print Assumptions C09_dt_rules_once_per_row.
Print Assumptions C09_ssa_stops_at_requested_times.
Print Assumptions C09_delay_rows_are_rule_applied.
Print Assumptions C09_volume_rows_are_rule_applied.
Print Assumptions C09_delay_dt_rules_once_per_row.
Print Assumptions C09_volume_dt_rules_once_per_step.
Print Assumptions C09_volume_dt_rules_every_boundary.
Print Assumptions C09_delay_volume_dt_rules_once_per_step.
Print Assumptions C09_delay_volume_dt_rules_every_boundary.
Print Assumptions C09_lineage_dt_rules_once_per_step.
Print Assumptions C09_lineage_dt_rules_next_iteration.
Print Assumptions C09_source_firing.
Print Assumptions C09_source_passes.
Print Assumptions C09_source_operations.
Print Assumptions C09_source_additive.
