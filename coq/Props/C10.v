(* C10 — Delayed reactions deliver their delayed part exactly once, after the delay. *)
From Coq Require Import ZArith Reals List Bool Arith.
From BS Require Import Base.Arith Model.Term Model.Interface Model.Rules Model.Random Model.Queue Model.SSA
                       Proofs.DelayProofs Proofs.QueueProofs Proofs.QueueHistory Proofs.DelayAccounting Proofs.DelayVolumeAccounting
                       Base.CyPrelude Gen.QueueGen Proofs.TieQueue.
Import ListNotations.

(* One iteration of the delay-capable loop (any arithmetic, stream, network): on the rule-updated
   state it does exactly one of: deliver what is pending at the queue's offset 0 and advance the
   queue; fire r applying S[:,r] and, the delay being <= 0, Sd[:,r] at once with the queue untouched;
   fire r applying S[:,r] and insert ONE entry of amount 1 for r at (firing time + delay); nothing. *)
Theorem C10_iteration_steps :
  forall F (A : Arith F) pi2 (s : sim F) gfuel u st st', dssa_iter A pi2 gfuel s u st = Done st' ->
  ds_todo st = [] /\ st' = st \/
  exists x1 p1, (x1, p1) = apply_rules A (sm_rules s) None (ds_x st, ds_p st) (ds_time st) (sm_dt s) (ds_rule_step st) /\
                ds_p st' = p1 /\ dstep A s x1 p1 (ds_q st) (ds_time st') (ds_x st') (ds_q st').
Proof. exact @dssa_iter_steps. Qed.

(* What the queue then does with such an entry is C20: delivered exactly once, at the slot nearest
   to the requested time (clamped), slots in increasing time order (restated from Props/C20.v). *)
Theorem C10_queue_delivers_exactly_once :
  forall F (A : Arith F) nrx ncols dt t0 (ops : list (qop (F:=F))) ds qf, (0 < ncols)%nat ->
  let q := q_make A (@nil nat) nrx ncols dt t0 in
  qrun A q ops = Some (ds, qf) ->
  length ds = npops ops /\
  (forall n r, (n < npops ops)%nat -> (r < nrx)%nat -> nth r (nth n ds []) [] = ids n r (schedule A q ops)) /\
  (forall off r, (off < ncols)%nat -> (r < nrx)%nat -> q_pending [] qf off r = ids (npops ops + off) r (schedule A q ops)).
Proof.
  intros F A nrx ncols dt t0 ops ds qf Hn q H.
  destruct (exactly_once A nrx ncols dt t0 ops ds qf Hn H) as (H1 & H2 & H3 & _). auto.
Qed.

(* Samplers over the reals: fixed delay = the parameter's value, no draw; no delay = 0;
   Gaussian = Box-Muller form on two consecutive uniforms; Gamma = Marsaglia-Tsang round. *)
Theorem C10_fixed_delay : forall gfuel i p u pos,
  compute_delay ArithR (2 * PI)%R gfuel (DFixed i) p u pos = Some (getv ArithR p i, pos).
Proof. exact fixed_delay_value. Qed.
Theorem C10_box_muller_form : forall mean std u pos,
  normal_rv ArithR (2 * PI)%R mean std u pos =
  ((sqrt (-2 * ln (u pos)) * cos (2 * PI * u (S pos)) * std + mean)%R, S (S pos)).
Proof. exact box_muller_form. Qed.
Theorem C10_marsaglia_tsang_form : forall fuel k theta u pos,
  let d := (k - 1 / 3)%R in let c := (1 / sqrt (9 * d))%R in
  let x := fst (normal_rv ArithR (2 * PI)%R 0%R 1%R u pos) in
  let v := rpow (1 + c * x)%R 3%R in let U := u (S (S pos)) in
  gamma_rv ArithR (2 * PI)%R (S fuel) k theta u pos =
    if Rltb 0%R v && Rltb (ln U) (1 / 2 * rpow x 2 + d - d * v + d * ln v)%R
    then Some ((d * v * theta)%R, S (S (S pos)))
    else gamma_loop ArithR (2 * PI)%R fuel d c theta u (S (S (S pos))).
Proof. exact marsaglia_tsang_round. Qed.

(* Whole-run accounting (reals; every stream, grid, fuel, network, queue size; no rules): when the
   delay-capable simulator returns, there are per-reaction counts n (firings), d (delayed parts applied)
   and a table pq of what is still queued with
       final state = x0 + sum_r n_r S[:,r] + sum_r d_r Sd[:,r],
       the queue's cell (off, r) holds exactly pq off r,       n_r = d_r + sum_off pq off r,
   i.e. every firing's delayed part has been applied exactly once or is pending exactly once; and every
   reported row is such a point with d_r <= n_r. *)
Theorem C10_whole_run_accounting :
  forall (s : sim R) ncols fuel gfuel qdt qt ts u pos st,
  sm_rules s = [] -> length (sm_x0 s) = length (si_S (sm_if s)) -> length (si_S (sm_if s)) = length (si_Sd (sm_if s)) ->
  (0 < ncols)%nat ->
  dssa_simulate ArithR (2 * PI)%R fuel gfuel s (q_make ArithR 0%R (length (si_props (sm_if s))) ncols qdt qt) ts u pos = Done st ->
  Forall (lattice s) (ds_rows st) /\
  exists n d pq, at_point s (ds_x st) n d /\
    (forall off r, (off < ncols)%nat -> (r < length (si_props (sm_if s)))%nat -> q_pending 0%R (ds_q st) off r = INR (pq off r)) /\
    (forall r, (r < length (si_props (sm_if s)))%nat -> n r = (d r + sumN (fun off => pq off r) ncols)%nat).
Proof. intros s ncols fuel gfuel qdt qt ts u pos st H1 H2 H3. exact (delay_run_accounting s H1 H2 H3 ncols fuel gfuel qdt qt ts u pos st). Qed.

(* The same books for the delay + volume simulator (any volume model): nothing is lost or duplicated there either. *)
Theorem C10_delay_volume_whole_run_accounting :
  forall (s : sim R) (vm : volmodel (F:=R)) ncols fuel gfuel V0 qdt qt ts u pos st,
  sm_rules s = [] -> length (sm_x0 s) = length (si_S (sm_if s)) -> length (si_S (sm_if s)) = length (si_Sd (sm_if s)) ->
  (0 < ncols)%nat ->
  dvssa_simulate ArithR (2 * PI)%R fuel gfuel s vm V0 (q_make ArithR 0%R (length (si_props (sm_if s))) ncols qdt qt) ts u pos = Done st ->
  Forall (lattice s) (dv_rows st) /\
  exists n d pq, at_point s (dv_x st) n d /\
    (forall off r, (off < ncols)%nat -> (r < length (si_props (sm_if s)))%nat -> q_pending 0%R (dv_q st) off r = INR (pq off r)) /\
    (forall r, (r < length (si_props (sm_if s)))%nat -> n r = (d r + sumN (fun off => pq off r) ncols)%nat).
Proof. intros s vm ncols fuel gfuel V0 qdt qt ts u pos st H1 H2 H3. exact (delay_volume_run_accounting s vm H1 H2 H3 ncols fuel gfuel V0 qdt qt ts u pos st). Qed.

(* Not mechanised (C10_partial): rule-carrying models in the whole-run statement, equality in distribution
   with the plain simulator at zero delay (rests on memorylessness, C05), and that Box-Muller /
   Marsaglia-Tsang have the Normal / Gamma laws (classical analysis). *)

(* The queue the loops above drive is the one the source defines NOW: the methods of ArrayDelayQueue regenerated from
   bioscrape/simulator.pyx on this run simulate the queue model of the loop theorems for any history of add_reaction /
   read-and-advance / set_current_time (see Props/C20.v, C20_source_history). *)
Theorem C10_source_queue :
  forall F (A : Arith F) ops (o : @ArrayDelayQueue_obj F) q' ds,
  wf_obj o -> (0 < ArrayDelayQueue_num_cols o)%nat ->
  hand_run A (q_abs o) ops = Some (q', ds) ->
  q_abs (fst (gen_run A o ops)) = q' /\ snd (gen_run A o ops) = ds /\ wf_obj (fst (gen_run A o ops)).
Proof. exact @tie_history. Qed.

Print Assumptions C10_iteration_steps.
Print Assumptions C10_queue_delivers_exactly_once.
Print Assumptions C10_fixed_delay.
Print Assumptions C10_box_muller_form.
Print Assumptions C10_marsaglia_tsang_form.
Print Assumptions C10_whole_run_accounting.
Print Assumptions C10_delay_volume_whole_run_accounting.
Print Assumptions C10_source_queue.
