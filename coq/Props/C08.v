(* C08 — Results depend only on the model's current definition and the seed. *)
From Coq Require Import ZArith List Bool Arith.
From BS Require Import Base.Arith Model.Builder Model.History Proofs.HistoryProofs.
Import ListNotations.

(* For every history (any length) of {create reaction, add species, set species / parameter values,
   create parameter, initialise, build an interface, simulate, seed}: whenever the `initialized`
   flag is set the cached matrices are the ones the CURRENT definition builds (editing operations
   clear the flag, value-only operations keep it, initialise / build / simulate rebuild when clear). *)
Theorem C08_cache_coherent :
  forall F (ops : list (op F)) (m : mstate F), coherent m -> coherent (run m ops).
Proof. exact @run_coherent. Qed.

(* Hence what a simulation sees is a function of the definition alone, and two histories that end
   in the same definition are observed identically -- in particular versus the one-shot build. *)
Theorem C08_history_independence :
  forall F (h1 h2 : list (op F)), ms_def (run empty h1) = ms_def (run empty h2) -> observe (run empty h1) = observe (run empty h2).
Proof. exact @history_independence. Qed.

(* Simulating never changes the definition (initial condition, parameter values, reactions). *)
Theorem C08_simulate_preserves_model :
  forall F (m : mstate F) n, ms_def (step m (OSimulate n)) = ms_def m.
Proof. exact @simulate_preserves_definition. Qed.

(* Seeding and simulating twice consumes the same stream segment. *)
Theorem C08_seed_determinism :
  forall F (m : mstate F) s n,
  ms_rng (step (step m (OSeed s)) (OSimulate n)) = ms_rng (step (step (step (step m (OSeed s)) (OSimulate n)) (OSeed s)) (OSimulate n)).
Proof. exact @seed_determinism. Qed.

(* The theorems are about the life-cycle model, where "simulate does not write the model" holds by
   construction; that the CODE has no hidden writer (shared numpy arrays, the process-wide global
   simulator, rules assigning parameters) is established by the history runs of the harness:
   C08_partial. *)

Print Assumptions C08_cache_coherent.
Print Assumptions C08_history_independence.
Print Assumptions C08_simulate_preserves_model.
Print Assumptions C08_seed_determinism.
