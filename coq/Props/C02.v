(* C02 — Rate and rule expressions evaluate to their mathematical meaning. *)
From Coq Require Import ZArith Reals List Bool Arith.
From BS Require Import Base.Arith Model.Term Model.Sympy Spec.RateLaws Spec.Denote Proofs.TermProofs.
Import ListNotations.
Local Open Scope R_scope.

(* The node evaluators (evaluate: vol = None; volume_evaluate: vol = Some V) denote the ordinary
   meaning of the node tree: n-ary sum / product / max / min, power, exp, ln, Heaviside, |.|, for
   every tree (structural induction over the nested type). *)
Theorem C02_eval_denotes : forall vol x p t (tm : term R), teval ArithR vol x p t tm = tden vol x p t tm.
Proof. exact eval_denotes. Qed.
Theorem C02_volume_reads_one :
  forall x p t, teval ArithR None x p t TVolume = 1 /\ forall V, teval ArithR (Some V) x p t TVolume = V.
Proof. exact volume_reads_one. Qed.

(* Translation of a parsed tree (name rule: strip one leading underscore; species, then
   parameter, then 'volume', then 't'): an accepted tree means what is written ... *)
Theorem C02_translate_sound :
  forall E vol x p t (s : stree R) tm, translate E s = TOk tm -> tden vol x p t tm = sden (valuation E vol x p t) s.
Proof. exact translate_sound. Qed.
(* ... and a tree is accepted exactly when every name resolves and there is no non-numeric leaf:
   otherwise it is rejected, never silently given another value. *)
Theorem C02_translate_accepts_iff :
  forall F E (s : stree F), is_ok (translate E s) = well_formed E s.
Proof. exact @translate_accepts_iff. Qed.

(* The string -> sympy tree step (sympify with _clash1 and sympy's automatic simplification) is
   outside the model: C02_parser_partial, covered by sampling in the harness. *)

Print Assumptions C02_eval_denotes.
Print Assumptions C02_volume_reads_one.
Print Assumptions C02_translate_sound.
Print Assumptions C02_translate_accepts_iff.
