(* C03 — Stoichiometry and net rate equations follow the reaction list. *)
From Coq Require Import ZArith QArith Reals List Bool Arith.
From BS Require Import Base.Arith Model.Term Model.Propensity Model.Interface Model.Builder
                       Proofs.BuilderProofs.
Import ListNotations.

(* Every entry of the immediate and the delayed matrix: products minus reactants, counted with
   multiplicity (so a species on both sides cancels), for every declaration order: the row is
   found through the species index map.  No bound on the number of species / reactions / order. *)
Theorem C03_update_array :
  forall sp rxs s i r rx, index_of sp s = Some i -> nth_error rxs r = Some rx ->
  sget (build_S sp rxs) i r = (countz (rx_products rx) s - countz (rx_reactants rx) s)%Z /\
  sget (build_Sd sp rxs) i r = (countz (rx_dproducts rx) s - countz (rx_dreactants rx) s)%Z.
Proof. exact stoich_entry. Qed.

Theorem C03_update_dict :
  forall rs ps s, dict_get (update_dict rs ps) s = (countz ps s - countz rs s)%Z.
Proof. exact update_dict_spec. Qed.

(* The reported derivative: for each species the sum over reactions of (S + Sd) x rate, rates
   being the interface's deterministic propensities (C01) at that state and time. *)
Theorem C03_derivative :
  forall (si : simif R) x t s, (s < si_nspecies si)%nat ->
  nth s (derivative ArithR si x t) 0%R =
  sumR (map (fun r => (IZR (sget (si_S si) s r + sget (si_Sd si) s r) *
                       nth r (compute_plain ArithR si Det x 0%R t) 0)%R)
            (seq 0 (length (si_props si)))).
Proof. exact derivative_spec. Qed.

(* A parameter without a value makes initialisation fail. *)
Theorem C03_unset_parameter_rejected :
  forall F (pv : list (nat * option F)), initialize_ok pv = false <-> exists n, In (n, None) pv.
Proof. exact @initialize_fails_iff. Qed.

(* Non-vacuity: species declared in the order [7; 3]; reaction 2*3 + 7 -> 7 + 5 with a delayed
   product 3: S rows (7: 0 (cancels), 3: -2, 5: +1), Sd row for 3: +1. *)
Example C03_example :
  let rxs := [mkRx [3; 3; 7] [7; 5] [] [3]]%nat in
  let sp := species_order [7; 3]%nat rxs [] in
  (sp, build_S sp rxs, build_Sd sp rxs) = ([7; 3; 5]%nat, [[0]; [-2]; [1]]%Z, [[0]; [1]; [0]]%Z).
Proof. vm_compute. reflexivity. Qed.

Print Assumptions C03_update_array.
Print Assumptions C03_update_dict.
Print Assumptions C03_derivative.
Print Assumptions C03_unset_parameter_rejected.
