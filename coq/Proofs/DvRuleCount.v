(* C09: whole-run counting for the delay + volume loop (DelayVolumeSSASimulator as repaired by F23) over the reals: the rules with
   frequency dt -- which fire exactly in the iterations that start with rule_step set -- are applied exactly once per volume step
   (one per elapsed dt), however many reactions fire, queued deliveries are made or bare moves to a requested time happen in
   between; any network, rules, delay laws, queue, volume model, grid, stream and fuel. *)
From Coq Require Import ZArith Reals List Bool Lia Lra Arith.
From BS Require Import Base.Arith Model.Term Model.Propensity Model.Interface Model.Rules Model.Random Model.Queue Model.SSA.
Import ListNotations.
Local Open Scope R_scope.

Section DvCount.
  Variable s : sim R.
  Variable vm : volmodel (F:=R).
  Variable pi2 : R.
  Variable gfuel : nat.
  Variable u : nat -> R.
  Notation dt := (sm_dt s). Notation t0 := (sm_t0 s).

  Definition dvlive (st : dvssa_state (F:=R)) : bool := match dv_todo st with [] => false | _ => true end.
  Fixpoint dvrun (n : nat) (st : dvssa_state (F:=R)) : outcome (dvssa_state (F:=R)) :=
    match n with
    | O => Done st
    | S k => match dvssa_iter ArithR pi2 gfuel s vm u st with Done st' => dvrun k st' | OutOfFuel => OutOfFuel | Fault w => Fault w end
    end.
  Fixpoint dvapps (n : nat) (st : dvssa_state (F:=R)) : nat :=
    match n with
    | O => 0%nat
    | S k => ((if dv_rule_step st && dvlive st then 1 else 0) +
              match dvssa_iter ArithR pi2 gfuel s vm u st with Done st' => dvapps k st' | _ => 0 end)%nat
    end.

  (* j volume steps so far; c applications so far *)
  Record dvcount_inv (st : dvssa_state (F:=R)) (j c : nat) : Prop := {
    dvc_nv : dv_next_vol st = t0 + INR (S j) * dt;
    dvc_count : c = (j + (if dv_rule_step st then 0 else 1))%nat
  }.

  Lemma dvcount_step st st' j c : dvcount_inv st j c -> dvssa_iter ArithR pi2 gfuel s vm u st = Done st' ->
    exists j', dvcount_inv st' j' (c + (if dv_rule_step st && dvlive st then 1 else 0)).
  Proof.
    intros [Hnv Hc] H. unfold dvlive. unfold dvssa_iter in H.
    destruct (dv_todo st) as [|tnext todo] eqn:Et.
    { inversion H; subst st'. exists j. rewrite andb_false_r, Nat.add_0_r. constructor; auto. }
    rewrite andb_true_r.
    destruct (apply_rules ArithR (sm_rules s) (Some (dv_V st)) (dv_x st, dv_p st) (dv_time st) dt (dv_rule_step st)) as [x1 p1].
    set (props := stoch_props ArithR s StochVol x1 p1 (dv_V st) (dv_time st)) in *.
    set (Lambda := array_sum ArithR props) in *.
    assert (Hcnt : (c + (if dv_rule_step st then 1 else 0) = S j)%nat) by (rewrite Hc; destruct (dv_rule_step st); lia).
    destruct (if feqb ArithR Lambda (f0 ArithR) then (tnext, true, dv_pos st)
              else let '(tau, pos') := exponential_rv ArithR Lambda u (dv_pos st) in (fadd ArithR (dv_time st) tau, false, pos')) as [[proposed rs0] pos1].
    (* after the step selection: either next_vol is unchanged and rule_step cleared, or next_vol advanced by dt and rule_step set *)
    assert (Hsel : exists time' nv step rs,
      (if fltb ArithR proposed (dv_next_vol st) && fltb ArithR proposed (q_next_time (dv_q st))
       then (proposed, dv_next_vol st, (if feqb ArithR Lambda (f0 ArithR) then 3 else 0)%nat, false)
       else if fltb ArithR (dv_next_vol st) (q_next_time (dv_q st)) then (dv_next_vol st, fadd ArithR (dv_next_vol st) dt, 1%nat, true)
       else (q_next_time (dv_q st), dv_next_vol st, 2%nat, false)) = (time', nv, step, rs) /\
      ((nv = dv_next_vol st /\ rs = false /\ step <> 1%nat) \/ (nv = dv_next_vol st + dt /\ rs = true /\ step = 1%nat))).
    { destruct (fltb ArithR proposed (dv_next_vol st) && fltb ArithR proposed (q_next_time (dv_q st))).
      - do 4 eexists. split; [reflexivity|]. left. split; [reflexivity|]. split; [reflexivity|]. destruct (feqb ArithR Lambda (f0 ArithR)); discriminate.
      - destruct (fltb ArithR (dv_next_vol st) (q_next_time (dv_q st))).
        + do 4 eexists. split; [reflexivity|]. right. auto.
        + do 4 eexists. split; [reflexivity|]. left. split; [reflexivity|]. split; [reflexivity|]. discriminate. }
    destruct Hsel as (time' & nv & step & rs & Hsel & Hcase). rewrite Hsel in H. clear Hsel.
    destruct (record ArithR (tnext :: todo) time' x1) as [rows rem].
    assert (Hdone : forall st'', dv_next_vol st'' = nv -> dv_rule_step st'' = rs -> exists j', dvcount_inv st'' j' (c + (if dv_rule_step st then 1 else 0))).
    { intros st'' Hv Hr. destruct Hcase as [(-> & -> & _)|(-> & -> & _)].
      - exists j. constructor; [rewrite Hv; exact Hnv|rewrite Hr, Hcnt; lia].
      - exists (S j). constructor; [rewrite Hv, Hnv, (S_INR (S j)); ring|rewrite Hr, Hcnt; lia]. }
    destruct step as [|[|[|step]]].
    - destruct (sample_discrete ArithR props Lambda u pos1) as [choice pos2].
      destruct ((choice <? 0)%Z || (Z.of_nat (length props) <=? choice)%Z); [discriminate|].
      cbv zeta in H.
      destruct (compute_delay ArithR pi2 gfuel (nth (Z.to_nat choice) (sm_delays s) DNone) p1 u pos2) as [[dl pos3]|]; [|discriminate].
      destruct (fltb ArithR (f0 ArithR) dl).
      + destruct (q_add ArithR (fadd ArithR) (dv_q st) (fadd ArithR time' dl) (Z.to_nat choice) (f1 ArithR)) as [q'|]; [|discriminate].
        inversion H; subst st'. apply Hdone; reflexivity.
      + inversion H; subst st'. apply Hdone; reflexivity.
    - cbv zeta in H. inversion H; subst st'. apply Hdone; reflexivity.
    - destruct rem; inversion H; subst st'; apply Hdone; reflexivity.
    - inversion H; subst st'. apply Hdone; reflexivity.
  Qed.

  Lemma dvcount_run n : forall st st' j c, dvcount_inv st j c -> dvrun n st = Done st' -> exists j', dvcount_inv st' j' (c + dvapps n st).
  Proof.
    induction n as [|n IH]; intros st st' j c Hinv H; simpl in H |- *.
    - inversion H; subst. exists j. rewrite Nat.add_0_r. exact Hinv.
    - destruct (dvssa_iter ArithR pi2 gfuel s vm u st) as [st1| |w] eqn:E; try discriminate.
      destruct (dvcount_step st st1 j c Hinv E) as (j1 & Hinv1).
      destruct (IH st1 st' j1 _ Hinv1 H) as (j' & Hinv'). exists j'. rewrite Nat.add_assoc. exact Hinv'.
  Qed.

  Lemma dvssa_loop_dvrun fuel : forall st st', dvssa_loop ArithR pi2 fuel gfuel s vm u st = Done st' -> exists n, dvrun n st = Done st'.
  Proof.
    induction fuel as [|fuel IH]; intros st st' H; simpl in H.
    - destruct (dv_todo st); [|discriminate]. exists 0%nat. exact H.
    - destruct (dv_todo st) eqn:Et; [exists 0%nat; exact H|].
      destruct (dvssa_iter ArithR pi2 gfuel s vm u st) as [st1| |w] eqn:E; try discriminate.
      destruct (IH st1 st' H) as (n & Hn). exists (S n). simpl. rewrite E. exact Hn.
  Qed.
  Definition dvinit (q : queue R R) (ts : list R) (V0 : R) (pos : nat) : dvssa_state (F:=R) :=
    mkDvssa t0 ts (sm_x0 s) (si_params (sm_if s)) true pos [] [] q (fadd ArithR dt t0) V0 false.

  (* at every iteration boundary: with j volume steps taken (the next one is due at t0 + (j+1) dt) the dt rules have been applied j
     times, plus once iff the pass for the step in progress has been made (rule_step cleared) *)
  Theorem delay_volume_dt_rules_every_boundary q ts V0 pos n st :
    dvrun n (dvinit q ts V0 pos) = Done st ->
    exists j : nat, dv_next_vol st = t0 + INR (S j) * dt /\
                    dvapps n (dvinit q ts V0 pos) = (j + (if dv_rule_step st then 0 else 1))%nat.
  Proof.
    intros H. assert (Hinit : dvcount_inv (dvinit q ts V0 pos) 0 0).
    { unfold dvinit. constructor; cbn [dv_next_vol dv_rule_step fadd ArithR]; simpl INR; [lra|reflexivity]. }
    destruct (dvcount_run n _ _ _ _ Hinit H) as (j & [Hnv Hc]). exists j. auto.
  Qed.

  Theorem delay_volume_run_dt_rules q ts V0 pos fuel st :
    dvssa_simulate ArithR pi2 fuel gfuel s vm V0 q ts u pos = Done st ->
    exists n j : nat, dvrun n (dvinit q ts V0 pos) = Done st /\ dv_next_vol st = t0 + INR (S j) * dt /\
                      dvapps n (dvinit q ts V0 pos) = (j + (if dv_rule_step st then 0 else 1))%nat.
  Proof.
    intros H. unfold dvssa_simulate in H. fold (dvinit q ts V0 pos) in H. destruct (dvssa_loop_dvrun fuel _ _ H) as (n & Hn).
    destruct (delay_volume_dt_rules_every_boundary q ts V0 pos n st Hn) as (j & H1 & H2). exists n, j. auto.
  Qed.
End DvCount.
