(* Tie between the rule operations REGENERATED from bioscrape/types.pyx (Gen/RuleOpsGen.v, tools/tr_ruleops.py) and the hand
   model's rule_operation (Model/Rules.v), for any arithmetic.  The rule's right-hand side object is an oracle of the generated
   definitions; it is instantiated with the model's expression evaluator (plain / with the volume). *)
From Coq Require Import ZArith List Bool Arith Lia.
From BS Require Import Base.Arith Base.CyPrelude Model.Term Model.Rules Gen.RuleOpsGen.
Import ListNotations.

Section Tie.
  Context {F : Type} (A : Arith F).

  Lemma for_range_nth {St} (g : nat -> St -> St) (d : nat) : forall (l pre : list nat) (a : St),
    fold_left (fun a i => g (nth i (pre ++ l) d) a) (seq (length pre) (length l)) a = fold_left (fun a x => g x a) l a.
  Proof.
    induction l as [|x l IH]; intros pre a; [reflexivity|].
    cbn [length seq fold_left]. rewrite app_nth2 by lia. rewrite Nat.sub_diag. cbn [nth].
    specialize (IH (pre ++ [x]) (g x a)). rewrite <- app_assoc, app_length in IH. cbn [app length] in IH.
    rewrite Nat.add_1_r in IH. exact IH.
  Qed.

  Lemma tie_additive fr dest srcs vol x p t dt :
    fofZ A 0 = f0 A ->
    (gen_AdditiveAssignmentRule_rule_operation A
       {| AdditiveAssignmentRule_dest_index := dest; AdditiveAssignmentRule_frequency_flag := fr; AdditiveAssignmentRule_species_source_indices := srcs |} x p t dt, p)
    = rule_operation A (mkRule fr dest (RAdditive srcs)) vol x p t dt.
  Proof.
    intro H0. unfold gen_AdditiveAssignmentRule_rule_operation, rule_operation, for_range. cbv zeta.
    cbn [ru_kind ru_dest AdditiveAssignmentRule_dest_index AdditiveAssignmentRule_species_source_indices].
    rewrite H0.
    pose proof (for_range_nth (fun s a => fadd A a (getv A x s)) 0%nat srcs [] (f0 A)) as E. cbn [app length] in E.
    rewrite E. reflexivity.
  Qed.

  Definition flag_of (pf : bool) : Z := if pf then 1%Z else 0%Z.

  Lemma tie_assign fr dest pf rhs x p t dt :
    gen_GeneralAssignmentRule_rule_operation (fun x p t => teval A None x p t rhs) A
       {| GeneralAssignmentRule_dest_index := dest; GeneralAssignmentRule_frequency_flag := fr; GeneralAssignmentRule_param_flag := flag_of pf |} x p t dt
    = rule_operation A (mkRule fr dest (RAssign pf rhs)) None x p t dt.
  Proof. destruct pf; reflexivity. Qed.

  Lemma tie_assign_volume fr dest pf rhs x p V t dt :
    gen_GeneralAssignmentRule_rule_volume_operation (fun x p V t => teval A (Some V) x p t rhs) A
       {| GeneralAssignmentRule_dest_index := dest; GeneralAssignmentRule_frequency_flag := fr; GeneralAssignmentRule_param_flag := flag_of pf |} x p V t dt
    = rule_operation A (mkRule fr dest (RAssign pf rhs)) (Some V) x p t dt.
  Proof. destruct pf; reflexivity. Qed.

  Lemma tie_ode fr dest pf rhs x p t dt :
    gen_GeneralODERule_rule_operation (fun x p t => teval A None x p t rhs) A
       {| GeneralODERule_dest_index := dest; GeneralODERule_frequency_flag := fr; GeneralODERule_param_flag := flag_of pf |} x p t dt
    = rule_operation A (mkRule fr dest (ROde pf rhs)) None x p t dt.
  Proof. destruct pf; reflexivity. Qed.

  Lemma tie_ode_volume fr dest pf rhs x p V t dt :
    gen_GeneralODERule_rule_volume_operation (fun x p V t => teval A (Some V) x p t rhs) A
       {| GeneralODERule_dest_index := dest; GeneralODERule_frequency_flag := fr; GeneralODERule_param_flag := flag_of pf |} x p V t dt
    = rule_operation A (mkRule fr dest (ROde pf rhs)) (Some V) x p t dt.
  Proof. destruct pf; reflexivity. Qed.

  Lemma source_rule_operations fr dest pf (rhs : term F) x p V t dt :
    gen_GeneralAssignmentRule_rule_operation (fun x p t => teval A None x p t rhs) A
       {| GeneralAssignmentRule_dest_index := dest; GeneralAssignmentRule_frequency_flag := fr; GeneralAssignmentRule_param_flag := flag_of pf |} x p t dt
      = rule_operation A (mkRule fr dest (RAssign pf rhs)) None x p t dt /\
    gen_GeneralAssignmentRule_rule_volume_operation (fun x p V t => teval A (Some V) x p t rhs) A
       {| GeneralAssignmentRule_dest_index := dest; GeneralAssignmentRule_frequency_flag := fr; GeneralAssignmentRule_param_flag := flag_of pf |} x p V t dt
      = rule_operation A (mkRule fr dest (RAssign pf rhs)) (Some V) x p t dt /\
    gen_GeneralODERule_rule_operation (fun x p t => teval A None x p t rhs) A
       {| GeneralODERule_dest_index := dest; GeneralODERule_frequency_flag := fr; GeneralODERule_param_flag := flag_of pf |} x p t dt
      = rule_operation A (mkRule fr dest (ROde pf rhs)) None x p t dt /\
    gen_GeneralODERule_rule_volume_operation (fun x p V t => teval A (Some V) x p t rhs) A
       {| GeneralODERule_dest_index := dest; GeneralODERule_frequency_flag := fr; GeneralODERule_param_flag := flag_of pf |} x p V t dt
      = rule_operation A (mkRule fr dest (ROde pf rhs)) (Some V) x p t dt.
  Proof.
    split; [apply tie_assign|]. split; [apply tie_assign_volume|]. split; [apply tie_ode|]. apply tie_ode_volume.
  Qed.
End Tie.
