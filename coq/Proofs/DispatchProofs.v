From Coq Require Import ZArith List Bool Lia Arith.
From BS Require Import Base.Arith Model.Dispatch Model.Term Model.Propensity Model.Interface Model.Rules Model.Random Model.Queue Model.SSA Proofs.SSAProofs.
Import ListNotations.

Theorem all_opts_complete o : In o all_opts.
Proof.
  destruct o as [m i s d sf v df]. unfold all_opts.
  assert (Hb : forall b : bool, In b all_bool) by (intros []; simpl; tauto).
  apply in_flat_map. exists m. split; [apply Hb|].
  apply in_flat_map. exists i. split; [apply Hb|].
  apply in_flat_map. exists s. split; [apply Hb|].
  apply in_flat_map. exists d. split; [destruct d; simpl; tauto|].
  apply in_flat_map. exists sf. split; [apply Hb|].
  apply in_flat_map. exists v. split; [destruct v; simpl; tauto|].
  apply in_map_iff. exists df. split; [reflexivity|apply Hb].
Qed.

Theorem no_internal_fault_finite :
  forallb (fun o => negb (in_quantifier o) || negb (is_fault (dispatch o))) all_opts = true.
Proof. vm_compute. reflexivity. Qed.

Theorem no_internal_fault o : in_quantifier o = true -> is_fault (dispatch o) = false.
Proof.
  intros H. pose proof no_internal_fault_finite as G. rewrite forallb_forall in G.
  specialize (G o (all_opts_complete o)). rewrite H in G. simpl in G.
  destruct (is_fault (dispatch o)); [discriminate|reflexivity].
Qed.

Theorem rejected_iff o : dispatch o = RejectOptions <-> (o_model o = o_iface o).
Proof. destruct o as [m i s d sf v df]. destruct m, i, s, d, sf, v, df; vm_compute; split; intros H; congruence. Qed.

(* ---- shape of the SSA result: one row per requested time point ---- *)
Section Shape.
  Context {F : Type} (A : Arith F).
  Variable s : sim F.

  Lemma ssa_iter_count u st st' : ssa_iter A s u st = Done st' ->
    (length (ss_rows st') + length (ss_todo st') = length (ss_rows st) + length (ss_todo st))%nat.
  Proof.
    intros H. unfold ssa_iter in H.
    destruct (ss_todo st) as [|tnext todo] eqn:Et; [inversion H; subst; rewrite Et; reflexivity|].
    destruct (apply_rules A (sm_rules s) None (ss_x st, ss_p st) (ss_time st) (sm_dt s) (ss_rule_step st)) as [x1 p1].
    set (props := stoch_props A s Stoch x1 p1 (f1 A) (ss_time st)) in *.
    set (Lambda := array_sum A props) in *.
    destruct (if feqb A Lambda (f0 A) then (tnext, false, true, ss_pos st)
              else let '(tau, pos') := exponential_rv A Lambda u (ss_pos st) in (fadd A (ss_time st) tau, true, false, pos'))
      as [[[proposed fired] rs] pos1].
    destruct (if fltb A tnext proposed then (tnext, false, true) else (proposed, fired, rs)) as [[time' fired'] rs'].
    destruct (record A (tnext :: todo) time' x1) as [rows rem] eqn:E3.
    destruct (record_rows A _ _ _ _ _ E3) as (_ & k & -> & -> & Hk).
    assert (Hc : (length (ss_rows st ++ repeat x1 k) + length (skipn k (tnext :: todo)) = length (ss_rows st) + length (tnext :: todo))%nat).
    { rewrite app_length, repeat_length, skipn_length. lia. }
    destruct (fltb A (f0 A) Lambda && fired').
    - destruct (sample_discrete A props Lambda u pos1) as [choice pos2].
      destruct ((choice <? 0)%Z || (Z.of_nat (length props) <=? choice)%Z); [discriminate|].
      inversion H; subst; simpl. exact Hc.
    - inversion H; subst; simpl. exact Hc.
  Qed.

  Theorem ssa_row_count fuel ts u pos st : ssa_simulate A fuel s ts u pos = Done st ->
    length (ss_rows st) = length ts /\ ss_todo st = [].
  Proof.
    unfold ssa_simulate.
    assert (G : forall fuel st0 st1, ssa_loop A fuel s u st0 = Done st1 ->
              ss_todo st1 = [] /\ (length (ss_rows st1) + length (ss_todo st1) = length (ss_rows st0) + length (ss_todo st0))%nat).
    { induction fuel0 as [|f IH]; intros st0 st1 H; simpl in H.
      - destruct (ss_todo st0) eqn:E; [inversion H; subst; rewrite E; auto|discriminate].
      - destruct (ss_todo st0) eqn:E; [inversion H; subst; rewrite E; auto|].
        destruct (ssa_iter A s u st0) as [st'| |w] eqn:Ei; try discriminate.
        destruct (IH _ _ H) as [Hn Hc]. split; auto. rewrite Hc. rewrite <- E. apply ssa_iter_count with (u := u). exact Ei. }
    intros H. destruct (G _ _ _ H) as [Hn Hc]. split; auto.
    rewrite Hn in Hc. simpl in Hc. unfold ssa_init in Hc. simpl in Hc. lia.
  Qed.
End Shape.
