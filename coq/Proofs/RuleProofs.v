(* C09: rules.  Frame lemma for expression evaluation; repeated assignment rules chained in
   dependency order are all satisfied after one pass, and the pass is idempotent; every row
   recorded by the SSA loop is a rule-applied state; propensities are computed from it. *)
From Coq Require Import ZArith List Bool Lia Arith.
From BS Require Import Base.Arith Model.Term Model.Propensity Model.Interface Model.Rules Model.Random Model.Queue Model.SSA
                       Proofs.ListLemmas Proofs.SSAProofs.
Import ListNotations.

Section TermInd.
  Context {F : Type}.
  Variable P : term F -> Prop.
  Hypothesis Hc : forall v, P (TConst v).
  Hypothesis Hs : forall i, P (TSpecies i).
  Hypothesis Hp : forall i, P (TParam i).
  Hypothesis Hv : P TVolume.
  Hypothesis Ht : P TTime.
  Hypothesis Hsum : forall ts, Forall P ts -> P (TSum ts).
  Hypothesis Hprod : forall ts, Forall P ts -> P (TProd ts).
  Hypothesis Hmax : forall ts, Forall P ts -> P (TMax ts).
  Hypothesis Hmin : forall ts, Forall P ts -> P (TMin ts).
  Hypothesis Hpow : forall b e, P b -> P e -> P (TPow b e).
  Hypothesis Hexp : forall a, P a -> P (TExp a).
  Hypothesis Hlog : forall a, P a -> P (TLog a).
  Hypothesis Hstep : forall a, P a -> P (TStep a).
  Hypothesis Habs : forall a, P a -> P (TAbs a).

  Fixpoint term_ind' (tm : term F) : P tm :=
    let fix all (ts : list (term F)) : Forall P ts :=
      match ts with [] => Forall_nil P | t :: r => Forall_cons t (term_ind' t) (all r) end in
    match tm with
    | TConst v => Hc v | TSpecies i => Hs i | TParam i => Hp i | TVolume => Hv | TTime => Ht
    | TSum ts => Hsum ts (all ts) | TProd ts => Hprod ts (all ts)
    | TMax ts => Hmax ts (all ts) | TMin ts => Hmin ts (all ts)
    | TPow b e => Hpow b e (term_ind' b) (term_ind' e)
    | TExp a => Hexp a (term_ind' a) | TLog a => Hlog a (term_ind' a)
    | TStep a => Hstep a (term_ind' a) | TAbs a => Habs a (term_ind' a)
    end.
End TermInd.

(* species indices read by an expression *)
Fixpoint reads {F} (tm : term F) : list nat :=
  match tm with
  | TSpecies i => [i]
  | TSum ts | TProd ts | TMax ts | TMin ts => flat_map reads ts
  | TPow b e => reads b ++ reads e
  | TExp a | TLog a | TStep a | TAbs a => reads a
  | _ => []
  end.

Section Frame.
  Context {F : Type} (A : Arith F).

  Lemma fold_left_ext_in {X Y} (f g : X -> Y -> X) (l : list Y) :
    (forall a b, In b l -> f a b = g a b) -> forall a0, fold_left f l a0 = fold_left g l a0.
  Proof.
    induction l as [|b l IH]; intros H a0; simpl; auto.
    rewrite H by (left; auto). apply IH. intros a c Hc. apply H. right; auto.
  Qed.

  (* evaluation depends only on the species that the expression reads *)
  Theorem teval_frame vol p t (tm : term F) : forall x y,
    (forall i, In i (reads tm) -> getv A x i = getv A y i) -> teval A vol x p t tm = teval A vol y p t tm.
  Proof.
    induction tm using term_ind'; intros x y Hxy; cbn [teval reads] in *; auto.
    - apply Hxy. left; auto.
    - apply fold_left_ext_in. intros a b Hb. f_equal. rewrite Forall_forall in H. apply H; auto.
      intros i Hi. apply Hxy. apply in_flat_map. exists b. auto.
    - apply fold_left_ext_in. intros a b Hb. f_equal. rewrite Forall_forall in H. apply H; auto.
      intros i Hi. apply Hxy. apply in_flat_map. exists b. auto.
    - destruct ts as [|a0 rest]; auto. inversion H; subst.
      assert (E0 : teval A vol x p t a0 = teval A vol y p t a0).
      { apply H2. intros i Hi. apply Hxy. simpl. apply in_app_iff. left; auto. }
      rewrite E0. apply fold_left_ext_in. intros a b Hb.
      rewrite Forall_forall in H3. rewrite (H3 b Hb x y); auto.
      intros i Hi. apply Hxy. simpl. apply in_app_iff. right. apply in_flat_map. exists b. auto.
    - destruct ts as [|a0 rest]; auto. inversion H; subst.
      assert (E0 : teval A vol x p t a0 = teval A vol y p t a0).
      { apply H2. intros i Hi. apply Hxy. simpl. apply in_app_iff. left; auto. }
      rewrite E0. apply fold_left_ext_in. intros a b Hb.
      rewrite Forall_forall in H3. rewrite (H3 b Hb x y); auto.
      intros i Hi. apply Hxy. simpl. apply in_app_iff. right. apply in_flat_map. exists b. auto.
    - rewrite (IHtm1 x y), (IHtm2 x y); auto; intros i Hi; apply Hxy; apply in_app_iff; auto.
    - rewrite (IHtm x y); auto.
    - rewrite (IHtm x y); auto.
    - rewrite (IHtm x y); auto.
    - rewrite (IHtm x y); auto.
  Qed.
End Frame.

Section Fixpoint_.
  Context {F : Type} (A : Arith F).

  (* a repeated assignment of an expression to a species *)
  Definition is_repeat_assign (r : rule F) (rhs : term F) : Prop :=
    ru_kind r = RAssign false rhs /\ feqb A (ru_freq r) (fofZ A (-1)) = true.
  Definition satisfied (r : rule F) (rhs : term F) (x p : list F) (t : F) : Prop :=
    getv A x (ru_dest r) = teval A None x p t rhs.

  Lemma getv_upd_same x i v : (i < length x)%nat -> getv A (upd x i v) i = v.
  Proof. intros H. unfold getv. rewrite nth_upd, Nat.eqb_refl. apply Nat.ltb_lt in H. rewrite H. reflexivity. Qed.
  Lemma getv_upd_other x i j v : i <> j -> getv A (upd x i v) j = getv A x j.
  Proof. intros H. unfold getv. rewrite nth_upd. destruct (Nat.eqb_spec i j); [contradiction|reflexivity]. Qed.

  Lemma exec_assign r rhs x p t dt rs : is_repeat_assign r rhs ->
    execute_rule A r None (x, p) t dt rs = (upd x (ru_dest r) (teval A None x p t rhs), p).
  Proof.
    intros [Hk Hf]. unfold execute_rule, fires. rewrite Hf. cbn [orb fst snd]. unfold rule_operation. rewrite Hk. reflexivity.
  Qed.

  (* rules: list of (rule, rhs); dependency order: a rule's destination is read by no earlier-or-equal
     rule's rhs and differs from the earlier destinations *)
  Fixpoint dep_order (rs : list (rule F * term F)) : Prop :=
    match rs with
    | [] => True
    | (r, rhs) :: rest =>
        ~ In (ru_dest r) (reads rhs) /\
        Forall (fun r' => ru_dest (fst r') <> ru_dest r /\ True) rest /\
        Forall (fun r' => True) rest /\
        (forall r', In r' rest -> ~ In (ru_dest (fst r')) (reads rhs)) /\
        dep_order rest
    end.

  Theorem assignments_hold_after_pass (rs : list (rule F * term F)) : forall x p t dt step,
    Forall (fun rr => is_repeat_assign (fst rr) (snd rr)) rs -> dep_order rs ->
    Forall (fun rr => (ru_dest (fst rr) < length x)%nat) rs ->
    let '(x', p') := apply_rules A (map fst rs) None (x, p) t dt step in
    p' = p /\ length x' = length x /\
    Forall (fun rr => satisfied (fst rr) (snd rr) x' p t) rs /\
    (forall i, ~ In i (map (fun rr => ru_dest (fst rr)) rs) -> getv A x' i = getv A x i).
  Proof.
    induction rs as [|[r rhs] rest IH]; intros x p t dt step Hall Hdep Hlen.
    - simpl. repeat split; auto.
    - inversion Hall as [|? ? Hr Hrest]; subst. inversion Hlen as [|? ? Hl Hlrest]; subst.
      destruct Hdep as (Hself & Hdist & _ & Hnoread & Hdep').
      unfold apply_rules. cbn [map fold_left fst]. rewrite (exec_assign r rhs x p t dt step Hr).
      set (x1 := upd x (ru_dest r) (teval A None x p t rhs)).
      assert (Hlen1 : length x1 = length x) by (unfold x1; apply upd_length).
      specialize (IH x1 p t dt step Hrest Hdep').
      assert (Hl1 : Forall (fun rr => (ru_dest (fst rr) < length x1)%nat) rest) by (rewrite Hlen1; auto).
      specialize (IH Hl1). unfold apply_rules in *.
      destruct (fold_left (fun acc r0 => execute_rule A r0 None acc t dt step) (map fst rest) (x1, p)) as [x' p'].
      destruct IH as (Ep & El & Hsat & Hframe).
      split; [exact Ep|]. split; [congruence|]. split.
      + constructor; auto. cbn [fst snd]. unfold satisfied.
        (* the destination of r is not overwritten later, and rhs reads nothing that later rules write *)
        assert (Hd : getv A x' (ru_dest r) = getv A x1 (ru_dest r)).
        { apply Hframe. intros Hin. apply in_map_iff in Hin. destruct Hin as (r' & Hd' & Hin').
          rewrite Forall_forall in Hdist. destruct (Hdist r' Hin') as [Hne _]. congruence. }
        rewrite Hd. unfold x1. rewrite getv_upd_same by auto.
        apply teval_frame. intros i Hi.
        assert (Hi' : ~ In i (map (fun rr => ru_dest (fst rr)) rest)).
        { intros Hin. apply in_map_iff in Hin. destruct Hin as (r' & Hd' & Hin'). subst i. apply (Hnoread r' Hin'). exact Hi. }
        rewrite (Hframe i Hi'). unfold x1. rewrite getv_upd_other; auto. intros E. subst i. contradiction.
      + intros i Hi. cbn [map fst] in Hi.
        rewrite Hframe by (intros H; apply Hi; right; exact H).
        unfold x1. apply getv_upd_other. intros E. apply Hi. left. exact E.
  Qed.
End Fixpoint_.

(* every row recorded by the SSA loop is the species part of a rule pass, taken before any
   reaction of that iteration; the propensities of the iteration are computed from that state *)
Section RowsRules.
  Context {F : Type} (A : Arith F).
  Variable s : sim F.

  Definition rule_applied (row : list F) : Prop :=
    exists x p t step, row = fst (apply_rules A (sm_rules s) None (x, p) t (sm_dt s) step).

  Lemma ssa_iter_rows_rules u st st' : Forall rule_applied (ss_rows st) -> ssa_iter A s u st = Done st' ->
    Forall rule_applied (ss_rows st').
  Proof.
    intros Hall H. unfold ssa_iter in H.
    destruct (ss_todo st) as [|tnext todo] eqn:Et; [inversion H; subst; auto|].
    destruct (apply_rules A (sm_rules s) None (ss_x st, ss_p st) (ss_time st) (sm_dt s) (ss_rule_step st)) as [x1 p1] eqn:Er.
    set (props := stoch_props A s Stoch x1 p1 (f1 A) (ss_time st)) in *.
    set (Lambda := array_sum A props) in *.
    destruct (if feqb A Lambda (f0 A) then (tnext, false, true, ss_pos st)
              else let '(tau, pos') := exponential_rv A Lambda u (ss_pos st) in (fadd A (ss_time st) tau, true, false, pos'))
      as [[[proposed fired] rs] pos1].
    destruct (if fltb A tnext proposed then (tnext, false, true) else (proposed, fired, rs)) as [[time' fired'] rs'].
    destruct (record A (tnext :: todo) time' x1) as [rows rem] eqn:E3.
    destruct (record_rows A _ _ _ _ _ E3) as (Hrows & _).
    assert (Hnew : Forall rule_applied (ss_rows st ++ rows)).
    { apply Forall_app. split; auto. rewrite Forall_forall in *. intros row Hin. rewrite (Hrows row Hin).
      exists (ss_x st), (ss_p st), (ss_time st), (ss_rule_step st). rewrite Er. reflexivity. }
    destruct (fltb A (f0 A) Lambda && fired').
    - destruct (sample_discrete A props Lambda u pos1) as [choice pos2].
      destruct ((choice <? 0)%Z || (Z.of_nat (length props) <=? choice)%Z); [discriminate|].
      inversion H; subst; simpl. exact Hnew.
    - inversion H; subst; simpl. exact Hnew.
  Qed.

  Theorem ssa_rows_rule_applied fuel ts u pos st :
    ssa_simulate A fuel s ts u pos = Done st -> Forall rule_applied (ss_rows st).
  Proof.
    unfold ssa_simulate.
    assert (G : forall fuel st0 st1, Forall rule_applied (ss_rows st0) -> ssa_loop A fuel s u st0 = Done st1 -> Forall rule_applied (ss_rows st1)).
    { induction fuel0 as [|f IH]; intros st0 st1 H0 H; simpl in H.
      - destruct (ss_todo st0); [inversion H; subst; auto|discriminate].
      - destruct (ss_todo st0) eqn:E; [inversion H; subst; auto|].
        destruct (ssa_iter A s u st0) as [st'| |w] eqn:Ei; try discriminate.
        eapply IH; [|exact H]. eapply ssa_iter_rows_rules; eauto. }
    intros H. apply (G fuel (ssa_init s ts pos) st); [constructor|exact H].
  Qed.
End RowsRules.

(* rule_step bookkeeping: after an iteration rule_step is set exactly when no reaction fired in
   it (the iteration arrived at the next grid point, or nothing could fire); so the rules with
   frequency dt run in the first iteration after an arrival and in no fire-step *)
Section RuleStep.
  Context {F : Type} (A : Arith F).
  Variable s : sim F.

  Theorem ssa_iter_rule_step u st st' tnext todo :
    ss_todo st = tnext :: todo -> ssa_iter A s u st = Done st' ->
    let x1p1 := apply_rules A (sm_rules s) None (ss_x st, ss_p st) (ss_time st) (sm_dt s) (ss_rule_step st) in
    (ss_rule_step st' = true -> ss_x st' = fst x1p1 /\ (ss_pos st' = ss_pos st \/ ss_pos st' = S (ss_pos st))) /\
    (ss_rule_step st' = false -> ss_pos st' = S (S (ss_pos st)) \/ ss_x st' = fst x1p1).
  Proof.
    intros Et H. unfold ssa_iter in H. rewrite Et in H. cbv zeta.
    destruct (apply_rules A (sm_rules s) None (ss_x st, ss_p st) (ss_time st) (sm_dt s) (ss_rule_step st)) as [x1 p1].
    set (props := stoch_props A s Stoch x1 p1 (f1 A) (ss_time st)) in *.
    set (Lambda := array_sum A props) in *.
    destruct (feqb A Lambda (f0 A)) eqn:EL.
    - (* nothing can fire *)
      destruct (fltb A tnext tnext); destruct (record A (tnext :: todo) tnext x1) as [rows rem];
        rewrite andb_false_r in H; inversion H; subst; simpl; split; auto.
    - unfold exponential_rv in H. cbn [fst snd] in H.
      destruct (fltb A tnext (fadd A (ss_time st) (fmul A (fdiv A (fofZ A (-1)) Lambda) (flog A (u (ss_pos st)))))).
      + destruct (record A (tnext :: todo) tnext x1) as [rows rem].
        rewrite andb_false_r in H. inversion H; subst; simpl. split; auto.
      + destruct (record A (tnext :: todo) _ x1) as [rows rem].
        destruct (fltb A (f0 A) Lambda); cbn [andb] in H.
        * unfold sample_discrete in H.
          destruct ((sd_scan A props _ (f0 A) 0 <? 0)%Z || (Z.of_nat (length props) <=? sd_scan A props _ (f0 A) 0)%Z); [discriminate|].
          inversion H; subst; simpl. split; [discriminate|auto].
        * inversion H; subst; simpl. split; [discriminate|auto].
  Qed.
End RuleStep.

(* over the reals: a rule with frequency dt fires exactly when rule_step is set (times are >= 0) *)
From Coq Require Import Reals Lra.
Lemma dt_rule_fires_iff_rule_step (r : rule R) (t : R) step :
  ru_freq r = IZR (-2) -> (0 <= t)%R -> fires ArithR r t step = step.
Proof.
  intros Hf Ht. unfold fires. rewrite Hf. simpl. unfold Reqb.
  destruct (Req_EM_T (-2) (-1)); [lra|]. destruct (Req_EM_T (-2) t); [lra|].
  destruct (Req_EM_T (-2) (-2)); [|lra]. destruct step; reflexivity.
Qed.
Lemma repeat_rule_always_fires (r : rule R) (t : R) step : ru_freq r = IZR (-1) -> fires ArithR r t step = true.
Proof. intros Hf. unfold fires. rewrite Hf. simpl. unfold Reqb. destruct (Req_EM_T (-1) (-1)); [reflexivity|lra]. Qed.
Lemma scheduled_rule_fires_at (r : rule R) (t : R) step : (0 <= ru_freq r)%R ->
  fires ArithR r t step = true <-> ru_freq r = t.
Proof.
  intros Hf. unfold fires. simpl. unfold Reqb.
  destruct (Req_EM_T (ru_freq r) (-1)); [lra|]. destruct (Req_EM_T (ru_freq r) (-2)); [lra|].
  destruct (Req_EM_T (ru_freq r) t); simpl; [tauto|]. rewrite andb_false_r. split; [discriminate|contradiction].
Qed.
