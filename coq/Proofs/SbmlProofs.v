From Coq Require Import ZArith Reals List Bool Lia Lra Arith.
From BS Require Import Base.Arith Model.Propensity Model.SbmlExport Spec.RateLaws Proofs.RateProofs.
Import ListNotations.
Local Open Scope R_scope.

Fixpoint seval (k : R) (x : list R) (e : sexpr) : R :=
  match e with
  | ERate => k
  | ESp s => rget x s
  | EMul a b => seval k x a * seval k x b
  | EPowN a m => seval k x a ^ m
  | ESubN a j => seval k x a - INR j
  end.

Lemma fold_mul k x (f : nat * nat -> sexpr) l : forall e,
  seval k x (fold_left (fun e ic => EMul e (f ic)) l e) = seval k x e * prodl (map (fun ic => seval k x (f ic)) l).
Proof. induction l as [|ic l IH]; intros e; simpl; [lra|]. rewrite IH. simpl. lra. Qed.

(* deterministic export: k * prod s^m = k * prod over the reactant list *)
Theorem export_det_denotes k rs x : seval k x (export_det rs) = ma_det k rs x.
Proof.
  unfold export_det. destruct (multiplicity_table rs) as [inds counts] eqn:ET.
  rewrite fold_mul. simpl (seval k x ERate). unfold ma_det. f_equal.
  rewrite <- (tdet_table x rs). rewrite ET. simpl fst; simpl snd. unfold tdet. f_equal.
  destruct (table_spec rs) as (Hnd & Hin & Hc). rewrite ET in Hnd, Hin, Hc. simpl in Hnd, Hin, Hc. subst counts.
  rewrite combine_map_self, !map_map. apply map_ext_in. intros s Hs. simpl.
  assert (Hpos : (0 < count_occ Nat.eq_dec rs s)%nat) by (apply count_occ_In, Hin, Hs).
  destruct (Nat.ltb_spec 1 (count_occ Nat.eq_dec rs s)); simpl; auto.
  destruct (count_occ Nat.eq_dec rs s) as [|[|c]]; simpl; try lra; lia.
Qed.

(* unclamped falling factorial s (s-1) ... (s-m+1) *)
Fixpoint ffu (v : R) (m : nat) : R := match m with O => 1 | S m' => ffu v m' * (v - INR m') end.

Lemma inner_stoch_export k x s c : forall e,
  seval k x (fold_left (fun e j => EMul e (if Nat.ltb 0 j then ESubN (ESp s) j else ESp s)) (seq 0 c) e) = seval k x e * ffu (rget x s) c.
Proof.
  induction c as [|c IH]; intros e; [simpl; lra|].
  rewrite seq_S, fold_left_app. cbn [fold_left]. cbn [seval ffu]. rewrite IH.
  simpl (0 + c)%nat. destruct c as [|c]; cbn [Nat.ltb Nat.leb seval]; simpl INR; lra.
Qed.

Theorem export_stoch_denotes k rs x :
  seval k x (export_stoch rs) = k * prodl (map (fun ic => ffu (rget x (fst ic)) (snd ic)) (combine (fst (multiplicity_table rs)) (snd (multiplicity_table rs)))).
Proof.
  unfold export_stoch. destruct (multiplicity_table rs) as [inds counts]. simpl fst; simpl snd.
  generalize (combine inds counts) as l. intros l.
  assert (G : forall e, seval k x (fold_left (fun e ic => fold_left (fun e j => EMul e (if Nat.ltb 0 j then ESubN (ESp (fst ic)) j else ESp (fst ic))) (seq 0 (snd ic)) e) l e)
              = seval k x e * prodl (map (fun ic => ffu (rget x (fst ic)) (snd ic)) l)).
  { induction l as [|ic l IH]; intros e; simpl; [lra|]. rewrite IH, inner_stoch_export. lra. }
  rewrite G. reflexivity.
Qed.

(* on natural numbers the unclamped product equals the clamped falling factorial of the model *)
Lemma ffu_nat (n m : nat) : ffu (INR n) m = ff (INR n) m.
Proof.
  induction m as [|m IH]; [reflexivity|]. cbn [ffu ff]. rewrite IH.
  destruct (le_lt_dec m n) as [Hle|Hlt].
  - rewrite Rmax_left; [reflexivity|]. apply Rge_le, Rge_minus, Rle_ge, le_INR. exact Hle.
  - rewrite (ff_zero n m Hlt). lra.
Qed.

Theorem export_stoch_on_naturals k rs x (cnt : nat -> nat) : (forall s, rget x s = INR (cnt s)) ->
  seval k x (export_stoch rs) = ma_stoch k rs x.
Proof.
  intros Hint. rewrite export_stoch_denotes. unfold ma_stoch. f_equal.
  rewrite <- (tsto_table x rs). unfold tsto. f_equal. apply map_ext. intros [s c]. simpl. rewrite Hint. apply ffu_nat.
Qed.

(* ---- annotation protocol round trip ---- *)
Definition clean (w : word) : Prop := ~ In 0%nat w /\ ~ In 1%nat w.

Lemma split_on_clean sep (w : word) rest cur : ~ In sep w ->
  split_on sep (w ++ sep :: rest) cur = rev (rev w ++ cur) :: split_on sep rest [].
Proof.
  revert cur. induction w as [|c w IH]; intros cur H; simpl.
  - rewrite Nat.eqb_refl. reflexivity.
  - destruct (Nat.eqb_spec c sep) as [->|Hne]; [exfalso; apply H; left; auto|].
    rewrite IH by (intros Hin; apply H; right; auto). simpl. rewrite <- app_assoc. reflexivity.
Qed.
Lemma split_on_clean_end sep (w : word) cur : ~ In sep w -> split_on sep w cur = [rev (rev w ++ cur)].
Proof.
  revert cur. induction w as [|c w IH]; intros cur H; simpl; auto.
  destruct (Nat.eqb_spec c sep) as [->|Hne]; [exfalso; apply H; left; auto|].
  rewrite IH by (intros Hin; apply H; right; auto). simpl. rewrite <- app_assoc. reflexivity.
Qed.

Definition body (p : word * word) : word := fst p ++ 1%nat :: snd p.

Lemma split_space_print (kv : list (word * word)) : Forall (fun p => clean (fst p) /\ clean (snd p)) kv ->
  forall w cur, ~ In 0%nat w -> split_on 0 (w ++ print_kv kv) cur = rev (rev w ++ cur) :: map body kv.
Proof.
  induction 1 as [|p kv [Hk Hv] Hall IH]; intros w cur Hw.
  - simpl. rewrite app_nil_r. apply split_on_clean_end. exact Hw.
  - change (print_kv (p :: kv)) with (0%nat :: body p ++ print_kv kv).
    rewrite split_on_clean by exact Hw. f_equal.
    rewrite IH.
    + simpl. rewrite app_nil_r, rev_involutive. reflexivity.
    + unfold body. intros Hin. apply in_app_iff in Hin. destruct Hk as [Hk0 _], Hv as [Hv0 _].
      destruct Hin as [Hin|[Hin|Hin]]; [contradiction|discriminate|contradiction].
Qed.

(* key=value lists whose keys and values contain neither the space nor '=' survive print / parse *)
Theorem annotation_roundtrip (kv : list (word * word)) :
  Forall (fun p => clean (fst p) /\ clean (snd p)) kv -> parse_kv (print_kv kv) = kv.
Proof.
  intros Hall. unfold parse_kv.
  pose proof (split_space_print kv Hall [] [] (fun H => H)) as Hs. cbn [app rev] in Hs. rewrite Hs. clear Hs. cbn [flat_map split_on app].
  induction Hall as [|p kv [Hk Hv] Hall IH]; [reflexivity|].
  cbn [map flat_map]. rewrite IH. unfold body at 1 2.
  destruct Hk as [_ Hk1], Hv as [_ Hv1].
  rewrite (split_on_clean 1 (fst p) (snd p) [] Hk1). rewrite (split_on_clean_end 1 (snd p) [] Hv1).
  simpl rev. rewrite !app_nil_r, !rev_involutive.
  assert (E : existsb (Nat.eqb 1) (fst p ++ 1%nat :: snd p) = true).
  { apply existsb_exists. exists 1%nat. split; [apply in_app_iff; right; left; reflexivity|reflexivity]. }
  rewrite E. destruct p; reflexivity.
Qed.
