(* Tie between the prior functions REGENERATED from bioscrape/pid_interfaces.py (Gen/PriorsGen.v, written by
   tools/tr_priors.py on every run) and the hand model Model/Priors.v, for ANY arithmetic and any pi / Gamma / Beta. *)
From Coq Require Import ZArith List Bool String.
From BS Require Import Base.Arith Base.CyPrelude Model.Priors Gen.PriorsGen.
Import ListNotations.

Section Tie.
  Context {F : Type} (A : Arith F) (pi_ : F) (G : F -> F) (B : F -> F -> F).
  Notation pe := (prior_eval A pi_ G B).

  Lemma tie_uniform lb ub x : gen_uniform_prior A lb ub x = pe (PrUniform lb ub) x.            Proof. reflexivity. Qed.
  Lemma tie_gaussian mu s x : gen_gaussian_prior A pi_ mu s x = pe (PrGaussian mu s) x.        Proof. reflexivity. Qed.
  Lemma tie_exponential lam h2 x : gen_exponential_prior A lam h2 x = pe (PrExponential lam) x. Proof. reflexivity. Qed.
  Lemma tie_gamma a b x : gen_gamma_prior A G a b x = pe (PrGamma a b) x.                       Proof. reflexivity. Qed.
  Lemma tie_beta a b x : gen_beta_prior A B a b x = pe (PrBeta a b) x.                          Proof. reflexivity. Qed.
  Lemma tie_log_uniform lb ub x : gen_log_uniform_prior A lb ub x = pe (PrLogUniform lb ub) x.  Proof. reflexivity. Qed.
  Lemma tie_log_gaussian mu s x : gen_log_gaussian_prior A pi_ mu s x = pe (PrLogGaussian mu s) x. Proof. reflexivity. Qed.

  Lemma source_priors_tie :
    (forall lb ub x, gen_uniform_prior A lb ub x = pe (PrUniform lb ub) x) /\
    (forall mu s x, gen_gaussian_prior A pi_ mu s x = pe (PrGaussian mu s) x) /\
    (forall lam h2 x, gen_exponential_prior A lam h2 x = pe (PrExponential lam) x) /\
    (forall a b x, gen_gamma_prior A G a b x = pe (PrGamma a b) x) /\
    (forall a b x, gen_beta_prior A B a b x = pe (PrBeta a b) x) /\
    (forall lb ub x, gen_log_uniform_prior A lb ub x = pe (PrLogUniform lb ub) x) /\
    (forall mu s x, gen_log_gaussian_prior A pi_ mu s x = pe (PrLogGaussian mu s) x).
  Proof.
    split; [exact tie_uniform|]. split; [exact tie_gaussian|]. split; [exact tie_exponential|]. split; [exact tie_gamma|].
    split; [exact tie_beta|]. split; [exact tie_log_uniform|]. exact tie_log_gaussian.
  Qed.
End Tie.

(* check_prior's dispatch: each prior type named in a prior specification reaches the function of that name *)
Lemma source_dispatch :
  gen_prior_dispatch = [("uniform", "uniform_prior"); ("gaussian", "gaussian_prior"); ("exponential", "exponential_prior"); ("gamma", "gamma_prior");
                        ("log-uniform", "log_uniform_prior"); ("log-gaussian", "log_gaussian_prior"); ("beta", "beta_prior")]%string.
Proof. reflexivity. Qed.
