(* C10: the delay + volume loop keeps the same books as the delay-capable loop (reals; any stream, grid, fuel, network,
   queue size, volume model; no rules): x = x0 + S n + Sd d, the queue holds natural counts, n_r = d_r + pending_r, and every
   reported row is such a point with d_r <= n_r. *)
From Coq Require Import ZArith Reals List Bool Lia Lra Arith.
From BS Require Import Base.Arith Model.Term Model.Propensity Model.Interface Model.Rules Model.Random Model.Queue Model.SSA
  Proofs.ListLemmas Proofs.QueueProofs Proofs.SSAProofs Proofs.DelayProofs Proofs.DelayAccounting.
Import ListNotations.
Local Open Scope R_scope.

Section DV.
  Variable s : sim R.
  Variable vm : volmodel (F:=R).
  Hypothesis no_rules : sm_rules s = [].
  Hypothesis len_S : length (sm_x0 s) = length (si_S (sm_if s)).
  Hypothesis len_Sd : length (si_S (sm_if s)) = length (si_Sd (sm_if s)).
  Variable ncols : nat.

  (* the part of the state the books are about *)
  Definition proj (st : dvssa_state (F:=R)) : dssa_state (F:=R) :=
    mkDssa (dv_time st) (dv_todo st) (dv_x st) (dv_p st) (dv_rule_step st) (dv_pos st) (dv_rows st) (dv_q st).

  Lemma dvssa_iter_step gfuel u st st' : dvssa_iter ArithR (2 * PI) gfuel s vm u st = Done st' ->
    (dv_todo st = [] /\ st' = st) \/
    ((exists k, dv_rows st' = dv_rows st ++ repeat (dv_x st) k) /\
     dstep ArithR s (dv_x st) (dv_p st) (dv_q st) (dv_time st') (dv_x st') (dv_q st')).
  Proof.
    intros H. unfold dvssa_iter in H.
    destruct (dv_todo st) as [|tnext todo] eqn:Et; [left; inversion H; auto|right].
    rewrite no_rules in H. cbn [apply_rules fold_left] in H.
    set (props := stoch_props ArithR s StochVol (dv_x st) (dv_p st) (dv_V st) (dv_time st)) in *.
    set (Lambda := array_sum ArithR props) in *.
    destruct (if feqb ArithR Lambda (f0 ArithR) then (tnext, true, dv_pos st)
              else let '(tau, pos') := exponential_rv ArithR Lambda u (dv_pos st) in (fadd ArithR (dv_time st) tau, false, pos'))
      as [[proposed rs] pos1].
    match type of H with context [if ?c then (proposed, ?a1, ?a2, ?a3) else ?e] =>
      destruct (if c then (proposed, a1, a2, a3) else e) as [[[time' nv] step] rs'] end.
    destruct (record ArithR (tnext :: todo) time' (dv_x st)) as [rows rem] eqn:E3.
    destruct (record_rows ArithR _ _ _ _ _ E3) as (_ & k & -> & _ & _).
    assert (Hlen : length props = length (si_props (sm_if s))).
    { unfold props, stoch_props. destruct (sm_safe s); unfold compute_safe, compute_plain, with_params; simpl;
        rewrite map_length; try rewrite combine_length, seq_length; lia. }
    destruct step as [|[|[|step]]].
    - destruct (sample_discrete ArithR props Lambda u pos1) as [choice pos2].
      destruct ((choice <? 0)%Z || (Z.of_nat (length props) <=? choice)%Z) eqn:Eb; [discriminate|].
      apply orb_false_iff in Eb. destruct Eb as [E0 E1]. apply Z.ltb_ge in E0. apply Z.leb_gt in E1.
      destruct (compute_delay ArithR (2 * PI) gfuel (nth (Z.to_nat choice) (sm_delays s) DNone) (dv_p st) u pos2) as [[dl pos3]|]; [|discriminate].
      destruct (fltb ArithR (f0 ArithR) dl) eqn:Ed.
      + destruct (q_add ArithR (fadd ArithR) (dv_q st) (fadd ArithR time' dl) (Z.to_nat choice) (f1 ArithR)) as [q'|] eqn:Eq; [|discriminate].
        inversion H; subst; cbn. split; [exists k; reflexivity|]. eapply DFireLater; eauto. lia.
      + inversion H; subst; cbn. split; [exists k; reflexivity|]. eapply DFireNow; eauto. lia.
    - inversion H; subst; cbn. split; [exists k; reflexivity|]. constructor.
    - destruct rem; inversion H; subst; cbn; (split; [exists k; reflexivity|]); constructor.
    - inversion H; subst; cbn. split; [exists k; reflexivity|]. constructor.
  Qed.

  Lemma dv_acc_iter gfuel u st st' n d pq : acc_inv s ncols (proj st) n d pq -> dvssa_iter ArithR (2 * PI) gfuel s vm u st = Done st' ->
    exists n' d' pq', acc_inv s ncols (proj st') n' d' pq'.
  Proof.
    intros Hinv H. destruct (dvssa_iter_step gfuel u st st' H) as [[_ ->]|[[k Hrows] Hstep]]; [eauto|].
    eapply (acc_step s len_S len_Sd ncols (proj st) (proj st') n d pq k); eauto.
  Qed.

  Theorem dv_acc_loop gfuel u fuel : forall st st' n d pq, acc_inv s ncols (proj st) n d pq ->
    dvssa_loop ArithR (2 * PI) fuel gfuel s vm u st = Done st' -> exists n' d' pq', acc_inv s ncols (proj st') n' d' pq'.
  Proof.
    induction fuel as [|fuel IH]; intros st st' n d pq Hinv H; simpl in H.
    - destruct (dv_todo st); [|discriminate]. inversion H; subst. eauto.
    - destruct (dv_todo st) eqn:Et; [inversion H; subst; eauto|].
      destruct (dvssa_iter ArithR (2 * PI) gfuel s vm u st) as [st1| |w] eqn:E; try discriminate.
      destruct (dv_acc_iter gfuel u st st1 n d pq Hinv E) as (n1 & d1 & pq1 & Hinv1). eapply IH; eauto.
  Qed.

  Theorem delay_volume_run_accounting fuel gfuel V0 qdt qt ts u pos st : (0 < ncols)%nat ->
    dvssa_simulate ArithR (2 * PI) fuel gfuel s vm V0 (q_make ArithR 0 (length (si_props (sm_if s))) ncols qdt qt) ts u pos = Done st ->
    Forall (lattice s) (dv_rows st) /\
    exists n d pq, at_point s (dv_x st) n d /\
      (forall off r, (off < ncols)%nat -> (r < length (si_props (sm_if s)))%nat -> q_pending 0 (dv_q st) off r = INR (pq off r)) /\
      (forall r, (r < length (si_props (sm_if s)))%nat -> n r = (d r + sumN (fun off => pq off r) ncols)%nat).
  Proof.
    intros Hn H. unfold dvssa_simulate in H.
    set (st0 := mkDvssa (sm_t0 s) ts (sm_x0 s) (si_params (sm_if s)) true pos [] [] (q_make ArithR 0 (length (si_props (sm_if s))) ncols qdt qt)
                        (fadd ArithR (sm_dt s) (sm_t0 s)) V0 false) in *.
    assert (Hinit : acc_inv s ncols (proj st0) (fun _ => 0%nat) (fun _ => 0%nat) (fun _ _ => 0%nat)).
    { constructor; cbn [proj st0 ds_q ds_x ds_rows dv_q dv_x dv_rows].
      - apply (wfq_make ArithR 0 _ ncols qdt qt Hn).
      - unfold q_make; simpl. apply repeat_length.
      - reflexivity.
      - reflexivity.
      - intros i. rewrite (sumR_ext _ (fun _ => 0)) by (intros; simpl; lra).
        assert (Hz : forall m, sumR (fun _ => 0) m = 0) by (induction m; simpl; lra). rewrite Hz. lra.
      - intros off r _ _. rewrite pending_make. reflexivity.
      - intros r _. assert (Hz : forall m, sumN (fun _ => 0%nat) m = 0%nat) by (induction m; simpl; lia). rewrite Hz. reflexivity.
      - constructor. }
    destruct (dv_acc_loop gfuel u fuel _ _ _ _ _ Hinit H) as (n & d & pq & Hinv).
    split; [apply (ai_rows _ _ _ _ _ _ Hinv)|]. exists n, d, pq.
    pose proof (ai_nc _ _ _ _ _ _ Hinv) as Hnc. cbn [proj ds_q] in Hnc.
    split; [apply (ai_x _ _ _ _ _ _ Hinv)|]. split.
    - intros off r Hoff Hr. apply (ai_pq _ _ _ _ _ _ Hinv); [cbn [proj ds_q]; rewrite Hnc|]; auto.
    - intros r Hr. rewrite <- Hnc. apply (ai_count _ _ _ _ _ _ Hinv); auto.
  Qed.
End DV.
