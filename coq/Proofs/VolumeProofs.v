(* C11: the volume-aware loop: constant volume, growth, truncation at division. *)
From Coq Require Import ZArith Reals List Bool Lia Lra Arith.
From BS Require Import Base.Arith Model.Term Model.Propensity Model.Interface Model.Rules Model.Random Model.Queue Model.SSA Proofs.SSAProofs.
Import ListNotations.

Section VolIter.
  Context {F : Type} (A : Arith F).
  Variable s : sim F.

  (* what one iteration does to volume, trace and flag (any arithmetic, any stream) *)
  Theorem vssa_iter_volume vm u st st' tnext todo : vs_todo st = tnext :: todo -> vssa_iter A s vm u st = Done st' ->
    (exists k, vs_vols st' = vs_vols st ++ repeat (vs_V st) k /\ length (vs_rows st') = (length (vs_rows st) + k)%nat) /\
    (vs_V st' = vs_V st \/
     exists x1 p1, (x1, p1) = apply_rules A (sm_rules s) (Some (vs_V st)) (vs_x st, vs_p st) (vs_time st) (sm_dt s) (vs_rule_step st) /\
                   vs_V st' = fadd A (vs_V st) (vol_step A vm x1 p1 (vs_time st') (vs_V st) (sm_dt s)) /\
                   vs_divided st' = vol_divided A vm (vs_time st') (vs_V st') (sm_dt s)) /\
    (vs_divided st' = true -> vs_todo st' = []) /\
    (vs_V st' = vs_V st -> vs_divided st' = false \/ vs_divided st' = vol_divided A vm (vs_time st') (vs_V st') (sm_dt s)).
  Proof.
    intros Et H. unfold vssa_iter in H. rewrite Et in H.
    destruct (apply_rules A (sm_rules s) (Some (vs_V st)) (vs_x st, vs_p st) (vs_time st) (sm_dt s) (vs_rule_step st)) as [x1 p1] eqn:Er.
    set (props := stoch_props A s StochVol x1 p1 (vs_V st) (vs_time st)) in *.
    set (Lambda := array_sum A props) in *.
    destruct (if feqb A Lambda (f0 A) then (fadd A (vs_next_q st) (sm_dt s), false, true, true, vs_pos st)
              else let '(tau, pos') := exponential_rv A Lambda u (vs_pos st) in (fadd A (vs_time st) tau, true, false, false, pos'))
      as [[[[proposed fired] rs] toq] pos1].
    destruct (if fltb A (vs_next_q st) proposed then (vs_next_q st, fadd A (vs_next_q st) (sm_dt s), true, false, true)
              else (proposed, vs_next_q st, toq, fired, rs)) as [[[[time' nq] toq'] fired'] rs'].
    destruct (record A (tnext :: todo) time' x1) as [rows rem] eqn:E3.
    destruct (record_rows A _ _ _ _ _ E3) as (_ & k & -> & _ & _).
    assert (Hk : exists k0, vs_vols st ++ map (fun _ => vs_V st) (repeat x1 k) = vs_vols st ++ repeat (vs_V st) k0 /\
                            length (vs_rows st ++ repeat x1 k) = (length (vs_rows st) + k0)%nat).
    { exists k. split; [|rewrite app_length, repeat_length; reflexivity]. f_equal.
      clear. induction k; simpl; auto. rewrite IHk. reflexivity. }
    destruct toq'.
    - inversion H; subst; simpl. split; [exact Hk|]. split.
      + right. exists x1, p1. repeat split; auto.
      + split; [intros Hd; rewrite Hd; reflexivity|]. intros _. right. reflexivity.
    - destruct fired'.
      + destruct (sample_discrete A props Lambda u pos1) as [choice pos2].
        destruct ((choice <? 0)%Z || (Z.of_nat (length props) <=? choice)%Z); [discriminate|].
        inversion H; subst; simpl. split; [exact Hk|]. split; [left; reflexivity|]. split; [discriminate|]. intros _. left. reflexivity.
      + inversion H; subst; simpl. split; [exact Hk|]. split; [left; reflexivity|]. split; [discriminate|]. intros _. left. reflexivity.
  Qed.
End VolIter.

Local Open Scope R_scope.

(* the three volume models over the reals *)
Theorem base_volume_constant x p t V dt : (V + vol_step ArithR (VBase (F:=R)) x p t V dt = V) /\ vol_divided ArithR (VBase (F:=R)) t V dt = false.
Proof. simpl. split; [lra|reflexivity]. Qed.

Theorem growth_step g dtime x p t V dt : V + vol_step ArithR (VTimeThreshold g dtime) x p t V dt = V * exp (g * dt).
Proof. simpl. lra. Qed.

Theorem growth_positive_monotone g dt V : 0 < V -> 0 <= g * dt -> 0 < V * exp (g * dt) /\ V <= V * exp (g * dt).
Proof.
  intros HV Hg. pose proof (exp_pos (g * dt)) as He.
  assert (1 <= exp (g * dt)).
  { destruct (Req_dec (g * dt) 0) as [E|E]; [rewrite E, exp_0; lra|].
    left. rewrite <- exp_0. apply exp_increasing. lra. }
  split; [apply Rmult_lt_0_compat; auto|]. rewrite <- (Rmult_1_r V) at 1. apply Rmult_le_compat_l; lra.
Qed.

(* j steps of growth: V0 * exp(g dt)^j = V0 * exp(g dt j) *)
Fixpoint grow (V : R) (g dt : R) (j : nat) : R := match j with O => V | S k => grow V g dt k * exp (g * dt) end.
Theorem growth_law V g dt j : grow V g dt j = V * exp (g * dt * INR j).
Proof.
  induction j as [|j IH]; [simpl; rewrite Rmult_0_r, exp_0; lra|].
  cbn [grow]. rewrite IH, S_INR. rewrite Rmult_assoc, <- exp_plus. f_equal. f_equal. ring.
Qed.

(* division test of the time-threshold volume: the pre-sampled division time lies in (t - dt, t] *)
Theorem threshold_division g dtime t V dt : vol_divided ArithR (VTimeThreshold g dtime) t V dt = true <-> t - dt < dtime <= t.
Proof.
  simpl. unfold Rltb, Rleb. destruct (Rlt_dec (t - dt) dtime), (Rle_dec dtime t); simpl; split; intros H; try discriminate; try lra; auto.
Qed.
Theorem state_dependent_division (gr : Term.term R) dv t V dt : vol_divided ArithR (VStateDep gr dv) t V dt = true <-> dv < V.
Proof. simpl. unfold Rltb. destruct (Rlt_dec dv V); split; intros H; try discriminate; auto; lra. Qed.
