(* C19: partition of a mother cell conserves binomial and perfect species and the volume;
   duplicated species are copied; the binomial count is a sum of Bernoulli indicators. *)
From Coq Require Import ZArith Reals List Bool Lia Lra Arith.
From BS Require Import Base.Arith Model.Queue Model.Splitters Proofs.ListLemmas.
Import ListNotations.
Local Open Scope R_scope.

(* binom_draws: the number of i < n with u(pos+i) < p; consumes exactly n uniforms *)
Fixpoint indicator_count (n : nat) (p : R) (u : nat -> R) (pos : nat) : nat :=
  match n with O => O | S k => ((if Rltb (u pos) p then 1 else 0) + indicator_count k p u (S pos))%nat end.

Lemma binom_draws_spec n : forall p u pos acc,
  binom_draws ArithR n p u pos acc = ((acc + indicator_count n p u pos)%nat, (pos + n)%nat).
Proof.
  induction n as [|n IH]; intros p u pos acc; simpl.
  - f_equal; lia.
  - rewrite IH. destruct (Rltb (u pos) p); f_equal; lia.
Qed.
Lemma indicator_le n p u pos : (indicator_count n p u pos <= n)%nat.
Proof. revert pos; induction n as [|n IH]; intros pos; simpl; auto. specialize (IH (S pos)). destruct (Rltb (u pos) p); lia. Qed.

Theorem binomial_is_bernoulli_sum m p u pos :
  let n := Z.to_nat (Rtrunc (m + 1 / 2)) in
  binom_rnd_f ArithR m p u pos = (IZR (Z.of_nat (indicator_count n p u pos)), (pos + n)%nat) /\
  (indicator_count n p u pos <= n)%nat.
Proof.
  cbv zeta. unfold binom_rnd_f. simpl (ftrunc ArithR _). rewrite binom_draws_spec. simpl. split; [reflexivity|apply indicator_le].
Qed.

Section Conserve.
  Definition gR (x : list R) (i : nat) : R := nth i x 0.

  (* invariant of the folds: processed species sum to the mother's, the others are still both the mother's *)
  Definition split_inv (x : list R) (done : list nat) (de : list R * list R) : Prop :=
    length (fst de) = length x /\ length (snd de) = length x /\
    forall i, (i < length x)%nat ->
      (In i done -> gR (fst de) i + gR (snd de) i = gR x i) /\
      (~ In i done -> gR (fst de) i = gR x i /\ gR (snd de) i = gR x i).

  Lemma gR_upd_same l i v : (i < length l)%nat -> gR (upd l i v) i = v.
  Proof. intros H. unfold gR. rewrite nth_upd, Nat.eqb_refl. apply Nat.ltb_lt in H. rewrite H. reflexivity. Qed.
  Lemma gR_upd_other l i j v : i <> j -> gR (upd l i v) j = gR l j.
  Proof. intros H. unfold gR. rewrite nth_upd. destruct (Nat.eqb_spec i j); [contradiction|reflexivity]. Qed.

  (* any per-species step that writes d_i := d and e_i := e_i - d keeps the invariant *)
  Lemma step_inv x done de i d : split_inv x done de -> (i < length x)%nat -> ~ In i done ->
    split_inv x (i :: done) (upd (fst de) i d, upd (snd de) i (gR (snd de) i - d)).
  Proof.
    intros (L1 & L2 & H) Hi Hn. unfold split_inv. cbn [fst snd]. rewrite !upd_length. repeat split; auto.
    - intros [<-|Hin].
      + rewrite !gR_upd_same by lia. destruct (H i Hi) as [_ Hu]. destruct (Hu Hn) as [_ E]. rewrite E. lra.
      + destruct (Nat.eq_dec i i0) as [->|Hne]; [contradiction|]. rewrite !gR_upd_other by auto. apply H; auto.
    - destruct (Nat.eq_dec i i0) as [->|Hne]; [exfalso; apply H1; left; reflexivity|].
      rewrite gR_upd_other by auto. apply H; auto. intros Hin. apply H1. right. exact Hin.
    - destruct (Nat.eq_dec i i0) as [->|Hne]; [exfalso; apply H1; left; reflexivity|].
      rewrite gR_upd_other by auto. apply H; auto. intros Hin. apply H1. right. exact Hin.
  Qed.

  Lemma fold_split_inv (f : list R * list R -> nat -> (nat -> R) -> nat -> (list R * list R) * nat) x :
    (forall de i u pos, exists d pos', f de i u pos = ((upd (fst de) i d, upd (snd de) i (gR (snd de) i - d)), pos')) ->
    forall idx done de u pos, split_inv x done de -> NoDup idx -> (forall i, In i idx -> (i < length x)%nat /\ ~ In i done) ->
    split_inv x (rev idx ++ done) (fst (fold_split f idx de u pos)).
  Proof.
    intros Hf. unfold fold_split. induction idx as [|i idx IH]; intros done de u pos Hinv Hnd Hidx; simpl; auto.
    inversion Hnd; subst. destruct (Hf de i u pos) as (d & pos' & E). rewrite E. cbn [fst snd].
    destruct (Hidx i (or_introl eq_refl)) as [Hi Hn].
    specialize (IH (i :: done) _ u pos' (step_inv x done de i d Hinv Hi Hn) H2).
    rewrite <- app_assoc. simpl. apply IH. intros j Hj. destruct (Hidx j (or_intror Hj)) as [Hj1 Hj2]. split; auto.
    intros [<-|Hin]; auto.
  Qed.

  Lemma binomial_step_shape p : forall de i u pos, exists d pos',
    split_binomial ArithR p de i u pos = ((upd (fst de) i d, upd (snd de) i (gR (snd de) i - d)), pos').
  Proof. intros de i u pos. unfold split_binomial. destruct (binom_rnd_f ArithR _ p u pos) as [b pos']. exists b, pos'. reflexivity. Qed.
  Lemma perfect_step_shape pv p : forall de i u pos, exists d pos',
    split_perfect ArithR pv p de i u pos = ((upd (fst de) i d, upd (snd de) i (gR (snd de) i - d)), pos').
  Proof. intros de i u pos. unfold split_perfect. destruct (pv p _ u pos) as [d pos']. exists d, pos'. reflexivity. Qed.

  Lemma NoDup_app_parts (l1 l2 : list nat) : NoDup (l1 ++ l2) -> NoDup l1 /\ NoDup l2 /\ (forall i, In i l1 -> In i l2 -> False).
  Proof.
    induction l1 as [|a l1 IH]; simpl; intros H.
    - split; [constructor|]. split; auto.
    - inversion H; subst. destruct (IH H3) as (N1 & N2 & D). split; [constructor; auto; intros Hin; apply H2; apply in_app_iff; auto|].
      split; auto. intros i [<-|Hi] Hi2; [apply H2; apply in_app_iff; auto|eapply D; eauto].
  Qed.

  Lemma init_inv x : split_inv x [] (x, x).
  Proof. unfold split_inv. simpl. repeat split; auto. intros []. Qed.

  (* GeneralVolumeSplitter: perfect and binomial species are conserved, the others duplicated, the
     volumes sum to the mother's, whatever the stream *)
  Theorem general_conserves perfect binomial noise x V u pos :
    NoDup (perfect ++ binomial) -> (forall i, In i (perfect ++ binomial) -> (i < length x)%nat) ->
    let r := partition_general ArithR perfect binomial noise x V u pos in
    (forall i, In i (perfect ++ binomial) -> gR (d_state r) i + gR (e_state r) i = gR x i) /\
    (forall i, (i < length x)%nat -> ~ In i (perfect ++ binomial) -> gR (d_state r) i = gR x i /\ gR (e_state r) i = gR x i) /\
    d_vol r + e_vol r = V.
  Proof.
    intros Hnd Hlt. cbv zeta. unfold partition_general.
    set (p := fsub ArithR (half_ ArithR) (fmul ArithR (u pos) noise)).
    destruct (fold_split (split_perfect ArithR (perfect_value_general ArithR) p) perfect (x, x) u (S pos)) as [de1 pos1] eqn:E1.
    destruct (fold_split (split_binomial ArithR p) binomial de1 u pos1) as [de2 pos2] eqn:E2.
    destruct (NoDup_app_parts _ _ Hnd) as (Hnd1 & Hnd2 & Hdisj).
    assert (I1 : split_inv x (rev perfect ++ []) de1).
    { replace de1 with (fst (fold_split (split_perfect ArithR (perfect_value_general ArithR) p) perfect (x, x) u (S pos))) by (rewrite E1; reflexivity).
      apply fold_split_inv; auto using perfect_step_shape, init_inv. intros i Hi. split; [apply Hlt, in_app_iff; auto|intros []]. }
    assert (I2 : split_inv x (rev binomial ++ rev perfect ++ []) de2).
    { replace de2 with (fst (fold_split (split_binomial ArithR p) binomial de1 u pos1)) by (rewrite E2; reflexivity).
      apply fold_split_inv; auto using binomial_step_shape. intros i Hi. split; [apply Hlt, in_app_iff; auto|].
      rewrite app_nil_r, <- in_rev. intros Hp. apply (Hdisj i); auto. }
    destruct I2 as (_ & _ & H2). cbn [d_state e_state d_vol e_vol].
    assert (Hmem : forall i, In i (rev binomial ++ rev perfect ++ []) <-> In i (perfect ++ binomial)).
    { intros i. rewrite app_nil_r, !in_app_iff, <- !in_rev. tauto. }
    split; [|split].
    - intros i Hi. apply H2; [apply Hlt; auto|apply Hmem; auto].
    - intros i Hi Hn. apply H2; auto. intros Hin. apply Hn. apply Hmem. exact Hin.
    - simpl. unfold p. simpl. lra.
  Qed.
  (* LineageVolumeSplitter: same conservation for every volume mode; daughter volumes sum to the
     mother's unless the volume is duplicated (then both equal it) *)
  Theorem lineage_conserves vmode perfect binomial noise x V u pos :
    NoDup (perfect ++ binomial) -> (forall i, In i (perfect ++ binomial) -> (i < length x)%nat) ->
    let r := partition_lineage ArithR vmode perfect binomial noise x V u pos in
    (forall i, In i (perfect ++ binomial) -> gR (d_state r) i + gR (e_state r) i = gR x i) /\
    (forall i, (i < length x)%nat -> ~ In i (perfect ++ binomial) -> gR (d_state r) i = gR x i /\ gR (e_state r) i = gR x i) /\
    (if Nat.eqb vmode 1 then d_vol r = V /\ e_vol r = V else d_vol r + e_vol r = V).
  Proof.
    intros Hnd Hlt. cbv zeta. unfold partition_lineage.
    set (pv := match vmode with
               | O => let p := fsub ArithR (half_ ArithR) (fdiv ArithR (fmul ArithR (u pos) noise) (fofZ ArithR 2)) in (p, fmul ArithR V p, fmul ArithR V (fsub ArithR (fofZ ArithR 1) p), S pos)
               | S O => (fofZ ArithR 1, V, V, pos)
               | _ => (half_ ArithR, fmul ArithR V (half_ ArithR), fmul ArithR V (half_ ArithR), pos)
               end).
    assert (Hvol : if Nat.eqb vmode 1 then snd (fst (fst pv)) = V /\ snd (fst pv) = V else snd (fst (fst pv)) + snd (fst pv) = V).
    { unfold pv. destruct vmode as [|[|v]]; simpl; unfold half_; simpl; try lra; try (split; reflexivity). }
    destruct pv as [[[p vd] ve] pos0]. cbn [fst snd] in Hvol.
    destruct (fold_split (split_perfect ArithR (perfect_value_lineage ArithR) p) perfect (x, x) u pos0) as [de1 pos1] eqn:E1.
    destruct (fold_split (split_binomial ArithR p) binomial de1 u pos1) as [de2 pos2] eqn:E2.
    destruct (NoDup_app_parts _ _ Hnd) as (Hnd1 & Hnd2 & Hdisj).
    assert (I1 : split_inv x (rev perfect ++ []) de1).
    { replace de1 with (fst (fold_split (split_perfect ArithR (perfect_value_lineage ArithR) p) perfect (x, x) u pos0)) by (rewrite E1; reflexivity).
      apply fold_split_inv; auto using perfect_step_shape, init_inv. intros i Hi. split; [apply Hlt, in_app_iff; auto|intros []]. }
    assert (I2 : split_inv x (rev binomial ++ rev perfect ++ []) de2).
    { replace de2 with (fst (fold_split (split_binomial ArithR p) binomial de1 u pos1)) by (rewrite E2; reflexivity).
      apply fold_split_inv; auto using binomial_step_shape. intros i Hi. split; [apply Hlt, in_app_iff; auto|].
      rewrite app_nil_r, <- in_rev. intros Hp. apply (Hdisj i); auto. }
    destruct I2 as (_ & _ & H2). cbn [d_state e_state d_vol e_vol].
    assert (Hmem : forall i, In i (rev binomial ++ rev perfect ++ []) <-> In i (perfect ++ binomial)).
    { intros i. rewrite app_nil_r, !in_app_iff, <- !in_rev. tauto. }
    split; [|split].
    - intros i Hi. apply H2; [apply Hlt; auto|apply Hmem; auto].
    - intros i Hi Hn. apply H2; auto. intros Hin. apply Hn. apply Hmem. exact Hin.
    - exact Hvol.
  Qed.

  (* PerfectBinomialVolumeSplitter: every species conserved, the volume halved *)
  Theorem perfect_binomial_conserves x V u pos :
    let r := partition_perfect_binomial ArithR x V u pos in
    (forall i, (i < length x)%nat -> gR (d_state r) i + gR (e_state r) i = gR x i) /\ d_vol r + e_vol r = V.
  Proof.
    cbv zeta. unfold partition_perfect_binomial.
    destruct (fold_split (split_binomial ArithR (half_ ArithR)) (seq 0 (length x)) (x, x) u pos) as [de pos'] eqn:E.
    assert (I : split_inv x (rev (seq 0 (length x)) ++ []) de).
    { replace de with (fst (fold_split (split_binomial ArithR (half_ ArithR)) (seq 0 (length x)) (x, x) u pos)) by (rewrite E; reflexivity).
      apply fold_split_inv; auto using binomial_step_shape, init_inv, seq_NoDup. intros i Hi. apply in_seq in Hi. split; [lia|intros []]. }
    destruct I as (_ & _ & H). cbn [d_state e_state d_vol e_vol]. split.
    - intros i Hi. apply H; auto. rewrite app_nil_r, <- in_rev. apply in_seq. lia.
    - simpl. lra.
  Qed.
End Conserve.
