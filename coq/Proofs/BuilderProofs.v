From Coq Require Import ZArith Reals List Bool Lia Lra Arith Permutation.
From BS Require Import Base.Arith Model.Term Model.Propensity Model.Interface Model.Builder Spec.RateLaws.
Import ListNotations.

Definition countz (l : list nat) (s : nat) : Z := Z.of_nat (count_occ Nat.eq_dec l s).

Lemma dict_get_add d s' delta s :
  dict_get (dict_add d s' delta) s = (dict_get d s + if Nat.eqb s' s then delta else 0)%Z.
Proof.
  induction d as [|[k v] d IH]; simpl.
  - destruct (Nat.eqb s' s); lia.
  - destruct (Nat.eqb_spec k s') as [->|Hne]; simpl.
    + destruct (Nat.eqb_spec s' s); lia.
    + destruct (Nat.eqb_spec k s) as [->|Hks].
      * destruct (Nat.eqb_spec s' s); [congruence|lia].
      * exact IH.
Qed.

Lemma fold_dict_add l delta : forall d s,
  dict_get (fold_left (fun d r => dict_add d r delta) l d) s = (dict_get d s + delta * countz l s)%Z.
Proof.
  unfold countz. induction l as [|a l IH]; intros d s; simpl; [lia|].
  rewrite IH, dict_get_add. destruct (Nat.eq_dec a s) as [->|Hne].
  - rewrite Nat.eqb_refl. lia.
  - destruct (Nat.eqb_spec a s); [contradiction|]. lia.
Qed.

Theorem update_dict_spec rs ps s : dict_get (update_dict rs ps) s = (countz ps s - countz rs s)%Z.
Proof. unfold update_dict. rewrite !fold_dict_add. cbn [dict_get]. lia. Qed.

Lemma nth_map' {X Y} (f : X -> Y) l i d dx : (i < length l)%nat -> nth i (map f l) d = f (nth i l dx).
Proof. intros H. rewrite (nth_indep _ d (f dx)) by (rewrite map_length; exact H). apply map_nth. Qed.

Lemma index_of_nth sp s i : index_of sp s = Some i -> nth_error sp i = Some s.
Proof.
  revert i; induction sp as [|h t IH]; intros i H; simpl in H; [discriminate|].
  destruct (Nat.eqb_spec h s) as [->|Hne].
  - inversion H; subst. reflexivity.
  - destruct (index_of t s) as [j|] eqn:E; simpl in H; [|discriminate]. inversion H; subst. simpl. apply IH. reflexivity.
Qed.

(* C03: every entry of the immediate and delayed matrices is products minus reactants with
   multiplicity, whatever the declaration order (the row is found through the index map) *)
Theorem stoich_entry sp rxs s i r rx :
  index_of sp s = Some i -> nth_error rxs r = Some rx ->
  sget (build_S sp rxs) i r = (countz (rx_products rx) s - countz (rx_reactants rx) s)%Z /\
  sget (build_Sd sp rxs) i r = (countz (rx_dproducts rx) s - countz (rx_dreactants rx) s)%Z.
Proof.
  intros Hi Hr. apply index_of_nth in Hi.
  assert (Hlen : (i < length sp)%nat) by (apply nth_error_Some; congruence).
  assert (Hrl : (r < length rxs)%nat) by (apply nth_error_Some; congruence).
  unfold sget, build_S, build_Sd, stoich_matrix.
  assert (E : forall (f : reaction -> list (nat * Z)),
     nth r (nth i (map (fun s0 => map (fun d => dict_get d s0) (map f rxs)) sp) []) 0%Z = dict_get (f rx) s).
  { intros f. rewrite (nth_map' _ sp i [] 0%nat Hlen).
    rewrite (nth_error_nth sp i 0%nat Hi).
    rewrite (nth_map' _ (map f rxs) r 0%Z []) by (rewrite map_length; auto).
    rewrite (nth_map' f rxs r [] rx Hrl).
    rewrite (nth_error_nth rxs r rx Hr). reflexivity. }
  split; rewrite E; apply update_dict_spec.
Qed.

Theorem initialize_fails_iff {F} (pv : list (nat * option F)) :
  initialize_ok pv = false <-> exists n, In (n, None) pv.
Proof.
  unfold initialize_ok, unset_params. split.
  - destruct (map fst (filter _ pv)) as [|n l] eqn:E; [discriminate|]. intros _.
    assert (Hin : In n (map fst (filter (fun nv => match snd nv with None => true | Some _ => false end) pv))) by (rewrite E; left; auto).
    apply in_map_iff in Hin. destruct Hin as ([n' v] & Hn & Hin). apply filter_In in Hin. simpl in *. subst.
    destruct Hin as [Hin Hv]. destruct v; [discriminate|]. exists n. exact Hin.
  - intros (n & Hin).
    assert (H : In n (map fst (filter (fun nv : nat * option F => match snd nv with None => true | Some _ => false end) pv))).
    { apply in_map_iff. exists (n, None). split; auto. apply filter_In. split; auto. }
    destruct (map fst (filter _ pv)); [destruct H|reflexivity].
Qed.

(* ---- derivative over R ---- *)
Local Open Scope R_scope.
Definition sumR (l : list R) : R := fold_right Rplus 0 l.

Lemma deriv_row_sum (props : list R) srow drow : forall l acc,
  fold_left (fun a (rv : nat * Z) => a + nth (fst rv) props 0 * IZR (snd rv))
            (flat_map (fun r => let v := (nth r srow 0 + nth r drow 0)%Z in if Z.eqb v 0 then [] else [(r, v)]) l) acc
  = acc + sumR (map (fun r => IZR (nth r srow 0%Z + nth r drow 0%Z) * nth r props 0) l).
Proof.
  induction l as [|r l IH]; intros acc; [simpl; lra|].
  cbn [flat_map map sumR fold_right].
  destruct (Z.eqb_spec (nth r srow 0 + nth r drow 0)%Z 0) as [E|E].
  - cbn [app]. rewrite IH, E. fold (sumR (map (fun r0 => IZR (nth r0 srow 0%Z + nth r0 drow 0%Z) * nth r0 props 0) l)).
    generalize (sumR (map (fun r0 => IZR (nth r0 srow 0%Z + nth r0 drow 0%Z) * nth r0 props 0) l)). intros T. ring.
  - cbn [app fold_left fst snd]. rewrite IH. fold (sumR (map (fun r0 => IZR (nth r0 srow 0%Z + nth r0 drow 0%Z) * nth r0 props 0) l)).
    generalize (sumR (map (fun r0 => IZR (nth r0 srow 0%Z + nth r0 drow 0%Z) * nth r0 props 0) l)). intros T. ring.
Qed.

Theorem derivative_spec (si : simif R) x t s : (s < si_nspecies si)%nat ->
  nth s (derivative ArithR si x t) 0 =
  sumR (map (fun r => IZR (sget (si_S si) s r + sget (si_Sd si) s r) *
                      nth r (compute_plain ArithR si Det x 0 t) 0)
            (seq 0 (length (si_props si)))).
Proof.
  intros Hs. unfold derivative, prep.
  set (props := compute_plain ArithR si Det x (f0 ArithR) t).
  rewrite (nth_map' _ _ s 0 []) by (rewrite map_length, seq_length; auto).
  rewrite (nth_map' _ _ s [] 0%nat) by (rewrite seq_length; auto).
  rewrite seq_nth by auto. simpl (0 + s)%nat.
  unfold prep_row. simpl (f0 ArithR).
  change (fadd ArithR) with Rplus. change (fmul ArithR) with Rmult. change (fofZ ArithR) with IZR.
  rewrite deriv_row_sum. unfold sget. rewrite Rplus_0_l. reflexivity.
Qed.
