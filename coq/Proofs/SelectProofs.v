(* C05: the next-reaction selection and the waiting time, over the reals. *)
From Coq Require Import ZArith Reals List Bool Lia Lra Arith.
From BS Require Import Base.Arith Model.Random Proofs.BuilderProofs.
Import ListNotations.
Local Open Scope R_scope.

Definition prefix (data : list R) (k : nat) : R := sumR (firstn k data).

Lemma array_sum_R data : array_sum ArithR data = sumR data.
Proof.
  unfold array_sum. simpl (f0 ArithR). change (fadd ArithR) with Rplus.
  assert (G : forall l a, fold_left (fun acc v => acc + v) l a = a + sumR l).
  { induction l as [|b l IH]; intros a; simpl; [lra|]. rewrite IH. lra. }
  rewrite G. lra.
Qed.

Lemma sd_scan_stop data q p i : ~ p < q -> sd_scan ArithR data q p i = (i - 1)%Z.
Proof.
  intros H. destruct data as [|d rest]; simpl; auto.
  unfold Rltb. destruct (Rlt_dec p q); [contradiction|reflexivity].
Qed.

Lemma prefix_cons d rest k : prefix (d :: rest) (S k) = d + prefix rest k.
Proof. reflexivity. Qed.

(* the scan returns the index whose cumulative-weight bracket contains q *)
Lemma sd_scan_bracket data : forall q p i, Forall (fun v => 0 <= v) data -> p < q -> q <= p + sumR data ->
  let j := sd_scan ArithR data q p i in
  exists k : nat, j = (i + Z.of_nat k)%Z /\ (k < length data)%nat /\
                  p + prefix data k < q <= p + prefix data (S k).
Proof.
  induction data as [|d rest IH]; intros q p i Hnn Hlt Hle; simpl in Hle.
  - lra.
  - inversion Hnn as [|? ? Hd Hrest]; subst. cbn [sd_scan]. simpl (fltb ArithR p q).
    unfold Rltb. destruct (Rlt_dec p q) as [_|C]; [|contradiction].
    change (fadd ArithR p d) with (p + d).
    destruct (Rlt_dec (p + d) q) as [Hmore|Hstop].
    + destruct (IH q (p + d) (i + 1)%Z Hrest Hmore ltac:(lra)) as (k & Ej & Hk & Hb).
      exists (S k). split; [rewrite Ej; lia|]. split; [simpl; lia|].
      rewrite !prefix_cons. lra.
    + rewrite sd_scan_stop by exact Hstop. exists 0%nat. split; [lia|]. split; [simpl; lia|].
      unfold prefix. simpl. lra.
Qed.

Lemma prefix_S data k : (k < length data)%nat -> prefix data (S k) = prefix data k + nth k data 0.
Proof.
  unfold prefix. revert k; induction data as [|d rest IH]; intros k Hk; [simpl in Hk; lia|].
  destruct k as [|k]; [simpl; lra|].
  change (firstn (S (S k)) (d :: rest)) with (d :: firstn (S k) rest).
  change (firstn (S k) (d :: rest)) with (d :: firstn k rest).
  cbn [sumR fold_right nth]. fold (sumR (firstn (S k) rest)) (sumR (firstn k rest)).
  rewrite IH by (simpl in Hk; lia). lra.
Qed.

(* sample_discrete: for every number of reactions, the chosen index j is in range, has a positive
   propensity, and its bracket (prefix j, prefix (j+1)] contains q = u * Lambda; so the set of u
   in (0,1] selecting j is an interval of length a_j / Lambda *)
Theorem select_interval data u0 : Forall (fun v => 0 <= v) data -> 0 < sumR data -> 0 < u0 <= 1 ->
  let Lambda := sumR data in
  let j := sd_scan ArithR data (u0 * Lambda) 0 0 in
  exists k : nat, j = Z.of_nat k /\ (k < length data)%nat /\ 0 < nth k data 0 /\
    prefix data k / Lambda < u0 <= prefix data (S k) / Lambda /\
    prefix data (S k) / Lambda - prefix data k / Lambda = nth k data 0 / Lambda.
Proof.
  intros Hnn Hpos [Hu0 Hu1] Lambda j. subst Lambda. set (Lambda := sumR data) in *.
  assert (Hq : 0 < u0 * Lambda) by (apply Rmult_lt_0_compat; auto).
  assert (Hq2 : u0 * Lambda <= 0 + Lambda).
  { rewrite Rplus_0_l. rewrite <- (Rmult_1_l Lambda) at 2. apply Rmult_le_compat_r; lra. }
  destruct (sd_scan_bracket data (u0 * Lambda) 0 0%Z Hnn Hq Hq2) as (k & Ej & Hk & Hb).
  exists k. split; [unfold j; rewrite Ej; lia|]. split; auto.
  rewrite !Rplus_0_l in Hb. pose proof (prefix_S data k Hk) as HS.
  split; [lra|]. split.
  - split.
    + apply Rmult_lt_reg_r with Lambda; auto. unfold Rdiv. rewrite Rmult_assoc, Rinv_l by lra. lra.
    + apply Rmult_le_reg_r with Lambda; auto. unfold Rdiv. rewrite Rmult_assoc, Rinv_l by lra. lra.
  - rewrite HS. field. lra.
Qed.

(* waiting time: the survival function of -(1/Lambda) ln u under a uniform u is exp(-Lambda tau) *)
Theorem waiting_time Lambda tau u0 : 0 < Lambda -> 0 < u0 ->
  (tau < -1 / Lambda * ln u0 <-> u0 < exp (- Lambda * tau)).
Proof.
  intros HL Hu. split; intros H.
  - apply ln_lt_inv; auto; [apply exp_pos|]. rewrite ln_exp.
    assert (Lambda * tau < - ln u0).
    { replace (- ln u0) with (Lambda * (-1 / Lambda * ln u0)) by (field; lra). apply Rmult_lt_compat_l; auto. }
    lra.
  - assert (ln u0 < - Lambda * tau) by (rewrite <- (ln_exp (- Lambda * tau)); apply ln_increasing; auto).
    apply Rmult_lt_reg_l with Lambda; auto. replace (Lambda * (-1 / Lambda * ln u0)) with (- ln u0) by (field; lra). lra.
Qed.

Theorem memoryless Lambda a b : exp (- Lambda * (a + b)) = exp (- Lambda * a) * exp (- Lambda * b).
Proof. rewrite <- exp_plus. f_equal. ring. Qed.

Lemma exponential_rv_R Lambda u pos : fst (exponential_rv ArithR Lambda u pos) = -1 / Lambda * ln (u pos) /\ snd (exponential_rv ArithR Lambda u pos) = S pos.
Proof. unfold exponential_rv. simpl. split; reflexivity. Qed.
