(* C19: when nothing can fire in a lineage cell (total propensity 0), an iteration of the single-cell loop samples no
   reaction: it changes no count and moves the clock to the next queued time or to the final time -- never into the
   reaction branch (the defects F11 / F19 were exactly such moves); the only random numbers it may consume are the noise
   terms of its rules.  Reals; 0 < eps7. *)
From Coq Require Import ZArith Reals List Bool Lia Lra Arith.
From BS Require Import Base.Arith Model.Term Model.Propensity Model.Interface Model.Rules Model.Random Model.Queue Model.SSA Model.Lineage.
Import ListNotations.
Local Open Scope R_scope.

Theorem lssa_idle_iteration (l : lin R) pi2 eps9 eps7 dt final t_init V_init u st st' tnext rest :
  0 < eps7 ->
  ls_todo st = tnext :: rest ->
  let '(x1, p1) := apply_rules ArithR (sm_rules (ln_sim l)) (Some (ls_V st)) (ls_x st, ls_p st) (ls_time st) dt (ls_rule_step st) in
  let '(dead, posa) := first_true (fun r => krule_check ArithR pi2 eps9 r x1 p1 (ls_time st) (ls_V st) u) (ln_krules l) 0%Z (ls_pos st) in
  let '(divd, posb) := first_true (fun r => drule_check ArithR pi2 eps9 r x1 p1 (ls_time st) (ls_V st) t_init V_init u) (ln_drules l) 0%Z posa in
  dead = (-1)%Z -> divd = (-1)%Z ->
  array_sum ArithR (lin_props ArithR l x1 p1 (ls_V st) (ls_time st)) = 0 ->
  lssa_iter ArithR pi2 eps9 eps7 l dt final t_init V_init u st = Done st' ->
  ls_x st' = x1 /\ ls_rule_step st' = true /\ ls_divided st' = (-1)%Z /\ ls_dead st' = (-1)%Z /\
  ls_pos st' = snd (apply_volume_rules ArithR pi2 (ln_vrules l) x1 p1 (ls_V st) (ls_time st') dt u posb) /\
  ((ls_time st' = ls_next_q st /\ ls_next_q st' = ls_next_q st + dt) \/ ls_time st' = final).
Proof.
  intros Heps Et.
  destruct (apply_rules ArithR (sm_rules (ln_sim l)) (Some (ls_V st)) (ls_x st, ls_p st) (ls_time st) dt (ls_rule_step st)) as [x1 p1] eqn:Er.
  destruct (first_true (fun r => krule_check ArithR pi2 eps9 r x1 p1 (ls_time st) (ls_V st) u) (ln_krules l) 0%Z (ls_pos st)) as [dead posa] eqn:Ek.
  destruct (first_true (fun r => drule_check ArithR pi2 eps9 r x1 p1 (ls_time st) (ls_V st) t_init V_init u) (ln_drules l) 0%Z posa) as [divd posb] eqn:Ed.
  intros -> -> HL H. unfold lssa_iter in H. rewrite Et, Er, Ek, Ed in H.
  change (0 <=? -1)%Z with false in H. cbv iota in H.
  rewrite HL in H. change (feqb ArithR 0 (f0 ArithR)) with (Reqb 0 0) in H.
  assert (E0 : Reqb 0 0 = true) by (apply Reqb_true; reflexivity). rewrite E0 in H. cbn [andb] in H.
  set (p := if fltb ArithR (fadd ArithR (ls_time st) dt) (ls_next_q st) then ls_next_q st else fadd ArithR (ls_time st) dt) in *.
  assert (Hp : ls_next_q st <= p).
  { unfold p. change (fltb ArithR (fadd ArithR (ls_time st) dt) (ls_next_q st)) with (Rltb (ls_time st + dt) (ls_next_q st)).
    destruct (Rltb (ls_time st + dt) (ls_next_q st)) eqn:E; [lra|]. apply Rltb_false in E. exact E. }
  change (fleb ArithR (ls_next_q st) p) with (Rleb (ls_next_q st) p) in H.
  replace (Rleb (ls_next_q st) p) with true in H by (symmetry; apply Rleb_true; exact Hp).
  rewrite orb_true_r in H. cbn [andb] in H.
  change (fltb ArithR (ls_next_q st) final) with (Rltb (ls_next_q st) final) in H.
  destruct (Rltb (ls_next_q st) final) eqn:Eq.
  - destruct (record ArithR (tnext :: rest) (ls_next_q st) x1) as [rows rem].
    destruct (apply_volume_rules ArithR pi2 (ln_vrules l) x1 p1 (ls_V st) (ls_next_q st) dt u posb) as [V' posv] eqn:Ev.
    destruct (fleb ArithR V' (f0 ArithR)); [discriminate|].
    inversion H; subst; cbn. rewrite Ev. repeat split; auto.
  - apply Rltb_false in Eq.
    change (fltb ArithR (fsub ArithR final eps7) p) with (Rltb (final - eps7) p) in H.
    replace (Rltb (final - eps7) p) with true in H by (symmetry; apply Rltb_true; lra).
    destruct (record ArithR (tnext :: rest) final x1) as [rows rem].
    destruct (apply_volume_rules ArithR pi2 (ln_vrules l) x1 p1 (ls_V st) final dt u posb) as [V' posv] eqn:Ev.
    destruct (fleb ArithR V' (f0 ArithR)); [discriminate|].
    inversion H; subst; cbn. rewrite Ev. repeat split; auto.
Qed.
