From Coq Require Import ZArith List Bool Lia Arith.
From BS Require Import Base.Arith Model.Builder Model.History.
Import ListNotations.

Section HP.
  Context {F : Type}.

  (* whenever the flag is set, the cached matrices are the ones the current definition builds *)
  Definition coherent (m : mstate F) : Prop :=
    ms_initialized m = true ->
    ms_S m = build_S (df_species (ms_def m)) (df_reactions (ms_def m)) /\
    ms_Sd m = build_Sd (df_species (ms_def m)) (df_reactions (ms_def m)).

  Lemma initialize_coherent (m : mstate F) : coherent (initialize m).
  Proof. intros _. split; reflexivity. Qed.
  Lemma ensure_coherent (m : mstate F) : coherent m -> coherent (ensure_init m).
  Proof. unfold ensure_init. destruct (ms_initialized m) eqn:E; auto. intros _. apply initialize_coherent. Qed.

  Lemma step_coherent (m : mstate F) o : coherent m -> coherent (step m o).
  Proof.
    intros H. destruct o; cbn [step]; try (intros Hc; discriminate Hc).
    - (* set species *) intros Hc. simpl in *. apply H. exact Hc.
    - intros Hc. simpl in *. apply H. exact Hc.
    - apply initialize_coherent.
    - apply ensure_coherent. exact H.
    - intros _. pose proof (ensure_coherent m H) as He.
      unfold ensure_init in *. destruct (ms_initialized m) eqn:E; simpl in *.
      + apply H. exact E.
      + split; reflexivity.
    - intros Hc. simpl in *. apply H. exact Hc.
  Qed.

  Theorem run_coherent ops : forall m : mstate F, coherent m -> coherent (run m ops).
  Proof. unfold run. induction ops as [|o ops IH]; intros m H; simpl; auto. apply IH. apply step_coherent. exact H. Qed.

  (* so what a simulation sees is a function of the definition alone *)
  Theorem observe_function_of_definition (m : mstate F) : coherent m ->
    observe m = (ms_def m, build_S (df_species (ms_def m)) (df_reactions (ms_def m)), build_Sd (df_species (ms_def m)) (df_reactions (ms_def m))).
  Proof.
    intros H. unfold observe, ensure_init. destruct (ms_initialized m) eqn:E.
    - destruct (H E) as [H1 H2]. rewrite H1, H2. reflexivity.
    - reflexivity.
  Qed.

  Theorem history_independence (h1 h2 : list (op F)) :
    ms_def (run empty h1) = ms_def (run empty h2) -> observe (run empty h1) = observe (run empty h2).
  Proof.
    intros Hd.
    assert (C0 : coherent (@empty F)) by (intros Hc; discriminate Hc).
    rewrite !observe_function_of_definition by (apply run_coherent; exact C0). rewrite Hd. reflexivity.
  Qed.

  (* simulating changes nothing of the definition (initial condition, parameter values, reactions):
     only the flag and the random stream position *)
  Theorem simulate_preserves_definition (m : mstate F) n : ms_def (step m (OSimulate n)) = ms_def m.
  Proof. cbn [step]. unfold ensure_init. destruct (ms_initialized m); reflexivity. Qed.

  (* seeding and simulating twice consumes the same part of the stream *)
  Theorem seed_determinism (m : mstate F) s n :
    ms_rng (step (step m (OSeed s)) (OSimulate n)) = ms_rng (step (step (step (step m (OSeed s)) (OSimulate n)) (OSeed s)) (OSimulate n)).
  Proof. cbn [step]. unfold ensure_init; simpl. destruct (ms_initialized m); simpl; reflexivity. Qed.
End HP.
