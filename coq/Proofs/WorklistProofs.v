(* C19: the lineage worklist keeps mother / daughter links mutual, whatever the single-cell simulations and the
   partitions return (any arithmetic, stream, model, fuel). *)
From Coq Require Import ZArith List Bool Lia Arith.
From BS Require Import Base.Arith Model.Term Model.Propensity Model.Interface Model.Rules Model.Random Model.Queue Model.SSA Model.Splitters Model.Lineage Model.Worklist
  Proofs.ListLemmas.
Import ListNotations.

Section Links.
  Context {F : Type}.
  Notation schn := (schnitz F).

  Definition parent_ok (L : list schn) : Prop :=
    forall j s p, nth_error L j = Some s -> sz_parent s = Some p ->
      (p < j)%nat /\ exists sp a b, nth_error L p = Some sp /\ sz_daughters sp = Some (a, b) /\ (j = a \/ j = b).
  Definition daughters_ok (L : list schn) : Prop :=
    forall p sp a b, nth_error L p = Some sp -> sz_daughters sp = Some (a, b) ->
      a <> b /\ exists sa sb, nth_error L a = Some sa /\ nth_error L b = Some sb /\ sz_parent sa = Some p /\ sz_parent sb = Some p.
  (* the queue: ids of recorded cells, each at most once; the entries not yet processed have no daughters yet *)
  Definition queue_ok {C} (L : list schn) (Q : list (nat * C)) (idx : nat) : Prop :=
    (forall i sid c, nth_error Q i = Some (sid, c) -> (sid < length L)%nat) /\ NoDup (map fst Q) /\
    (forall i sid c s, (idx <= i)%nat -> nth_error Q i = Some (sid, c) -> nth_error L sid = Some s -> sz_daughters s = None).
  Definition links_inv {C} (L : list schn) (Q : list (nat * C)) (idx : nat) : Prop :=
    parent_ok L /\ daughters_ok L /\ queue_ok L Q idx.

  Lemma NoDup_app_intro {T} (l1 l2 : list T) : NoDup l1 -> NoDup l2 -> (forall x, In x l1 -> In x l2 -> False) -> NoDup (l1 ++ l2).
  Proof.
    intros H1 H2 Hd. induction H1 as [|a l1 Ha H1 IH]; cbn; auto.
    constructor; [|apply IH; intros x Hx; apply Hd; right; exact Hx].
    intros Hin. apply in_app_or in Hin. destruct Hin as [Hin|Hin]; [contradiction|]. apply (Hd a); [left; reflexivity|exact Hin].
  Qed.

  Lemma nth_error_app_l {T} (l1 l2 : list T) i x : nth_error l1 i = Some x -> nth_error (l1 ++ l2) i = Some x.
  Proof. intros H. rewrite nth_error_app1; auto. apply nth_error_Some. congruence. Qed.

  (* a root is recorded *)
  Lemma add_root_inv {C} L (Q : list (nat * C)) idx ts rows vols c :
    links_inv L Q idx -> links_inv (L ++ [mkSchnitz ts rows vols None None]) (Q ++ [(length L, c)]) idx.
  Proof.
    intros (Hp & Hd & Hq1 & Hq2 & Hq3). split; [|split; [|split; [|split]]].
    - intros j s p Hj Hs. destruct (Nat.lt_ge_cases j (length L)) as [Hlt|Hge].
      + rewrite nth_error_app1 in Hj by auto. destruct (Hp j s p Hj Hs) as (Hpj & sp & a & b & H1 & H2 & H3).
        split; auto. exists sp, a, b. split; [apply nth_error_app_l; auto|auto].
      + rewrite nth_error_app2 in Hj by auto. destruct (j - length L)%nat as [|k]; cbn in Hj; [inversion Hj; subst; discriminate|destruct k; discriminate].
    - intros p sp a b Hpn Hda. destruct (Nat.lt_ge_cases p (length L)) as [Hlt|Hge].
      + rewrite nth_error_app1 in Hpn by auto. destruct (Hd p sp a b Hpn Hda) as (Hab & sa & sb & H1 & H2 & H3 & H4).
        split; auto. exists sa, sb. repeat split; auto; apply nth_error_app_l; auto.
      + rewrite nth_error_app2 in Hpn by auto. destruct (p - length L)%nat as [|k]; cbn in Hpn; [inversion Hpn; subst; discriminate|destruct k; discriminate].
    - intros i sid c0 Hi. rewrite app_length. cbn. destruct (Nat.lt_ge_cases i (length Q)) as [Hlt|Hge].
      + rewrite nth_error_app1 in Hi by auto. specialize (Hq1 i sid c0 Hi). lia.
      + rewrite nth_error_app2 in Hi by auto. destruct (i - length Q)%nat as [|k]; cbn in Hi; [inversion Hi; subst; lia|destruct k; discriminate].
    - rewrite map_app. cbn. apply NoDup_app_intro; auto; [constructor; [intros []|constructor]|].
      intros x Hx [E|[]]. apply in_map_iff in Hx. destruct Hx as ((sid & c0) & E2 & Hin). apply In_nth_error in Hin. destruct Hin as (i & Hi).
      specialize (Hq1 i sid c0 Hi). cbn in *. lia.
    - intros i sid c0 s Hle Hi Hs. destruct (Nat.lt_ge_cases i (length Q)) as [Hlt|Hge].
      + rewrite nth_error_app1 in Hi by auto. pose proof (Hq1 i sid c0 Hi) as Hsid. rewrite nth_error_app1 in Hs by auto. eapply Hq3; eauto.
      + rewrite nth_error_app2 in Hi by auto. destruct (i - length Q)%nat as [|k]; cbn in Hi; [|destruct k; discriminate].
        inversion Hi; subst. rewrite nth_error_app2 in Hs by lia. rewrite Nat.sub_diag in Hs. cbn in Hs. inversion Hs; subst. reflexivity.
  Qed.

  (* a recorded cell divides: two daughters are recorded (and possibly queued), the mother gets them as daughters *)
  Lemma nth_error_two {T} (L : list T) (x y : T) j :
    nth_error (L ++ [x; y]) j = if (j <? length L)%nat then nth_error L j else if (j =? length L)%nat then Some x else if (j =? S (length L))%nat then Some y else None.
  Proof.
    destruct (Nat.ltb_spec j (length L)) as [H|H]; [apply nth_error_app1; auto|].
    rewrite nth_error_app2 by auto. destruct (Nat.eqb_spec j (length L)) as [->|H1]; [rewrite Nat.sub_diag; reflexivity|].
    destruct (Nat.eqb_spec j (S (length L))) as [->|H2]; [replace (S (length L) - length L)%nat with 1%nat by lia; reflexivity|].
    destruct (j - length L)%nat as [|[|k]] eqn:E; try lia. cbn. destruct k; reflexivity.
  Qed.

  Lemma divide_inv {C} L (Q : list (nat * C)) idx sid c t1 r1 v1 t2 r2 v2 (q1 q2 : list (nat * C)) :
    links_inv L Q idx -> nth_error Q idx = Some (sid, c) ->
    (q1 = [] \/ exists c1, q1 = [(length L, c1)]) -> (q2 = [] \/ exists c2, q2 = [(S (length L), c2)]) ->
    links_inv (set_daughters (L ++ [mkSchnitz t1 r1 v1 (Some sid) None; mkSchnitz t2 r2 v2 (Some sid) None]) sid (length L, S (length L)))
              (Q ++ q1 ++ q2) (S idx).
  Proof.
    intros (Hp & Hd & Hq1 & Hq2 & Hq3) Hidx Hq1s Hq2s.
    set (n := length L) in *. set (s1 := mkSchnitz t1 r1 v1 (Some sid) None). set (s2 := mkSchnitz t2 r2 v2 (Some sid) None).
    assert (Hsid : (sid < n)%nat) by (eapply Hq1; eauto).
    destruct (nth_error L sid) as [s|] eqn:Es; [|apply nth_error_None in Es; unfold n in *; lia].
    assert (Hsd : sz_daughters s = None) by (eapply (Hq3 idx sid c s); eauto).
    set (s' := mkSchnitz (sz_times s) (sz_rows s) (sz_vols s) (sz_parent s) (Some (n, S n))).
    assert (HL1 : nth_error (L ++ [s1; s2]) sid = Some s) by (rewrite nth_error_app1; auto).
    assert (Eset : set_daughters (L ++ [s1; s2]) sid (n, S n) = upd (L ++ [s1; s2]) sid s') by (unfold set_daughters; rewrite HL1; reflexivity).
    rewrite Eset. set (L' := upd (L ++ [s1; s2]) sid s').
    assert (Hlen1 : length (L ++ [s1; s2]) = S (S n)) by (rewrite app_length; cbn; unfold n; lia).
    assert (Hget_sid : nth_error L' sid = Some s') by (unfold L'; apply nth_error_upd_same; lia).
    assert (Hget_other : forall j, j <> sid -> nth_error L' j = nth_error (L ++ [s1; s2]) j) by (intros j Hj; unfold L'; apply nth_error_upd_other; auto).
    assert (Hold : forall j sj, nth_error L j = Some sj -> exists sj', nth_error L' j = Some sj' /\ sz_parent sj' = sz_parent sj /\ (j <> sid -> sj' = sj)).
    { intros j sj Hj. assert (j < n)%nat by (apply nth_error_Some; congruence).
      destruct (Nat.eq_dec j sid) as [->|Hne].
      - exists s'. rewrite Es in Hj. inversion Hj; subst. repeat split; auto. contradiction.
      - exists sj. rewrite Hget_other by auto. rewrite nth_error_app1 by auto. auto. }
    assert (Hn1 : nth_error L' n = Some s1) by (rewrite Hget_other by lia; rewrite nth_error_two; fold n; rewrite Nat.ltb_irrefl, Nat.eqb_refl; reflexivity).
    assert (Hn2 : nth_error L' (S n) = Some s2).
    { rewrite Hget_other by lia. rewrite nth_error_two. fold n. replace (S n <? n)%nat with false by (symmetry; apply Nat.ltb_ge; lia).
      replace (S n =? n)%nat with false by (symmetry; apply Nat.eqb_neq; lia). rewrite Nat.eqb_refl. reflexivity. }
    assert (Hcases : forall j sj, nth_error L' j = Some sj -> (j < n /\ exists s0, nth_error L j = Some s0 /\ sz_parent sj = sz_parent s0 /\ (j <> sid -> sj = s0))%nat \/ (j = n /\ sj = s1) \/ (j = S n /\ sj = s2)).
    { intros j sj Hj. destruct (Nat.lt_ge_cases j n) as [Hlt|Hge].
      - left. split; auto. destruct (nth_error L j) as [s0|] eqn:E0; [|apply nth_error_None in E0; unfold n in *; lia].
        destruct (Hold j s0 E0) as (sj' & H1 & H2 & H3). rewrite Hj in H1. inversion H1; subst. exists s0. auto.
      - right. assert (j <> sid) by lia. rewrite Hget_other in Hj by auto. rewrite nth_error_two in Hj. fold n in Hj.
        replace (j <? n)%nat with false in Hj by (symmetry; apply Nat.ltb_ge; lia).
        destruct (Nat.eqb_spec j n); [left; inversion Hj; auto|]. destruct (Nat.eqb_spec j (S n)); [right; inversion Hj; auto|discriminate]. }
    split; [|split; [|split; [|split]]].
    - (* parent_ok *)
      intros j sj p Hj Hpar. destruct (Hcases j sj Hj) as [(Hlt & s0 & E0 & Epar & _)|[(-> & ->)|(-> & ->)]].
      + rewrite Epar in Hpar. destruct (Hp j s0 p E0 Hpar) as (Hpj & sp & a & b & H1 & H2 & H3). split; auto.
        assert (p <> sid). { intros ->. rewrite Es in H1. inversion H1; subst. rewrite Hsd in H2. discriminate. }
        destruct (Hold p sp H1) as (sp' & G1 & _ & G3). rewrite (G3 H) in G1. exists sp, a, b. auto.
      + cbn in Hpar. inversion Hpar; subst p. split; auto. exists s', n, (S n). cbn. auto.
      + cbn in Hpar. inversion Hpar; subst p. split; [lia|]. exists s', n, (S n). cbn. auto.
    - (* daughters_ok *)
      intros p sp a b Hpn Hda. destruct (Nat.eq_dec p sid) as [->|Hne].
      + rewrite Hget_sid in Hpn. inversion Hpn; subst sp. cbn in Hda. inversion Hda; subst a b. split; [lia|]. exists s1, s2. cbn. auto.
      + destruct (Hcases p sp Hpn) as [(Hlt & s0 & E0 & _ & Esame)|[(-> & ->)|(-> & ->)]]; try (cbn in Hda; discriminate).
        rewrite (Esame Hne) in Hda. destruct (Hd p s0 a b E0 Hda) as (Hab & sa & sb & H1 & H2 & H3 & H4). split; auto.
        destruct (Hold a sa H1) as (sa' & Ga & Gpa & _). destruct (Hold b sb H2) as (sb' & Gb & Gpb & _).
        exists sa', sb'. rewrite Gpa, Gpb. auto.
    - (* ids in range *)
      intros i sid0 c0 Hi. unfold L'. rewrite upd_length, Hlen1.
      destruct (Nat.lt_ge_cases i (length Q)) as [Hlt|Hge].
      + rewrite nth_error_app1 in Hi by auto. specialize (Hq1 i sid0 c0 Hi). fold n in Hq1. lia.
      + rewrite nth_error_app2 in Hi by auto. apply nth_error_In in Hi. apply in_app_or in Hi.
        destruct Hi as [Hi|Hi]; [destruct Hq1s as [->|(c1 & ->)]|destruct Hq2s as [->|(c2 & ->)]]; cbn in Hi; try contradiction;
          destruct Hi as [Hi|[]]; inversion Hi; subst; fold n; lia.
    - (* each id at most once *)
      rewrite map_app. apply NoDup_app_intro; auto.
      + rewrite map_app. destruct Hq1s as [->|(c1 & ->)], Hq2s as [->|(c2 & ->)]; cbn; repeat constructor; cbn; try tauto. intros [E|[]]. lia.
      + intros x Hx Hy. apply in_map_iff in Hx. destruct Hx as ((sid0 & c0) & E0 & Hin). apply In_nth_error in Hin. destruct Hin as (i & Hi).
        specialize (Hq1 i sid0 c0 Hi). fold n in Hq1. cbn in E0. subst x.
        rewrite map_app in Hy. apply in_app_or in Hy.
        destruct Hy as [Hy|Hy]; [destruct Hq1s as [->|(c1 & ->)]|destruct Hq2s as [->|(c2 & ->)]]; cbn in Hy; try contradiction; destruct Hy as [Hy|[]]; lia.
    - (* entries still to be processed have no daughters *)
      intros i sid0 c0 s0 Hle Hi Hs0.
      destruct (Nat.lt_ge_cases i (length Q)) as [Hlt|Hge].
      + rewrite nth_error_app1 in Hi by auto.
        assert (Hne : sid0 <> sid).
        { intros ->. assert (i = idx); [|lia].
          apply (proj1 (NoDup_nth_error (map fst Q)) Hq2 i idx); [rewrite map_length; auto|].
          rewrite !nth_error_map, Hi, Hidx. reflexivity. }
        pose proof (Hq1 i sid0 c0 Hi) as Hr. fold n in Hr.
        rewrite Hget_other in Hs0 by auto. rewrite nth_error_app1 in Hs0 by auto. eapply (Hq3 i sid0 c0 s0); eauto. lia.
      + rewrite nth_error_app2 in Hi by auto. apply nth_error_In in Hi. apply in_app_or in Hi.
        destruct Hi as [Hi|Hi]; [destruct Hq1s as [->|(c1 & ->)]|destruct Hq2s as [->|(c2 & ->)]]; cbn in Hi; try contradiction;
          destruct Hi as [Hi|[]]; inversion Hi; subst sid0 c0.
        * rewrite Hn1 in Hs0. inversion Hs0; subst. reflexivity.
        * rewrite Hn2 in Hs0. inversion Hs0; subst. reflexivity.
  Qed.
End Links.

Section Run.
  Context {F : Type} (A : Arith F) (pi2 : F) (eps9 eps7 eps12 : F).

  Lemma links_weaken {C} (L : list (schnitz F)) (Q : list (nat * C)) idx : links_inv L Q idx -> links_inv L Q (S idx).
  Proof. intros (Hp & Hd & H1 & H2 & H3). split; [exact Hp|split; [exact Hd|split; [exact H1|split; [exact H2|]]]]. intros i sid c s0 Hle. apply H3. lia. Qed.

  Lemma wl_step_inv fuel l sps ts final u item w w' idx :
    links_inv (w_lineage w) (w_queue w) idx -> nth_error (w_queue w) idx = Some item ->
    wl_step A pi2 eps9 eps7 eps12 fuel l sps ts final u item w = Done w' -> links_inv (w_lineage w') (w_queue w') (S idx).
  Proof.
    intros Hinv Hidx H. unfold wl_step in H. destruct item as [sid c].
    destruct (fleb A (fsub A final eps9) (cs_time c)); [inversion H; subst; apply links_weaken; auto|].
    destruct (0 <=? cs_dead c)%Z; [inversion H; subst; apply links_weaken; auto|].
    destruct (0 <=? cs_divided c)%Z; [|inversion H; subst; apply links_weaken; auto].
    destruct (feqb A (cs_t0 c) (cs_time c)); [discriminate|].
    destruct (nth_error sps (Z.to_nat (cs_divided c))) as [sp|]; [|discriminate].
    set (dd := partition_lineage A (sp_vmode sp) (sp_perfect sp) (sp_binomial sp) (sp_noise sp) (cs_x c) (cs_V c) u (w_pos w)) in *.
    destruct (cell_simulate A pi2 eps9 eps7 fuel l (truncate_lt A ts (cs_time c)) _ u (d_pos dd)) as [st1| |k1]; try discriminate.
    destruct (cell_simulate A pi2 eps9 eps7 fuel l (truncate_lt A ts (cs_time c)) _ u (ls_pos st1)) as [st2| |k2]; try discriminate.
    inversion H; subst; clear H. cbn [w_lineage w_queue]. unfold schnitz_of.
    apply divide_inv with (c := c); auto.
    - match goal with |- context [if ?b then _ else _] => destruct b end; [right; eexists; reflexivity|left; reflexivity].
    - match goal with |- (if ?b then _ else _) = [] \/ _ => destruct b end; [right; eexists; reflexivity|left; reflexivity].
  Qed.

  Lemma wl_loop_inv cfuel fuel l sps ts final u : forall idx w w',
    links_inv (w_lineage w) (w_queue w) idx -> wl_loop A pi2 eps9 eps7 eps12 cfuel fuel l sps ts final u idx w = Done w' ->
    exists idx', links_inv (w_lineage w') (w_queue w') idx'.
  Proof.
    induction cfuel as [|cfuel IH]; intros idx w w' Hinv H; simpl in H.
    - destruct (nth_error (w_queue w) idx); [discriminate|]. inversion H; subst. eauto.
    - destruct (nth_error (w_queue w) idx) as [item|] eqn:E; [|inversion H; subst; eauto].
      destruct (wl_step A pi2 eps9 eps7 eps12 fuel l sps ts final u item w) as [w1| |k] eqn:Es; try discriminate.
      eapply IH; [|exact H]. eapply wl_step_inv; eauto.
  Qed.

  Lemma sim_initial_inv fuel l ts u : forall cells w w',
    links_inv (w_lineage w) (w_queue w) 0 -> sim_initial A pi2 eps9 eps7 fuel l ts cells u w = Done w' -> links_inv (w_lineage w') (w_queue w') 0.
  Proof.
    induction cells as [|c cells IH]; intros w w' Hinv H; simpl in H; [inversion H; subst; auto|].
    destruct (cell_simulate A pi2 eps9 eps7 fuel l ts c u (w_pos w)) as [st| |k]; try discriminate.
    apply IH in H; auto. cbn [w_lineage w_queue]. unfold schnitz_of. apply add_root_inv. exact Hinv.
  Qed.

  (* whole lineage: mother / daughter links are mutual, a daughter is recorded after its mother, daughters are distinct *)
  Theorem lineage_links_mutual cfuel fuel l sps ts cells u pos w :
    simulate_lineage A pi2 eps9 eps7 eps12 cfuel fuel l sps ts cells u pos = Done w ->
    parent_ok (w_lineage w) /\ daughters_ok (w_lineage w).
  Proof.
    unfold simulate_lineage. destruct (sim_initial A pi2 eps9 eps7 fuel l ts cells u (mkW [] [] pos)) as [w0| |k] eqn:E0; try discriminate.
    intros H. assert (H0 : links_inv (w_lineage (mkW (F:=F) [] [] pos)) (w_queue (mkW (F:=F) [] [] pos)) 0).
    { cbn. split; [|split; [|split; [|split]]].
      - intros j s0 p Hj. destruct j; discriminate.
      - intros p sp a b Hp. destruct p; discriminate.
      - intros i sid c Hi. destruct i; discriminate.
      - constructor.
      - intros i sid c s0 _ Hi. destruct i; discriminate. }
    pose proof (sim_initial_inv fuel l ts u cells _ _ H0 E0) as H1.
    destruct (wl_loop_inv cfuel fuel l sps ts (last ts (f0 A)) u 0 w0 w H1 H) as (idx' & Hp & Hd & _). split; auto.
  Qed.
End Run.
