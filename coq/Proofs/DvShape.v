(* C07 / C09: the delay + volume loop: one volume per row, never more rows than requested times, every requested time unless
   the cell divided; every row is a rule-applied state (any arithmetic, stream, fuel, grid, queue, volume model). *)
From Coq Require Import ZArith List Bool Lia Arith.
From BS Require Import Base.Arith Model.Term Model.Propensity Model.Interface Model.Rules Model.Random Model.Queue Model.SSA Proofs.SSAProofs Proofs.RuleRows.
Import ListNotations.

Section DvShape.
  Context {F : Type} (A : Arith F) (pi2 : F).
  Variable s : sim F.

  Definition dvshape (N : nat) (st : dvssa_state (F:=F)) : Prop :=
    length (dv_rows st) = length (dv_vols st) /\ (length (dv_rows st) + length (dv_todo st) <= N)%nat /\
    (dv_divided st = false -> (length (dv_rows st) + length (dv_todo st) = N)%nat) /\
    (dv_divided st = true -> dv_todo st = []) /\
    Forall (rule_applied_v A s) (dv_rows st).

  Lemma dvssa_iter_shape gfuel vm u N st st' : dvshape N st -> dvssa_iter A pi2 gfuel s vm u st = Done st' -> dvshape N st'.
  Proof.
    intros (Hl & Hle & Heq & Hdiv & Hra) H. unfold dvssa_iter in H.
    destruct (dv_todo st) as [|tnext todo] eqn:Et; [inversion H; subst; repeat split; auto; rewrite Et; auto|].
    assert (Hnd : dv_divided st = false) by (destruct (dv_divided st); auto; discriminate (Hdiv eq_refl)).
    specialize (Heq Hnd).
    destruct (apply_rules A (sm_rules s) (Some (dv_V st)) (dv_x st, dv_p st) (dv_time st) (sm_dt s) (dv_rule_step st)) as [x1 p1] eqn:Er.
    set (props := stoch_props A s StochVol x1 p1 (dv_V st) (dv_time st)) in *.
    set (Lambda := array_sum A props) in *.
    destruct (if feqb A Lambda (f0 A) then (tnext, true, dv_pos st)
              else let '(tau, pos') := exponential_rv A Lambda u (dv_pos st) in (fadd A (dv_time st) tau, false, pos'))
      as [[proposed rs] pos1].
    match type of H with context [if ?c then (proposed, ?a1, ?a2, ?a3) else ?e] =>
      destruct (if c then (proposed, a1, a2, a3) else e) as [[[time' nv] step] rs'] end.
    destruct (record A (tnext :: todo) time' x1) as [rows rem] eqn:E3.
    destruct (record_rows A _ _ _ _ _ E3) as (Hrows & k & -> & Erem & Hk).
    assert (Hc : (length (dv_rows st ++ repeat x1 k) + length rem = N)%nat).
    { rewrite Erem, app_length, repeat_length, skipn_length. cbn [length] in *. lia. }
    clear Erem E3.
    assert (Hl' : length (dv_rows st ++ repeat x1 k) = length (dv_vols st ++ map (fun _ => dv_V st) (repeat x1 k))).
    { rewrite !app_length, map_length. lia. }
    assert (Hra' : Forall (rule_applied_v A s) (dv_rows st ++ repeat x1 k)).
    { apply Forall_app. split; auto. apply Forall_forall. intros row Hin. apply repeat_spec in Hin. subst.
      exists (Some (dv_V st)), (dv_x st), (dv_p st), (dv_time st), (dv_rule_step st). rewrite Er. reflexivity. }
    assert (Hgen : forall x' p' rs0 pos' q' nv0 V', dvshape N (mkDvssa time' rem x' p' rs0 pos' (dv_rows st ++ repeat x1 k)
                       (dv_vols st ++ map (fun _ => dv_V st) (repeat x1 k)) q' nv0 V' false)).
    { intros. unfold dvshape; cbn [dv_rows dv_vols dv_todo dv_divided]. repeat split; auto; try discriminate; lia. }
    destruct step as [|[|[|step]]].
    - destruct (sample_discrete A props Lambda u pos1) as [choice pos2].
      destruct ((choice <? 0)%Z || (Z.of_nat (length props) <=? choice)%Z); [discriminate|].
      destruct (compute_delay A pi2 gfuel (nth (Z.to_nat choice) (sm_delays s) DNone) p1 u pos2) as [[dl pos3]|]; [|discriminate].
      destruct (fltb A (f0 A) dl).
      + destruct (q_add A (fadd A) (dv_q st) (fadd A time' dl) (Z.to_nat choice) (f1 A)); [|discriminate]. injection H as <-. apply Hgen.
      + injection H as <-. apply Hgen.
    - injection H as <-. unfold dvshape; cbn [dv_rows dv_vols dv_todo dv_divided].
      split; [exact Hl'|]. destruct (vol_divided A vm time' _ (sm_dt s)); cbn; repeat split; auto; try discriminate; try (cbn [length] in *; lia).
    - destruct rem; injection H as <-; apply Hgen.
    - injection H as <-. apply Hgen.
  Qed.

  Theorem dvssa_result_shape fuel gfuel vm V0 q ts u pos st : dvssa_simulate A pi2 fuel gfuel s vm V0 q ts u pos = Done st ->
    length (dv_rows st) = length (dv_vols st) /\ (length (dv_rows st) <= length ts)%nat /\
    (dv_divided st = false -> length (dv_rows st) = length ts) /\ Forall (rule_applied_v A s) (dv_rows st).
  Proof.
    unfold dvssa_simulate.
    assert (G : forall fuel st0 st1, dvshape (length ts) st0 -> dvssa_loop A pi2 fuel gfuel s vm u st0 = Done st1 -> dvshape (length ts) st1 /\ dv_todo st1 = []).
    { induction fuel0 as [|f IH]; intros st0 st1 H0 H; simpl in H.
      - destruct (dv_todo st0) eqn:E; [inversion H; subst; auto|discriminate].
      - destruct (dv_todo st0) eqn:E; [inversion H; subst; auto|].
        destruct (dvssa_iter A pi2 gfuel s vm u st0) as [st'| |w] eqn:Ei; try discriminate.
        apply (IH st' st1); auto. eapply dvssa_iter_shape; eauto. }
    intros H. apply G in H.
    - destruct H as [(Hl & Hle & Heq & _ & Hra) Ht]. rewrite Ht in *. cbn [length] in *. split; auto. split; [lia|]. split; auto. intros Hd. specialize (Heq Hd). lia.
    - unfold dvshape; cbn. repeat split; auto; try discriminate; lia.
  Qed.
End DvShape.
