(* C10: what one iteration of the delay-capable loop does with a firing and with a queue slot;
   algebraic forms of the delay samplers. *)
From Coq Require Import ZArith Reals List Bool Lia Lra Arith.
From BS Require Import Base.Arith Model.Term Model.Propensity Model.Interface Model.Rules Model.Random Model.Queue Model.SSA.
Import ListNotations.

Section DelayIter.
  Context {F : Type} (A : Arith F) (pi2 : F).
  Variable s : sim F.

  (* the three kinds of iteration of dssa_iter, as a relation on (state, queue) *)
  Inductive dstep (x1 p1 : list F) (q : queue F F) (time' : F) : list F -> queue F F -> Prop :=
  | DQueue : dstep x1 p1 q time' (deliver A x1 (si_Sd (sm_if s)) (q_peek (f0 A) q)) (q_advance A (f0 A) q)
  | DFireNow r dl : (r < length (si_props (sm_if s)))%nat -> fltb A (f0 A) dl = false ->
      dstep x1 p1 q time' (add_col A (add_col A x1 (si_S (sm_if s)) r) (si_Sd (sm_if s)) r) q
  | DFireLater r dl q' : (r < length (si_props (sm_if s)))%nat -> fltb A (f0 A) dl = true ->
      q_add A (fadd A) q (fadd A time' dl) r (f1 A) = Some q' ->
      dstep x1 p1 q time' (add_col A x1 (si_S (sm_if s)) r) q'
  | DNothing : dstep x1 p1 q time' x1 q.

  (* every successful iteration is one of those steps applied to the rule-updated state: a firing
     applies its immediate stoichiometry at once and its delayed part either at once (delay <= 0)
     or through exactly one queue insertion at firing time + delay with amount 1; a queue slot
     delivers what is pending at offset 0 and advances the queue; nothing else touches state or queue *)
  Theorem dssa_iter_steps gfuel u st st' : dssa_iter A pi2 gfuel s u st = Done st' ->
    ds_todo st = [] /\ st' = st \/
    exists x1 p1, (x1, p1) = apply_rules A (sm_rules s) None (ds_x st, ds_p st) (ds_time st) (sm_dt s) (ds_rule_step st) /\
                  ds_p st' = p1 /\ dstep x1 p1 (ds_q st) (ds_time st') (ds_x st') (ds_q st').
  Proof.
    intros H. unfold dssa_iter in H.
    destruct (ds_todo st) as [|tnext todo] eqn:Et; [left; inversion H; auto|right].
    destruct (apply_rules A (sm_rules s) None (ds_x st, ds_p st) (ds_time st) (sm_dt s) (ds_rule_step st)) as [x1 p1] eqn:Er.
    exists x1, p1. split; [reflexivity|].
    set (props := stoch_props A s Stoch x1 p1 (f1 A) (ds_time st)) in *.
    set (Lambda := array_sum A props) in *.
    destruct (if feqb A Lambda (f0 A) then (tnext, false, true, ds_pos st)
              else let '(tau, pos') := exponential_rv A Lambda u (ds_pos st) in (fadd A (ds_time st) tau, true, false, pos'))
      as [[[proposed fired] rs] pos1].
    destruct (if fltb A tnext proposed then (tnext, false, true) else (proposed, fired, rs)) as [[proposed' fired'] rs'].
    destruct (if fltb A (q_next_time (ds_q st)) proposed' then (q_next_time (ds_q st), true, false, false) else (proposed', false, fired', rs'))
      as [[[time' toq] fired''] rs''].
    destruct (record A (tnext :: todo) time' x1) as [rows rem].
    destruct toq.
    - inversion H; subst; simpl. split; auto. constructor.
    - destruct fired''.
      + destruct (sample_discrete A props Lambda u pos1) as [choice pos2].
        destruct ((choice <? 0)%Z || (Z.of_nat (length props) <=? choice)%Z) eqn:Eb; [discriminate|].
        apply orb_false_iff in Eb. destruct Eb as [E0 E1]. apply Z.ltb_ge in E0. apply Z.leb_gt in E1.
        assert (Hlen : length props = length (si_props (sm_if s))).
        { unfold props, stoch_props. destruct (sm_safe s); unfold compute_safe, compute_plain, with_params; simpl;
            rewrite map_length; try rewrite combine_length, seq_length; lia. }
        destruct (compute_delay A pi2 gfuel (nth (Z.to_nat choice) (sm_delays s) DNone) p1 u pos2) as [[dl pos3]|]; [|discriminate].
        destruct (fltb A (f0 A) dl) eqn:Ed.
        * destruct (q_add A (fadd A) (ds_q st) (fadd A time' dl) (Z.to_nat choice) (f1 A)) as [q'|] eqn:Eq; [|discriminate].
          inversion H; subst; simpl. split; auto. eapply DFireLater; eauto. lia.
        * inversion H; subst; simpl. split; auto. eapply DFireNow; eauto. lia.
      + inversion H; subst; simpl. split; auto. constructor.
  Qed.
End DelayIter.

(* the samplers, over the reals *)
Local Open Scope R_scope.
Theorem fixed_delay_value gfuel i p u pos :
  compute_delay ArithR (2 * PI) gfuel (DFixed i) p u pos = Some (getv ArithR p i, pos).
Proof. reflexivity. Qed.
Theorem no_delay_value gfuel p u pos : compute_delay ArithR (2 * PI) gfuel DNone p u pos = Some (0, pos).
Proof. reflexivity. Qed.

(* Box-Muller: mean + std * sqrt(-2 ln u) * cos(2 pi v), two draws *)
Theorem box_muller_form mean std u pos :
  normal_rv ArithR (2 * PI) mean std u pos =
  (sqrt (-2 * ln (u pos)) * cos (2 * PI * u (S pos)) * std + mean, S (S pos)).
Proof. unfold normal_rv. simpl. reflexivity. Qed.

(* Marsaglia-Tsang: one round of the rejection loop *)
Theorem marsaglia_tsang_round fuel k theta u pos :
  let d := k - 1 / 3 in let c := 1 / sqrt (9 * d) in
  let x := fst (normal_rv ArithR (2 * PI) 0 1 u pos) in
  let v := rpow (1 + c * x) 3 in let U := u (S (S pos)) in
  gamma_rv ArithR (2 * PI) (S fuel) k theta u pos =
    if Rltb 0 v && Rltb (ln U) (1 / 2 * rpow x 2 + d - d * v + d * ln v)
    then Some (d * v * theta, S (S (S pos)))
    else gamma_loop ArithR (2 * PI) fuel d c theta u (S (S (S pos))).
Proof. cbv zeta. unfold gamma_rv. cbn [gamma_loop]. unfold normal_rv. simpl. reflexivity. Qed.
