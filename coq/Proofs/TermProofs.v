(* C02: node evaluators denote the ordinary meaning; the translation of a parsed tree is sound and
   rejects exactly the trees that mention an unknown name or a non-numeric leaf. *)
From Coq Require Import ZArith Reals List Bool Lia Lra Arith.
From BS Require Import Base.Arith Model.Term Model.Sympy Spec.RateLaws Spec.Denote Proofs.RuleProofs.
Import ListNotations.
Local Open Scope R_scope.

Lemma fold_sum (f : term R -> R) l : forall a, fold_left (fun ans x => ans + f x) l a = a + sumR (map f l).
Proof. induction l as [|x l IH]; intros a; simpl; [lra|]. rewrite IH. lra. Qed.
Lemma fold_prod (f : term R -> R) l : forall a, fold_left (fun ans x => ans * f x) l a = a * prodl (map f l).
Proof. induction l as [|x l IH]; intros a; simpl; [lra|]. rewrite IH. lra. Qed.
Lemma fold_max (f : term R -> R) l : forall a,
  fold_left (fun ans x => let temp := f x in if Rltb ans temp then temp else ans) l a = maxl a (map f l).
Proof.
  unfold maxl. induction l as [|x l IH]; intros a; simpl; auto. rewrite IH. f_equal.
  unfold Rltb, Rmax. destruct (Rlt_dec a (f x)), (Rle_dec a (f x)); lra.
Qed.
Lemma fold_min (f : term R -> R) l : forall a,
  fold_left (fun ans x => let temp := f x in if Rltb temp ans then temp else ans) l a = minl a (map f l).
Proof.
  unfold minl. induction l as [|x l IH]; intros a; simpl; auto. rewrite IH. f_equal.
  unfold Rltb, Rmin. destruct (Rlt_dec (f x) a), (Rle_dec a (f x)); lra.
Qed.

Lemma map_ext_Forall {X Y} (f g : X -> Y) l : Forall (fun x => f x = g x) l -> map f l = map g l.
Proof. induction 1; simpl; congruence. Qed.

Theorem eval_denotes vol x p t (tm : term R) : teval ArithR vol x p t tm = tden vol x p t tm.
Proof.
  induction tm using term_ind'; cbn [teval tden]; auto.
  - simpl (f0 ArithR). change (fadd ArithR) with Rplus. rewrite (fold_sum (teval ArithR vol x p t)).
    rewrite (map_ext_Forall _ _ _ H). lra.
  - simpl (f1 ArithR). change (fmul ArithR) with Rmult. rewrite (fold_prod (teval ArithR vol x p t)).
    rewrite (map_ext_Forall _ _ _ H). lra.
  - destruct ts as [|a r]; [reflexivity|]. inversion H; subst. change (fltb ArithR) with Rltb.
    rewrite (fold_max (teval ArithR vol x p t)). rewrite H2, (map_ext_Forall _ _ _ H3). reflexivity.
  - destruct ts as [|a r]; [reflexivity|]. inversion H; subst. change (fltb ArithR) with Rltb.
    rewrite (fold_min (teval ArithR vol x p t)). rewrite H2, (map_ext_Forall _ _ _ H3). reflexivity.
  - rewrite IHtm1, IHtm2. reflexivity.
  - rewrite IHtm. reflexivity.
  - rewrite IHtm. reflexivity.
  - rewrite IHtm. simpl. unfold Rleb, heaviside. destruct (Rle_dec 0 (tden vol x p t tm)); reflexivity.
  - rewrite IHtm. reflexivity.
Qed.

(* 'volume' reads 1 where no volume is in play *)
Theorem volume_reads_one x p t : teval ArithR None x p t TVolume = 1 /\ forall V, teval ArithR (Some V) x p t TVolume = V.
Proof. split; reflexivity. Qed.

(* ---- induction principle for parsed trees ---- *)
Section STreeInd.
  Context {F : Type}.
  Variable P : stree F -> Prop.
  Hypothesis Hsym : forall u a b, P (SSymbol u a b).
  Hypothesis Hadd : forall l, Forall P l -> P (SAdd l).
  Hypothesis Hmul : forall l, Forall P l -> P (SMul l).
  Hypothesis Hmax : forall l, Forall P l -> P (SMax l).
  Hypothesis Hmin : forall l, Forall P l -> P (SMin l).
  Hypothesis Hpow : forall b e, P b -> P e -> P (SPow b e).
  Hypothesis Hexp : forall a, P a -> P (SExp a).
  Hypothesis Hlog : forall a, P a -> P (SLog a).
  Hypothesis Hhea : forall a, P a -> P (SHeaviside a).
  Hypothesis Habs : forall a, P a -> P (SAbs a).
  Hypothesis Hnum : forall v, P (SNumber v).
  Hypothesis Hoth : P SOther.
  Fixpoint stree_ind' (s : stree F) : P s :=
    let fix all (l : list (stree F)) : Forall P l :=
      match l with [] => Forall_nil P | a :: r => Forall_cons a (stree_ind' a) (all r) end in
    match s with
    | SSymbol u a b => Hsym u a b
    | SAdd l => Hadd l (all l) | SMul l => Hmul l (all l) | SMax l => Hmax l (all l) | SMin l => Hmin l (all l)
    | SPow b e => Hpow b e (stree_ind' b) (stree_ind' e)
    | SExp a => Hexp a (stree_ind' a) | SLog a => Hlog a (stree_ind' a)
    | SHeaviside a => Hhea a (stree_ind' a) | SAbs a => Habs a (stree_ind' a)
    | SNumber v => Hnum v | SOther => Hoth
    end.
End STreeInd.

Section Sound.
  Variable E : env.
  Variables (vol : option R) (x p : list R) (t : R).
  Notation val := (valuation E vol x p t).

  Lemma resolve_sound u st fu tm : resolve E u st fu = TOk tm -> tden vol x p t tm = val (if u then st else fu).
  Proof.
    unfold resolve, valuation. set (name := if u then st else fu).
    destruct (pos_of (e_species E) name) as [i|]; [intros H; inversion H; reflexivity|].
    destruct (pos_of (e_params E) name) as [i|]; [intros H; inversion H; reflexivity|].
    destruct (Nat.eqb name (e_volume E)); [intros H; inversion H; reflexivity|].
    destruct (Nat.eqb name (e_time E)); [intros H; inversion H; reflexivity|discriminate].
  Qed.

  Lemma seq_res_sound (args : list (stree R)) : Forall (fun s => forall tm, translate E s = TOk tm -> tden vol x p t tm = sden val s) args ->
    forall tms, seq_res (map (translate E) args) = TOk tms -> map (tden vol x p t) tms = map (sden val) args.
  Proof.
    induction 1 as [|s args Hs Hargs IH]; intros tms H; simpl in H; [inversion H; reflexivity|].
    destruct (translate E s) as [tm| |] eqn:Es; try discriminate.
    destruct (seq_res (map (translate E) args)) as [tms'| |] eqn:Er; try discriminate.
    inversion H; subst. simpl. rewrite (Hs tm eq_refl), (IH tms' eq_refl). reflexivity.
  Qed.

  (* an accepted tree means what is written *)
  Theorem translate_sound (s : stree R) : forall tm, translate E s = TOk tm -> tden vol x p t tm = sden val s.
  Proof.
    induction s using stree_ind'; intros tm Ht; cbn [translate] in Ht.
    - apply resolve_sound. exact Ht.
    - destruct (seq_res (map (translate E) l)) as [tms| |] eqn:Er; try discriminate. inversion Ht; subst.
      cbn [tden sden]. rewrite (seq_res_sound l H tms Er). reflexivity.
    - destruct (seq_res (map (translate E) l)) as [tms| |] eqn:Er; try discriminate. inversion Ht; subst.
      cbn [tden sden]. rewrite (seq_res_sound l H tms Er). reflexivity.
    - destruct (seq_res (map (translate E) l)) as [tms| |] eqn:Er; try discriminate. inversion Ht; subst.
      cbn [tden sden]. pose proof (seq_res_sound l H tms Er) as Hm.
      destruct tms as [|a r], l as [|b l']; simpl in Hm; try discriminate; auto. inversion Hm. congruence.
    - destruct (seq_res (map (translate E) l)) as [tms| |] eqn:Er; try discriminate. inversion Ht; subst.
      cbn [tden sden]. pose proof (seq_res_sound l H tms Er) as Hm.
      destruct tms as [|a r], l as [|b l']; simpl in Hm; try discriminate; auto. inversion Hm. congruence.
    - destruct (translate E s1) as [tb| |] eqn:E1; try discriminate.
      destruct (translate E s2) as [te| |] eqn:E2; try discriminate. inversion Ht; subst.
      cbn [tden sden]. rewrite (IHs1 tb eq_refl), (IHs2 te eq_refl). reflexivity.
    - destruct (translate E s) as [ta| |] eqn:E1; try discriminate. inversion Ht; subst. cbn [tden sden]. rewrite (IHs ta eq_refl). reflexivity.
    - destruct (translate E s) as [ta| |] eqn:E1; try discriminate. inversion Ht; subst. cbn [tden sden]. rewrite (IHs ta eq_refl). reflexivity.
    - destruct (translate E s) as [ta| |] eqn:E1; try discriminate. inversion Ht; subst. cbn [tden sden]. rewrite (IHs ta eq_refl). reflexivity.
    - destruct (translate E s) as [ta| |] eqn:E1; try discriminate. inversion Ht; subst. cbn [tden sden]. rewrite (IHs ta eq_refl). reflexivity.
    - inversion Ht; subst. reflexivity.
    - discriminate.
  Qed.
End Sound.

(* rejection: a tree is accepted iff every symbol resolves and there is no non-numeric leaf *)
Section Reject.
  Context {F : Type}.
  Variable E : env.
  Definition known (name : nat) : bool :=
    match pos_of (e_species E) name, pos_of (e_params E) name with
    | Some _, _ | _, Some _ => true
    | None, None => Nat.eqb name (e_volume E) || Nat.eqb name (e_time E)
    end.
  Fixpoint well_formed (s : stree F) : bool :=
    match s with
    | SSymbol u st fu => known (if u then st else fu)
    | SAdd l | SMul l | SMax l | SMin l => forallb well_formed l
    | SPow b e => well_formed b && well_formed e
    | SExp a | SLog a | SHeaviside a | SAbs a => well_formed a
    | SNumber _ => true
    | SOther => false
    end.
  Definition is_ok {T} (r : tres T) : bool := match r with TOk _ => true | _ => false end.

  Lemma resolve_ok u st fu : is_ok (resolve (F:=F) E u st fu) = known (if u then st else fu).
  Proof.
    unfold resolve, known. set (name := if u then st else fu).
    destruct (pos_of (e_species E) name); [reflexivity|]. destruct (pos_of (e_params E) name); [reflexivity|].
    destruct (Nat.eqb name (e_volume E)); [reflexivity|]. destruct (Nat.eqb name (e_time E)); reflexivity.
  Qed.
  Lemma seq_res_ok (l : list (stree F)) : Forall (fun s => is_ok (translate E s) = well_formed s) l ->
    is_ok (seq_res (map (translate E) l)) = forallb well_formed l.
  Proof.
    induction 1 as [|s l Hs Hl IH]; [reflexivity|]. cbn [map seq_res forallb]. rewrite <- Hs, <- IH.
    destruct (translate E s); simpl; auto. destruct (seq_res (map (translate E) l)); reflexivity.
  Qed.
  Theorem translate_accepts_iff (s : stree F) : is_ok (translate E s) = well_formed s.
  Proof.
    induction s using stree_ind'; cbn [translate well_formed].
    - apply resolve_ok.
    - rewrite <- (seq_res_ok l H). destruct (seq_res (map (translate E) l)); reflexivity.
    - rewrite <- (seq_res_ok l H). destruct (seq_res (map (translate E) l)); reflexivity.
    - rewrite <- (seq_res_ok l H). destruct (seq_res (map (translate E) l)); reflexivity.
    - rewrite <- (seq_res_ok l H). destruct (seq_res (map (translate E) l)); reflexivity.
    - rewrite <- IHs1, <- IHs2. destruct (translate E s1); simpl; auto. destruct (translate E s2); reflexivity.
    - rewrite <- IHs. destruct (translate E s); reflexivity.
    - rewrite <- IHs. destruct (translate E s); reflexivity.
    - rewrite <- IHs. destruct (translate E s); reflexivity.
    - rewrite <- IHs. destruct (translate E s); reflexivity.
    - reflexivity.
    - reflexivity.
  Qed.
End Reject.
