(* Tie between the definitions REGENERATED from bioscrape/types.pyx (Gen/PropensityGen.v, written by
   tools/tr_propensity.py on every run) and the hand model Model/Propensity.v, for ANY arithmetic: each of the
   8 classes x 4 evaluators equals prop_eval of the corresponding constructor.  The theorems of C01 about prop_eval are
   thereby theorems about what the source says now; an edit of an evaluator changes the generated term and breaks the
   corresponding lemma here. *)
From Coq Require Import ZArith List Bool Arith Lia.
From BS Require Import Base.Arith Base.CyPrelude Model.Term Model.Propensity Gen.PropensityGen.
Import ListNotations.

Section Tie.
  Context {F : Type} (A : Arith F).

  Definition gen_eval4 {O} (g1 g3 : Arith F -> O -> list F -> list F -> F -> F) (g2 g4 : Arith F -> O -> list F -> list F -> F -> F -> F)
             (o : O) (m : mode) (x p : list F) (V t : F) : F :=
    match m with Det => g1 A o x p t | Vol => g2 A o x p V t | Stoch => g3 A o x p t | StochVol => g4 A o x p V t end.

  Definition gen_Constitutive := gen_eval4 (@gen_ConstitutivePropensity_get_propensity F) (@gen_ConstitutivePropensity_get_stochastic_propensity F)
                                           (@gen_ConstitutivePropensity_get_volume_propensity F) (@gen_ConstitutivePropensity_get_stochastic_volume_propensity F).
  Definition gen_Unimolecular := gen_eval4 (@gen_UnimolecularPropensity_get_propensity F) (@gen_UnimolecularPropensity_get_stochastic_propensity F)
                                           (@gen_UnimolecularPropensity_get_volume_propensity F) (@gen_UnimolecularPropensity_get_stochastic_volume_propensity F).
  Definition gen_Bimolecular := gen_eval4 (@gen_BimolecularPropensity_get_propensity F) (@gen_BimolecularPropensity_get_stochastic_propensity F)
                                          (@gen_BimolecularPropensity_get_volume_propensity F) (@gen_BimolecularPropensity_get_stochastic_volume_propensity F).
  Definition gen_PositiveHill := gen_eval4 (@gen_PositiveHillPropensity_get_propensity F) (@gen_PositiveHillPropensity_get_stochastic_propensity F)
                                           (@gen_PositiveHillPropensity_get_volume_propensity F) (@gen_PositiveHillPropensity_get_stochastic_volume_propensity F).
  Definition gen_PositiveProportionalHill :=
    gen_eval4 (@gen_PositiveProportionalHillPropensity_get_propensity F) (@gen_PositiveProportionalHillPropensity_get_stochastic_propensity F)
              (@gen_PositiveProportionalHillPropensity_get_volume_propensity F) (@gen_PositiveProportionalHillPropensity_get_stochastic_volume_propensity F).
  Definition gen_NegativeHill := gen_eval4 (@gen_NegativeHillPropensity_get_propensity F) (@gen_NegativeHillPropensity_get_stochastic_propensity F)
                                           (@gen_NegativeHillPropensity_get_volume_propensity F) (@gen_NegativeHillPropensity_get_stochastic_volume_propensity F).
  Definition gen_NegativeProportionalHill :=
    gen_eval4 (@gen_NegativeProportionalHillPropensity_get_propensity F) (@gen_NegativeProportionalHillPropensity_get_stochastic_propensity F)
              (@gen_NegativeProportionalHillPropensity_get_volume_propensity F) (@gen_NegativeProportionalHillPropensity_get_stochastic_volume_propensity F).
  Definition gen_MassAction := gen_eval4 (@gen_MassActionPropensity_get_propensity F) (@gen_MassActionPropensity_get_stochastic_propensity F)
                                         (@gen_MassActionPropensity_get_volume_propensity F) (@gen_MassActionPropensity_get_stochastic_volume_propensity F).

  Lemma tie_Constitutive o m x p V t :
    gen_Constitutive o m x p V t = prop_eval A (PConst (ConstitutivePropensity_rate_index o)) m x p V t.
  Proof. destruct m; reflexivity. Qed.

  Lemma tie_Unimolecular o m x p V t :
    gen_Unimolecular o m x p V t = prop_eval A (PUni (UnimolecularPropensity_rate_index o) (UnimolecularPropensity_species_index o)) m x p V t.
  Proof. destruct m; reflexivity. Qed.

  Lemma tie_Bimolecular o m x p V t :
    gen_Bimolecular o m x p V t =
    prop_eval A (PBi (BimolecularPropensity_rate_index o) (BimolecularPropensity_s1_index o) (BimolecularPropensity_s2_index o)) m x p V t.
  Proof.
    destruct m; try reflexivity;
      unfold gen_Bimolecular, gen_eval4, gen_BimolecularPropensity_get_stochastic_propensity,
             gen_BimolecularPropensity_get_stochastic_volume_propensity, prop_eval;
      destruct (Nat.eqb (BimolecularPropensity_s1_index o) (BimolecularPropensity_s2_index o)); reflexivity.
  Qed.

  Lemma tie_PositiveHill o m x p V t :
    gen_PositiveHill o m x p V t =
    prop_eval A (PHillPos (PositiveHillPropensity_rate_index o) (PositiveHillPropensity_K_index o) (PositiveHillPropensity_n_index o)
                          (PositiveHillPropensity_s1_index o)) m x p V t.
  Proof. destruct m; reflexivity. Qed.

  Lemma tie_PositiveProportionalHill o m x p V t :
    gen_PositiveProportionalHill o m x p V t =
    prop_eval A (PPropHillPos (PositiveProportionalHillPropensity_rate_index o) (PositiveProportionalHillPropensity_K_index o)
                              (PositiveProportionalHillPropensity_n_index o) (PositiveProportionalHillPropensity_s1_index o)
                              (PositiveProportionalHillPropensity_d_index o)) m x p V t.
  Proof. destruct m; reflexivity. Qed.

  Lemma tie_NegativeHill o m x p V t :
    gen_NegativeHill o m x p V t =
    prop_eval A (PHillNeg (NegativeHillPropensity_rate_index o) (NegativeHillPropensity_K_index o) (NegativeHillPropensity_n_index o)
                          (NegativeHillPropensity_s1_index o)) m x p V t.
  Proof. destruct m; reflexivity. Qed.

  Lemma tie_NegativeProportionalHill o m x p V t :
    gen_NegativeProportionalHill o m x p V t =
    prop_eval A (PPropHillNeg (NegativeProportionalHillPropensity_rate_index o) (NegativeProportionalHillPropensity_K_index o)
                              (NegativeProportionalHillPropensity_n_index o) (NegativeProportionalHillPropensity_s1_index o)
                              (NegativeProportionalHillPropensity_d_index o)) m x p V t.
  Proof. destruct m; reflexivity. Qed.

  (* the index loop `for i in range(len(inds)): for j in range(counts[i])` is the fold over the zipped vectors *)
  Lemma for_range_zip {St} (g : nat -> nat -> St -> St) (inds counts : list nat) :
    forall (off : nat) (pre_i pre_c : list nat) (a : St),
    length pre_i = off -> length pre_c = off ->
    fold_left (fun a i => g (nth i (pre_i ++ inds) 0%nat) (nth i (pre_c ++ counts) 0%nat) a) (seq off (length inds)) a =
    fold_left (fun a ic => g (fst ic) (snd ic) a) (combine inds (counts ++ repeat 0%nat (length inds - length counts))) a.
  Proof.
    revert counts; induction inds as [|i inds IH]; intros counts off pre_i pre_c a Hi Hc; [reflexivity|].
    cbn [length seq fold_left].
    destruct counts as [|c counts].
    - cbn [length Nat.sub app repeat combine fold_left fst snd].
      rewrite app_nth2 by lia. rewrite Hi, Nat.sub_diag. cbn [nth].
      rewrite (nth_overflow (pre_c ++ [])) by (rewrite app_length; cbn; lia).
      specialize (IH [] (S off) (pre_i ++ [i]) (pre_c ++ [0%nat]) (g i 0%nat a)).
      rewrite <- !app_assoc in IH. cbn [app] in IH.
      assert (E : forall a0, fold_left (fun a1 i0 => g (nth i0 (pre_i ++ i :: inds) 0%nat) (nth i0 (pre_c ++ []) 0%nat) a1) (seq (S off) (length inds)) a0 =
                             fold_left (fun a1 i0 => g (nth i0 (pre_i ++ i :: inds) 0%nat) (nth i0 (pre_c ++ [0%nat]) 0%nat) a1) (seq (S off) (length inds)) a0).
      { intro a0. generalize (seq (S off) (length inds)) as l. intro l. revert a0. induction l as [|z l IHl]; intro a0; [reflexivity|].
        cbn [fold_left]. rewrite IHl. f_equal. f_equal.
        rewrite app_nil_r. destruct (Nat.lt_ge_cases z (length pre_c)) as [Hlt|Hge].
        - rewrite app_nth1 by lia. reflexivity.
        - rewrite (nth_overflow pre_c) by lia. rewrite app_nth2 by lia. destruct (z - length pre_c)%nat as [|[|k]]; reflexivity. }
      rewrite E. rewrite IH by (rewrite app_length; cbn; lia).
      cbn [length Nat.sub app]. rewrite Nat.sub_0_r. reflexivity.
    - cbn [length Nat.sub app combine fold_left fst snd].
      rewrite !app_nth2 by lia. rewrite Hi, Hc, Nat.sub_diag. cbn [nth].
      specialize (IH counts (S off) (pre_i ++ [i]) (pre_c ++ [c]) (g i c a)).
      rewrite <- !app_assoc in IH. cbn [app] in IH.
      apply IH; rewrite app_length; cbn; lia.
  Qed.

  (* trailing zero counts do nothing; combine truncates at the shorter vector *)
  Lemma fold_zero_counts {St} (g : nat -> nat -> St -> St) (Hz : forall i a, g i 0%nat a = a) inds counts a :
    fold_left (fun a ic => g (fst ic) (snd ic) a) (combine inds (counts ++ repeat 0%nat (length inds - length counts))) a =
    fold_left (fun a ic => g (fst ic) (snd ic) a) (combine inds counts) a.
  Proof.
    revert counts a; induction inds as [|i inds IH]; intros counts a; [reflexivity|].
    destruct counts as [|c counts].
    - cbn [length Nat.sub app repeat combine fold_left fst snd]. rewrite Hz.
      specialize (IH [] a). cbn [length app combine fold_left] in IH. rewrite Nat.sub_0_r in IH.
      rewrite IH. destruct inds; reflexivity.
    - cbn [length Nat.sub app combine fold_left fst snd]. apply IH.
  Qed.

  Lemma tie_mass_loop (body : nat -> nat -> F -> F) inds counts k :
    for_range (length inds) (fun i ans => for_range (nth i counts 0%nat) (fun j ans => body (nth i inds 0%nat) j ans) ans) k =
    fold_left (fun ans ic => fold_left (fun a j => body (fst ic) j a) (seq 0 (snd ic)) ans) (combine inds counts) k.
  Proof.
    unfold for_range.
    pose (g := fun (i c : nat) (a : F) => fold_left (fun a j => body i j a) (seq 0 c) a).
    change (fold_left (fun a i => g (nth i inds 0%nat) (nth i counts 0%nat) a) (seq 0 (length inds)) k =
            fold_left (fun a ic => g (fst ic) (snd ic) a) (combine inds counts) k).
    rewrite <- (fold_zero_counts g (fun _ _ => eq_refl) inds counts k).
    exact (for_range_zip g inds counts 0 [] [] k eq_refl eq_refl).
  Qed.

  (* MassActionPropensity: sp_inds / sp_counts as built by initialize (Model: multiplicity_table), num_species their sum *)
  Lemma tie_MassAction o m x p V t :
    MassActionPropensity_num_species o = num_species (MassActionPropensity_sp_counts o) ->
    gen_MassAction o m x p V t =
    prop_eval A (PMass (MassActionPropensity_k_index o) (MassActionPropensity_sp_inds o) (MassActionPropensity_sp_counts o)) m x p V t.
  Proof.
    intro Hn.
    assert (D : gen_MassActionPropensity_get_propensity A o x p t =
                mass_det A (getv A p (MassActionPropensity_k_index o)) (MassActionPropensity_sp_inds o) (MassActionPropensity_sp_counts o) x).
    { unfold gen_MassActionPropensity_get_propensity, mass_det.
      exact (tie_mass_loop (fun s _ a => fmul A a (getv A x s)) _ _ _). }
    assert (Sx : gen_MassActionPropensity_get_stochastic_propensity A o x p t =
                mass_stoch A (getv A p (MassActionPropensity_k_index o)) (MassActionPropensity_sp_inds o) (MassActionPropensity_sp_counts o) x).
    { unfold gen_MassActionPropensity_get_stochastic_propensity, mass_stoch.
      exact (tie_mass_loop (fun s j a => fmul A a (cy_max A (fsub A (getv A x s) (fofZ A (Z.of_nat j))) (fofZ A 0))) _ _ _). }
    destruct m; unfold gen_MassAction, gen_eval4, gen_MassActionPropensity_get_volume_propensity,
                       gen_MassActionPropensity_get_stochastic_volume_propensity, prop_eval, vol_div;
      rewrite ?D, ?Sx, ?Hn; reflexivity.
  Qed.

  (* create_propensity's dispatch of 'massaction' by reactant count, onto objects of the generated classes *)
  Definition gen_massaction_dispatch (k : nat) (rs : list nat) (m : mode) (x p : list F) (V t : F) : F :=
    match rs with
    | [] => gen_Constitutive {| ConstitutivePropensity_rate_index := k |} m x p V t
    | [s] => gen_Unimolecular {| UnimolecularPropensity_rate_index := k; UnimolecularPropensity_species_index := s |} m x p V t
    | [s1; s2] => gen_Bimolecular {| BimolecularPropensity_rate_index := k; BimolecularPropensity_s1_index := s1;
                                     BimolecularPropensity_s2_index := s2 |} m x p V t
    | _ => gen_MassAction {| MassActionPropensity_k_index := k; MassActionPropensity_sp_inds := fst (multiplicity_table rs);
                             MassActionPropensity_sp_counts := snd (multiplicity_table rs);
                             MassActionPropensity_num_species := num_species (snd (multiplicity_table rs)) |} m x p V t
    end.

  Lemma tie_massaction_dispatch k rs m x p V t :
    gen_massaction_dispatch k rs m x p V t = prop_eval A (@massaction_dispatch F k rs) m x p V t.
  Proof.
    destruct rs as [|s1 [|s2 [|s3 rs]]]; cbn [gen_massaction_dispatch massaction_dispatch].
    - apply tie_Constitutive.
    - apply tie_Unimolecular.
    - apply tie_Bimolecular.
    - rewrite tie_MassAction by reflexivity. cbn [MassActionPropensity_k_index MassActionPropensity_sp_inds MassActionPropensity_sp_counts].
      destruct (multiplicity_table (s1 :: s2 :: s3 :: rs)) as [inds counts]. reflexivity.
  Qed.
End Tie.
