(* C09: the delay-capable and the volume-aware loops also report only rule-applied states: every row is the species
   part of a rule pass (volume rules see the current volume) taken before the reaction / delivery / volume step of that
   iteration (any arithmetic, stream, fuel, grid, queue, volume model). *)
From Coq Require Import ZArith List Bool Lia Arith.
From BS Require Import Base.Arith Model.Term Model.Propensity Model.Interface Model.Rules Model.Random Model.Queue Model.SSA Proofs.SSAProofs.
Import ListNotations.

Section RowsRules2.
  Context {F : Type} (A : Arith F) (pi2 : F).
  Variable s : sim F.

  Definition rule_applied_v (row : list F) : Prop :=
    exists vol x p t step, row = fst (apply_rules A (sm_rules s) vol (x, p) t (sm_dt s) step).

  Lemma dssa_iter_rows_rules gfuel u st st' : Forall rule_applied_v (ds_rows st) -> dssa_iter A pi2 gfuel s u st = Done st' ->
    Forall rule_applied_v (ds_rows st').
  Proof.
    intros Hall H. unfold dssa_iter in H.
    destruct (ds_todo st) as [|tnext todo] eqn:Et; [inversion H; subst; auto|].
    destruct (apply_rules A (sm_rules s) None (ds_x st, ds_p st) (ds_time st) (sm_dt s) (ds_rule_step st)) as [x1 p1] eqn:Er.
    set (props := stoch_props A s Stoch x1 p1 (f1 A) (ds_time st)) in *.
    set (Lambda := array_sum A props) in *.
    destruct (if feqb A Lambda (f0 A) then (tnext, false, true, ds_pos st)
              else let '(tau, pos') := exponential_rv A Lambda u (ds_pos st) in (fadd A (ds_time st) tau, true, false, pos'))
      as [[[proposed fired] rs] pos1].
    destruct (if fltb A tnext proposed then (tnext, false, true) else (proposed, fired, rs)) as [[proposed' fired'] rs'].
    destruct (if fltb A (q_next_time (ds_q st)) proposed' then (q_next_time (ds_q st), true, false, false) else (proposed', false, fired', rs'))
      as [[[time' toq] fired''] rs''].
    destruct (record A (tnext :: todo) time' x1) as [rows rem] eqn:E3.
    destruct (record_rows A _ _ _ _ _ E3) as (Hrows & _).
    assert (Hnew : Forall rule_applied_v (ds_rows st ++ rows)).
    { apply Forall_app. split; auto. rewrite Forall_forall in *. intros row Hin. rewrite (Hrows row Hin).
      exists None, (ds_x st), (ds_p st), (ds_time st), (ds_rule_step st). rewrite Er. reflexivity. }
    destruct toq; [inversion H; subst; exact Hnew|].
    destruct fired''; [|inversion H; subst; exact Hnew].
    destruct (sample_discrete A props Lambda u pos1) as [choice pos2].
    destruct ((choice <? 0)%Z || (Z.of_nat (length props) <=? choice)%Z); [discriminate|].
    destruct (compute_delay A pi2 gfuel (nth (Z.to_nat choice) (sm_delays s) DNone) p1 u pos2) as [[dl pos3]|]; [|discriminate].
    destruct (fltb A (f0 A) dl).
    - destruct (q_add A (fadd A) (ds_q st) (fadd A time' dl) (Z.to_nat choice) (f1 A)); [|discriminate]. inversion H; subst; exact Hnew.
    - inversion H; subst; exact Hnew.
  Qed.

  Theorem dssa_rows_rule_applied fuel gfuel q ts u pos st :
    dssa_simulate A pi2 fuel gfuel s q ts u pos = Done st -> Forall rule_applied_v (ds_rows st).
  Proof.
    unfold dssa_simulate.
    assert (G : forall fuel st0 st1, Forall rule_applied_v (ds_rows st0) -> dssa_loop A pi2 fuel gfuel s u st0 = Done st1 -> Forall rule_applied_v (ds_rows st1)).
    { induction fuel0 as [|f IH]; intros st0 st1 H0 H; simpl in H.
      - destruct (ds_todo st0); [inversion H; subst; auto|discriminate].
      - destruct (ds_todo st0) eqn:E; [inversion H; subst; auto|].
        destruct (dssa_iter A pi2 gfuel s u st0) as [st'| |w] eqn:Ei; try discriminate.
        eapply IH; [|exact H]. eapply dssa_iter_rows_rules; eauto. }
    intros H. apply (G fuel _ st) in H; [exact H|constructor].
  Qed.

  Lemma vssa_iter_rows_rules vm u st st' : Forall rule_applied_v (vs_rows st) -> vssa_iter A s vm u st = Done st' ->
    Forall rule_applied_v (vs_rows st').
  Proof.
    intros Hall H. unfold vssa_iter in H.
    destruct (vs_todo st) as [|tnext todo] eqn:Et; [inversion H; subst; auto|].
    destruct (apply_rules A (sm_rules s) (Some (vs_V st)) (vs_x st, vs_p st) (vs_time st) (sm_dt s) (vs_rule_step st)) as [x1 p1] eqn:Er.
    set (props := stoch_props A s StochVol x1 p1 (vs_V st) (vs_time st)) in *.
    set (Lambda := array_sum A props) in *.
    destruct (if feqb A Lambda (f0 A) then (fadd A (vs_next_q st) (sm_dt s), false, true, true, vs_pos st)
              else let '(tau, pos') := exponential_rv A Lambda u (vs_pos st) in (fadd A (vs_time st) tau, true, false, false, pos'))
      as [[[[proposed fired] rs] toq] pos1].
    destruct (if fltb A (vs_next_q st) proposed then (vs_next_q st, fadd A (vs_next_q st) (sm_dt s), true, false, true)
              else (proposed, vs_next_q st, toq, fired, rs)) as [[[[time' nq] toq'] fired'] rs'].
    destruct (record A (tnext :: todo) time' x1) as [rows rem] eqn:E3.
    destruct (record_rows A _ _ _ _ _ E3) as (Hrows & _).
    assert (Hnew : Forall rule_applied_v (vs_rows st ++ rows)).
    { apply Forall_app. split; auto. rewrite Forall_forall in *. intros row Hin. rewrite (Hrows row Hin).
      exists (Some (vs_V st)), (vs_x st), (vs_p st), (vs_time st), (vs_rule_step st). rewrite Er. reflexivity. }
    destruct toq'; [inversion H; subst; exact Hnew|].
    destruct fired'; [|inversion H; subst; exact Hnew].
    destruct (sample_discrete A props Lambda u pos1) as [choice pos2].
    destruct ((choice <? 0)%Z || (Z.of_nat (length props) <=? choice)%Z); [discriminate|].
    inversion H; subst; exact Hnew.
  Qed.

  Theorem vssa_rows_rule_applied fuel vm V0 ts u pos st :
    vssa_simulate A fuel s vm V0 ts u pos = Done st -> Forall rule_applied_v (vs_rows st).
  Proof.
    unfold vssa_simulate.
    assert (G : forall fuel st0 st1, Forall rule_applied_v (vs_rows st0) -> vssa_loop A fuel s vm u st0 = Done st1 -> Forall rule_applied_v (vs_rows st1)).
    { induction fuel0 as [|f IH]; intros st0 st1 H0 H; simpl in H.
      - destruct (vs_todo st0); [inversion H; subst; auto|discriminate].
      - destruct (vs_todo st0) eqn:E; [inversion H; subst; auto|].
        destruct (vssa_iter A s vm u st0) as [st'| |w] eqn:Ei; try discriminate.
        eapply IH; [|exact H]. eapply vssa_iter_rows_rules; eauto. }
    intros H. apply (G fuel _ st) in H; [exact H|constructor].
  Qed.
End RowsRules2.
