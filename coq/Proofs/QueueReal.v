(* Real-arithmetic facts about the delay queue: the slot chosen for a requested time is the
   nearest one (clamped to the window), and a binomial partition conserves every cell. *)
From Coq Require Import ZArith List Bool Lia Arith Reals Lra.
From BS Require Import Base.Arith Model.Queue Proofs.ListLemmas Proofs.QueueProofs.
Import ListNotations.
Local Open Scope R_scope.

Lemma Rfloor_spec x : IZR (Rfloor x) <= x < IZR (Rfloor x) + 1.
Proof.
  unfold Rfloor. destruct (archimed x) as [H1 H2]. rewrite minus_IZR. lra.
Qed.

Lemma Rfloor_unique x z : IZR z <= x < IZR z + 1 -> Rfloor x = z.
Proof.
  intros [H1 H2]. destruct (Rfloor_spec x) as [F1 F2].
  assert (Ha : (Rfloor x < z + 1)%Z) by (apply lt_IZR; rewrite plus_IZR; lra).
  assert (Hb : (z < Rfloor x + 1)%Z) by (apply lt_IZR; rewrite plus_IZR; lra).
  lia.
Qed.

Lemma Rtrunc_nonneg x : 0 <= x -> Rtrunc x = Rfloor x.
Proof. intros H; unfold Rtrunc. destruct (Rle_dec 0 x); [reflexivity|contradiction]. Qed.

Lemma Rtrunc_neg_le0 x : x < 0 -> (Rtrunc x <= 0)%Z.
Proof.
  intros H; unfold Rtrunc. destruct (Rle_dec 0 x); [lra|].
  destruct (Rfloor_spec (- x)) as [F1 F2].
  assert ((-1 < Rfloor (- x))%Z) by (apply lt_IZR; lra). lia.
Qed.

Lemma Rtrunc_lt1 x : x < 1 -> (Rtrunc x <= 0)%Z.
Proof.
  intros H. destruct (Rle_dec 0 x).
  - rewrite Rtrunc_nonneg by auto. destruct (Rfloor_spec x). 
    assert ((Rfloor x < 1)%Z) by (apply lt_IZR; lra). lia.
  - apply Rtrunc_neg_le0; lra.
Qed.

Section QR.
  Context {M : Type}.
  Notation queue := (queue R M).

  Definition rel_pos (q : queue) (time : R) : R := (time - q_next q) / q_dt q.

  Lemma raw_index_R (q : queue) time : q_raw_index ArithR q time = Rtrunc (rel_pos q time + 1/2).
  Proof. unfold q_raw_index, rel_pos, half; simpl. reflexivity. Qed.

  Theorem offset_before (q : queue) time : (0 < q_ncols q)%nat ->
    rel_pos q time < 1/2 -> q_offset ArithR q time = 0%nat.
  Proof.
    intros Hn Hx. unfold q_offset. rewrite raw_index_R.
    assert (H : (Rtrunc (rel_pos q time + 1 / 2) <= 0)%Z) by (apply Rtrunc_lt1; lra).
    destruct (Z.ltb_spec (Rtrunc (rel_pos q time + 1 / 2)) 0); [reflexivity|].
    destruct (Z.geb_spec (Rtrunc (rel_pos q time + 1 / 2)) (Z.of_nat (q_ncols q))); lia.
  Qed.

  Theorem offset_inside (q : queue) time : (0 < q_ncols q)%nat ->
    0 <= rel_pos q time -> rel_pos q time < IZR (Z.of_nat (q_ncols q)) - 1/2 ->
    let j := IZR (Z.of_nat (q_offset ArithR q time)) in
    j - 1/2 <= rel_pos q time < j + 1/2.
  Proof.
    intros Hn H0 H1. cbv zeta. unfold q_offset. rewrite raw_index_R.
    set (y := rel_pos q time + 1/2) in *.
    assert (Hy : 0 <= y) by (unfold y; lra).
    rewrite Rtrunc_nonneg by exact Hy. destruct (Rfloor_spec y) as [F1 F2].
    assert (Hge0 : (0 <= Rfloor y)%Z) by (assert ((-1 < Rfloor y)%Z) by (apply lt_IZR; lra); lia).
    assert (Hlt : (Rfloor y < Z.of_nat (q_ncols q))%Z) by (apply lt_IZR; unfold y in *; lra).
    destruct (Z.ltb_spec (Rfloor y) 0); [lia|].
    destruct (Z.geb_spec (Rfloor y) (Z.of_nat (q_ncols q))); [lia|].
    rewrite Z2Nat.id by lia. unfold y in *. lra.
  Qed.

  Theorem offset_beyond (q : queue) time : (0 < q_ncols q)%nat ->
    IZR (Z.of_nat (q_ncols q)) - 1/2 <= rel_pos q time ->
    q_offset ArithR q time = (q_ncols q - 1)%nat.
  Proof.
    intros Hn H1. unfold q_offset. rewrite raw_index_R.
    set (y := rel_pos q time + 1/2) in *.
    assert (Hpos : 1 <= IZR (Z.of_nat (q_ncols q))) by (apply IZR_le; lia).
    assert (Hy : 0 <= y) by (unfold y; lra).
    rewrite Rtrunc_nonneg by exact Hy. destruct (Rfloor_spec y) as [F1 F2].
    assert (Hge : (Z.of_nat (q_ncols q) - 1 < Rfloor y + 1)%Z).
    { apply lt_IZR. rewrite plus_IZR, minus_IZR. unfold y in *. lra. }
    destruct (Z.ltb_spec (Rfloor y) 0); [lia|].
    destruct (Z.geb_spec (Rfloor y) (Z.of_nat (q_ncols q))); [reflexivity|]. lia.
  Qed.

  (* in terms of times: slot time of offset j is next + j*dt *)
  Definition slot_time (q : queue) (j : nat) : R := q_next q + IZR (Z.of_nat j) * q_dt q.

  Theorem nearest_slot (q : queue) time : (0 < q_ncols q)%nat -> 0 < q_dt q ->
    let j := q_offset ArithR q time in
    (* already past: earliest pending slot *)
    (time < q_next q -> j = 0%nat) /\
    (* inside the window: nearest grid time (ties, exactly half-way, go up) *)
    (q_next q <= time -> time <= slot_time q (q_ncols q - 1) ->
       slot_time q j - q_dt q / 2 <= time < slot_time q j + q_dt q / 2) /\
    (* beyond the horizon: the last slot *)
    (slot_time q (q_ncols q - 1) < time -> j = (q_ncols q - 1)%nat).
  Proof.
    intros Hn Hdt. cbv zeta.
    assert (Hrel : time = q_next q + rel_pos q time * q_dt q).
    { unfold rel_pos. field. lra. }
    assert (Hlast : IZR (Z.of_nat (q_ncols q - 1)) = IZR (Z.of_nat (q_ncols q)) - 1).
    { rewrite Nat2Z.inj_sub by lia. rewrite minus_IZR. reflexivity. }
    split; [|split].
    - intros Hlt. apply offset_before; auto.
      assert (rel_pos q time < 0).
      { unfold rel_pos. apply Rmult_lt_reg_r with (q_dt q); auto.
        unfold Rdiv. rewrite Rmult_assoc, Rinv_l by lra. lra. }
      lra.
    - intros Hge Hle. unfold slot_time in *. rewrite Hlast in Hle.
      assert (H0 : 0 <= rel_pos q time).
      { unfold rel_pos. apply Rmult_le_reg_r with (q_dt q); auto.
        unfold Rdiv. rewrite Rmult_assoc, Rinv_l by lra. lra. }
      assert (H1 : rel_pos q time <= IZR (Z.of_nat (q_ncols q)) - 1).
      { apply Rmult_le_reg_r with (q_dt q); auto. lra. }
      destruct (offset_inside q time Hn H0 ltac:(lra)) as [Ha Hb].
      set (j := IZR (Z.of_nat (q_offset ArithR q time))) in *.
      set (x := rel_pos q time) in *.
      split.
      + assert ((j - 1/2) * q_dt q <= x * q_dt q) by (apply Rmult_le_compat_r; lra). lra.
      + assert (x * q_dt q < (j + 1/2) * q_dt q) by (apply Rmult_lt_compat_r; lra). lra.
    - intros Hgt. unfold slot_time in Hgt. rewrite Hlast in Hgt.
      destruct (Rlt_dec (rel_pos q time) (IZR (Z.of_nat (q_ncols q)) - 1/2)) as [Hin|Hout].
      + assert (H1 : IZR (Z.of_nat (q_ncols q)) - 1 < rel_pos q time).
        { apply Rmult_lt_reg_r with (q_dt q); auto. lra. }
        assert (Hpos : 1 <= IZR (Z.of_nat (q_ncols q))) by (apply IZR_le; lia).
        destruct (offset_inside q time Hn ltac:(lra) Hin) as [Ha Hb].
        pose proof (offset_lt ArithR q time Hn) as Hj.
        assert (Hz : (Z.of_nat (q_ncols q) - 1 < Z.of_nat (q_offset ArithR q time) + 1)%Z).
        { apply lt_IZR. rewrite plus_IZR, minus_IZR. lra. }
        lia.
      + apply offset_beyond; auto. lra.
  Qed.
End QR.

(* binomial partition over R: each cell of the two parts sums to the cell of the original,
   whatever the stream *)
Section PartR.
  Notation A := ArithR.

  Definition rect {T} (n m : nat) (q : list (list T)) : Prop :=
    length q = n /\ Forall (fun row => length row = m) q.

  Definition cell (q : list (list R)) (r c : nat) : R := nth c (nth r q []) 0.

  Lemma rect_upd {T} n m (q : list (list T)) r c v : (r < n)%nat ->
    rect n m q -> rect n m (upd q r (upd (nth r q []) c v)).
  Proof.
    intros Hrn [Hl Hr]; split; [rewrite upd_length; auto|].
    apply Forall_upd; auto. rewrite upd_length.
    apply (Forall_nth' _ q r [] Hr); lia.
  Qed.

  Lemma cell_upd n m q r0 c0 v r c : rect n m q -> (r0 < n)%nat -> (c0 < m)%nat ->
    cell (upd q r0 (upd (nth r0 q []) c0 v)) r c =
      if Nat.eqb r0 r && Nat.eqb c0 c then v else cell q r c.
  Proof.
    intros [Hl Hr] Hr0 Hc0. unfold cell. rewrite nth_upd.
    assert (Hrow : length (nth r0 q []) = m) by (apply (Forall_nth' _ q r0 [] Hr); lia).
    rewrite Hl. apply Nat.ltb_lt in Hr0 as Hr0'. rewrite Hr0'.
    destruct (Nat.eqb_spec r0 r) as [->|]; simpl; auto.
    rewrite nth_upd, Hrow. apply Nat.ltb_lt in Hc0 as Hc0'. rewrite Hc0'.
    destruct (Nat.eqb c0 c); reflexivity.
  Qed.

  Lemma part_cells_spec n m order : NoDup order ->
    (forall r c, In (r, c) order -> (r < n)%nat /\ (c < m)%nat) ->
    forall src q1 q2 p u pos c1 c2 pos',
    rect n m q1 -> rect n m q2 ->
    part_cells A order src q1 q2 p u pos = (c1, c2, pos') ->
    rect n m c1 /\ rect n m c2 /\
    forall r c,
      (In (r, c) order -> cell c1 r c + cell c2 r c = cell src r c) /\
      (~ In (r, c) order -> cell c1 r c = cell q1 r c /\ cell c2 r c = cell q2 r c).
  Proof.
    intros Hnd; induction Hnd as [|[r0 c0] rest Hnotin Hnd IH]; intros Hb src q1 q2 p u pos c1 c2 pos' R1 R2 H.
    - simpl in H. inversion H; subst. split; [|split]; auto. intros r c; split; [intros []|auto].
    - cbn [part_cells] in H.
      destruct (binom_rnd_f A (nth c0 (nth r0 src []) (f0 A)) p u pos) as [b pos1] eqn:Eb.
      destruct (Hb r0 c0 (or_introl eq_refl)) as [Hr0 Hc0].
      assert (Hb' : forall r c, In (r, c) rest -> (r < n)%nat /\ (c < m)%nat) by (intros; apply Hb; right; auto).
      specialize (IH Hb' _ _ _ _ _ _ _ _ _ (rect_upd n m q1 r0 c0 b Hr0 R1)
                     (rect_upd n m q2 r0 c0 _ Hr0 R2) H).
      destruct IH as (RC1 & RC2 & IH). split; [|split]; auto.
      intros r c; split.
      + intros [Heq|Hin].
        * inversion Heq; subst r c. destruct (IH r0 c0) as [_ Hout]. destruct (Hout Hnotin) as [E1 E2].
          rewrite E1, E2. rewrite !(cell_upd n m) by auto. rewrite !Nat.eqb_refl. simpl.
          unfold cell. lra.
        * apply IH; auto.
      + intros Hnot. destruct (IH r c) as [_ Hout].
        destruct Hout as [E1 E2]; [intro; apply Hnot; right; auto|].
        rewrite E1, E2. rewrite !(cell_upd n m) by auto.
        destruct (Nat.eqb_spec r0 r) as [->|]; simpl; auto.
        destruct (Nat.eqb_spec c0 c) as [->|]; simpl; auto.
        exfalso; apply Hnot; left; reflexivity.
  Qed.

  Lemma part_order_spec nrx ncols r c : In (r, c) (part_order nrx ncols) <-> (r < nrx /\ c < ncols)%nat.
  Proof.
    unfold part_order. rewrite in_flat_map. split.
    - intros (c' & Hc & Hin). apply in_map_iff in Hin. destruct Hin as (r' & Heq & Hr).
      inversion Heq; subst. apply in_seq in Hc, Hr. lia.
    - intros [Hr Hc]. exists c. split; [apply in_seq; lia|]. apply in_map_iff. exists r. split; auto. apply in_seq; lia.
  Qed.

  Lemma NoDup_flat_map {X Y} (f : X -> list Y) (l : list X) :
    NoDup l -> (forall x, In x l -> NoDup (f x)) ->
    (forall x y z, In x l -> In y l -> x <> y -> In z (f x) -> In z (f y) -> False) ->
    NoDup (flat_map f l).
  Proof.
    intros Hnd; induction Hnd as [|x l Hx Hnd IH]; intros Hf Hdisj; simpl; [constructor|].
    assert (Hl : NoDup (flat_map f l)).
    { apply IH; [intros; apply Hf; right; auto|].
      intros x0 y z Hx0 Hy; apply Hdisj; right; auto. }
    assert (Hfx : NoDup (f x)) by (apply Hf; left; auto).
    assert (Hsep : forall z, In z (f x) -> ~ In z (flat_map f l)).
    { intros z Hz Hin. apply in_flat_map in Hin. destruct Hin as (y & Hy & Hzy).
      apply (Hdisj x y z); auto; [left; auto|right; auto|]. intros ->. contradiction. }
    revert Hsep Hfx. generalize (f x) as l1. induction l1 as [|a l1 IH1]; intros Hsep Hfx; simpl; auto.
    inversion Hfx; subst. constructor.
    - rewrite in_app_iff. intros [H|H]; [contradiction|]. apply (Hsep a); [left; auto|auto].
    - apply IH1; auto. intros z Hz; apply Hsep; right; auto.
  Qed.

  Lemma part_order_nodup nrx ncols : NoDup (part_order nrx ncols).
  Proof.
    unfold part_order. apply NoDup_flat_map.
    - apply seq_NoDup.
    - intros c _. apply NoDup_map_inv with (f := fst). rewrite map_map. simpl. rewrite map_id. apply seq_NoDup.
    - intros c1 c2 [r c] _ _ Hne H1 H2. apply in_map_iff in H1, H2.
      destruct H1 as (r1 & E1 & _), H2 as (r2 & E2 & _). inversion E1; inversion E2; subst. congruence.
  Qed.

  (* statement about the queue objects *)
  Theorem partition_conserves (q : queue R R) p u pos qa qb pos' :
    wfq q -> q_partition A q p u pos = (qa, qb, pos') ->
    q_ncols qa = q_ncols q /\ q_ncols qb = q_ncols q /\
    q_start qa = q_start q /\ q_start qb = q_start q /\
    q_next qa = q_next q /\ q_next qb = q_next q /\ q_dt qa = q_dt q /\ q_dt qb = q_dt q /\
    forall off r, (off < q_ncols q)%nat -> (r < length (q_cells q))%nat ->
      q_pending 0 qa off r + q_pending 0 qb off r = q_pending 0 q off r.
  Proof.
    intros (Hn & Hs & Hrows) H. unfold q_partition in H.
    destruct (part_cells A _ _ _ _ p u pos) as [[c1 c2] pos1] eqn:E.
    inversion H; subst; clear H. simpl. repeat (split; [reflexivity|]).
    intros off r Hoff Hr.
    assert (Hz : rect (length (q_cells q)) (q_ncols q) (q_cells (q_clear_copy (f0 A) q))).
    { unfold q_clear_copy; simpl. split; [apply repeat_length|].
      apply Forall_forall. intros row Hin. apply repeat_spec in Hin. subst. apply repeat_length. }
    destruct (part_cells_spec (length (q_cells q)) (q_ncols q) _ (part_order_nodup _ _)
               (fun r c Hin => proj1 (part_order_spec _ _ r c) Hin) _ _ _ _ _ _ _ _ _ Hz Hz E)
      as (_ & _ & Hcells).
    unfold q_pending, q_slot; simpl.
    set (c := ((off + q_start q) mod q_ncols q)%nat).
    assert (Hc : (c < q_ncols q)%nat) by (apply Nat.mod_upper_bound; lia).
    destruct (Hcells r c) as [Hin _]. apply Hin. apply part_order_spec. auto.
  Qed.
End PartR.
