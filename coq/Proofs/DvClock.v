(* C11 for the delay + volume loop (DelayVolumeSSASimulator) over the reals: with exponential growth every reported volume is the
   growth law after j whole steps, the requested time it is reported for lying in the j-th step interval ("within one time step");
   all requested times are reported unless the cell divided.  Same statement and argument as Proofs/VolumeRun.v, with the delay
   queue as a third source of stops (it must not lag behind the clock at the start). *)
From Coq Require Import ZArith Reals List Bool Lia Lra Arith Sorted.
From BS Require Import Base.Arith Model.Term Model.Propensity Model.Interface Model.Rules Model.Random Model.Queue Model.SSA
  Proofs.SSAProofs Proofs.VolumeProofs Proofs.VolumeRun.
Import ListNotations.
Local Open Scope R_scope.

Section DvRun.
  Variable s : sim R.
  Variables g dtime V0 pi2 : R.
  Variable gfuel : nat.
  Notation vm := (VTimeThreshold g dtime).
  Notation dt := (sm_dt s). Notation t0 := (sm_t0 s).
  Variable u : nat -> R.
  Hypothesis Hdt : 0 < dt.
  Hypothesis Hu : forall n, 0 < u n <= 1.
  Hypothesis Hprops : forall x p V t, 0 <= array_sum ArithR (stoch_props ArithR s StochVol x p V t).

  Notation pair_ok := (pair_ok s g V0).

  Record dvclock_inv (ts : list R) (st : dvssa_state (F:=R)) (j : nat) : Prop := {
    dk_nv : dv_next_vol st = t0 + INR (S j) * dt;
    dk_V : dv_V st = grow V0 g dt j;
    dk_lo : t0 + INR j * dt <= dv_time st;
    dk_hi : dv_time st <= dv_next_vol st;
    dk_q : dv_time st <= q_next_time (dv_q st);
    dk_qdt : 0 <= q_dt (dv_q st);
    dk_rec : exists done rest, ts = done ++ rest /\ (dv_todo st = rest \/ (dv_todo st = [] /\ dv_divided st = true)) /\
                               Forall2 pair_ok done (dv_vols st) /\ Forall (fun t => dv_time st <= t) rest
  }.

  Lemma dvclock_iter ts st st' j : StronglySorted Rle ts -> dvclock_inv ts st j -> dv_todo st <> [] ->
    dvssa_iter ArithR pi2 gfuel s vm u st = Done st' -> exists j', dvclock_inv ts st' j'.
  Proof.
    intros Hsorted [Hnv HV Hlo Hhi Hq Hqdt (done & rest & Hts & Htodo & Hpairs & Hrest)] Hne H.
    destruct Htodo as [Htodo|[Htodo _]]; [|contradiction].
    unfold dvssa_iter in H. destruct (dv_todo st) as [|tnext todo] eqn:Et; [contradiction|]. clear Hne. subst rest.
    destruct (apply_rules ArithR (sm_rules s) (Some (dv_V st)) (dv_x st, dv_p st) (dv_time st) dt (dv_rule_step st)) as [x1 p1] eqn:Er.
    set (props := stoch_props ArithR s StochVol x1 p1 (dv_V st) (dv_time st)) in *.
    set (Lambda := array_sum ArithR props) in *.
    assert (HL : 0 <= Lambda) by apply Hprops.
    assert (Htn : dv_time st <= tnext) by (inversion Hrest; auto).
    assert (Hprop : exists proposed rs pos1,
      (if feqb ArithR Lambda (f0 ArithR) then (tnext, true, dv_pos st)
       else let '(tau, pos') := exponential_rv ArithR Lambda u (dv_pos st) in (fadd ArithR (dv_time st) tau, false, pos')) = (proposed, rs, pos1) /\
      dv_time st <= proposed).
    { change (feqb ArithR Lambda (f0 ArithR)) with (Reqb Lambda 0). destruct (Reqb Lambda 0) eqn:E0.
      - do 3 eexists. split; [reflexivity|exact Htn].
      - pose proof (tau_nonneg u Hu Lambda (dv_pos st) HL E0) as Ht.
        destruct (exponential_rv ArithR Lambda u (dv_pos st)) as [tau pos'] eqn:Ee. cbn [fst] in Ht.
        do 3 eexists. split; [reflexivity|]. cbn [fadd ArithR]. lra. }
    destruct Hprop as (proposed & rs & pos1 & Hpe & Hp1). rewrite Hpe in H. clear Hpe.
    set (nqr := q_next_time (dv_q st)) in *.
    change (fltb ArithR proposed (dv_next_vol st)) with (Rltb proposed (dv_next_vol st)) in H.
    change (fltb ArithR proposed nqr) with (Rltb proposed nqr) in H.
    change (fltb ArithR (dv_next_vol st) nqr) with (Rltb (dv_next_vol st) nqr) in H.
    assert (Hsr : StronglySorted Rle (tnext :: todo)).
    { rewrite Hts in Hsorted. clear -Hsorted. induction done; simpl in *; auto. inversion Hsorted; auto. }
    (* the new clock value, the new volume-step time, and which of the four steps is taken *)
    assert (Hsel : exists time' nv step rs',
      (if Rltb proposed (dv_next_vol st) && Rltb proposed nqr
       then (proposed, dv_next_vol st, (if feqb ArithR Lambda (f0 ArithR) then 3 else 0)%nat, false)
       else if Rltb (dv_next_vol st) nqr then (dv_next_vol st, fadd ArithR (dv_next_vol st) dt, 1%nat, true)
       else (nqr, dv_next_vol st, 2%nat, false)) = (time', nv, step, rs') /\
      dv_time st <= time' /\ time' <= dv_next_vol st /\ time' <= nqr /\
      ((step <> 1%nat /\ nv = dv_next_vol st) \/ (step = 1%nat /\ time' = dv_next_vol st /\ nv = dv_next_vol st + dt)) /\
      (step = 2%nat -> time' = nqr)).
    { destruct (Rltb proposed (dv_next_vol st)) eqn:E1; [destruct (Rltb proposed nqr) eqn:E2|]; cbn [andb].
      - apply Rltb_true in E1. apply Rltb_true in E2. do 4 eexists. split; [reflexivity|]. repeat split; try lra.
        + left. split; [destruct (feqb ArithR Lambda (f0 ArithR)); discriminate|reflexivity].
        + destruct (feqb ArithR Lambda (f0 ArithR)); discriminate.
      - apply Rltb_true in E1. apply Rltb_false in E2.
        destruct (Rltb (dv_next_vol st) nqr) eqn:E3.
        + apply Rltb_true in E3. lra.
        + apply Rltb_false in E3. do 4 eexists. split; [reflexivity|]. repeat split; try lra. left. split; [discriminate|reflexivity].
      - apply Rltb_false in E1. destruct (Rltb (dv_next_vol st) nqr) eqn:E3.
        + apply Rltb_true in E3. do 4 eexists. split; [reflexivity|]. repeat split; try lra; try discriminate.
          right. cbn [fadd ArithR]. auto.
        + apply Rltb_false in E3. do 4 eexists. split; [reflexivity|]. repeat split; try lra. left. split; [discriminate|reflexivity]. }
    destruct Hsel as (time' & nv & step & rs' & Hsel & Hge & Hle & Hleq & Hstep & Hst2). rewrite Hsel in H. clear Hsel.
    destruct (record_spec (tnext :: todo) time' x1) as (k & Hrec & Hk & Hfirst & Hnext). rewrite Hrec in H.
    (* the rows recorded in this iteration carry the volume of before the step: growth law after j steps *)
    assert (Hpairs' : Forall2 pair_ok (done ++ firstn k (tnext :: todo)) (dv_vols st ++ map (fun _ => dv_V st) (repeat x1 k))).
    { replace (map (fun _ => dv_V st) (repeat x1 k)) with (repeat (dv_V st) (length (firstn k (tnext :: todo)))).
      2:{ rewrite firstn_length_le by exact Hk. clear. induction k; simpl; congruence. }
      apply Forall2_app_repeat; auto.
      rewrite Forall_forall in *. intros T HT. exists j. split; [exact HV|].
      specialize (Hfirst T HT). split.
      - assert (In T (tnext :: todo)) by (rewrite <- (firstn_skipn k (tnext :: todo)); apply in_or_app; left; exact HT).
        specialize (Hrest T H0). lra.
      - rewrite Hnv in Hle. lra. }
    assert (Hrest' : Forall (fun t => time' <= t) (skipn k (tnext :: todo))) by (apply sorted_skipn_gt; [exact Hsr|exact Hnext]).
    assert (Hts' : ts = (done ++ firstn k (tnext :: todo)) ++ skipn k (tnext :: todo)) by (rewrite <- app_assoc, firstn_skipn; exact Hts).
    (* any step but the volume step: same j *)
    assert (Hsame : nv = dv_next_vol st -> forall x' rs'' pos' q', time' <= q_next_time q' -> 0 <= q_dt q' ->
              dvclock_inv ts (mkDvssa time' (skipn k (tnext :: todo)) x' p1 rs'' pos' (dv_rows st ++ repeat x1 k)
                                      (dv_vols st ++ map (fun _ => dv_V st) (repeat x1 k)) q' nv (dv_V st) false) j).
    { intros -> x' rs'' pos' q' Hq' Hqd'. constructor; cbn [dv_next_vol dv_V dv_time dv_todo dv_vols dv_divided dv_q]; auto; try lra.
      exists (done ++ firstn k (tnext :: todo)), (skipn k (tnext :: todo)). auto. }
    destruct step as [|[|[|step]]].
    - (* a reaction fires *)
      destruct Hstep as [[_ Hnveq]|[Hc _]]; [|discriminate].
      destruct (sample_discrete ArithR props Lambda u pos1) as [choice pos2].
      destruct ((choice <? 0)%Z || (Z.of_nat (length props) <=? choice)%Z); [discriminate|].
      cbv zeta in H.
      destruct (compute_delay ArithR pi2 gfuel (nth (Z.to_nat choice) (sm_delays s) DNone) p1 u pos2) as [[dl pos3]|]; [|discriminate].
      destruct (fltb ArithR (f0 ArithR) dl).
      + destruct (q_add ArithR (fadd ArithR) (dv_q st) (fadd ArithR time' dl) (Z.to_nat choice) (f1 ArithR)) as [q'|] eqn:Eq; [|discriminate].
        inversion H; subst st'. exists j. apply Hsame; auto.
        * unfold q_add in Eq. destruct (nth_error (q_cells (dv_q st)) (Z.to_nat choice)); [|discriminate]. inversion Eq; subst q'. cbn. exact Hleq.
        * unfold q_add in Eq. destruct (nth_error (q_cells (dv_q st)) (Z.to_nat choice)); [|discriminate]. inversion Eq; subst q'. cbn. exact Hqdt.
      + inversion H; subst st'. exists j. apply Hsame; auto.
    - (* the volume step *)
      destruct Hstep as [[Hc _]|(_ & Ht' & Hnveq)]; [contradiction|]. subst time' nv.
      cbv zeta in H. inversion H; subst st'; clear H. exists (S j).
      constructor; cbn [dv_next_vol dv_V dv_time dv_todo dv_vols dv_divided dv_q].
      + rewrite Hnv. rewrite (S_INR (S j)). ring.
      + rewrite HV. cbn [grow vol_step fadd fsub fmul fexp fofZ ArithR]. ring.
      + rewrite Hnv. lra.
      + lra.
      + exact Hleq.
      + exact Hqdt.
      + exists (done ++ firstn k (tnext :: todo)), (skipn k (tnext :: todo)).
        split; [exact Hts'|]. split; [match goal with |- context [if ?b then _ else _] => destruct b end; auto|]. split; [exact Hpairs'|exact Hrest'].
    - (* a queue slot *)
      destruct Hstep as [[_ Hnveq]|[Hc _]]; [|discriminate]. specialize (Hst2 eq_refl).
      destruct (skipn k (tnext :: todo)) as [|r0 rem0] eqn:Esk.
      + inversion H; subst st'. exists j. apply Hsame; auto.
      + inversion H; subst st'. exists j. apply Hsame; auto.
        unfold q_next_time, q_advance. cbn [q_next]. cbn [fadd ArithR]. fold nqr. unfold nqr, q_next_time in *. lra.
    - (* a bare move to a requested time *)
      destruct Hstep as [[_ Hnveq]|[Hc _]]; [|discriminate].
      inversion H; subst st'. exists j. apply Hsame; auto.
  Qed.

  Theorem dvclock_loop ts fuel : StronglySorted Rle ts -> forall st st' j, dvclock_inv ts st j ->
    dvssa_loop ArithR pi2 fuel gfuel s vm u st = Done st' -> exists j', dvclock_inv ts st' j'.
  Proof.
    intros Hs. induction fuel as [|fuel IH]; intros st st' j Hinv H; simpl in H.
    - destruct (dv_todo st); [|discriminate]. inversion H; subst. eauto.
    - destruct (dv_todo st) eqn:Et; [inversion H; subst; eauto|].
      destruct (dvssa_iter ArithR pi2 gfuel s vm u st) as [st1| |w] eqn:E; try discriminate.
      destruct (dvclock_iter ts st st1 j Hs Hinv) as (j1 & Hinv1); [rewrite Et; discriminate|exact E|].
      eapply IH; eauto.
  Qed.

  Theorem delay_volume_run ts fuel pos q st : StronglySorted Rle ts -> Forall (fun t => t0 <= t) ts ->
    t0 <= q_next_time q -> 0 <= q_dt q ->
    dvssa_simulate ArithR pi2 fuel gfuel s vm V0 q ts u pos = Done st ->
    exists done rest, ts = done ++ rest /\ Forall2 pair_ok done (dv_vols st) /\ (rest = [] \/ dv_divided st = true).
  Proof.
    intros Hs H0 Hq Hqd H. unfold dvssa_simulate in H.
    set (st0 := mkDvssa t0 ts (sm_x0 s) (si_params (sm_if s)) true pos [] [] q (fadd ArithR dt t0) V0 false) in *.
    assert (Hinit : dvclock_inv ts st0 0).
    { unfold st0. constructor; cbn [dv_next_vol dv_V dv_time dv_todo dv_vols dv_divided dv_q fadd ArithR grow]; simpl INR; try lra; auto.
      exists [], ts. repeat split; auto. }
    destruct (dvclock_loop ts fuel Hs _ _ _ Hinit H) as (j & Hinv).
    destruct (dk_rec _ _ _ Hinv) as (done & rest & Hts & Htodo & Hpairs & _).
    exists done, rest. repeat split; auto.
    assert (Hend : dv_todo st = []).
    { clear -H. revert H. generalize st0. induction fuel as [|fuel IH]; intros sta H; simpl in H.
      - destruct (dv_todo sta) eqn:E; [inversion H; subst; auto|discriminate].
      - destruct (dv_todo sta) eqn:E; [inversion H; subst; auto|].
        destruct (dvssa_iter ArithR pi2 gfuel s vm u sta) as [st1| |w]; try discriminate. apply (IH st1); exact H. }
    destruct Htodo as [Htodo|[_ Hd]]; [left; rewrite <- Htodo; exact Hend|right; exact Hd].
  Qed.
End DvRun.

Theorem delay_volume_run_closed (s : sim R) g dtime V0 pi2 gfuel (u : nat -> R) : 0 < sm_dt s -> (forall n, 0 < u n <= 1) ->
  (forall x p V t, 0 <= array_sum ArithR (stoch_props ArithR s StochVol x p V t)) ->
  forall ts fuel pos q st, StronglySorted Rle ts -> Forall (fun t => sm_t0 s <= t) ts ->
  sm_t0 s <= q_next_time q -> 0 <= q_dt q ->
  dvssa_simulate ArithR pi2 fuel gfuel s (VTimeThreshold g dtime) V0 q ts u pos = Done st ->
  exists done rest, ts = done ++ rest /\
    Forall2 (fun T v => exists j : nat, v = V0 * exp (g * sm_dt s * INR j) /\
                         sm_t0 s + INR j * sm_dt s <= T <= sm_t0 s + INR (S j) * sm_dt s) done (dv_vols st) /\
    (rest = [] \/ dv_divided st = true).
Proof.
  intros Hdt Hu Hp ts fuel pos q st Hs H0 Hq Hqd H.
  destruct (delay_volume_run s g dtime V0 pi2 gfuel u Hdt Hu Hp ts fuel pos q st Hs H0 Hq Hqd H) as (done & rest & E & Hf & Hr).
  exists done, rest. split; [exact E|]. split; [|exact Hr].
  eapply Forall2_imp; [|exact Hf]. intros T v (j & Hv & Ht). exists j. split; [rewrite Hv; apply growth_law|exact Ht].
Qed.
