(* C06: who can fire.  Over the reals: the selected reaction has a positive propensity; in safe
   mode that means it is fully supplied; for mass action it means every reactant is present in
   its multiplicity. *)
From Coq Require Import ZArith Reals List Bool Lia Lra Arith.
From BS Require Import Base.Arith Model.Term Model.Propensity Model.Interface Model.Random Model.SSA
                       Spec.RateLaws Proofs.RateProofs Proofs.InterfaceProofs Proofs.BuilderProofs Proofs.SelectProofs.
Import ListNotations.
Local Open Scope R_scope.

Lemma clip_nonneg v : 0 <= clip ArithR v.
Proof. unfold clip. simpl. unfold Rltb. destruct (Rlt_dec v 0); lra. Qed.

Lemma compute_safe_nonneg (si : simif R) m x V t : (m = Stoch \/ m = StochVol) ->
  Forall (fun v => 0 <= v) (compute_safe ArithR si m x V t).
Proof.
  intros Hm. unfold compute_safe. apply Forall_forall. intros v Hin. apply in_map_iff in Hin.
  destruct Hin as ([r pr] & <- & _). destruct Hm as [-> | ->]; cbv beta zeta; cbn [fst snd];
    (destruct (short ArithR x (need_row si r)); [simpl (f0 ArithR); lra|apply clip_nonneg]).
Qed.

(* safe mode: whatever the rate law, the reaction chosen by sample_discrete is not under-supplied *)
Theorem safe_fired_not_short (si : simif R) m x V t u0 :
  (m = Stoch \/ m = StochVol) ->
  let props := compute_safe ArithR si m x V t in
  0 < sumR props -> 0 < u0 <= 1 ->
  exists k : nat, sd_scan ArithR props (u0 * sumR props) 0 0 = Z.of_nat k /\
                  (k < length (si_props si))%nat /\ short ArithR x (need_row si k) = false.
Proof.
  intros Hm props Hpos Hu.
  destruct (select_interval props u0 (compute_safe_nonneg si m x V t Hm) Hpos Hu) as (k & Ej & Hk & Hak & _).
  exists k. split; [exact Ej|].
  assert (Hlen : length props = length (si_props si)).
  { unfold props, compute_safe. rewrite map_length, combine_length, seq_length. lia. }
  split; [lia|].
  destruct (short ArithR x (need_row si k)) eqn:Es; [|reflexivity]. exfalso.
  assert (Hk' : (k < length (si_props si))%nat) by lia.
  pose proof (safe_nth ArithR si m x V t k 0 (PConst 0%nat) Hk') as Hn.
  fold props in Hn. destruct Hm as [-> | ->]; cbv zeta in Hn; rewrite Es in Hn; simpl in Hn; lra.
Qed.

(* mass action: a positive stochastic propensity means every reactant is present in its multiplicity *)
Lemma prodl_pos_factors l : prodl l <> 0 -> forall v, In v l -> v <> 0.
Proof.
  induction l as [|a l IH]; intros H v Hv; [destruct Hv|]. simpl in H. destruct Hv as [->|Hin].
  - intros ->. apply H. lra.
  - apply IH; auto. intros E. apply H. rewrite E. lra.
Qed.

Theorem massaction_positive_means_supplied k rs x (cnt : nat -> nat) :
  (forall s, rget x s = INR (cnt s)) -> ma_stoch k rs x <> 0 ->
  forall s, In s rs -> (count_occ Nat.eq_dec rs s <= cnt s)%nat.
Proof.
  intros Hint Hne s Hin. unfold ma_stoch in Hne.
  assert (Hp : prodl (map (fun s0 => ff (rget x s0) (count_occ Nat.eq_dec rs s0)) (nodup Nat.eq_dec rs)) <> 0).
  { intros E. apply Hne. rewrite E. lra. }
  destruct (le_lt_dec (count_occ Nat.eq_dec rs s) (cnt s)) as [Hle|Hlt]; auto. exfalso.
  apply (prodl_pos_factors _ Hp (ff (rget x s) (count_occ Nat.eq_dec rs s))).
  - apply in_map_iff. exists s. split; auto. apply nodup_In. exact Hin.
  - rewrite Hint. apply ff_zero. exact Hlt.
Qed.
