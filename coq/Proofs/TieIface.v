(* Tie between the four per-reaction loops of the plain interface REGENERATED from bioscrape/simulator.pyx (Gen/IfaceGen.v,
   tools/tr_iface.py) and the hand model's compute_plain (Model/Interface.v), for any arithmetic: with the oracle "evaluator of the
   r-th propensity object" instantiated by the model's prop_eval of the r-th propensity, each loop fills the caller's array with
   exactly compute_plain's list (whatever the array held before). *)
From Coq Require Import ZArith List Bool Arith Lia.
From BS Require Import Base.Arith Base.CyPrelude Model.Term Model.Propensity Model.Interface Gen.IfaceGen Proofs.TieQueue.
Import ListNotations.

Section Tie.
  Context {F : Type} (A : Arith F).

  Definition iface_obj (si : simif F) : @ModelCSimInterface_obj F :=
    {| ModelCSimInterface_c_param_values := si_params si; ModelCSimInterface_num_reactions := length (si_props si) |}.
  Definition nthp (si : simif F) (r : nat) : prop F := nth r (si_props si) (PConst 0%nat).

  Lemma loop_is_map (f : nat -> F) (props : list (prop F)) (g : prop F -> F) (dest : list F) :
    length dest = length props -> (forall r, f r = g (nth r props (PConst 0%nat))) ->
    for_range (length props) (fun rxn d => upd d rxn (f rxn)) dest = map g props.
  Proof.
    intros Hl Hf. unfold for_range.
    pose proof (fill_loop f (length props) [] dest Hl) as E. cbn [length app] in E. rewrite E.
    rewrite (map_nth_seq g (PConst 0%nat) props). apply map_ext. intro r. apply Hf.
  Qed.

  Lemma tie_iface_plain (si : simif F) (x dest : list F) (V t : F) :
    length dest = length (si_props si) ->
    gen_ModelCSimInterface_compute_propensities (fun r x p t => prop_eval A (nthp si r) Det x p V t) A (iface_obj si) x dest t
      = compute_plain A si Det x V t /\
    gen_ModelCSimInterface_compute_volume_propensities (fun r x p V t => prop_eval A (nthp si r) Vol x p V t) A (iface_obj si) x dest V t
      = compute_plain A si Vol x V t /\
    gen_ModelCSimInterface_compute_stochastic_propensities (fun r x p t => prop_eval A (nthp si r) Stoch x p V t) A (iface_obj si) x dest t
      = compute_plain A si Stoch x V t /\
    gen_ModelCSimInterface_compute_stochastic_volume_propensities (fun r x p V t => prop_eval A (nthp si r) StochVol x p V t) A (iface_obj si) x dest V t
      = compute_plain A si StochVol x V t.
  Proof.
    intro Hl.
    unfold gen_ModelCSimInterface_compute_propensities, gen_ModelCSimInterface_compute_volume_propensities,
           gen_ModelCSimInterface_compute_stochastic_propensities, gen_ModelCSimInterface_compute_stochastic_volume_propensities,
           compute_plain, iface_obj, nthp.
    cbn [ModelCSimInterface_num_reactions ModelCSimInterface_c_param_values].
    repeat split; apply loop_is_map; auto.
  Qed.
End Tie.
