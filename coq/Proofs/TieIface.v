(* Tie between the four per-reaction loops of the plain interface REGENERATED from bioscrape/simulator.pyx (Gen/IfaceGen.v,
   tools/tr_iface.py) and the hand model's compute_plain (Model/Interface.v), for any arithmetic: with the oracle "evaluator of the
   r-th propensity object" instantiated by the model's prop_eval of the r-th propensity, each loop fills the caller's array with
   exactly compute_plain's list (whatever the array held before). *)
From Coq Require Import ZArith List Bool Arith Lia String.
From BS Require Import Base.Arith Base.CyPrelude Model.Term Model.Propensity Model.Interface Gen.IfaceGen Proofs.TieQueue.
Import ListNotations.

Section Tie.
  Context {F : Type} (A : Arith F).

  Definition iface_obj (si : simif F) : @ModelCSimInterface_obj F :=
    {| ModelCSimInterface_c_param_values := si_params si; ModelCSimInterface_num_reactions := List.length (si_props si) |}.
  Definition nthp (si : simif F) (r : nat) : prop F := nth r (si_props si) (PConst 0%nat).

  Lemma loop_is_map (f : nat -> F) (props : list (prop F)) (g : prop F -> F) (dest : list F) :
    List.length dest = List.length props -> (forall r, f r = g (nth r props (PConst 0%nat))) ->
    for_range (List.length props) (fun rxn d => upd d rxn (f rxn)) dest = map g props.
  Proof.
    intros Hl Hf. unfold for_range.
    pose proof (fill_loop f (List.length props) [] dest Hl) as E. cbn [List.length app] in E. rewrite E.
    rewrite (map_nth_seq g (PConst 0%nat) props). apply map_ext. intro r. apply Hf.
  Qed.

  (* the oracle, by method NAME: the model's evaluator of the r-th propensity in the mode that method stands for *)
  Definition mode_of_method (name : string) : option mode :=
    if String.eqb name "get_propensity" then Some Det
    else if String.eqb name "get_volume_propensity" then Some Vol
    else if String.eqb name "get_stochastic_propensity" then Some Stoch
    else if String.eqb name "get_stochastic_volume_propensity" then Some StochVol else None.
  Definition oracle3 (si : simif F) (V : F) (name : string) (r : nat) (x p : list F) (t : F) : F :=
    match mode_of_method name with Some m => prop_eval A (nthp si r) m x p V t | None => f0 A end.
  Definition oracle4 (si : simif F) (name : string) (r : nat) (x p : list F) (V t : F) : F :=
    match mode_of_method name with Some m => prop_eval A (nthp si r) m x p V t | None => f0 A end.

  Lemma tie_iface_plain (si : simif F) (x dest : list F) (V t : F) :
    List.length dest = List.length (si_props si) ->
    gen_ModelCSimInterface_compute_propensities (oracle3 si V) A (iface_obj si) x dest t = compute_plain A si Det x V t /\
    gen_ModelCSimInterface_compute_volume_propensities (oracle4 si) A (iface_obj si) x dest V t = compute_plain A si Vol x V t /\
    gen_ModelCSimInterface_compute_stochastic_propensities (oracle3 si V) A (iface_obj si) x dest t = compute_plain A si Stoch x V t /\
    gen_ModelCSimInterface_compute_stochastic_volume_propensities (oracle4 si) A (iface_obj si) x dest V t = compute_plain A si StochVol x V t.
  Proof.
    intro Hl.
    unfold gen_ModelCSimInterface_compute_propensities, gen_ModelCSimInterface_compute_volume_propensities,
           gen_ModelCSimInterface_compute_stochastic_propensities, gen_ModelCSimInterface_compute_stochastic_volume_propensities,
           compute_plain, iface_obj.
    cbn [ModelCSimInterface_num_reactions ModelCSimInterface_c_param_values].
    repeat split; apply loop_is_map; try exact Hl; intro r; reflexivity.
  Qed.
End Tie.
