(* C09: whole-run counting for the SSA loop over the reals: on a strictly increasing grid, the rules with
   frequency dt (which fire exactly in the iterations that start with rule_step set) are applied exactly once
   between consecutive reported rows, before the row is recorded -- for every stream, network and fuel,
   provided no firing time coincides exactly with a grid time (a null event). *)
From Coq Require Import ZArith Reals List Bool Lia Lra Arith Sorted.
From BS Require Import Base.Arith Model.Term Model.Propensity Model.Interface Model.Rules Model.Random Model.Queue Model.SSA
  Proofs.SSAProofs Proofs.VolumeRun.
Import ListNotations.
Local Open Scope R_scope.

Section Count.
  Variable s : sim R.
  Variable u : nat -> R.
  Notation dt := (sm_dt s).
  Hypothesis Hu : forall n, 0 < u n <= 1.
  Hypothesis Hprops : forall x p V t, 0 <= array_sum ArithR (stoch_props ArithR s Stoch x p V t).

  (* n iterations *)
  Fixpoint ssa_run (n : nat) (st : ssa_state (F:=R)) : outcome (ssa_state (F:=R)) :=
    match n with
    | O => Done st
    | S k => match ssa_iter ArithR s u st with Done st' => ssa_run k st' | OutOfFuel => OutOfFuel | Fault w => Fault w end
    end.
  Definition live (st : ssa_state (F:=R)) : bool := match ss_todo st with [] => false | _ => true end.
  (* iterations among the first n that start with rule_step set (= applications of every dt rule) *)
  Fixpoint apps (n : nat) (st : ssa_state (F:=R)) : nat :=
    match n with
    | O => 0%nat
    | S k => ((if ss_rule_step st && live st then 1 else 0) +
              match ssa_iter ArithR s u st with Done st' => apps k st' | _ => 0 end)%nat
    end.

  Definition Lambda_of (st : ssa_state (F:=R)) : R :=
    let '(x1, p1) := apply_rules ArithR (sm_rules s) None (ss_x st, ss_p st) (ss_time st) dt (ss_rule_step st) in
    array_sum ArithR (stoch_props ArithR s Stoch x1 p1 1 (ss_time st)).
  Definition proposed_of (st : ssa_state (F:=R)) : R :=
    ss_time st + fst (exponential_rv ArithR (Lambda_of st) u (ss_pos st)).
  Definition notie (st : ssa_state (F:=R)) : Prop :=
    match ss_todo st with [] => True | tnext :: _ => Lambda_of st <> 0 -> proposed_of st <> tnext end.
  Fixpoint notie_run (n : nat) (st : ssa_state (F:=R)) : Prop :=
    match n with
    | O => True
    | S k => notie st /\ match ssa_iter ArithR s u st with Done st' => notie_run k st' | _ => True end
    end.

  Lemma tau_nonneg' Lambda pos : 0 <= Lambda -> Lambda <> 0 -> 0 <= fst (exponential_rv ArithR Lambda u pos).
  Proof.
    intros H0 Hne. apply (tau_nonneg u Hu); auto.
    unfold Reqb. destruct (Req_EM_T Lambda 0); [contradiction|reflexivity].
  Qed.

  (* one iteration on a strictly increasing remaining grid that is not behind the clock *)
  Lemma ssa_iter_cases st st' tnext rest :
    ss_todo st = tnext :: rest -> ss_time st <= tnext -> (forall t r, rest = t :: r -> tnext < t) -> notie st ->
    ssa_iter ArithR s u st = Done st' ->
    let x1 := fst (apply_rules ArithR (sm_rules s) None (ss_x st, ss_p st) (ss_time st) dt (ss_rule_step st)) in
    (ss_time st' = tnext /\ ss_rule_step st' = true /\ ss_rows st' = ss_rows st ++ [x1] /\ ss_todo st' = rest) \/
    (ss_time st' < tnext /\ ss_rule_step st' = false /\ ss_rows st' = ss_rows st /\ ss_todo st' = tnext :: rest).
  Proof.
    intros Et Hle Hnext Hnt H. unfold notie in Hnt. rewrite Et in Hnt. unfold proposed_of, Lambda_of in Hnt.
    unfold ssa_iter in H. rewrite Et in H. cbv zeta.
    destruct (apply_rules ArithR (sm_rules s) None (ss_x st, ss_p st) (ss_time st) dt (ss_rule_step st)) as [x1 p1] eqn:Er.
    cbn [fst]. change (f1 ArithR) with 1 in H.
    set (props := stoch_props ArithR s Stoch x1 p1 1 (ss_time st)) in *.
    set (Lambda := array_sum ArithR props) in *.
    assert (HL : 0 <= Lambda) by apply Hprops.
    assert (Hrec1 : record ArithR (tnext :: rest) tnext x1 = ([x1], rest)).
    { cbn [record]. change (fleb ArithR tnext tnext) with (Rleb tnext tnext).
      replace (Rleb tnext tnext) with true by (symmetry; apply Rleb_true; lra).
      destruct rest as [|t r]; [reflexivity|]. cbn [record]. change (fleb ArithR t tnext) with (Rleb t tnext).
      replace (Rleb t tnext) with false; [reflexivity|]. symmetry. apply Rleb_false. apply (Hnext t r eq_refl). }
    change (feqb ArithR Lambda (f0 ArithR)) with (Reqb Lambda 0) in H.
    destruct (Reqb Lambda 0) eqn:E0.
    - (* nothing can fire: stop at the grid point *)
      change (fltb ArithR tnext tnext) with (Rltb tnext tnext) in H.
      replace (Rltb tnext tnext) with false in H by (symmetry; apply Rltb_false; lra).
      rewrite Hrec1 in H. rewrite andb_false_r in H. inversion H; subst st'. left. cbn. auto.
    - assert (Hne : Lambda <> 0). { intros E. rewrite E in E0. unfold Reqb in E0. destruct (Req_EM_T 0 0); [discriminate|lra]. }
      pose proof (tau_nonneg' Lambda (ss_pos st) HL Hne) as Ht. specialize (Hnt Hne).
      destruct (exponential_rv ArithR Lambda u (ss_pos st)) as [tau pos'] eqn:Ee. cbn [fst] in Ht, Hnt.
      change (fadd ArithR (ss_time st) tau) with (ss_time st + tau) in H.
      change (fltb ArithR tnext (ss_time st + tau)) with (Rltb tnext (ss_time st + tau)) in H.
      destruct (Rltb tnext (ss_time st + tau)) eqn:Eq.
      + rewrite Hrec1 in H. rewrite andb_false_r in H. inversion H; subst st'. left. cbn. auto.
      + apply Rltb_false in Eq. assert (Hlt : ss_time st + tau < tnext) by lra.
        assert (Hrec0 : record ArithR (tnext :: rest) (ss_time st + tau) x1 = ([], tnext :: rest)).
        { cbn [record]. change (fleb ArithR tnext (ss_time st + tau)) with (Rleb tnext (ss_time st + tau)).
          replace (Rleb tnext (ss_time st + tau)) with false; [reflexivity|]. symmetry. apply Rleb_false. exact Hlt. }
        rewrite Hrec0 in H.
        change (fltb ArithR (f0 ArithR) Lambda) with (Rltb 0 Lambda) in H.
        replace (Rltb 0 Lambda) with true in H by (symmetry; apply Rltb_true; lra). cbn [andb] in H.
        destruct (sample_discrete ArithR props Lambda u pos') as [choice pos2].
        destruct ((choice <? 0)%Z || (Z.of_nat (length props) <=? choice)%Z); [discriminate|].
        inversion H; subst st'. right. cbn. rewrite app_nil_r. auto.
  Qed.

  (* the counting invariant: c applications so far *)
  Record count_inv (N : nat) (st : ssa_state (F:=R)) (c : nat) : Prop := {
    cn_count : c = (length (ss_rows st) + (if ss_rule_step st then 0 else 1))%nat;
    cn_total : (length (ss_rows st) + length (ss_todo st))%nat = N;
    cn_clock : forall t r, ss_todo st = t :: r -> ss_time st <= t;
    cn_sorted : StronglySorted Rlt (ss_todo st)
  }.

  Lemma count_step N st st' c : count_inv N st c -> notie st -> ssa_iter ArithR s u st = Done st' ->
    count_inv N st' (c + (if ss_rule_step st && live st then 1 else 0)).
  Proof.
    intros [Hc Ht Hclk Hs] Hnt H. unfold live.
    destruct (ss_todo st) as [|tnext rest] eqn:Et.
    - unfold ssa_iter in H. rewrite Et in H. inversion H; subst st'. rewrite andb_false_r, Nat.add_0_r.
      constructor; [exact Hc | rewrite Et; exact Ht | intros t r E; rewrite Et in E; discriminate | rewrite Et; exact Hs].
    - rewrite andb_true_r.
      assert (Hnext : forall t r, rest = t :: r -> tnext < t).
      { intros t r ->. inversion Hs as [|? ? ? Hall]; subst. inversion Hall; auto. }
      destruct (ssa_iter_cases st st' tnext rest Et (Hclk _ _ eq_refl) Hnext Hnt H) as [(T & Rs & Rw & Td)|(T & Rs & Rw & Td)].
      + constructor.
        * rewrite Rs, Rw, app_length. cbn [length]. rewrite Hc. destruct (ss_rule_step st); lia.
        * rewrite Rw, Td, app_length. cbn [length] in *. lia.
        * intros t r E. rewrite Td in E. rewrite T. left. apply (Hnext t r E).
        * rewrite Td. inversion Hs; auto.
      + constructor.
        * rewrite Rs, Rw, Hc. destruct (ss_rule_step st); lia.
        * rewrite Rw, Td. exact Ht.
        * intros t r E. rewrite Td in E. inversion E; subst. lra.
        * rewrite Td. exact Hs.
  Qed.

  Theorem count_prefix N n : forall st st' c, count_inv N st c -> notie_run n st -> ssa_run n st = Done st' ->
    count_inv N st' (c + apps n st).
  Proof.
    induction n as [|n IH]; intros st st' c Hinv Hnt H; cbn [ssa_run apps notie_run] in *.
    - inversion H; subst. rewrite Nat.add_0_r. exact Hinv.
    - destruct Hnt as [Hnt0 Hnt]. destruct (ssa_iter ArithR s u st) as [st1| |w] eqn:E; try discriminate.
      rewrite Nat.add_assoc. apply IH; auto. apply count_step; auto.
  Qed.

  Lemma loop_is_run fuel : forall st st', ssa_loop ArithR fuel s u st = Done st' ->
    exists n, ssa_run n st = Done st' /\ ss_todo st' = [] /\ (n <= fuel)%nat.
  Proof.
    induction fuel as [|fuel IH]; intros st st' H; simpl in H.
    - destruct (ss_todo st) eqn:E; [|discriminate]. inversion H; subst. exists 0%nat. simpl. repeat split; auto.
    - destruct (ss_todo st) eqn:E; [inversion H; subst; exists 0%nat; simpl; repeat split; auto; lia|].
      destruct (ssa_iter ArithR s u st) as [st1| |w] eqn:Ei; try discriminate.
      destruct (IH st1 st' H) as (n & Hr & Ht & Hn). exists (S n). cbn [ssa_run]. rewrite Ei. repeat split; auto. lia.
  Qed.

  (* whole run: as many applications as rows as requested times; and at EVERY iteration boundary the number of
     applications so far is the number of rows so far, plus one exactly when an application has already been made
     for the row to come (rule_step cleared) *)
  Theorem dt_rules_once_per_row ts fuel pos st : StronglySorted Rlt ts -> Forall (fun t => sm_t0 s <= t) ts ->
    ssa_simulate ArithR fuel s ts u pos = Done st ->
    exists n, ssa_run n (ssa_init s ts pos) = Done st /\
      (notie_run n (ssa_init s ts pos) ->
         apps n (ssa_init s ts pos) = length ts /\ length (ss_rows st) = length ts /\
         forall m stm, (m <= n)%nat -> ssa_run m (ssa_init s ts pos) = Done stm ->
           apps m (ssa_init s ts pos) = (length (ss_rows stm) + (if ss_rule_step stm then 0 else 1))%nat).
  Proof.
    intros Hs H0 H. unfold ssa_simulate in H.
    destruct ts as [|t0' ts'].
    { (* empty grid: nothing runs *)
      exists 0%nat. assert (st = ssa_init s [] pos).
      { destruct fuel; simpl in H; inversion H; reflexivity. }
      subst st. split; [reflexivity|]. intros _. split; [reflexivity|]. split; [reflexivity|].
      intros m stm Hm Hrm. assert (m = 0)%nat by lia. subst m. cbn in Hrm. inversion Hrm; subst. reflexivity. }
    set (ts := t0' :: ts') in *.
    destruct (loop_is_run fuel _ _ H) as (n & Hr & Ht & _).
    exists n. split; [exact Hr|]. intros Hnt.
    assert (Hinit : count_inv (length ts) (ssa_init s ts pos) 0).
    { unfold ssa_init. constructor; cbn; auto. intros t r E. inversion E; subst. inversion H0; auto. }
    assert (Hpre : forall m stm, (m <= n)%nat -> ssa_run m (ssa_init s ts pos) = Done stm ->
                    count_inv (length ts) stm (apps m (ssa_init s ts pos))).
    { intros m stm Hm Hrm. apply (count_prefix (length ts) m _ _ 0%nat Hinit); auto.
      clear -Hnt Hm Hr. revert n Hm Hnt Hr. generalize (ssa_init s ts pos).
      induction m as [|m IH]; intros st0 n Hm Hnt Hr; [exact I|].
      destruct n as [|n]; [lia|]. cbn [notie_run ssa_run] in *. destruct Hnt as [H1 H2]. split; auto.
      destruct (ssa_iter ArithR s u st0) as [st1| |w]; auto. apply (IH st1 n); auto. lia. }
    pose proof (Hpre n st (le_n n) Hr) as [Hc Htot _ _].
    rewrite Ht in Htot. cbn [length] in Htot. rewrite Nat.add_0_r in Htot.
    assert (Hrs : ss_rule_step st = true).
    { assert (G : forall k st0 c, count_inv (length ts) st0 c -> notie_run k st0 -> ssa_run k st0 = Done st ->
                                ss_todo st0 <> [] -> ss_rule_step st = true).
      { induction k as [|k IHk]; intros st0 c Hi Hn0 Hr0 Hne0; cbn [ssa_run notie_run] in *.
        - inversion Hr0; subst. contradiction.
        - destruct Hn0 as [Hn1 Hn2]. destruct (ssa_iter ArithR s u st0) as [st1| |w] eqn:E; try discriminate.
          pose proof (count_step _ _ _ _ Hi Hn1 E) as Hi1.
          destruct (ss_todo st1) eqn:E1.
          + assert (st = st1).
            { clear -Hr0 E1. revert st1 Hr0 E1. induction k as [|k IHk]; intros st1 Hr0 E1; cbn in Hr0; [inversion Hr0; auto|].
              unfold ssa_iter in Hr0. rewrite E1 in Hr0. apply IHk; auto. }
            subst st1. destruct (ss_todo st0) as [|tn rs0] eqn:E0; [contradiction|].
            destruct Hi as [_ _ Hclk Hso]. rewrite E0 in Hso.
            assert (Hnext : forall t r, rs0 = t :: r -> tn < t).
            { intros t r ->. inversion Hso as [|? ? ? Hall]; subst. inversion Hall; auto. }
            destruct (ssa_iter_cases st0 st tn rs0 E0 (Hclk _ _ E0) Hnext Hn1 E) as [(_ & Rs & _)|(_ & _ & _ & Td)]; auto.
            rewrite E1 in Td. discriminate.
          + eapply IHk; eauto. rewrite E1. discriminate. }
      apply (G n (ssa_init s ts pos) 0%nat Hinit Hnt Hr). unfold ssa_init. cbn. discriminate. }
    split; [|split; [exact Htot|]].
    - rewrite Hc, Htot, Hrs. lia.
    - intros m stm Hm Hrm. apply (cn_count _ _ _ (Hpre m stm Hm Hrm)).
  Qed.
End Count.
