From Coq Require Import ZArith Reals List Bool Lia Lra Arith.
From BS Require Import Base.Arith Model.SbmlImport.
Import ListNotations.

(* initial value precedence over R: non-zero finite amount, else finite concentration, else amount or 0 *)
Theorem initial_value_spec (amount conc : option R) :
  initial_value ArithR amount conc =
    match amount, conc with
    | Some a, Some c => if Req_EM_T a 0 then c else a
    | Some a, None => a
    | None, Some c => c
    | None, None => 0%R
    end.
Proof.
  unfold initial_value. destruct amount as [a|], conc as [c|]; simpl; auto.
  - unfold Reqb. destruct (Req_EM_T a 0); reflexivity.
  - unfold Reqb. destruct (Req_EM_T 0 0); [reflexivity|contradiction].
Qed.

(* integer stoichiometries become that many copies: the multiplicity of a species in the expanded
   list is the sum of its stoichiometries *)
Fixpoint total (side : list (nat * nat)) (s : nat) : nat :=
  match side with [] => 0 | (s', n) :: r => (if Nat.eqb s' s then n else 0) + total r s end.
Theorem expand_counts side s : count_occ Nat.eq_dec (expand side) s = total side s.
Proof.
  unfold expand. induction side as [|[s' n] side IH]; [reflexivity|].
  cbn [flat_map total fst snd]. rewrite count_occ_app, IH. f_equal.
  destruct (Nat.eqb_spec s' s) as [->|Hne].
  - induction n; simpl; auto. destruct (Nat.eq_dec s s); [lia|contradiction].
  - induction n; simpl; auto. destruct (Nat.eq_dec s' s); [contradiction|auto].
Qed.

(* the rule loop: every assignment rule on a known variable becomes exactly one assignment, every
   rate rule exactly one reaction for its own variable and formula, in document order; nothing else *)
Definition assigns_of (rs : list srule) : list emitted :=
  flat_map (fun r => if sr_var_known r then match sr_kind r with RkAssignment => [EmitAssign (sr_var r) (sr_formula r)] | _ => [] end else []) rs.
Definition rates_of (rs : list srule) : list emitted :=
  flat_map (fun r => if sr_var_known r then match sr_kind r with RkRate => [EmitRateReaction (sr_var r) (sr_formula r)] | _ => [] end else []) rs.

Theorem import_rules_spec rs : import_rules rs = (assigns_of rs, rates_of rs).
Proof.
  unfold import_rules.
  assert (G : forall l a b, fold_left (fun acc r => let '(x, y) := import_rule r in (fst acc ++ x, snd acc ++ y)) l (a, b)
              = (a ++ assigns_of l, b ++ rates_of l)).
  { induction l as [|r l IH]; intros a b; simpl; [rewrite !app_nil_r; reflexivity|].
    destruct (import_rule r) as [x y] eqn:E. simpl. rewrite IH. unfold import_rule in E.
    destruct (sr_var_known r); simpl in *.
    - destruct (sr_kind r); inversion E; subst; simpl; rewrite ?app_nil_r, <- ?app_assoc; reflexivity.
    - inversion E; subst. simpl. rewrite !app_nil_r. reflexivity. }
  apply (G rs [] []).
Qed.
