From Coq Require Import ZArith Reals List Bool Lra Lia Arith.
From BS Require Import Base.Arith Model.Sensitivity Proofs.BuilderProofs.
Import ListNotations.
Local Open Scope R_scope.

Definition poly5 (a0 a1 a2 a3 a4 a5 y : R) : R := a0 + a1*y + a2*y^2 + a3*y^3 + a4*y^4 + a5*y^5.
Definition dpoly5 (a1 a2 a3 a4 a5 y : R) : R := a1 + 2*a2*y + 3*a3*y^2 + 4*a4*y^3 + 5*a5*y^4.

Ltac unf := unfold stencil, lit, poly5, dpoly5; simpl (fofZ ArithR _);
  change (fadd ArithR) with Rplus; change (fsub ArithR) with Rminus; change (fmul ArithR) with Rmult;
  change (fdiv ArithR) with Rdiv; change (fneg ArithR) with Ropp.

(* every coefficient of each stencil is pinned: exact on the polynomials of its order, with the
   explicit leading error on the next degree *)
Theorem fourth_order_exact a0 a1 a2 a3 a4 a5 x h : h <> 0 ->
  let p := poly5 a0 a1 a2 a3 a4 a5 in
  stencil ArithR FourthOrder (p (x + 2*h)) (p (x + h)) (p x) (p (x - h)) (p (x - 2*h)) h
  = dpoly5 a1 a2 a3 a4 a5 x - 4 * a5 * h^4.
Proof. intros H p. unfold p. unf. field. lra. Qed.

Theorem central_exact a0 a1 a2 a3 x h : h <> 0 ->
  let p := poly5 a0 a1 a2 a3 0 0 in
  stencil ArithR Central 0 (p (x + h)) (p x) (p (x - h)) 0 h = dpoly5 a1 a2 a3 0 0 x + a3 * h^2.
Proof. intros H p. unfold p. unf. field. lra. Qed.

Theorem forward_exact a0 a1 a2 x h : h <> 0 ->
  let p := poly5 a0 a1 a2 0 0 0 in
  stencil ArithR Forward 0 (p (x + h)) (p x) 0 0 h = dpoly5 a1 a2 0 0 0 x + a2 * h.
Proof. intros H p. unfold p. unf. field. lra. Qed.

Theorem backward_exact a0 a1 a2 x h : h <> 0 ->
  let p := poly5 a0 a1 a2 0 0 0 in
  stencil ArithR Backward 0 0 (p x) (p (x - h)) 0 h = dpoly5 a1 a2 0 0 0 x - a2 * h.
Proof. intros H p. unfold p. unf. field. lra. Qed.

Section Orient.
  Context {F : Type} (A : Arith F).

  (* rows are equations, columns are states *)
  Theorem J_orientation (f : list F -> list F) x h sch i j : (i < length x)%nat -> (j < length x)%nat ->
    nth j (nth i (compute_J A f x h sch) []) (f0 A) = J_entry A f x h sch i j.
  Proof.
    intros Hi Hj. unfold compute_J.
    rewrite (nth_map' _ _ i [] 0%nat) by (rewrite seq_length; auto).
    rewrite (nth_map' _ _ j (f0 A) 0%nat) by (rewrite seq_length; auto).
    rewrite !seq_nth by auto. reflexivity.
  Qed.

  Lemma Zj_fold g orig x k h sch : forall l acc,
    fold_left (fun acc i => let '(z, p) := Z_entry A g orig x k h sch i in (fst acc ++ [z], p)) l (acc, orig)
    = (acc ++ map (fun i => fst (Z_entry A g orig x k h sch i)) l, orig).
  Proof.
    induction l as [|i l IH]; intros acc; cbn [fold_left map]; [rewrite app_nil_r; auto|].
    destruct (Z_entry A g orig x k h sch i) as [z p] eqn:E. cbn [fst].
    assert (p = orig) by (unfold Z_entry in E; destruct sch; inversion E; reflexivity). subst p.
    rewrite IH, <- app_assoc. reflexivity.
  Qed.

  (* computing Z leaves the model's parameters as they were *)
  Theorem Zj_restores_parameters g orig x k h sch : snd (compute_Zj A g orig x k h sch) = orig.
  Proof. unfold compute_Zj. rewrite Zj_fold. reflexivity. Qed.

  Theorem Zj_entries g orig x k h sch :
    fst (compute_Zj A g orig x k h sch) = map (fun i => fst (Z_entry A g orig x k h sch i)) (seq 0 (length x)).
  Proof. unfold compute_Zj. rewrite Zj_fold. reflexivity. Qed.
End Orient.

(* affine right-hand sides: every scheme returns the matrix entry exactly *)
Theorem J_affine_exact (a b c h : R) sch : h <> 0 ->
  (* the i-th component along e_j is delta |-> c + a*(xj + delta) + b *)
  let g d := c + a * d + b in
  forall xj, stencil ArithR sch (g (xj + 2*h)) (g (xj + h)) (g xj) (g (xj + - h)) (g (xj + - (2*h))) h = a.
Proof. intros H g xj. unfold g. destruct sch; unf; field; lra. Qed.
