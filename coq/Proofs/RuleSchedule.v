(* C09, scheduled rules over whole runs of the SSA loop (reals): the loop STOPS at every requested time -- each row is recorded in an
   iteration that ends with the clock exactly at that row's time and rule_step set -- so the next iteration starts with the clock
   equal to that time, which is exactly when a rule scheduled for it fires (C09_scheduled_rule_fires_at); rows recorded before are
   never touched again (rows only grow).  The volume-aware loops do not have this property (known finding F24). *)
From Coq Require Import ZArith Reals List Bool Lia Lra Arith Sorted.
From BS Require Import Base.Arith Model.Term Model.Propensity Model.Interface Model.Rules Model.Random Model.Queue Model.SSA
  Proofs.SSAProofs Proofs.VolumeRun Proofs.RuleCount.
Import ListNotations.
Local Open Scope R_scope.

Section Schedule.
  Variable s : sim R.
  Variable u : nat -> R.
  Hypothesis Hu : forall n, 0 < u n <= 1.
  Hypothesis Hprops : forall x p V t, 0 <= array_sum ArithR (stoch_props ArithR s Stoch x p V t).

  Record stop_inv (ts : list R) (st : ssa_state (F:=R)) : Prop := {
    sp_todo : ss_todo st = skipn (length (ss_rows st)) ts;
    sp_at : ss_rule_step st = true -> ss_rows st <> [] -> ss_time st = nth (length (ss_rows st) - 1) ts 0
  }.

  Lemma skipn_cons_nth (ts : list R) k t rest : skipn k ts = t :: rest -> nth k ts 0 = t /\ skipn (S k) ts = rest.
  Proof.
    revert k. induction ts as [|a ts IH]; intros k H; [destruct k; discriminate|].
    destruct k as [|k]; [inversion H; subst; split; reflexivity|]. cbn [skipn] in H. destruct (IH k H) as [H1 H2]. split; [exact H1|exact H2].
  Qed.

  Lemma stop_step ts N st st' c : count_inv N st c -> stop_inv ts st -> notie s u st -> ssa_iter ArithR s u st = Done st' -> stop_inv ts st'.
  Proof.
    intros [Hc Ht Hclk Hs] [Htd Hat] Hnt H.
    destruct (ss_todo st) as [|tnext rest] eqn:Et.
    - unfold ssa_iter in H. rewrite Et in H. inversion H; subst st'. constructor; [rewrite Et; exact Htd|exact Hat].
    - assert (Hnext : forall t r, rest = t :: r -> tnext < t).
      { intros t r ->. inversion Hs as [|? ? ? Hall]; subst. inversion Hall; auto. }
      destruct (ssa_iter_cases s u Hu Hprops st st' tnext rest Et (Hclk _ _ eq_refl) Hnext Hnt H) as [(T & Rs & Rw & Td)|(T & Rs & Rw & Td)].
      + symmetry in Htd. destruct (skipn_cons_nth ts _ _ _ Htd) as [Hn Hsk].
        constructor.
        * rewrite Td, Rw, app_length. cbn [length]. rewrite Nat.add_1_r. symmetry. exact Hsk.
        * intros _ _. rewrite T, Rw, app_length. cbn [length]. replace (length (ss_rows st) + 1 - 1)%nat with (length (ss_rows st)) by lia. symmetry. exact Hn.
      + constructor; [rewrite Td, Rw; exact Htd|rewrite Rs; discriminate].
  Qed.

  (* whole run: at every iteration boundary at which rule_step is set and something has been recorded, the clock stands exactly at the
     time of the last recorded row; and every requested time is stopped at in this way *)
  Theorem ssa_stops_at_requested_times ts pos n : StronglySorted Rlt ts -> Forall (fun t => sm_t0 s <= t) ts ->
    notie_run s u n (ssa_init s ts pos) ->
    forall m stm, (m <= n)%nat -> ssa_run s u m (ssa_init s ts pos) = Done stm ->
      ss_todo stm = skipn (length (ss_rows stm)) ts /\
      (ss_rule_step stm = true -> ss_rows stm <> [] -> ss_time stm = nth (length (ss_rows stm) - 1) ts 0).
  Proof.
    intros Hs H0 Hnt.
    assert (Hinit : count_inv (length ts) (ssa_init s ts pos) 0).
    { unfold ssa_init. constructor; cbn; auto. intros t r E. subst ts. inversion H0; auto. }
    assert (Sinit : stop_inv ts (ssa_init s ts pos)).
    { unfold ssa_init. constructor; cbn; auto. intros _ Hne. contradiction. }
    assert (G : forall m st0 c0 n0, count_inv (length ts) st0 c0 -> stop_inv ts st0 -> notie_run s u n0 st0 -> (m <= n0)%nat ->
                 forall stm, ssa_run s u m st0 = Done stm -> stop_inv ts stm).
    { induction m as [|m IH]; intros st0 c0 n0 Hci Hsi Hn0 Hm stm Hr; cbn [ssa_run] in Hr; [inversion Hr; subst; exact Hsi|].
      destruct n0 as [|n0]; [lia|]. cbn [notie_run] in Hn0. destruct Hn0 as [Hn1 Hn2].
      destruct (ssa_iter ArithR s u st0) as [st1| |w] eqn:E; try discriminate.
      apply (IH st1 _ n0 (count_step s u Hu Hprops _ _ _ _ Hci Hn1 E) (stop_step ts _ _ _ _ Hci Hsi Hn1 E) Hn2); [lia|exact Hr]. }
    intros m stm Hm Hr. destruct (G m _ _ n Hinit Sinit Hnt Hm stm Hr) as [H1 H2]. split; assumption.
  Qed.
End Schedule.
