(* Tie between the finite-difference pieces REGENERATED from bioscrape/analysis.py (Gen/StencilsGen.v, tools/tr_stencils.py)
   and the hand model Model/Sensitivity.v. *)
From Coq Require Import ZArith Reals List Bool String Lra.
From BS Require Import Base.Arith Model.Sensitivity Proofs.SensProofs Gen.StencilsGen.
Import ListNotations.

Section Any.
  Context {F : Type} (A : Arith F).
  (* the four weights sets, for compute_J and for compute_Zj: any arithmetic *)
  Lemma tie_stencils f2h fh f0 fmh fm2h h :
    gen_J_stencil_fourth_order_central_difference A f2h fh f0 fmh fm2h h = stencil A FourthOrder f2h fh f0 fmh fm2h h /\
    gen_J_stencil_central_difference A f2h fh f0 fmh fm2h h = stencil A Central f2h fh f0 fmh fm2h h /\
    gen_J_stencil_backward_difference A f2h fh f0 fmh fm2h h = stencil A Backward f2h fh f0 fmh fm2h h /\
    gen_J_stencil_forward_difference A f2h fh f0 fmh fm2h h = stencil A Forward f2h fh f0 fmh fm2h h /\
    gen_Z_stencil_fourth_order_central_difference A f2h fh f0 fmh fm2h h = stencil A FourthOrder f2h fh f0 fmh fm2h h /\
    gen_Z_stencil_central_difference A f2h fh f0 fmh fm2h h = stencil A Central f2h fh f0 fmh fm2h h /\
    gen_Z_stencil_backward_difference A f2h fh f0 fmh fm2h h = stencil A Backward f2h fh f0 fmh fm2h h /\
    gen_Z_stencil_forward_difference A f2h fh f0 fmh fm2h h = stencil A Forward f2h fh f0 fmh fm2h h.
  Proof. repeat (split; [reflexivity|]). reflexivity. Qed.
End Any.

Local Open Scope R_scope.
(* the sample points: the source perturbs by +h, -h, +2h, -2h (subtraction; the hand model adds the negated offset: equal over R,
   and bit for bit in IEEE arithmetic) *)
Lemma tie_points (v h : R) :
  gen_J_point_f_2h ArithR v h = v + 2 * h /\ gen_J_point_f_h ArithR v h = v + h /\ gen_J_point_f_0 v h = v /\
  gen_J_point_f_mh ArithR v h = v + - h /\ gen_J_point_f_m2h ArithR v h = v + - (2 * h) /\
  gen_Z_point_f_2h ArithR v h = v + 2 * h /\ gen_Z_point_f_h ArithR v h = v + h /\ gen_Z_point_f_0 v h = v /\
  gen_Z_point_f_mh ArithR v h = v + - h /\ gen_Z_point_f_m2h ArithR v h = v + - (2 * h).
Proof.
  unfold gen_J_point_f_2h, gen_J_point_f_h, gen_J_point_f_0, gen_J_point_f_mh, gen_J_point_f_m2h,
         gen_Z_point_f_2h, gen_Z_point_f_h, gen_Z_point_f_0, gen_Z_point_f_mh, gen_Z_point_f_m2h; cbn.
  repeat split; lra.
Qed.

(* result / component / perturbed indices: J[i, j] samples component i along state j; Z[i] samples component i along the named parameter *)
Lemma tie_indices : gen_J_indices = ["(i, j)"; "i"; "j"]%string /\ gen_Z_indices = ["i"; "i"; "param_name"]%string.
Proof. split; reflexivity. Qed.

(* the source's own fourth-order expression, sampled at the source's own points, on the polynomials of degree <= 5 *)
Lemma source_fourth_order_exact :
  forall a0 a1 a2 a3 a4 a5 x h, h <> 0 ->
  let p := poly5 a0 a1 a2 a3 a4 a5 in
  gen_J_stencil_fourth_order_central_difference ArithR
    (p (gen_J_point_f_2h ArithR x h)) (p (gen_J_point_f_h ArithR x h)) (p (gen_J_point_f_0 x h))
    (p (gen_J_point_f_mh ArithR x h)) (p (gen_J_point_f_m2h ArithR x h)) h
  = dpoly5 a1 a2 a3 a4 a5 x - 4 * a5 * h^4.
Proof.
  intros a0 a1 a2 a3 a4 a5 x h Hh p.
  destruct (tie_stencils ArithR (p (gen_J_point_f_2h ArithR x h)) (p (gen_J_point_f_h ArithR x h)) (p (gen_J_point_f_0 x h))
                         (p (gen_J_point_f_mh ArithR x h)) (p (gen_J_point_f_m2h ArithR x h)) h) as [E _].
  rewrite E. exact (fourth_order_exact a0 a1 a2 a3 a4 a5 x h Hh).
Qed.
