(* C10 / C06: whole-run accounting of the delay-capable loop, over the reals, for every stream, grid,
   fuel, network and queue size (no rules):  at every iteration boundary there are per-reaction
   counts n (firings) and d (delayed parts already applied) with
        x  =  x0 + sum_r n_r S[:,r] + sum_r d_r Sd[:,r]          and
        n_r = d_r + (number of reaction-r entries still in the queue),
   so d_r <= n_r, nothing is lost or duplicated, and every reported row is such a lattice point. *)
From Coq Require Import ZArith Reals List Bool Lia Lra Arith.
From BS Require Import Base.Arith Model.Term Model.Propensity Model.Interface Model.Rules Model.Random Model.Queue Model.SSA
  Proofs.ListLemmas Proofs.QueueProofs Proofs.SSAProofs Proofs.DelayProofs.
Import ListNotations.
Local Open Scope R_scope.

Fixpoint sumR (f : nat -> R) (n : nat) : R := match n with O => 0 | S k => sumR f k + f k end.
Fixpoint sumN (f : nat -> nat) (n : nat) : nat := match n with O => 0%nat | S k => (sumN f k + f k)%nat end.

Lemma sumR_ext f g n : (forall r, (r < n)%nat -> f r = g r) -> sumR f n = sumR g n.
Proof. induction n as [|n IH]; intros H; simpl; auto. rewrite IH by (intros; apply H; lia). rewrite H by lia. reflexivity. Qed.
Lemma sumR_plus f g n : sumR (fun r => f r + g r) n = sumR f n + sumR g n.
Proof. induction n as [|n IH]; simpl; [lra|]. rewrite IH. lra. Qed.
Lemma sumR_shift f n : sumR f (S n) = f O + sumR (fun j => f (S j)) n.
Proof. induction n as [|n IH]; [simpl; lra|]. change (sumR f (S (S n))) with (sumR f (S n) + f (S n)). rewrite IH. simpl. lra. Qed.
Lemma sumR_bump f r0 c n : (r0 < n)%nat -> sumR (fun r => f r + (if Nat.eqb r r0 then c else 0)) n = sumR f n + c.
Proof.
  induction n as [|n IH]; intros H; [lia|]. simpl.
  destruct (Nat.eqb_spec n r0) as [->|Hne].
  - rewrite (sumR_ext _ f) by (intros r Hr; destruct (Nat.eqb_spec r r0); [lia|lra]). lra.
  - rewrite IH by lia. lra.
Qed.

Lemma sumN_ext f g n : (forall r, (r < n)%nat -> f r = g r) -> sumN f n = sumN g n.
Proof. induction n as [|n IH]; intros H; simpl; auto. rewrite IH by (intros; apply H; lia). rewrite H by lia. reflexivity. Qed.
Lemma sumN_shift f n : sumN f (S n) = (f O + sumN (fun j => f (S j)) n)%nat.
Proof. induction n as [|n IH]; [simpl; lia|]. change (sumN f (S (S n))) with (sumN f (S n) + f (S n))%nat. rewrite IH. simpl. lia. Qed.
Lemma sumN_bump f r0 n : (r0 < n)%nat -> sumN (fun r => if Nat.eqb r r0 then S (f r) else f r) n = S (sumN f n).
Proof.
  induction n as [|n IH]; intros H; [lia|]. simpl.
  destruct (Nat.eqb_spec n r0) as [->|Hne].
  - rewrite (sumN_ext _ f) by (intros r Hr; destruct (Nat.eqb_spec r r0); [lia|reflexivity]). lia.
  - rewrite IH by lia. lia.
Qed.

(* ---- element-wise reading of the vector updates ---- *)
Lemma nth_add_col x S r i : length x = length S ->
  nth i (add_col ArithR x S r) 0 = nth i x 0 + IZR (sget S i r).
Proof.
  intros HL. unfold add_col, sget. destruct (Nat.ltb_spec i (length x)) as [Hi|Hi].
  - set (f := fun xs : R * list Z => fadd ArithR (fst xs) (fofZ ArithR (nth r (snd xs) 0%Z))).
    rewrite (nth_indep _ 0 (f (0, []))) by (rewrite map_length, combine_length; lia).
    rewrite map_nth. rewrite combine_nth by auto. reflexivity.
  - rewrite nth_overflow by (rewrite map_length, combine_length; lia).
    rewrite (nth_overflow x) by lia. rewrite (nth_overflow S) by lia. destruct r; simpl; lra.
Qed.
Lemma add_col_length x S r : length x = length S -> length (add_col ArithR x S r) = length x.
Proof. intros H. unfold add_col. rewrite map_length, combine_length. lia. Qed.

Definition dstep1 (Sd : list (list Z)) (xacc : list R) (ra : nat * R) : list R :=
  map (fun xs : R * list Z => fst xs + snd ra * IZR (nth (fst ra) (snd xs) 0%Z)) (combine xacc Sd).
Lemma dstep1_length Sd x ra : length x = length Sd -> length (dstep1 Sd x ra) = length x.
Proof. intros H. unfold dstep1. rewrite map_length, combine_length. lia. Qed.
Lemma nth_dstep1 Sd x ra i : length x = length Sd ->
  nth i (dstep1 Sd x ra) 0 = nth i x 0 + snd ra * IZR (sget Sd i (fst ra)).
Proof.
  intros HL. unfold dstep1, sget. destruct (Nat.ltb_spec i (length x)) as [Hi|Hi].
  - set (f := fun xs : R * list Z => fst xs + snd ra * IZR (nth (fst ra) (snd xs) 0%Z)).
    rewrite (nth_indep _ 0 (f (0, []))) by (rewrite map_length, combine_length; lia).
    rewrite map_nth. rewrite combine_nth by auto. reflexivity.
  - rewrite nth_overflow by (rewrite map_length, combine_length; lia).
    rewrite (nth_overflow x) by lia. rewrite (nth_overflow Sd) by lia. destruct (fst ra); simpl; lra.
Qed.

Fixpoint psum (Sd : list (list Z)) (i : nat) (ras : list (nat * R)) : R :=
  match ras with [] => 0 | ra :: rest => snd ra * IZR (sget Sd i (fst ra)) + psum Sd i rest end.
Lemma nth_fold_dstep1 Sd i : forall ras x, length x = length Sd ->
  nth i (fold_left (dstep1 Sd) ras x) 0 = nth i x 0 + psum Sd i ras /\ length (fold_left (dstep1 Sd) ras x) = length x.
Proof.
  induction ras as [|ra ras IH]; intros x HL; simpl; [split; [lra|reflexivity]|].
  destruct (IH (dstep1 Sd x ra)) as [E L]; [rewrite dstep1_length; auto|].
  rewrite E, L, nth_dstep1, dstep1_length by auto. split; [lra|reflexivity].
Qed.
Lemma psum_combine Sd i : forall amts k,
  psum Sd i (combine (seq k (length amts)) amts) = sumR (fun j => nth j amts 0 * IZR (sget Sd i (k + j))) (length amts).
Proof.
  induction amts as [|a amts IH]; intros k; [reflexivity|].
  cbn [length seq combine psum fst snd]. rewrite sumR_shift. cbn [nth]. rewrite Nat.add_0_r. f_equal.
  rewrite IH. apply sumR_ext. intros j _. cbn [nth]. rewrite Nat.add_succ_comm. reflexivity.
Qed.
Lemma nth_deliver x Sd amts i : length x = length Sd ->
  nth i (deliver ArithR x Sd amts) 0 = nth i x 0 + sumR (fun r => nth r amts 0 * IZR (sget Sd i r)) (length amts)
  /\ length (deliver ArithR x Sd amts) = length x.
Proof.
  intros HL. unfold deliver.
  change (fold_left _ (combine (seq 0 (length amts)) amts) x) with (fold_left (dstep1 Sd) (combine (seq 0 (length amts)) amts) x).
  destruct (nth_fold_dstep1 Sd i (combine (seq 0 (length amts)) amts) x HL) as [E L].
  rewrite E, L, psum_combine. split; [|reflexivity]. f_equal.
Qed.

Section Accounting.
  Variable s : sim R.
  Notation Sm := (si_S (sm_if s)). Notation Sdm := (si_Sd (sm_if s)).
  Notation nrx := (length (si_props (sm_if s))).
  Notation x0 := (sm_x0 s).
  Hypothesis no_rules : sm_rules s = [].
  Hypothesis len_S : length x0 = length Sm.
  Hypothesis len_Sd : length Sm = length Sdm.
  Variable ncols : nat.

  (* x is the lattice point of counts (n, d) *)
  Definition at_point (x : list R) (n d : nat -> nat) : Prop :=
    forall i, nth i x 0 = nth i x0 0 + sumR (fun r => INR (n r) * IZR (sget Sm i r) + INR (d r) * IZR (sget Sdm i r)) nrx.
  Definition lattice (x : list R) : Prop :=
    exists n d, (forall r, (r < nrx)%nat -> (d r <= n r)%nat) /\ at_point x n d.

  Notation pendingR := (q_pending (M:=R) 0).

  Record acc_inv (st : dssa_state (F:=R)) (n d : nat -> nat) (pq : nat -> nat -> nat) : Prop := {
    ai_wf : wfq (ds_q st);
    ai_nrx : length (q_cells (ds_q st)) = nrx;
    ai_nc : q_ncols (ds_q st) = ncols;
    ai_len : length (ds_x st) = length x0;
    ai_x : at_point (ds_x st) n d;
    ai_pq : forall off r, (off < q_ncols (ds_q st))%nat -> (r < nrx)%nat -> pendingR (ds_q st) off r = INR (pq off r);
    ai_count : forall r, (r < nrx)%nat -> n r = (d r + sumN (fun off => pq off r) (q_ncols (ds_q st)))%nat;
    ai_rows : Forall lattice (ds_rows st)
  }.

  Lemma inv_lattice st n d pq : acc_inv st n d pq -> lattice (ds_x st).
  Proof. intros H. exists n, d. split; [|apply (ai_x _ _ _ _ H)]. intros r Hr. rewrite (ai_count _ _ _ _ H r Hr). lia. Qed.

  Lemma dssa_iter_rows gfuel u st st' : dssa_iter ArithR (2 * PI) gfuel s u st = Done st' ->
    exists k, ds_rows st' = ds_rows st ++ repeat (ds_x st) k.
  Proof.
    intros H. unfold dssa_iter in H.
    destruct (ds_todo st) as [|tnext todo] eqn:Et; [inversion H; subst; exists 0%nat; simpl; rewrite app_nil_r; reflexivity|].
    rewrite no_rules in H. cbn [apply_rules fold_left] in H.
    set (props := stoch_props ArithR s Stoch (ds_x st) (ds_p st) (f1 ArithR) (ds_time st)) in *.
    set (Lambda := array_sum ArithR props) in *.
    destruct (if feqb ArithR Lambda (f0 ArithR) then (tnext, false, true, ds_pos st)
              else let '(tau, pos') := exponential_rv ArithR Lambda u (ds_pos st) in (fadd ArithR (ds_time st) tau, true, false, pos'))
      as [[[proposed fired] rs] pos1].
    destruct (if fltb ArithR tnext proposed then (tnext, false, true) else (proposed, fired, rs)) as [[proposed' fired'] rs'].
    destruct (if fltb ArithR (q_next_time (ds_q st)) proposed' then (q_next_time (ds_q st), true, false, false) else (proposed', false, fired', rs'))
      as [[[time' toq] fired''] rs''].
    destruct (record ArithR (tnext :: todo) time' (ds_x st)) as [rows rem] eqn:E3.
    destruct (record_rows ArithR _ _ _ _ _ E3) as (_ & k & -> & _ & _).
    exists k.
    destruct toq; [inversion H; subst; reflexivity|].
    destruct fired''; [|inversion H; subst; reflexivity].
    destruct (sample_discrete ArithR props Lambda u pos1) as [choice pos2].
    destruct ((choice <? 0)%Z || (Z.of_nat (length props) <=? choice)%Z); [discriminate|].
    destruct (compute_delay ArithR (2 * PI) gfuel (nth (Z.to_nat choice) (sm_delays s) DNone) (ds_p st) u pos2) as [[dl pos3]|]; [|discriminate].
    destruct (fltb ArithR (f0 ArithR) dl).
    - destruct (q_add ArithR (fadd ArithR) (ds_q st) (fadd ArithR time' dl) (Z.to_nat choice) (f1 ArithR)); [|discriminate].
      inversion H; subst; reflexivity.
    - inversion H; subst; reflexivity.
  Qed.

  Lemma at_point_fire_now x n d r : (r < nrx)%nat -> length x = length x0 -> at_point x n d ->
    at_point (add_col ArithR (add_col ArithR x Sm r) Sdm r)
             (fun r' => if Nat.eqb r' r then S (n r') else n r') (fun r' => if Nat.eqb r' r then S (d r') else d r').
  Proof.
    intros Hr HL Hx i. rewrite nth_add_col by (rewrite add_col_length; congruence).
    rewrite nth_add_col by congruence. rewrite (Hx i).
    rewrite (sumR_ext (fun r' => INR (if Nat.eqb r' r then S (n r') else n r') * IZR (sget Sm i r') +
                                 INR (if Nat.eqb r' r then S (d r') else d r') * IZR (sget Sdm i r'))
                      (fun r' => (INR (n r') * IZR (sget Sm i r') + INR (d r') * IZR (sget Sdm i r')) +
                                  (if Nat.eqb r' r then IZR (sget Sm i r) + IZR (sget Sdm i r) else 0))).
    - rewrite sumR_bump by auto. lra.
    - intros r' _. destruct (Nat.eqb_spec r' r) as [->|]; [rewrite !S_INR; lra|lra].
  Qed.
  Lemma at_point_fire_later x n d r : (r < nrx)%nat -> length x = length x0 -> at_point x n d ->
    at_point (add_col ArithR x Sm r) (fun r' => if Nat.eqb r' r then S (n r') else n r') d.
  Proof.
    intros Hr HL Hx i. rewrite nth_add_col by congruence. rewrite (Hx i).
    rewrite (sumR_ext (fun r' => INR (if Nat.eqb r' r then S (n r') else n r') * IZR (sget Sm i r') + INR (d r') * IZR (sget Sdm i r'))
                      (fun r' => (INR (n r') * IZR (sget Sm i r') + INR (d r') * IZR (sget Sdm i r')) +
                                  (if Nat.eqb r' r then IZR (sget Sm i r) else 0))).
    - rewrite sumR_bump by auto. lra.
    - intros r' _. destruct (Nat.eqb_spec r' r) as [->|]; [rewrite !S_INR; lra|lra].
  Qed.

  (* the invariant is preserved by any of the four kinds of step (Proofs/DelayProofs.v: dstep) taken from the current state,
     whatever else the simulator at hand keeps in its state; used for the delay-capable AND the delay + volume loop *)
  Lemma acc_step st st' n d pq k : acc_inv st n d pq -> ds_rows st' = ds_rows st ++ repeat (ds_x st) k ->
    dstep ArithR s (ds_x st) (ds_p st) (ds_q st) (ds_time st') (ds_x st') (ds_q st') ->
    exists n' d' pq', acc_inv st' n' d' pq'.
  Proof.
    intros Hinv Hrows Hstep.
    assert (Hrows' : Forall lattice (ds_rows st')).
    { rewrite Hrows. apply Forall_app. split; [apply (ai_rows _ _ _ _ Hinv)|].
      apply Forall_forall. intros row Hin. apply repeat_spec in Hin. subst. eapply inv_lattice; eauto. }
    destruct Hinv as [Hwf Hnrx Hncols Hlen Hx Hpq Hcount _].
    assert (HlSd : length (ds_x st) = length Sdm) by congruence.
    inversion Hstep as [Ex Eq | r dl Hrr Hd Ex Eq | r dl q' Hrr Hd Hadd Ex Eq | Ex Eq]; clear Hstep.
    - (* a queue slot is delivered *)
      set (q := ds_q st) in *.
      destruct Hwf as (Hn & Hs & Hrowsq).
      assert (Hwf : wfq q) by (repeat split; auto).
      destruct (nth_deliver (ds_x st) Sdm (q_peek 0 q) 0 HlSd) as [_ HL].
      exists n, (fun r => (d r + pq 0%nat r)%nat),
             (fun off r => if Nat.eqb off (q_ncols q - 1) then 0%nat else pq (S off) r).
      pose proof (advance_preserves ArithR 0 q) as (Hnc & _ & _ & Hlc).
      constructor; rewrite <- ?Eq, <- ?Ex.
      + apply wfq_advance; auto.
      + rewrite Hlc. exact Hnrx.
      + rewrite Hnc. exact Hncols.
      + rewrite HL. exact Hlen.
      + intros i. destruct (nth_deliver (ds_x st) Sdm (q_peek 0 q) i HlSd) as [E _].
        rewrite E, (Hx i), peek_length, Hnrx, Rplus_assoc, <- sumR_plus. f_equal. apply sumR_ext. intros r Hr.
        rewrite (peek_is_pending0 0 q r Hwf) by lia. rewrite (Hpq 0%nat r Hn Hr). rewrite plus_INR. lra.
      + intros off r Hoff Hr. rewrite Hnc in Hoff.
        rewrite (pending_advance ArithR 0 q off r Hwf) by lia.
        destruct (Nat.eqb_spec off (q_ncols q - 1)); [reflexivity|]. apply Hpq; lia.
      + intros r Hr. rewrite Hnc. rewrite (Hcount r Hr).
        destruct (q_ncols q) as [|m] eqn:Em; [lia|]. rewrite sumN_shift.
        change (sumN (fun off => if Nat.eqb off (S m - 1) then 0%nat else pq (S off) r) (S m))
          with (sumN (fun off => if Nat.eqb off (S m - 1) then 0%nat else pq (S off) r) m + (if Nat.eqb m (S m - 1) then 0%nat else pq (S m) r))%nat.
        replace (S m - 1)%nat with m by lia. rewrite Nat.eqb_refl.
        rewrite (sumN_ext (fun off => if Nat.eqb off m then 0%nat else pq (S off) r) (fun j => pq (S j) r))
          by (intros j Hj; destruct (Nat.eqb_spec j m); [lia|reflexivity]).
        lia.
      + exact Hrows'.
    - (* a firing whose delayed part is applied at once *)
      exists (fun r' => if Nat.eqb r' r then S (n r') else n r'), (fun r' => if Nat.eqb r' r then S (d r') else d r'), pq.
      constructor; rewrite <- ?Eq, <- ?Ex; auto.
      + rewrite !add_col_length; try congruence. rewrite add_col_length; congruence.
      + apply at_point_fire_now; auto.
      + intros r' Hr'. rewrite (Hcount r' Hr'). destruct (Nat.eqb_spec r' r); lia.
    - (* a firing whose delayed part is queued *)
      set (q := ds_q st) in *.
      pose proof (add_preserves ArithR (fadd ArithR) q _ _ _ _ Hadd) as (Hnc & _ & _ & _ & Hlc).
      set (o := q_offset ArithR q (fadd ArithR (ds_time st') dl)).
      assert (Ho : (o < q_ncols q)%nat) by (apply offset_lt; apply Hwf).
      exists (fun r' => if Nat.eqb r' r then S (n r') else n r'), d,
             (fun off r' => if Nat.eqb off o && Nat.eqb r' r then S (pq off r') else pq off r').
      clear Eq. constructor; rewrite <- ?Ex.
      + eapply wfq_add; [exact Hwf|exact Hadd].
      + rewrite Hlc. exact Hnrx.
      + rewrite Hnc. exact Hncols.
      + rewrite add_col_length; congruence.
      + apply at_point_fire_later; auto.
      + intros off r' Hoff Hr'. rewrite Hnc in Hoff.
        rewrite (pending_add ArithR 0 (fadd ArithR) q _ _ _ _ off r' Hwf Hadd Hoff). fold o.
        destruct (Nat.eqb off o && Nat.eqb r' r); [rewrite S_INR, (Hpq off r') by auto; reflexivity|apply Hpq; auto].
      + intros r' Hr'. rewrite Hnc. destruct (Nat.eqb_spec r' r) as [->|Hne].
        * rewrite (sumN_ext _ (fun off => if Nat.eqb off o then S (pq off r) else pq off r))
            by (intros off _; rewrite andb_true_r; reflexivity).
          rewrite sumN_bump by auto. rewrite (Hcount r Hr'). lia.
        * rewrite (sumN_ext _ (fun off => pq off r')) by (intros off _; rewrite andb_false_r; reflexivity).
          apply Hcount; auto.
      + exact Hrows'.
    - exists n, d, pq. constructor; rewrite <- ?Eq, <- ?Ex; auto.
  Qed.

  Lemma acc_iter gfuel u st st' n d pq : acc_inv st n d pq -> dssa_iter ArithR (2 * PI) gfuel s u st = Done st' ->
    exists n' d' pq', acc_inv st' n' d' pq'.
  Proof.
    intros Hinv H.
    destruct (dssa_iter_rows gfuel u st st' H) as [k Hrows].
    destruct (dssa_iter_steps ArithR (2 * PI) s gfuel u st st' H) as [[_ ->]|(x1 & p1 & Hr & _ & Hstep)]; [exists n, d, pq; exact Hinv|].
    rewrite no_rules in Hr. cbn [apply_rules fold_left] in Hr. inversion Hr; subst x1 p1; clear Hr.
    eapply acc_step; eauto.
  Qed.

  Theorem acc_loop gfuel u fuel : forall st st' n d pq, acc_inv st n d pq ->
    dssa_loop ArithR (2 * PI) fuel gfuel s u st = Done st' -> exists n' d' pq', acc_inv st' n' d' pq'.
  Proof.
    induction fuel as [|fuel IH]; intros st st' n d pq Hinv H; simpl in H.
    - destruct (ds_todo st); [|discriminate]. inversion H; subst. eauto.
    - destruct (ds_todo st) eqn:Et; [inversion H; subst; eauto|].
      destruct (dssa_iter ArithR (2 * PI) gfuel s u st) as [st1| |w] eqn:E; try discriminate.
      destruct (acc_iter gfuel u st st1 n d pq Hinv E) as (n1 & d1 & pq1 & Hinv1). eapply IH; eauto.
  Qed.

  (* whole run, from an empty queue of any size *)
  Theorem delay_run_accounting fuel gfuel qdt qt ts u pos st : (0 < ncols)%nat ->
    dssa_simulate ArithR (2 * PI) fuel gfuel s (q_make ArithR 0 nrx ncols qdt qt) ts u pos = Done st ->
    Forall lattice (ds_rows st) /\
    exists n d pq, at_point (ds_x st) n d /\
      (forall off r, (off < ncols)%nat -> (r < nrx)%nat -> pendingR (ds_q st) off r = INR (pq off r)) /\
      (forall r, (r < nrx)%nat -> n r = (d r + sumN (fun off => pq off r) ncols)%nat).
  Proof.
    intros Hn H. unfold dssa_simulate in H.
    assert (Hinit : acc_inv (mkDssa (sm_t0 s) ts x0 (si_params (sm_if s)) true pos []
                                    (q_set_time ArithR (q_make ArithR 0 nrx ncols qdt qt) (sm_t0 s)))
                            (fun _ => 0%nat) (fun _ => 0%nat) (fun _ _ => 0%nat)).
    { constructor; cbn [ds_q ds_x ds_rows].
      - apply (wfq_make ArithR 0 nrx ncols qdt qt Hn).
      - unfold q_set_time, q_make; simpl. apply repeat_length.
      - reflexivity.
      - reflexivity.
      - intros i. rewrite (sumR_ext _ (fun _ => 0)) by (intros; simpl; lra).
        assert (Hz : forall m, sumR (fun _ => 0) m = 0) by (induction m; simpl; lra). rewrite Hz. lra.
      - intros off r _ _. change (pendingR (q_set_time ArithR (q_make ArithR 0 nrx ncols qdt qt) (sm_t0 s)) off r)
          with (pendingR (q_make ArithR 0 nrx ncols qdt qt) off r). rewrite pending_make. reflexivity.
      - intros r _. assert (Hz : forall m, sumN (fun _ => 0%nat) m = 0%nat) by (induction m; simpl; lia). rewrite Hz. reflexivity.
      - constructor. }
    destruct (acc_loop gfuel u fuel _ _ _ _ _ Hinit H) as (n & d & pq & Hinv).
    split; [apply (ai_rows _ _ _ _ Hinv)|]. exists n, d, pq.
    pose proof (ai_nc _ _ _ _ Hinv) as Hnc.
    split; [apply (ai_x _ _ _ _ Hinv)|]. split.
    - intros off r Hoff Hr. apply (ai_pq _ _ _ _ Hinv); [rewrite Hnc|]; auto.
    - intros r Hr. rewrite <- Hnc. apply (ai_count _ _ _ _ Hinv); auto.
  Qed.
End Accounting.
