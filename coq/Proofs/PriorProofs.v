From Coq Require Import ZArith Reals List Bool Lra Lia.
From BS Require Import Base.Arith Model.Priors Spec.Densities.
Import ListNotations.
Local Open Scope R_scope.

Section PP.
  Variables (G : R -> R) (B : R -> R -> R).
  Notation pe := (prior_eval ArithR PI G B).

  Lemma ltb_f x y : ~ x < y -> fltb ArithR x y = false.
  Proof. intros H. simpl. unfold Rltb. destruct (Rlt_dec x y); [contradiction|reflexivity]. Qed.
  Lemma ltb_t x y : x < y -> fltb ArithR x y = true.
  Proof. intros H. simpl. unfold Rltb. destruct (Rlt_dec x y); [reflexivity|contradiction]. Qed.

  Lemma log_or_reject_pos p : 0 < p -> log_or_reject ArithR p = Val (ln p).
  Proof. intros H. unfold log_or_reject. rewrite ltb_f by (simpl; lra). reflexivity. Qed.

  Lemma sqrt2pi_pos : 0 < sqrt (2 * PI).
  Proof. apply sqrt_lt_R0. pose proof PI_RGT_0. lra. Qed.

  Lemma rpow_pos x y : 0 < x -> rpow x y = exp (y * ln x).
  Proof. intros H. unfold rpow. destruct (Req_EM_T x 0); [lra|]. reflexivity. Qed.
  Lemma rpow_gt0 x y : 0 < x -> 0 < rpow x y.
  Proof. intros H. rewrite rpow_pos by auto. apply exp_pos. Qed.

  (* ---------- inside the support: the log of the density ---------- *)
  Theorem uniform_inside lb ub x : lb < ub -> lb <= x <= ub -> pe (PrUniform lb ub) x = Val (ld_uniform lb ub x).
  Proof.
    intros H [H1 H2]. cbn [prior_eval]. rewrite (ltb_f ub x), (ltb_f x lb) by lra. cbn [orb].
    f_equal. simpl. unfold ld_uniform, Rdiv. rewrite Rmult_1_l. apply ln_Rinv. lra.
  Qed.

  Theorem gaussian_inside mu s x : 0 < s -> pe (PrGaussian mu s) x = Val (ld_gaussian mu s x).
  Proof.
    intros Hs. cbn [prior_eval]. rewrite (ltb_f s) by (simpl; lra).
    pose proof sqrt2pi_pos as Hq.
    rewrite log_or_reject_pos.
    - f_equal. unfold sqrt2pi, sqr, fhalf. simpl. unfold ld_gaussian.
      rewrite ln_mult; [|apply Rdiv_lt_0_compat; [lra|apply Rmult_lt_0_compat; lra]|apply exp_pos].
      rewrite ln_exp. unfold Rdiv at 1. rewrite Rmult_1_l, ln_Rinv by (apply Rmult_lt_0_compat; lra).
      rewrite (Rmult_comm (sqrt (2 * PI)) s). field. lra.
    - unfold sqrt2pi. simpl. apply Rmult_lt_0_compat; [|apply exp_pos].
      apply Rdiv_lt_0_compat; [lra|apply Rmult_lt_0_compat; lra].
  Qed.

  Theorem exponential_inside lam x : 0 < lam -> 0 <= x -> pe (PrExponential lam) x = Val (ld_exponential lam x).
  Proof.
    intros Hl Hx. cbn [prior_eval]. rewrite (ltb_f x) by (simpl; lra).
    rewrite log_or_reject_pos by (simpl; apply Rmult_lt_0_compat; [lra|apply exp_pos]).
    f_equal. simpl. unfold ld_exponential. rewrite ln_mult by (auto; apply exp_pos). rewrite ln_exp. lra.
  Qed.

  Theorem gamma_inside a b x : 0 < b -> 0 < G a -> 0 < x -> pe (PrGamma a b) x = Val (ld_gamma G a b x).
  Proof.
    intros Hb HG Hx. cbn [prior_eval]. rewrite (ltb_f x) by (simpl; lra).
    simpl (fpow ArithR). simpl (fexp ArithR). simpl (fofZ ArithR _).
    change (fmul ArithR) with Rmult. change (fdiv ArithR) with Rdiv. change (fsub ArithR) with Rminus. change (fneg ArithR) with Ropp.
    assert (P0 : 0 < rpow b a) by (apply rpow_gt0; auto).
    assert (P1 : 0 < rpow b a / G a) by (apply Rdiv_lt_0_compat; auto).
    assert (P2 : 0 < rpow x (a - 1)) by (apply rpow_gt0; auto).
    match goal with |- context [exp ?e] => set (E := e) end.
    assert (P3 : 0 < exp E) by apply exp_pos.
    assert (P12 : 0 < rpow b a / G a * rpow x (a - 1)) by (apply Rmult_lt_0_compat; auto).
    rewrite log_or_reject_pos by (apply Rmult_lt_0_compat; auto).
    f_equal. unfold ld_gamma.
    rewrite (ln_mult _ _ P12 P3), (ln_mult _ _ P1 P2), ln_exp.
    unfold Rdiv. rewrite (ln_mult _ _ P0 (Rinv_0_lt_compat _ HG)), ln_Rinv by auto.
    rewrite !rpow_pos by auto. rewrite !ln_exp. unfold E. lra.
  Qed.

  Theorem beta_inside a b x : 0 < B a b -> 0 < x < 1 -> pe (PrBeta a b) x = Val (ld_beta B a b x).
  Proof.
    intros HB [H0 H1]. cbn [prior_eval]. rewrite (ltb_f x), (ltb_f _ x) by (simpl; lra). cbn [orb].
    simpl (fpow ArithR). simpl (fofZ ArithR _).
    change (fmul ArithR) with Rmult. change (fdiv ArithR) with Rdiv. change (fsub ArithR) with Rminus.
    assert (P1 : 0 < rpow x (a - 1)) by (apply rpow_gt0; auto).
    assert (P2 : 0 < rpow (1 - x) (b - 1)) by (apply rpow_gt0; lra).
    assert (P12 : 0 < rpow x (a - 1) * rpow (1 - x) (b - 1)) by (apply Rmult_lt_0_compat; auto).
    rewrite log_or_reject_pos by (apply Rdiv_lt_0_compat; auto).
    f_equal. unfold ld_beta, Rdiv.
    rewrite (ln_mult _ _ P12 (Rinv_0_lt_compat _ HB)), (ln_mult _ _ P1 P2), ln_Rinv by auto.
    rewrite !rpow_pos by lra. rewrite !ln_exp. lra.
  Qed.

  Theorem loguniform_inside lb ub x : 0 < lb -> lb < ub -> lb <= x <= ub ->
    pe (PrLogUniform lb ub) x = Val (ld_loguniform lb ub x).
  Proof.
    intros Hl Hlu [H1 H2]. cbn [prior_eval].
    rewrite (ltb_f lb), (ltb_f ub) by (simpl; lra). cbn [orb].
    rewrite (ltb_f ub x), (ltb_f x lb) by lra. cbn [orb].
    simpl (flog ArithR). simpl (fofZ ArithR _).
    change (fmul ArithR) with Rmult. change (fdiv ArithR) with Rdiv. change (fsub ArithR) with Rminus.
    assert (Hd : 0 < ln ub - ln lb) by (pose proof (ln_increasing lb ub Hl Hlu); lra).
    assert (Hx : 0 < x) by lra.
    rewrite log_or_reject_pos by (apply Rdiv_lt_0_compat; [lra|apply Rmult_lt_0_compat; auto]).
    f_equal. unfold ld_loguniform, Rdiv. rewrite Rmult_1_l, ln_Rinv by (apply Rmult_lt_0_compat; auto).
    rewrite ln_mult by auto. lra.
  Qed.

  Theorem loggaussian_inside mu s x : 0 < s -> 0 < x -> pe (PrLogGaussian mu s) x = Val (ld_loggaussian mu s x).
  Proof.
    intros Hs Hx. cbn [prior_eval]. rewrite (ltb_f s) by (simpl; lra).
    pose proof sqrt2pi_pos as Hq.
    assert (Hd : 0 < x * sqrt (2 * PI) * s) by (repeat apply Rmult_lt_0_compat; auto).
    rewrite log_or_reject_pos.
    - f_equal. unfold sqrt2pi, sqr, fhalf. simpl. unfold ld_loggaussian.
      rewrite ln_mult; [|apply Rdiv_lt_0_compat; [lra|exact Hd]|apply exp_pos].
      rewrite ln_exp. unfold Rdiv at 1. rewrite Rmult_1_l, ln_Rinv by exact Hd.
      replace (x * s * sqrt (2 * PI)) with (x * sqrt (2 * PI) * s) by ring. field. lra.
    - unfold sqrt2pi. simpl. apply Rmult_lt_0_compat; [|apply exp_pos].
      apply Rdiv_lt_0_compat; [lra|exact Hd].
  Qed.

  (* ---------- outside the support: rejected ---------- *)
  Theorem uniform_outside lb ub x : x < lb \/ ub < x -> pe (PrUniform lb ub) x = Reject.
  Proof.
    intros H. cbn [prior_eval]. destruct H as [H|H].
    - rewrite (ltb_t x lb H), orb_true_r. reflexivity.
    - rewrite (ltb_t ub x H). reflexivity.
  Qed.
  Theorem exponential_outside lam x : x < 0 -> pe (PrExponential lam) x = Reject.
  Proof. intros H. cbn [prior_eval]. rewrite ltb_t by (simpl; lra). reflexivity. Qed.
  Theorem gamma_outside a b x : x < 0 -> pe (PrGamma a b) x = Reject.
  Proof. intros H. cbn [prior_eval]. rewrite ltb_t by (simpl; lra). reflexivity. Qed.
  Theorem beta_outside a b x : x < 0 \/ 1 < x -> pe (PrBeta a b) x = Reject.
  Proof.
    intros H. cbn [prior_eval]. destruct H as [H|H].
    - rewrite (ltb_t x) by (simpl; lra). reflexivity.
    - rewrite (ltb_t _ x) by (simpl; lra). rewrite orb_true_r. reflexivity.
  Qed.
  Theorem loguniform_outside lb ub x : 0 <= lb -> 0 <= ub -> x < lb \/ ub < x -> pe (PrLogUniform lb ub) x = Reject.
  Proof.
    intros Hl Hu H. cbn [prior_eval]. rewrite (ltb_f lb), (ltb_f ub) by (simpl; lra). cbn [orb].
    destruct H as [H|H].
    - rewrite (ltb_t x lb H), orb_true_r. reflexivity.
    - rewrite (ltb_t ub x H). reflexivity.
  Qed.

  (* ---------- check_prior: positive flag, sum, absorption ---------- *)
  Notation cp := (check_prior ArithR PI G B).

  Theorem positive_flag_rejects pr x rest lp : x < 0 -> cp ((true, pr, x) :: rest) lp = Reject.
  Proof. intros H. cbn [check_prior]. rewrite ltb_t by (simpl; lra). reflexivity. Qed.

  (* if every term is a value, the result is lp plus their sum *)
  Fixpoint all_vals (l : list (bool * prior R * R)) : option R :=
    match l with
    | [] => Some 0
    | (positive, pr, x) :: rest =>
        if positive && Rltb x 0 then None
        else match pe pr x, all_vals rest with
             | Val v, Some s => Some (v + s)
             | _, _ => None
             end
    end.
  Theorem check_prior_sum l : forall lp s, all_vals l = Some s -> cp l lp = Val (lp + s).
  Proof.
    induction l as [|[[pos pr] x] rest IH]; intros lp s H; simpl in H.
    - inversion H; subst. cbn [check_prior]. f_equal. lra.
    - cbn [check_prior]. simpl (fltb ArithR x _). simpl (fofZ ArithR 0) in *.
      destruct (pos && Rltb x 0); [discriminate|].
      destruct (pe pr x) as [| |v]; try discriminate.
      destruct (all_vals rest) as [s'|]; [|discriminate]. inversion H; subst.
      rewrite (IH (fadd ArithR lp v) s' eq_refl). f_equal. simpl. lra.
  Qed.

  (* one rejecting term rejects the vector (unless a later prior is mis-specified and raises) *)
  Theorem check_prior_reject_absorbs l : forall lp, 
    (exists pos pr x, In (pos, pr, x) l /\ pe pr x = Reject) -> cp l lp = Reject \/ cp l lp = Raise.
  Proof.
    induction l as [|[[pos pr] x] rest IH]; intros lp (pos' & pr' & x' & Hin & Hr); [destruct Hin|].
    cbn [check_prior]. destruct (pos && fltb ArithR x (fofZ ArithR 0)); [left; reflexivity|].
    destruct Hin as [Heq|Hin].
    - inversion Heq; subst. rewrite Hr. destruct (cp rest lp); auto.
    - destruct (pe pr x) as [| |v]; auto.
      + destruct (IH lp (ex_intro _ pos' (ex_intro _ pr' (ex_intro _ x' (conj Hin Hr))))) as [E|E]; rewrite E; auto.
      + apply IH. exists pos', pr', x'. auto.
  Qed.
End PP.
