(* C09 "for plain and for lineage models alike": whole-run counting for the single-cell lineage loop over the reals
   (any lineage model: rules, volume / division / death rules with noise, events; any stream, grid): as long as the cell has
   not stopped (division / death) and has not made the jump to the final time, the rules with frequency dt -- which fire
   exactly in the iterations that start with rule_step set -- have been applied exactly once per advance of the dt clock,
   however many reactions fired in between. *)
From Coq Require Import ZArith Reals List Bool Lia Lra Arith.
From BS Require Import Base.Arith Model.Term Model.Propensity Model.Interface Model.Rules Model.Random Model.Queue Model.SSA Model.Splitters Model.Lineage
  Proofs.SSAProofs Proofs.VolumeRun.
Import ListNotations.
Local Open Scope R_scope.

Section LCount.
  Variable l : lin R.
  Variables pi2 eps9 eps7 : R.
  Variables dt final t_init V_init : R.
  Variable u : nat -> R.
  Hypothesis Heps : 0 < eps7.
  Hypothesis Hu : forall n, 0 < u n <= 1.
  Hypothesis Hprops : forall x p V t, 0 <= array_sum ArithR (lin_props ArithR l x p V t).

  Definition llive (st : lstate (F:=R)) : bool := match ls_todo st with [] => false | _ => negb (ls_stop st) end.
  (* n iterations of lssa_loop (which ends when nothing is left to report or the cell stopped) *)
  Fixpoint lrun (n : nat) (st : lstate (F:=R)) : outcome (lstate (F:=R)) :=
    match n with
    | O => Done st
    | S k => if llive st then
               match lssa_iter ArithR pi2 eps9 eps7 l dt final t_init V_init u st with Done st' => lrun k st' | OutOfFuel => OutOfFuel | Fault w => Fault w end
             else Done st
    end.
  (* iterations among the first n that start with rule_step set (= applications of every dt rule, steps of every ODE rule) *)
  Fixpoint lapps (n : nat) (st : lstate (F:=R)) : nat :=
    match n with
    | O => 0%nat
    | S k => if llive st then
               ((if ls_rule_step st then 1 else 0) +
                match lssa_iter ArithR pi2 eps9 eps7 l dt final t_init V_init u st with Done st' => lapps k st' | _ => 0 end)%nat
             else 0%nat
    end.
  (* none of the first n iterations stopped the cell or jumped to the final time *)
  Fixpoint lplain (n : nat) (st : lstate (F:=R)) : Prop :=
    match n with
    | O => True
    | S k => if llive st then
               match lssa_iter ArithR pi2 eps9 eps7 l dt final t_init V_init u st with
               | Done st' => ls_stop st' = false /\ ls_time st' <> final /\ lplain k st'
               | _ => True
               end
             else True
    end.

  (* the dt clock has advanced j times from its first value q1; c applications so far *)
  Record lcount_inv (q1 : R) (st : lstate (F:=R)) (j c : nat) : Prop := {
    lc_nq : ls_next_q st = q1 + INR j * dt;
    lc_lo : ls_next_q st - dt <= ls_time st;
    lc_hi : ls_time st <= ls_next_q st;
    lc_count : c = (j + (if ls_rule_step st then 0 else 1))%nat
  }.

  Lemma lcount_step q1 st st' j c : lcount_inv q1 st j c -> llive st = true ->
    lssa_iter ArithR pi2 eps9 eps7 l dt final t_init V_init u st = Done st' ->
    ls_stop st' = true \/ ls_time st' = final \/ exists j', lcount_inv q1 st' j' (c + (if ls_rule_step st then 1 else 0)).
  Proof.
    intros [Hnq Hlo Hhi Hc] Hlive H. unfold llive in Hlive. unfold lssa_iter in H.
    destruct (ls_todo st) as [|tnext todo] eqn:Et; [discriminate|].
    destruct (apply_rules ArithR (sm_rules (ln_sim l)) (Some (ls_V st)) (ls_x st, ls_p st) (ls_time st) dt (ls_rule_step st)) as [x1 p1] eqn:Er.
    destruct (first_true (fun r => krule_check ArithR pi2 eps9 r x1 p1 (ls_time st) (ls_V st) u) (ln_krules l) 0%Z (ls_pos st)) as [dead posa].
    destruct (first_true (fun r => drule_check ArithR pi2 eps9 r x1 p1 (ls_time st) (ls_V st) t_init V_init u) (ln_drules l) 0%Z posa) as [divd posb].
    destruct (0 <=? dead)%Z; [inversion H; subst st'; left; reflexivity|].
    destruct (0 <=? divd)%Z; [inversion H; subst st'; left; reflexivity|].
    set (props := lin_props ArithR l x1 p1 (ls_V st) (ls_time st)) in *.
    set (Lambda := array_sum ArithR props) in *.
    assert (HL : 0 <= Lambda) by apply Hprops.
    assert (Hcnt : (c + (if ls_rule_step st then 1 else 0) = S j)%nat) by (rewrite Hc; destruct (ls_rule_step st); lia).
    change (feqb ArithR Lambda (f0 ArithR)) with (Reqb Lambda 0) in H.
    change (fadd ArithR (ls_time st) dt) with (ls_time st + dt) in H.
    change (fltb ArithR (ls_time st + dt) (ls_next_q st)) with (Rltb (ls_time st + dt) (ls_next_q st)) in H.
    (* the proposed time is not before the clock; when nothing can fire it is not before the next dt tick *)
    assert (Hprop : exists proposed rs pos1,
      (if Reqb Lambda 0 then ((if Rltb (ls_time st + dt) (ls_next_q st) then ls_next_q st else ls_time st + dt), true, posb)
       else let '(tau, pos') := exponential_rv ArithR Lambda u posb in (fadd ArithR (ls_time st) tau, false, pos'))
      = (proposed, rs, pos1) /\ ls_time st <= proposed /\ (Reqb Lambda 0 = true -> ls_next_q st <= proposed) /\ (Reqb Lambda 0 = false -> rs = false)).
    { destruct (Reqb Lambda 0) eqn:E0.
      - do 3 eexists. split; [reflexivity|]. destruct (Rltb (ls_time st + dt) (ls_next_q st)) eqn:El.
        + split; [lra|]. split; [intros _; lra|discriminate].
        + apply Rltb_false in El. split; [lra|]. split; [intros _; lra|discriminate].
      - pose proof (tau_nonneg u Hu Lambda posb HL E0) as Ht.
        destruct (exponential_rv ArithR Lambda u posb) as [tau pos'] eqn:Ee. cbn [fst] in Ht.
        do 3 eexists. split; [reflexivity|]. cbn [fadd ArithR]. split; [lra|]. split; [discriminate|reflexivity]. }
    destruct Hprop as (proposed & rs & pos1 & Hpe & Hp1 & Hp2 & Hp3). rewrite Hpe in H. clear Hpe.
    change (fltb ArithR (ls_next_q st) proposed) with (Rltb (ls_next_q st) proposed) in H.
    change (fleb ArithR (ls_next_q st) proposed) with (Rleb (ls_next_q st) proposed) in H.
    change (fltb ArithR (ls_next_q st) final) with (Rltb (ls_next_q st) final) in H.
    change (fltb ArithR (fsub ArithR final eps7) proposed) with (Rltb (final - eps7) proposed) in H.
    change (fadd ArithR (ls_next_q st) dt) with (ls_next_q st + dt) in H.
    destruct ((Rltb (ls_next_q st) proposed || Reqb Lambda 0 && Rleb (ls_next_q st) proposed) && Rltb (ls_next_q st) final) eqn:Ec.
    - (* the dt clock ticks: one more advance, rule_step is set *)
      destruct (record ArithR (tnext :: todo) (ls_next_q st) x1) as [rows rem].
      destruct (apply_volume_rules ArithR pi2 (ln_vrules l) x1 p1 (ls_V st) (ls_next_q st) dt u pos1) as [V' posv].
      destruct (fleb ArithR V' (f0 ArithR)); [discriminate|]. inversion H; subst st'; clear H.
      right. right. exists (S j). constructor; cbn [ls_next_q ls_time ls_rule_step].
      + rewrite Hnq, S_INR. ring.
      + lra.
      + lra.
      + rewrite Hcnt. lia.
    - destruct (Rltb (final - eps7) proposed) eqn:Ef.
      + (* the jump to the final time *)
        destruct (record ArithR (tnext :: todo) final x1) as [rows rem].
        destruct (apply_volume_rules ArithR pi2 (ln_vrules l) x1 p1 (ls_V st) final dt u pos1) as [V' posv].
        destruct (fleb ArithR V' (f0 ArithR)); [discriminate|]. inversion H; subst st'; clear H. right. left. reflexivity.
      + (* a firing before the next tick: no advance, rule_step is cleared *)
        apply Rltb_false in Ef.
        assert (Hle : proposed <= ls_next_q st /\ Reqb Lambda 0 = false).
        { apply andb_false_iff in Ec. destruct (Reqb Lambda 0) eqn:E0.
          - exfalso. specialize (Hp2 eq_refl). destruct Ec as [Ec|Ec].
            + apply orb_false_iff in Ec. destruct Ec as [_ Ec]. cbn [andb] in Ec. apply Rleb_false in Ec. lra.
            + apply Rltb_false in Ec. lra.
          - split; [|reflexivity]. destruct Ec as [Ec|Ec].
            + apply orb_false_iff in Ec. destruct Ec as [Ec _]. apply Rltb_false in Ec. lra.
            + apply Rltb_false in Ec. lra. }
        destruct Hle as [Hle E0]. rewrite (Hp3 E0) in H.
        destruct (record ArithR (tnext :: todo) proposed x1) as [rows rem].
        destruct (sample_discrete ArithR props Lambda u pos1) as [choice pos2].
        destruct ((choice <? 0)%Z || (Z.of_nat (length props) <=? choice)%Z); [discriminate|].
        assert (Hinv' : forall todo' x' pos' rows' vols' V', lcount_inv q1 (mkLst proposed todo' x' p1 false pos' rows' vols' (ls_next_q st) V' (-1)%Z (-1)%Z false) j
                                                                  (c + (if ls_rule_step st then 1 else 0))).
        { intros. constructor; cbn [ls_next_q ls_time ls_rule_step]; auto; try lra. rewrite Hcnt. lia. }
        destruct (Z.to_nat choice <? length (si_props (sm_if (ln_sim l))))%nat.
        { inversion H; subst st'. right. right. exists j. apply Hinv'. }
        destruct (Z.to_nat choice <? length (si_props (sm_if (ln_sim l))) + length (ln_vevents l))%nat.
        { match type of H with context [fleb ArithR ?v (f0 ArithR)] => destruct (fleb ArithR v (f0 ArithR)) end; [discriminate|].
          inversion H; subst st'. right. right. exists j. apply Hinv'. }
        destruct (Z.to_nat choice <? length (si_props (sm_if (ln_sim l))) + length (ln_vevents l) + length (ln_devents l))%nat;
          inversion H; subst st'; left; reflexivity.
  Qed.

  Lemma lcount_run q1 n : forall st st' j c, lcount_inv q1 st j c -> lrun n st = Done st' -> lplain n st ->
    exists j', lcount_inv q1 st' j' (c + lapps n st).
  Proof.
    induction n as [|n IH]; intros st st' j c Hinv H Hpl; simpl in H, Hpl |- *.
    - inversion H; subst. exists j. rewrite Nat.add_0_r. exact Hinv.
    - destruct (llive st) eqn:El; [|inversion H; subst; exists j; rewrite Nat.add_0_r; exact Hinv].
      destruct (lssa_iter ArithR pi2 eps9 eps7 l dt final t_init V_init u st) as [st1| |w] eqn:E; try discriminate.
      destruct Hpl as (Hs & Hf & Hpl).
      destruct (lcount_step q1 st st1 j c Hinv El E) as [Hstop|[Hfin|(j1 & Hinv1)]]; [congruence|contradiction|].
      destruct (IH st1 st' j1 _ Hinv1 H Hpl) as (j' & Hinv'). exists j'. rewrite Nat.add_assoc. exact Hinv'.
  Qed.
  Lemma lapps_snoc n : forall st stn, lrun n st = Done stn ->
    lapps (S n) st = (lapps n st + (if llive stn then (if ls_rule_step stn then 1 else 0) else 0))%nat.
  Proof.
    induction n as [|n IH]; intros st stn H.
    - simpl in H. inversion H; subst stn. simpl. destruct (llive st); [|reflexivity].
      destruct (lssa_iter ArithR pi2 eps9 eps7 l dt final t_init V_init u st); lia.
    - change (lrun (S n) st) with (if llive st then match lssa_iter ArithR pi2 eps9 eps7 l dt final t_init V_init u st with Done st' => lrun n st' | OutOfFuel => OutOfFuel | Fault w => Fault w end else Done st) in H.
      change (lapps (S (S n)) st) with (if llive st then ((if ls_rule_step st then 1 else 0) + match lssa_iter ArithR pi2 eps9 eps7 l dt final t_init V_init u st with Done st' => lapps (S n) st' | _ => 0 end)%nat else 0%nat).
      change (lapps (S n) st) with (if llive st then ((if ls_rule_step st then 1 else 0) + match lssa_iter ArithR pi2 eps9 eps7 l dt final t_init V_init u st with Done st' => lapps n st' | _ => 0 end)%nat else 0%nat).
      destruct (llive st) eqn:El.
      + destruct (lssa_iter ArithR pi2 eps9 eps7 l dt final t_init V_init u st) as [st1| |w]; try discriminate.
        rewrite (IH st1 stn H). lia.
      + inversion H; subst stn. rewrite El. reflexivity.
  Qed.
End LCount.

(* from the state a single-cell simulation starts from (grid t0 :: t1 :: _, dt = t1 - t0, clock at t_cur in [t0, t1]) *)
Theorem lineage_dt_rules_once_per_step (l : lin R) pi2 eps9 eps7 t_init V_init (u : nat -> R) :
  0 < eps7 -> (forall n, 0 < u n <= 1) -> (forall x p V t, 0 <= array_sum ArithR (lin_props ArithR l x p V t)) ->
  forall t0 t1 ts' t_cur V x0 pos n st, t0 <= t_cur <= t1 ->
  let ts := t0 :: t1 :: ts' in
  let init := mkLst t_cur ts x0 (si_params (sm_if (ln_sim l))) true pos [] [] t1 V (-1)%Z (-1)%Z false in
  lrun l pi2 eps9 eps7 (t1 - t0) (last ts t0) t_init V_init u n init = Done st ->
  lplain l pi2 eps9 eps7 (t1 - t0) (last ts t0) t_init V_init u n init ->
  exists j : nat,
    ls_next_q st = t1 + INR j * (t1 - t0) /\ ls_next_q st - (t1 - t0) <= ls_time st <= ls_next_q st /\
    lapps l pi2 eps9 eps7 (t1 - t0) (last ts t0) t_init V_init u n init = (j + (if ls_rule_step st then 0 else 1))%nat.
Proof.
  intros Heps Hu Hp t0 t1 ts' t_cur V x0 pos n st Ht ts init H Hpl.
  assert (Hinit : lcount_inv (t1 - t0) t1 init 0 0).
  { unfold init. constructor; cbn [ls_next_q ls_time ls_rule_step]; simpl INR; try lra. reflexivity. }
  destruct (lcount_run l pi2 eps9 eps7 (t1 - t0) (last ts t0) t_init V_init u Heps Hu Hp t1 n _ _ _ _ Hinit H Hpl) as (j & [Hnq Hlo Hhi Hc]).
  exists j. split; [exact Hnq|]. split; [lra|exact Hc].
Qed.

(* ... and whatever the next iteration does -- fire, tick, stop the cell (division / death) or jump to the final time -- it leaves
   exactly j + 1 applications behind: the pass for the step in progress is made once, never twice *)
Theorem lineage_dt_rules_next_iteration (l : lin R) pi2 eps9 eps7 t_init V_init (u : nat -> R) :
  0 < eps7 -> (forall n, 0 < u n <= 1) -> (forall x p V t, 0 <= array_sum ArithR (lin_props ArithR l x p V t)) ->
  forall t0 t1 ts' t_cur V x0 pos n st, t0 <= t_cur <= t1 ->
  let ts := t0 :: t1 :: ts' in
  let init := mkLst t_cur ts x0 (si_params (sm_if (ln_sim l))) true pos [] [] t1 V (-1)%Z (-1)%Z false in
  lrun l pi2 eps9 eps7 (t1 - t0) (last ts t0) t_init V_init u n init = Done st ->
  lplain l pi2 eps9 eps7 (t1 - t0) (last ts t0) t_init V_init u n init -> llive st = true ->
  exists j : nat,
    ls_next_q st = t1 + INR j * (t1 - t0) /\
    lapps l pi2 eps9 eps7 (t1 - t0) (last ts t0) t_init V_init u (S n) init = S j.
Proof.
  intros Heps Hu Hp t0 t1 ts' t_cur V x0 pos n st Ht ts init H Hpl Hlive.
  destruct (lineage_dt_rules_once_per_step l pi2 eps9 eps7 t_init V_init u Heps Hu Hp t0 t1 ts' t_cur V x0 pos n st Ht H Hpl) as (j & Hnq & _ & Hc).
  exists j. split; [exact Hnq|]. fold ts in Hc. fold init in Hc.
  rewrite (lapps_snoc l pi2 eps9 eps7 (t1 - t0) (last ts t0) t_init V_init u n init st H). rewrite Hc, Hlive.
  destruct (ls_rule_step st); lia.
Qed.
