(* Tie between the firing conditions REGENERATED from bioscrape/types.pyx (Gen/RulesGen.v, tools/tr_rules.py) and the hand
   model's `fires` (Model/Rules.v): any arithmetic; rule_step is C's unsigned flag (non-zero = set). *)
From Coq Require Import ZArith List Bool String.
From BS Require Import Base.Arith Base.CyPrelude Model.Term Model.Rules Gen.RulesGen.
Import ListNotations.

Lemma tie_rule_guards :
  forall F (A : Arith F) (r : rule F) (time dt volume : F) (rule_step : nat),
  gen_Rule_execute_rule_guard A {| Rule_frequency_flag := ru_freq r |} time dt rule_step = fires A r time (negb (Nat.eqb rule_step 0)) /\
  gen_Rule_execute_volume_rule_guard A {| Rule_frequency_flag := ru_freq r |} volume time dt rule_step = fires A r time (negb (Nat.eqb rule_step 0)).
Proof. intros; split; reflexivity. Qed.

(* what is handed on to the rule's operation: the caller's own state, parameters, (volume,) time and dt, in that order *)
Lemma tie_rule_passes :
  gen_execute_rule_passes = ["state"; "params"; "time"; "dt"]%string /\
  gen_execute_volume_rule_passes = ["state"; "params"; "volume"; "time"; "dt"]%string.
Proof. split; reflexivity. Qed.
