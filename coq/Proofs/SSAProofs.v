(* Invariants of the SSA loop model, for every stream, fuel, grid and network size. *)
From Coq Require Import ZArith List Bool Lia Arith.
From BS Require Import Base.Arith Model.Term Model.Propensity Model.Interface Model.Rules Model.Random Model.Queue Model.SSA.
Import ListNotations.

Section Reach.
  Context {F : Type} (A : Arith F).
  Variable s : sim F.
  Notation Sm := (si_S (sm_if s)). Notation Sdm := (si_Sd (sm_if s)).
  Notation nrx := (length (si_props (sm_if s))).

  (* y is reached from x by firing the reactions rs in order (each adds one column of S + Sd) *)
  Definition fire (x : list F) (r : nat) : list F := add_col2 A x Sm Sdm r.
  Definition reachable (x y : list F) : Prop :=
    exists rs : list nat, Forall (fun r => (r < nrx)%nat) rs /\ y = fold_left fire rs x.

  Lemma reachable_refl x : reachable x x.
  Proof. exists []. split; [constructor|reflexivity]. Qed.
  Lemma reachable_step x y r : reachable x y -> (r < nrx)%nat -> reachable x (fire y r).
  Proof.
    intros (rs & Hrs & ->) Hr. exists (rs ++ [r]). split.
    - apply Forall_app. split; auto.
    - rewrite fold_left_app. reflexivity.
  Qed.
  Lemma reachable_trans x y z : reachable x y -> reachable y z -> reachable x z.
  Proof.
    intros (r1 & H1 & ->) (r2 & H2 & ->). exists (r1 ++ r2). split.
    - apply Forall_app; auto.
    - rewrite fold_left_app. reflexivity.
  Qed.

  (* consecutive rows are linked by reachability, starting from `from` *)
  Fixpoint chain (from : list F) (rows : list (list F)) : Prop :=
    match rows with
    | [] => True
    | r :: rest => reachable from r /\ chain r rest
    end.
  Definition last_or (from : list F) (rows : list (list F)) : list F := last rows from.

  Lemma last_cons (r : list F) rest from : last (r :: rest) from = last rest r.
  Proof.
    revert r from; induction rest as [|a rest IH]; intros r from; [reflexivity|].
    change (last (r :: a :: rest) from) with (last (a :: rest) from). rewrite IH.
    symmetry. apply IH.
  Qed.

  Lemma last_app_ne (l1 l2 : list (list F)) d : l2 <> [] -> last (l1 ++ l2) d = last l2 d.
  Proof.
    intros H. induction l1 as [|a l1 IH]; [reflexivity|].
    change ((a :: l1) ++ l2) with (a :: (l1 ++ l2)). rewrite last_cons.
    destruct (l1 ++ l2) eqn:E.
    - destruct l1; simpl in E; [contradiction|discriminate].
    - rewrite <- E. rewrite <- IH. rewrite E. rewrite !last_cons. reflexivity.
  Qed.

  Lemma chain_app from rows1 rows2 : chain from rows1 -> chain (last_or from rows1) rows2 -> chain from (rows1 ++ rows2).
  Proof.
    revert from; induction rows1 as [|r rest IH]; intros from H1 H2; cbn [chain app] in *; auto.
    destruct H1 as [Hr Hc]. split; auto. apply IH; auto.
    unfold last_or in *. rewrite last_cons in H2. exact H2.
  Qed.

  Lemma record_rows ts time row : forall rows rem, record A ts time row = (rows, rem) ->
    Forall (fun r => r = row) rows /\ exists k, rows = repeat row k /\ rem = skipn k ts /\ (k <= length ts)%nat.
  Proof.
    induction ts as [|t ts IH]; intros rows rem H; simpl in H.
    - inversion H; subst. split; [constructor|]. exists 0%nat. simpl. auto.
    - destruct (fleb A t time).
      + destruct (record A ts time row) as [rows' rem'] eqn:E. inversion H; subst.
        destruct (IH rows' rem eq_refl) as (Hall & k & -> & -> & Hk).
        split; [constructor; auto|]. exists (S k). simpl. repeat split; auto. lia.
      + inversion H; subst. split; [constructor|]. exists 0%nat. simpl. repeat split; auto. lia.
  Qed.

  Lemma chain_repeat from row k : reachable from row -> chain from (repeat row k).
  Proof.
    intros H. revert from H. induction k as [|k IH]; intros from H; simpl; auto.
    split; auto. apply IH. apply reachable_refl.
  Qed.
  Lemma last_repeat from (row : list F) k : last_or from (repeat row k) = match k with O => from | _ => row end.
  Proof.
    unfold last_or. destruct k as [|k]; [reflexivity|].
    induction k as [|k IH]; simpl in *; auto.
  Qed.

  Hypothesis no_rules : sm_rules s = [].

  (* invariant: the rows form a chain from x0 and the current state is reachable from the last row *)
  Definition ssa_inv (x0 : list F) (st : ssa_state (F:=F)) : Prop :=
    chain x0 (ss_rows st) /\ reachable (last_or x0 (ss_rows st)) (ss_x st).

  Lemma ssa_iter_inv u x0 st st' : ssa_inv x0 st -> ssa_iter A s u st = Done st' -> ssa_inv x0 st'.
  Proof.
    intros [Hc Hr] H. unfold ssa_iter in H.
    destruct (ss_todo st) as [|tnext todo] eqn:Et; [inversion H; subst; split; auto|].
    rewrite no_rules in H. cbn [apply_rules fold_left] in H.
    set (props := stoch_props A s Stoch (ss_x st) (ss_p st) (f1 A) (ss_time st)) in *.
    set (Lambda := array_sum A props) in *.
    destruct (if feqb A Lambda (f0 A) then (tnext, false, true, ss_pos st)
              else let '(tau, pos') := exponential_rv A Lambda u (ss_pos st) in (fadd A (ss_time st) tau, true, false, pos'))
      as [[[proposed fired] rs] pos1] eqn:E1.
    destruct (if fltb A tnext proposed then (tnext, false, true) else (proposed, fired, rs)) as [[time' fired'] rs'] eqn:E2.
    destruct (record A (tnext :: todo) time' (ss_x st)) as [rows rem] eqn:E3.
    destruct (record_rows _ _ _ _ _ E3) as (_ & k & -> & _ & _).
    assert (Hchain : chain x0 (ss_rows st ++ repeat (ss_x st) k)).
    { apply chain_app; auto. apply chain_repeat; auto. }
    assert (Hlast : reachable (last_or x0 (ss_rows st ++ repeat (ss_x st) k)) (ss_x st)).
    { unfold last_or. destruct k as [|k]; [simpl; rewrite app_nil_r; exact Hr|].
      rewrite last_app_ne by (simpl; discriminate).
      change (last (repeat (ss_x st) (S k)) x0) with (last_or x0 (repeat (ss_x st) (S k))).
      rewrite last_repeat. apply reachable_refl. }
    destruct (fltb A (f0 A) Lambda && fired').
    - destruct (sample_discrete A props Lambda u pos1) as [choice pos2].
      destruct ((choice <? 0)%Z || (Z.of_nat (length props) <=? choice)%Z) eqn:Eb; [discriminate|].
      inversion H; subst; clear H. split; simpl; auto.
      apply reachable_step; auto.
      apply orb_false_iff in Eb. destruct Eb as [E0 E3'].
      apply Z.ltb_ge in E0. apply Z.leb_gt in E3'.
      assert (Hlen : length props = nrx).
      { unfold props, stoch_props. destruct (sm_safe s); unfold compute_safe, compute_plain, with_params; simpl;
          rewrite map_length; try rewrite combine_length, seq_length; lia. }
      lia.
    - inversion H; subst; clear H. split; simpl; auto.
  Qed.

  Theorem ssa_rows_chain fuel u : forall st st' x0, ssa_inv x0 st -> ssa_loop A fuel s u st = Done st' -> ssa_inv x0 st'.
  Proof.
    induction fuel as [|fuel IH]; intros st st' x0 Hinv H; simpl in H.
    - destruct (ss_todo st); [inversion H; subst; auto|discriminate].
    - destruct (ss_todo st) eqn:Et; [inversion H; subst; auto|].
      destruct (ssa_iter A s u st) as [st1| |w] eqn:E; try discriminate.
      eapply IH; [|exact H]. eapply ssa_iter_inv; eauto.
  Qed.

  (* every reported row sequence is a reaction path from the initial state *)
  Theorem ssa_rows_are_paths fuel ts u pos st :
    ssa_simulate A fuel s ts u pos = Done st -> chain (sm_x0 s) (ss_rows st).
  Proof.
    intros H. unfold ssa_simulate in H.
    apply (ssa_rows_chain fuel u _ _ (sm_x0 s)) in H; [apply H|].
    unfold ssa_inv, ssa_init; simpl. split; auto. apply reachable_refl.
  Qed.
End Reach.

Section Absorb.
  Context {F : Type} (A : Arith F).
  Variable s : sim F.
  Hypothesis no_rules : sm_rules s = [].

  (* a state whose total propensity is zero at every time persists: no draw is consumed, every
     remaining row equals it *)
  Definition dead (x p : list F) : Prop :=
    forall t, feqb A (array_sum A (stoch_props A s Stoch x p (f1 A) t)) (f0 A) = true.

  Lemma ssa_iter_dead u st st' : dead (ss_x st) (ss_p st) -> ssa_iter A s u st = Done st' ->
    ss_x st' = ss_x st /\ ss_p st' = ss_p st /\ ss_pos st' = ss_pos st /\
    exists k, ss_rows st' = ss_rows st ++ repeat (ss_x st) k.
  Proof.
    intros Hd H. unfold ssa_iter in H.
    destruct (ss_todo st) as [|tnext todo] eqn:Et.
    - inversion H; subst. repeat split; auto. exists 0%nat. simpl. rewrite app_nil_r. reflexivity.
    - rewrite no_rules in H. cbn [apply_rules fold_left] in H.
      rewrite (Hd (ss_time st)) in H.
      destruct (fltb A tnext tnext);
        destruct (record A (tnext :: todo) tnext (ss_x st)) as [rows rem] eqn:E3;
        destruct (record_rows A _ _ _ _ _ E3) as (_ & k & -> & _ & _);
        rewrite andb_false_r in H; inversion H; subst; simpl; repeat split; auto; exists k; reflexivity.
  Qed.

  Theorem ssa_absorbing fuel u : forall st st', dead (ss_x st) (ss_p st) -> ssa_loop A fuel s u st = Done st' ->
    ss_x st' = ss_x st /\ ss_pos st' = ss_pos st /\ exists k, ss_rows st' = ss_rows st ++ repeat (ss_x st) k.
  Proof.
    induction fuel as [|fuel IH]; intros st st' Hd H; simpl in H.
    - destruct (ss_todo st); [|discriminate]. inversion H; subst. repeat split; auto. exists 0%nat. simpl. rewrite app_nil_r. reflexivity.
    - destruct (ss_todo st) eqn:Et.
      + inversion H; subst. repeat split; auto. exists 0%nat. simpl. rewrite app_nil_r. reflexivity.
      + destruct (ssa_iter A s u st) as [st1| |w] eqn:E; try discriminate.
        destruct (ssa_iter_dead u st st1 Hd E) as (Ex & Ep & Epos & k1 & Er).
        assert (Hd1 : dead (ss_x st1) (ss_p st1)) by (rewrite Ex, Ep; exact Hd).
        destruct (IH st1 st' Hd1 H) as (Ex' & Epos' & k2 & Er').
        rewrite Ex', Epos', Ex, Epos. repeat split; auto. exists (k1 + k2)%nat.
        rewrite Er', Er, Ex, <- app_assoc, repeat_app. reflexivity.
  Qed.
End Absorb.
