From Coq Require Import ZArith List Bool Lia Arith.
From BS Require Import Base.Arith Model.Term Model.Propensity Model.Interface.
Import ListNotations.

Section IP.
  Context {F : Type} (A : Arith F).

  Theorem plain_nth (si : simif F) m x V t r d pd : (r < length (si_props si))%nat ->
    nth r (compute_plain A si m x V t) d = prop_eval A (nth r (si_props si) pd) m x (si_params si) V t.
  Proof.
    intros H. unfold compute_plain.
    rewrite (nth_indep _ d (prop_eval A pd m x (si_params si) V t)) by (rewrite map_length; auto).
    apply (map_nth (fun pr => prop_eval A pr m x (si_params si) V t)).
  Qed.

  Lemma combine_seq_nth {T} (l : list T) r d : (r < length l)%nat ->
    nth r (combine (seq 0 (length l)) l) (0%nat, d) = (r, nth r l d).
  Proof.
    intros H. rewrite combine_nth by (rewrite seq_length; reflexivity).
    rewrite seq_nth by auto. reflexivity.
  Qed.

  Theorem safe_nth (si : simif F) m x V t r d pd : (r < length (si_props si))%nat ->
    nth r (compute_safe A si m x V t) d =
      let raw := prop_eval A (nth r (si_props si) pd) m x (si_params si) V t in
      match m with
      | Vol => raw
      | Det => clip A raw
      | Stoch | StochVol => if short A x (need_row si r) then f0 A else clip A raw
      end.
  Proof.
    intros H. unfold compute_safe.
    set (g := fun rp : nat * prop F => _).
    rewrite (nth_indep _ d (g (0%nat, pd))) by (rewrite map_length, combine_length, seq_length; lia).
    rewrite (map_nth g). rewrite combine_seq_nth by auto. reflexivity.
  Qed.

  Theorem short_spec x row : short A x row = true <->
    exists s a, In (s, a) row /\ fltb A (getv A x s) (fofZ A a) = true.
  Proof.
    unfold short. rewrite existsb_exists. split.
    - intros ([s a] & Hin & H). exists s, a. auto.
    - intros (s & a & Hin & H). exists (s, a). auto.
  Qed.

  Theorem need_row_spec (si : simif F) r s a : In (s, a) (need_row si r) <->
    (s < si_nspecies si)%nat /\
    ((sget (si_S si) s r < 0)%Z \/ (sget (si_Sd si) s r < 0)%Z) /\
    a = need_amount (sget (si_S si) s r) (sget (si_Sd si) s r).
  Proof.
    unfold need_row. rewrite in_flat_map. split.
    - intros (s' & Hs' & Hin). apply in_seq in Hs'.
      destruct ((sget (si_S si) s' r <? 0)%Z || (sget (si_Sd si) s' r <? 0)%Z) eqn:E; [|destruct Hin].
      destruct Hin as [Heq|[]]. inversion Heq; subst. split; [lia|]. split; [|reflexivity].
      apply orb_true_iff in E. destruct E as [E|E]; apply Z.ltb_lt in E; auto.
    - intros (Hs & Hneg & ->). exists s. split; [apply in_seq; lia|].
      assert (E : (sget (si_S si) s r <? 0)%Z || (sget (si_Sd si) s r <? 0)%Z = true).
      { apply orb_true_iff. destruct Hneg as [H|H]; [left|right]; apply Z.ltb_lt; auto. }
      rewrite E. left. reflexivity.
  Qed.

  (* the scan of a row never needs more than num_species entries *)
  Theorem need_row_length (si : simif F) r : (length (need_row si r) <= si_nspecies si)%nat.
  Proof.
    unfold need_row. rewrite <- (seq_length (si_nspecies si) 0) at 2.
    generalize (seq 0 (si_nspecies si)) as l.
    induction l as [|s l IH]; [simpl; lia|].
    cbn [flat_map]. rewrite app_length. cbn [length].
    destruct ((sget (si_S si) s r <? 0)%Z || (sget (si_Sd si) s r <? 0)%Z); cbn [length]; lia.
  Qed.

  (* the amount required covers what the firing removes, immediately and after the delay *)
  Theorem need_amount_sufficient a d : (a < 0 \/ d < 0)%Z ->
    (0 < need_amount a d)%Z /\ (- (a + d) <= need_amount a d)%Z /\ (- a <= need_amount a d)%Z.
  Proof.
    intros H. unfold need_amount.
    destruct (Z.ltb_spec a 0), (Z.ltb_spec d 0); simpl; lia.
  Qed.
End IP.
