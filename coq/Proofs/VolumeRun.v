(* C11: whole-run clock / volume invariant of the volume-aware loop over the reals: the volume reported
   for a grid time is the growth law at the last volume-grid point not after it ("within one step"). *)
From Coq Require Import ZArith Reals List Bool Lia Lra Arith Sorted.
From BS Require Import Base.Arith Model.Term Model.Propensity Model.Interface Model.Rules Model.Random Model.Queue Model.SSA
  Proofs.SSAProofs Proofs.VolumeProofs.
Import ListNotations.
Local Open Scope R_scope.

(* record over the reals: the recorded prefix is exactly the grid points <= time *)
Lemma record_spec (ts : list R) time (row : list R) :
  exists k, record ArithR ts time row = (repeat row k, skipn k ts) /\ (k <= length ts)%nat /\
            Forall (fun t => t <= time) (firstn k ts) /\ (forall t rest, skipn k ts = t :: rest -> time < t).
Proof.
  induction ts as [|t ts IH]; [exists 0%nat; simpl; repeat split; auto; discriminate|].
  cbn [record]. change (fleb ArithR t time) with (Rleb t time).
  destruct (Rleb t time) eqn:E.
  - destruct IH as (k & Hr & Hk & Hf & Hn). exists (S k). rewrite Hr. cbn [repeat skipn firstn length].
    repeat split; auto; [lia|]. constructor; auto. apply Rleb_true; auto.
  - exists 0%nat. cbn [repeat skipn firstn]. repeat split; auto; [simpl; lia|].
    intros t' rest H. inversion H; subst. apply Rleb_false; auto.
Qed.

Lemma fold_sum_nonneg (l : list R) : forall a, 0 <= a -> Forall (fun v => 0 <= v) l -> 0 <= fold_left (fun acc v => acc + v) l a.
Proof.
  induction l as [|v l IH]; intros a Ha H; simpl; [exact Ha|].
  inversion H; subst. apply IH; auto. lra.
Qed.
Lemma array_sum_nonneg (l : list R) : Forall (fun v => 0 <= v) l -> 0 <= array_sum ArithR l.
Proof. intros H. unfold array_sum. apply (fold_sum_nonneg l 0); [lra|exact H]. Qed.

Section Run.
  Variable s : sim R.
  Variables g dtime V0 : R.
  Notation vm := (VTimeThreshold g dtime).
  Notation dt := (sm_dt s). Notation t0 := (sm_t0 s).
  Variable u : nat -> R.
  Hypothesis Hdt : 0 < dt.
  Hypothesis Hu : forall n, 0 < u n <= 1.
  Hypothesis Hprops : forall x p V t, 0 <= array_sum ArithR (stoch_props ArithR s StochVol x p V t).

  Lemma tau_nonneg Lambda pos : 0 <= Lambda -> Reqb Lambda 0 = false -> 0 <= fst (exponential_rv ArithR Lambda u pos).
  Proof.
    intros H0 Hne. unfold exponential_rv. cbn [fst fofZ fdiv fmul flog ArithR].
    assert (Lambda <> 0). { intros E. subst. unfold Reqb in Hne. destruct (Req_EM_T 0 0); [discriminate|lra]. }
    assert (HL : 0 < Lambda) by lra.
    destruct (Hu pos) as [Hp H1].
    assert (ln (u pos) <= 0). { rewrite <- ln_1. destruct H1 as [H1|H1]; [left; apply ln_increasing; auto|rewrite H1; lra]. }
    assert (Hq : 0 < / Lambda) by (apply Rinv_0_lt_compat; auto).
    replace (-1 / Lambda * ln (u pos)) with (/ Lambda * (- ln (u pos))) by (field; lra).
    apply Rmult_le_pos; lra.
  Qed.

  (* one recorded (grid time, volume) pair is right: the volume is the growth law after j steps and
     the grid time lies in the j-th volume interval *)
  Definition pair_ok (T v : R) : Prop :=
    exists j : nat, v = grow V0 g dt j /\ t0 + INR j * dt <= T <= t0 + INR (S j) * dt.

  Record clock_inv (ts : list R) (st : vssa_state (F:=R)) (j : nat) : Prop := {
    ci_nq : vs_next_q st = t0 + INR (S j) * dt;
    ci_V : vs_V st = grow V0 g dt j;
    ci_lo : t0 + INR j * dt <= vs_time st;
    ci_hi : vs_time st <= vs_next_q st;
    ci_rec : exists done rest, ts = done ++ rest /\ (vs_todo st = rest \/ (vs_todo st = [] /\ vs_divided st = true)) /\
                               Forall2 pair_ok done (vs_vols st) /\ Forall (fun t => vs_time st <= t) rest
  }.

  Lemma sorted_skipn_gt (l : list R) k time : StronglySorted Rle l ->
    (forall t rest, skipn k l = t :: rest -> time < t) -> Forall (fun t => time <= t) (skipn k l).
  Proof.
    intros Hs Hn. assert (Hs' : StronglySorted Rle (skipn k l)).
    { clear Hn. revert l Hs. induction k as [|k IH]; intros l Hs; [exact Hs|]. destruct l; [constructor|]. simpl. apply IH. inversion Hs; auto. }
    destruct (skipn k l) as [|t rest] eqn:E; [constructor|].
    specialize (Hn t rest eq_refl). inversion Hs' as [|? ? Hs'' Hall]; subst. constructor; [lra|].
    rewrite Forall_forall in *. intros x Hx. specialize (Hall x Hx). lra.
  Qed.

  Lemma Forall2_app_repeat (done : list R) vols (pre : list R) v :
    Forall2 pair_ok done vols -> Forall (fun T => pair_ok T v) pre -> Forall2 pair_ok (done ++ pre) (vols ++ repeat v (length pre)).
  Proof.
    intros H1 H2. apply Forall2_app; auto. induction H2; simpl; constructor; auto.
  Qed.

  Lemma clock_iter ts st st' j : StronglySorted Rle ts -> clock_inv ts st j -> vs_todo st <> [] ->
    vssa_iter ArithR s vm u st = Done st' -> exists j', clock_inv ts st' j'.
  Proof.
    intros Hsorted [Hnq HV Hlo Hhi (done & rest & Hts & Htodo & Hpairs & Hrest)] Hne H.
    destruct Htodo as [Htodo|[Htodo _]]; [|contradiction].
    unfold vssa_iter in H. destruct (vs_todo st) as [|tnext todo] eqn:Et; [contradiction|]. clear Hne. subst rest.
    destruct (apply_rules ArithR (sm_rules s) (Some (vs_V st)) (vs_x st, vs_p st) (vs_time st) dt (vs_rule_step st)) as [x1 p1] eqn:Er.
    set (props := stoch_props ArithR s StochVol x1 p1 (vs_V st) (vs_time st)) in *.
    set (Lambda := array_sum ArithR props) in *.
    assert (HL : 0 <= Lambda) by apply Hprops.
    (* the proposed time is never before the current time *)
    assert (Hprop : exists proposed fired rs toq pos1,
      (if feqb ArithR Lambda (f0 ArithR) then (fadd ArithR (vs_next_q st) dt, false, true, true, vs_pos st)
       else let '(tau, pos') := exponential_rv ArithR Lambda u (vs_pos st) in (fadd ArithR (vs_time st) tau, true, false, false, pos'))
      = (proposed, fired, rs, toq, pos1) /\ vs_time st <= proposed /\ (toq = true -> vs_next_q st < proposed)).
    { change (feqb ArithR Lambda (f0 ArithR)) with (Reqb Lambda 0). destruct (Reqb Lambda 0) eqn:E0.
      - do 5 eexists. split; [reflexivity|]. cbn [fadd ArithR]. split; [lra|]. intros _. lra.
      - pose proof (tau_nonneg Lambda (vs_pos st) HL E0) as Ht.
        destruct (exponential_rv ArithR Lambda u (vs_pos st)) as [tau pos'] eqn:Ee. cbn [fst] in Ht.
        do 5 eexists. split; [reflexivity|]. cbn [fadd ArithR]. split; [lra|]. discriminate. }
    destruct Hprop as (proposed & fired & rs & toq & pos1 & Hpe & Hp1 & Hp2). rewrite Hpe in H. clear Hpe.
    change (fltb ArithR (vs_next_q st) proposed) with (Rltb (vs_next_q st) proposed) in H.
    destruct (record_spec (tnext :: todo) (if Rltb (vs_next_q st) proposed then vs_next_q st else proposed) x1) as (k & Hrec & Hk & Hfirst & Hnext).
    assert (Hsr : StronglySorted Rle (tnext :: todo)).
    { rewrite Hts in Hsorted. clear -Hsorted. induction done; simpl in *; auto. inversion Hsorted; auto. }
    destruct (Rltb (vs_next_q st) proposed) eqn:Eq.
    - (* the next volume step comes first *)
      apply Rltb_true in Eq. rewrite Hrec in H.
      inversion H; subst st'; clear H. exists (S j).
      constructor; cbn [vs_next_q vs_V vs_time vs_todo vs_vols vs_divided].
      + rewrite Hnq. cbn [fadd ArithR]. rewrite (S_INR (S j)). ring.
      + rewrite HV. cbn [grow]. ring.
      + rewrite Hnq. lra.
      + cbn [fadd ArithR]. lra.
      + exists (done ++ firstn k (tnext :: todo)), (skipn k (tnext :: todo)).
        split; [rewrite <- app_assoc, firstn_skipn; exact Hts|].
        split; [match goal with |- context [if ?b then _ else _] => destruct b end; auto|].
        split.
        * replace (map (fun _ => vs_V st) (repeat x1 k)) with (repeat (vs_V st) (length (firstn k (tnext :: todo)))).
          2:{ rewrite firstn_length_le by exact Hk. clear. induction k; simpl; congruence. }
          apply Forall2_app_repeat; auto.
          rewrite Forall_forall in *. intros T HT. exists j. split; [exact HV|].
          specialize (Hfirst T HT). split.
          -- assert (In T (tnext :: todo)) by (rewrite <- (firstn_skipn k (tnext :: todo)); apply in_or_app; left; exact HT).
             specialize (Hrest T H). lra.
          -- rewrite Hnq in Hfirst. exact Hfirst.
        * apply sorted_skipn_gt; [exact Hsr|exact Hnext].
    - (* the proposed time comes first (a firing or a grid stop): no volume step *)
      apply Rltb_false in Eq. rewrite Hrec in H.
      assert (Htoq : toq = false) by (destruct toq; auto; specialize (Hp2 eq_refl); lra). subst toq.
      assert (Hinv' : forall x' rs' pos', clock_inv ts (mkVssa proposed (skipn k (tnext :: todo)) x' p1 rs' pos' (vs_rows st ++ repeat x1 k)
                        (vs_vols st ++ map (fun _ => vs_V st) (repeat x1 k)) (vs_next_q st) (vs_V st) false) j).
      { intros x' rs' pos'. constructor; cbn [vs_next_q vs_V vs_time vs_todo vs_vols vs_divided]; auto; try lra.
        exists (done ++ firstn k (tnext :: todo)), (skipn k (tnext :: todo)).
        split; [rewrite <- app_assoc, firstn_skipn; exact Hts|]. split; [auto|]. split.
        - replace (map (fun _ => vs_V st) (repeat x1 k)) with (repeat (vs_V st) (length (firstn k (tnext :: todo)))).
          2:{ rewrite firstn_length_le by exact Hk. clear. induction k; simpl; congruence. }
          apply Forall2_app_repeat; auto.
          rewrite Forall_forall in *. intros T HT. exists j. split; [exact HV|].
          specialize (Hfirst T HT). split.
          + assert (In T (tnext :: todo)) by (rewrite <- (firstn_skipn k (tnext :: todo)); apply in_or_app; left; exact HT).
            specialize (Hrest T H0). lra.
          + rewrite Hnq in *. lra.
        - apply sorted_skipn_gt; [exact Hsr|exact Hnext]. }
      destruct fired.
      + destruct (sample_discrete ArithR props Lambda u pos1) as [choice pos2].
        destruct ((choice <? 0)%Z || (Z.of_nat (length props) <=? choice)%Z); [discriminate|].
        inversion H; subst st'. exists j. apply Hinv'.
      + inversion H; subst st'. exists j. apply Hinv'.
  Qed.

  Theorem clock_loop ts fuel : StronglySorted Rle ts -> forall st st' j, clock_inv ts st j ->
    vssa_loop ArithR fuel s vm u st = Done st' -> exists j', clock_inv ts st' j'.
  Proof.
    intros Hs. induction fuel as [|fuel IH]; intros st st' j Hinv H; simpl in H.
    - destruct (vs_todo st); [|discriminate]. inversion H; subst. eauto.
    - destruct (vs_todo st) eqn:Et; [inversion H; subst; eauto|].
      destruct (vssa_iter ArithR s vm u st) as [st1| |w] eqn:E; try discriminate.
      destruct (clock_iter ts st st1 j Hs Hinv) as (j1 & Hinv1); [rewrite Et; discriminate|exact E|].
      eapply IH; eauto.
  Qed.

  (* whole run: every reported volume is the growth law after j whole steps, where the grid time it is reported
     for lies in the j-th step interval [t0 + j dt, t0 + (j+1) dt]; all requested times are reported unless the
     cell divided *)
  Theorem volume_run ts fuel pos st : StronglySorted Rle ts -> Forall (fun t => t0 <= t) ts ->
    vssa_simulate ArithR fuel s vm V0 ts u pos = Done st ->
    exists done rest, ts = done ++ rest /\ Forall2 pair_ok done (vs_vols st) /\ (rest = [] \/ vs_divided st = true).
  Proof.
    intros Hs H0 H. unfold vssa_simulate in H.
    assert (Hinit : clock_inv ts (mkVssa t0 ts (sm_x0 s) (si_params (sm_if s)) true pos [] [] (fadd ArithR dt t0) V0 false) 0).
    { constructor; cbn [vs_next_q vs_V vs_time vs_todo vs_vols vs_divided fadd ArithR grow]; simpl INR; try lra.
      exists [], ts. repeat split; auto. }
    destruct (clock_loop ts fuel Hs _ _ _ Hinit H) as (j & Hinv).
    destruct (ci_rec _ _ _ Hinv) as (done & rest & Hts & Htodo & Hpairs & _).
    exists done, rest. repeat split; auto.
    assert (Hend : vs_todo st = []).
    { clear -H. revert H. generalize (mkVssa t0 ts (sm_x0 s) (si_params (sm_if s)) true pos [] [] (fadd ArithR dt t0) V0 false).
      induction fuel as [|fuel IH]; intros st0 H; simpl in H.
      - destruct (vs_todo st0) eqn:E; [inversion H; subst; auto|discriminate].
      - destruct (vs_todo st0) eqn:E; [inversion H; subst; auto|].
        destruct (vssa_iter ArithR s vm u st0); try discriminate. eapply IH; eauto. }
    destruct Htodo as [Ht|[_ Hd]]; [left; congruence|right; exact Hd].
  Qed.
End Run.

Lemma Forall2_imp {X Y} (P Q : X -> Y -> Prop) l1 l2 : (forall a b, P a b -> Q a b) -> Forall2 P l1 l2 -> Forall2 Q l1 l2.
Proof. intros H F. induction F; constructor; auto. Qed.

Theorem volume_run_closed (s : sim R) g dtime V0 (u : nat -> R) : 0 < sm_dt s -> (forall n, 0 < u n <= 1) ->
  (forall x p V t, 0 <= array_sum ArithR (stoch_props ArithR s StochVol x p V t)) ->
  forall ts fuel pos st, StronglySorted Rle ts -> Forall (fun t => sm_t0 s <= t) ts ->
  vssa_simulate ArithR fuel s (VTimeThreshold g dtime) V0 ts u pos = Done st ->
  exists done rest, ts = done ++ rest /\
    Forall2 (fun T v => exists j : nat, v = V0 * exp (g * sm_dt s * INR j) /\
                         sm_t0 s + INR j * sm_dt s <= T <= sm_t0 s + INR (S j) * sm_dt s) done (vs_vols st) /\
    (rest = [] \/ vs_divided st = true).
Proof.
  intros Hdt Hu Hp ts fuel pos st Hs H0 H.
  destruct (volume_run s g dtime V0 u Hdt Hu Hp ts fuel pos st Hs H0 H) as (done & rest & E & Hf & Hr).
  exists done, rest. split; [exact E|]. split; [|exact Hr].
  eapply Forall2_imp; [|exact Hf]. intros T v (j & Hv & Ht). exists j. split; [rewrite Hv; apply growth_law|exact Ht].
Qed.

(* the hypothesis on the propensities holds for every model run through the safe interface: each
   entry is either zeroed or clipped at 0 *)
Lemma safe_props_nonneg (s : sim R) : sm_safe s = true ->
  forall x p V t, 0 <= array_sum ArithR (stoch_props ArithR s StochVol x p V t).
Proof.
  intros Hsafe x p V t. apply array_sum_nonneg. unfold stoch_props. rewrite Hsafe. unfold compute_safe.
  apply Forall_forall. intros v Hin. apply in_map_iff in Hin. destruct Hin as (rp & <- & _).
  destruct (short ArithR x (need_row (with_params (sm_if s) p) (fst rp))); [cbn; lra|].
  unfold clip. cbn [fltb f0 ArithR]. destruct (Rltb _ 0) eqn:E; [lra|]. apply Rltb_false in E. exact E.
Qed.
