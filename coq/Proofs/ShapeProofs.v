(* C07: shapes of the other stochastic results: one row per requested time for the delay-capable loop; for the
   volume-aware loop one row and one volume per requested time unless the cell divided (then a prefix). *)
From Coq Require Import ZArith List Bool Lia Arith.
From BS Require Import Base.Arith Model.Term Model.Propensity Model.Interface Model.Rules Model.Random Model.Queue Model.SSA Proofs.SSAProofs.
Import ListNotations.

Section Shape2.
  Context {F : Type} (A : Arith F) (pi2 : F).
  Variable s : sim F.

  Lemma dssa_iter_count gfuel u st st' : dssa_iter A pi2 gfuel s u st = Done st' ->
    (length (ds_rows st') + length (ds_todo st') = length (ds_rows st) + length (ds_todo st))%nat.
  Proof.
    intros H. unfold dssa_iter in H.
    destruct (ds_todo st) as [|tnext todo] eqn:Et; [inversion H; subst; rewrite Et; reflexivity|].
    destruct (apply_rules A (sm_rules s) None (ds_x st, ds_p st) (ds_time st) (sm_dt s) (ds_rule_step st)) as [x1 p1].
    set (props := stoch_props A s Stoch x1 p1 (f1 A) (ds_time st)) in *.
    set (Lambda := array_sum A props) in *.
    destruct (if feqb A Lambda (f0 A) then (tnext, false, true, ds_pos st)
              else let '(tau, pos') := exponential_rv A Lambda u (ds_pos st) in (fadd A (ds_time st) tau, true, false, pos'))
      as [[[proposed fired] rs] pos1].
    destruct (if fltb A tnext proposed then (tnext, false, true) else (proposed, fired, rs)) as [[proposed' fired'] rs'].
    destruct (if fltb A (q_next_time (ds_q st)) proposed' then (q_next_time (ds_q st), true, false, false) else (proposed', false, fired', rs'))
      as [[[time' toq] fired''] rs''].
    destruct (record A (tnext :: todo) time' x1) as [rows rem] eqn:E3.
    destruct (record_rows A _ _ _ _ _ E3) as (_ & k & -> & -> & Hk).
    assert (Hc : (length (ds_rows st ++ repeat x1 k) + length (skipn k (tnext :: todo)) = length (ds_rows st) + length (tnext :: todo))%nat).
    { rewrite app_length, repeat_length, skipn_length. lia. }
    destruct toq; [inversion H; subst; simpl; exact Hc|].
    destruct fired''; [|inversion H; subst; simpl; exact Hc].
    destruct (sample_discrete A props Lambda u pos1) as [choice pos2].
    destruct ((choice <? 0)%Z || (Z.of_nat (length props) <=? choice)%Z); [discriminate|].
    destruct (compute_delay A pi2 gfuel (nth (Z.to_nat choice) (sm_delays s) DNone) p1 u pos2) as [[dl pos3]|]; [|discriminate].
    destruct (fltb A (f0 A) dl).
    - destruct (q_add A (fadd A) (ds_q st) (fadd A time' dl) (Z.to_nat choice) (f1 A)); [|discriminate]. inversion H; subst; simpl; exact Hc.
    - inversion H; subst; simpl; exact Hc.
  Qed.

  Theorem dssa_row_count fuel gfuel q ts u pos st : dssa_simulate A pi2 fuel gfuel s q ts u pos = Done st ->
    length (ds_rows st) = length ts /\ ds_todo st = [].
  Proof.
    unfold dssa_simulate.
    assert (G : forall fuel st0 st1, dssa_loop A pi2 fuel gfuel s u st0 = Done st1 ->
              ds_todo st1 = [] /\ (length (ds_rows st1) + length (ds_todo st1) = length (ds_rows st0) + length (ds_todo st0))%nat).
    { induction fuel0 as [|f IH]; intros st0 st1 H; simpl in H.
      - destruct (ds_todo st0) eqn:E; [inversion H; subst; rewrite E; auto|discriminate].
      - destruct (ds_todo st0) eqn:E; [inversion H; subst; rewrite E; auto|].
        destruct (dssa_iter A pi2 gfuel s u st0) as [st'| |w] eqn:Ei; try discriminate.
        destruct (IH _ _ H) as [Hn Hc]. split; auto. rewrite Hc. rewrite <- E. apply dssa_iter_count with (gfuel := gfuel) (u := u). exact Ei. }
    intros H. destruct (G _ _ _ H) as [Hn Hc]. split; auto.
    rewrite Hn in Hc. simpl in Hc. lia.
  Qed.

  (* volume-aware loop: rows and volumes go together; all requested times unless divided *)
  Definition vshape (N : nat) (st : vssa_state (F:=F)) : Prop :=
    length (vs_rows st) = length (vs_vols st) /\ (length (vs_rows st) + length (vs_todo st) <= N)%nat /\
    (vs_divided st = false -> (length (vs_rows st) + length (vs_todo st) = N)%nat) /\
    (vs_divided st = true -> vs_todo st = []).

  Lemma vssa_iter_shape vm u N st st' : vshape N st -> vssa_iter A s vm u st = Done st' -> vshape N st'.
  Proof.
    intros (Hl & Hle & Heq & Hdiv) H. unfold vssa_iter in H.
    destruct (vs_todo st) as [|tnext todo] eqn:Et; [inversion H; subst; repeat split; auto; rewrite Et; auto|].
    assert (Hnd : vs_divided st = false) by (destruct (vs_divided st); auto; discriminate (Hdiv eq_refl)).
    specialize (Heq Hnd).
    destruct (apply_rules A (sm_rules s) (Some (vs_V st)) (vs_x st, vs_p st) (vs_time st) (sm_dt s) (vs_rule_step st)) as [x1 p1].
    set (props := stoch_props A s StochVol x1 p1 (vs_V st) (vs_time st)) in *.
    set (Lambda := array_sum A props) in *.
    destruct (if feqb A Lambda (f0 A) then (fadd A (vs_next_q st) (sm_dt s), false, true, true, vs_pos st)
              else let '(tau, pos') := exponential_rv A Lambda u (vs_pos st) in (fadd A (vs_time st) tau, true, false, false, pos'))
      as [[[[proposed fired] rs] toq] pos1].
    destruct (if fltb A (vs_next_q st) proposed then (vs_next_q st, fadd A (vs_next_q st) (sm_dt s), true, false, true)
              else (proposed, vs_next_q st, toq, fired, rs)) as [[[[time' nq] toq'] fired'] rs'].
    destruct (record A (tnext :: todo) time' x1) as [rows rem] eqn:E3.
    destruct (record_rows A _ _ _ _ _ E3) as (_ & k & -> & -> & Hk).
    assert (Hc : (length (vs_rows st ++ repeat x1 k) + length (skipn k (tnext :: todo)) = N)%nat).
    { rewrite app_length, repeat_length, skipn_length. cbn [length] in *. lia. }
    assert (Hl' : length (vs_rows st ++ repeat x1 k) = length (vs_vols st ++ map (fun _ => vs_V st) (repeat x1 k))).
    { rewrite !app_length, map_length. lia. }
    destruct toq'.
    - inversion H; subst; clear H. cbn. split; [exact Hl'|].
      destruct (vol_divided A vm time' _ (sm_dt s)); cbn; repeat split; auto; try discriminate; try (cbn [length] in *; lia).
    - destruct fired'.
      + destruct (sample_discrete A props Lambda u pos1) as [choice pos2].
        destruct ((choice <? 0)%Z || (Z.of_nat (length props) <=? choice)%Z); [discriminate|].
        inversion H; subst; clear H. unfold vshape; cbn [vs_rows vs_vols vs_todo vs_divided]. repeat split; auto; try discriminate; cbn [length] in *; lia.
      + inversion H; subst; clear H. unfold vshape; cbn [vs_rows vs_vols vs_todo vs_divided]. repeat split; auto; try discriminate; cbn [length] in *; lia.
  Qed.

  Theorem vssa_result_shape fuel vm V0 ts u pos st : vssa_simulate A fuel s vm V0 ts u pos = Done st ->
    length (vs_rows st) = length (vs_vols st) /\ (length (vs_rows st) <= length ts)%nat /\
    (vs_divided st = false -> length (vs_rows st) = length ts).
  Proof.
    unfold vssa_simulate.
    assert (G : forall fuel st0 st1, vshape (length ts) st0 -> vssa_loop A fuel s vm u st0 = Done st1 -> vshape (length ts) st1 /\ vs_todo st1 = []).
    { induction fuel0 as [|f IH]; intros st0 st1 H0 H; simpl in H.
      - destruct (vs_todo st0) eqn:E; [inversion H; subst; auto|discriminate].
      - destruct (vs_todo st0) eqn:E; [inversion H; subst; auto|].
        destruct (vssa_iter A s vm u st0) as [st'| |w] eqn:Ei; try discriminate.
        apply (IH st' st1); auto. eapply vssa_iter_shape; eauto. }
    intros H. apply G in H.
    - destruct H as [(Hl & Hle & Heq & _) Ht]. rewrite Ht in *. cbn [length] in *. split; auto. split; [lia|]. intros Hd. specialize (Heq Hd). lia.
    - cbn. repeat split; auto; try discriminate; lia.
  Qed.
End Shape2.
