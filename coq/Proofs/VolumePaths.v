(* C06: the volume-aware loop reports reaction paths too (any arithmetic, stream, fuel, grid, volume model). *)
From Coq Require Import ZArith List Bool Lia Arith.
From BS Require Import Base.Arith Model.Term Model.Propensity Model.Interface Model.Rules Model.Random Model.Queue Model.SSA Proofs.SSAProofs.
Import ListNotations.

Section VReach.
  Context {F : Type} (A : Arith F).
  Variable s : sim F.
  Variable vm : volmodel (F:=F).
  Hypothesis no_rules : sm_rules s = [].
  Notation nrx := (length (si_props (sm_if s))).

  Definition vssa_inv (x0 : list F) (st : vssa_state (F:=F)) : Prop :=
    chain A s x0 (vs_rows st) /\ reachable A s (last_or x0 (vs_rows st)) (vs_x st).

  Lemma vssa_iter_inv u x0 st st' : vssa_inv x0 st -> vssa_iter A s vm u st = Done st' -> vssa_inv x0 st'.
  Proof.
    intros [Hc Hr] H. unfold vssa_iter in H.
    destruct (vs_todo st) as [|tnext todo] eqn:Et; [inversion H; subst; split; auto|].
    rewrite no_rules in H. cbn [apply_rules fold_left] in H.
    set (props := stoch_props A s StochVol (vs_x st) (vs_p st) (vs_V st) (vs_time st)) in *.
    set (Lambda := array_sum A props) in *.
    destruct (if feqb A Lambda (f0 A) then (fadd A (vs_next_q st) (sm_dt s), false, true, true, vs_pos st)
              else let '(tau, pos') := exponential_rv A Lambda u (vs_pos st) in (fadd A (vs_time st) tau, true, false, false, pos'))
      as [[[[proposed fired] rs] toq] pos1].
    destruct (if fltb A (vs_next_q st) proposed then (vs_next_q st, fadd A (vs_next_q st) (sm_dt s), true, false, true)
              else (proposed, vs_next_q st, toq, fired, rs)) as [[[[time' nq] toq'] fired'] rs'].
    destruct (record A (tnext :: todo) time' (vs_x st)) as [rows rem] eqn:E3.
    destruct (record_rows A _ _ _ _ _ E3) as (_ & k & -> & _ & _).
    assert (Hchain : chain A s x0 (vs_rows st ++ repeat (vs_x st) k)).
    { apply chain_app; auto. apply chain_repeat; auto. }
    assert (Hlast : reachable A s (last_or x0 (vs_rows st ++ repeat (vs_x st) k)) (vs_x st)).
    { unfold last_or. destruct k as [|k]; [simpl; rewrite app_nil_r; exact Hr|].
      rewrite last_app_ne by (simpl; discriminate).
      change (last (repeat (vs_x st) (S k)) x0) with (last_or x0 (repeat (vs_x st) (S k))).
      rewrite last_repeat. apply reachable_refl. }
    destruct toq'.
    - inversion H; subst; clear H. split; simpl; auto.
    - destruct fired'.
      + destruct (sample_discrete A props Lambda u pos1) as [choice pos2].
        destruct ((choice <? 0)%Z || (Z.of_nat (length props) <=? choice)%Z) eqn:Eb; [discriminate|].
        inversion H; subst; clear H. split; simpl; auto.
        apply reachable_step; auto.
        apply orb_false_iff in Eb. destruct Eb as [E0 E3'].
        apply Z.ltb_ge in E0. apply Z.leb_gt in E3'.
        assert (Hlen : length props = nrx).
        { unfold props, stoch_props. destruct (sm_safe s); unfold compute_safe, compute_plain, with_params; simpl;
            rewrite map_length; try rewrite combine_length, seq_length; lia. }
        lia.
      + inversion H; subst; clear H. split; simpl; auto.
  Qed.

  Theorem vssa_rows_are_paths fuel V0 ts u pos st :
    vssa_simulate A fuel s vm V0 ts u pos = Done st -> chain A s (sm_x0 s) (vs_rows st).
  Proof.
    unfold vssa_simulate.
    assert (G : forall fuel st0 st1, vssa_inv (sm_x0 s) st0 -> vssa_loop A fuel s vm u st0 = Done st1 -> vssa_inv (sm_x0 s) st1).
    { induction fuel0 as [|f IH]; intros st0 st1 H0 H; simpl in H.
      - destruct (vs_todo st0); [inversion H; subst; auto|discriminate].
      - destruct (vs_todo st0) eqn:E; [inversion H; subst; auto|].
        destruct (vssa_iter A s vm u st0) as [st'| |w] eqn:Ei; try discriminate.
        eapply IH; [|exact H]. eapply vssa_iter_inv; eauto. }
    intros H. apply (G fuel _ st) in H; [apply H|].
    split; simpl; auto. apply reachable_refl.
  Qed.
End VReach.
