From Coq Require Import ZArith Reals List Bool Lia Lra Arith Permutation.
From BS Require Import Base.Arith Model.Likelihood Proofs.BuilderProofs Proofs.ListLemmas.
Import ListNotations.

(* ---------- data alignment ---------- *)
Section Align.
  Context {T : Type} (d : T).

  Lemma chunks_concat_rect ncols : forall (m : list (list T)) fuel,
    Forall (fun row => length row = ncols) m -> (0 < ncols)%nat -> (length m <= fuel)%nat ->
    chunks fuel ncols (concat m) = m.
  Proof.
    induction m as [|row m IH]; intros fuel Hall Hn Hf.
    - destruct fuel; reflexivity.
    - inversion Hall as [|? ? Hr Hm]; subst. destruct fuel as [|fuel]; [simpl in Hf; lia|].
      cbn [concat chunks]. destruct (row ++ concat m) eqn:E.
      + destruct row; [simpl in Hn; lia|discriminate].
      + rewrite <- E. rewrite firstn_app, Nat.sub_diag, firstn_O, app_nil_r, firstn_all.
        rewrite skipn_app, Nat.sub_diag, skipn_all. cbn [app skipn]. rewrite IH; auto. simpl in Hf. lia.
  Qed.

  Lemma transpose_rect nT (cols : list (list T)) :
    Forall (fun row => length row = length cols) (transpose d nT cols).
  Proof. unfold transpose. apply Forall_forall. intros row Hin. apply in_map_iff in Hin. destruct Hin as (t & <- & _). unfold column. apply map_length. Qed.

  (* LL_data[t][i] = frame[measurement i][t], for every number of time points and measured species *)
  Theorem extract_frame_aligned nT (cols : list (list T)) t i : (0 < length cols)%nat ->
    (t < nT)%nat -> (i < length cols)%nat ->
    nth i (nth t (extract_frame d nT cols) []) d = nth t (nth i cols []) d.
  Proof.
    intros Hm Ht Hi. unfold extract_frame, reshape2.
    rewrite chunks_concat_rect; [|apply transpose_rect|exact Hm|unfold transpose; rewrite map_length, seq_length; lia].
    unfold transpose. rewrite (nth_map' _ _ t [] 0%nat) by (rewrite seq_length; auto).
    rewrite seq_nth by auto. simpl (0 + t)%nat. unfold column.
    rewrite (nth_map' _ _ i d []) by auto. reflexivity.
  Qed.
End Align.

(* ---------- the cost is a function of theta alone ---------- *)
Section History.
  Context {F : Type} (A : Arith F).
  Variable sim : list F -> list F -> list F -> list (list F).

  (* whatever the model's parameter vector was left as by earlier evaluations, the value is the same *)
  Theorem cost_history_independent defaults theta lp meas p_norm trajs pm1 pm2 :
    fst (cost A sim defaults theta lp meas p_norm trajs pm1) = fst (cost A sim defaults theta lp meas p_norm trajs pm2).
  Proof. unfold cost. destruct lp; reflexivity. Qed.

  Theorem cost_outside_support defaults theta meas p_norm trajs pm :
    cost A sim defaults theta None meas p_norm trajs pm = (None, pm).
  Proof. reflexivity. Qed.

  (* every trajectory is simulated with defaults (+) theta (+) its own condition: the error of a run
     is the fold, over the trajectories in order, of the per-trajectory error at those parameters *)
  Theorem log_likelihood_params entry meas p_norm trajs :
    fst (log_likelihood A sim entry meas p_norm trajs) =
    fneg A (fpow A (fold_left (fun e tj => traj_error A meas p_norm (sim (override entry (tj_cond tj)) (tj_x0 tj) (tj_times tj)) (tj_data tj) e) trajs (f0 A))
                 (fdiv A (f1 A) p_norm)).
  Proof.
    unfold log_likelihood.
    assert (G : forall l e pm, fst (fold_left (fun ep tj => let pn := override entry (tj_cond tj) in
                      (traj_error A meas p_norm (sim pn (tj_x0 tj) (tj_times tj)) (tj_data tj) (fst ep), pn)) l (e, pm))
                = fold_left (fun e tj => traj_error A meas p_norm (sim (override entry (tj_cond tj)) (tj_x0 tj) (tj_times tj)) (tj_data tj) e) l e).
    { induction l as [|tj l IH]; intros e pm; simpl; auto. }
    specialize (G trajs (f0 A) entry).
    destruct (fold_left _ trajs (f0 A, entry)) as [err pm]. simpl in *. rewrite G. reflexivity.
  Qed.
End History.

(* ---------- over the reals: the accumulated error is a sum, hence order-independent ---------- *)
Local Open Scope R_scope.
Section Sum.
  Definition abs_pow (p_norm a b : R) : R := rpow (Rabs (a - b)) p_norm.

  Lemma inner_fold_sum (f : nat -> R) l : forall e, fold_left (fun e t => e + f t) l e = e + sumR (map f l).
  Proof. induction l as [|t l IH]; intros e; simpl; [lra|]. rewrite IH. lra. Qed.

  Definition traj_sum (meas : list nat) (p_norm : R) (ans data : list (list R)) : R :=
    sumR (map (fun im => sumR (map (fun t => abs_pow p_norm (nth (fst im) (nth t data []) 0) (nth (snd im) (nth t ans []) 0))
                                   (seq 0 (length data))))
              (combine (seq 0 (length meas)) meas)).

  Lemma abs_branch d : (if Rltb d 0 then - d else d) = Rabs d.
  Proof. unfold Rltb, Rabs. destruct (Rlt_dec d 0), (Rcase_abs d); lra. Qed.

  Lemma fold_ext {X Y} (f g : X -> Y -> X) l : (forall a b, f a b = g a b) -> forall a0, fold_left f l a0 = fold_left g l a0.
  Proof. intros H. induction l as [|b l IH]; intros a0; simpl; auto. rewrite H. apply IH. Qed.

  Theorem traj_error_is_sum meas p_norm ans data err :
    traj_error ArithR meas p_norm ans data err = err + traj_sum meas p_norm ans data.
  Proof.
    unfold traj_error, traj_sum. generalize (combine (seq 0 (length meas)) meas) as l. intros l. revert err.
    induction l as [|im l IH]; intros err; simpl; [lra|].
    rewrite IH.
    rewrite (fold_ext _ (fun e t => e + abs_pow p_norm (nth (fst im) (nth t data []) 0) (nth (snd im) (nth t ans []) 0))).
    - rewrite inner_fold_sum. lra.
    - intros e t. unfold abs_pow. rewrite <- abs_branch. reflexivity.
  Qed.

  (* sums do not depend on the order of the measured species (each carrying its data column) *)
  Theorem sum_permutation {X} (f : X -> R) l l' : Permutation l l' -> sumR (map f l) = sumR (map f l').
  Proof. induction 1; simpl; try lra. Qed.
End Sum.
