(* Real-arithmetic consequences of "rows are reaction paths": conservation laws and integrality. *)
From Coq Require Import ZArith Reals List Bool Lia Lra Arith.
From BS Require Import Base.Arith Model.Term Model.Propensity Model.Interface Model.SSA Proofs.SSAProofs.
Import ListNotations.
Local Open Scope R_scope.

Section Cons.
  Variable s : sim R.
  Notation Sm := (si_S (sm_if s)). Notation Sdm := (si_Sd (sm_if s)).

  Fixpoint dot (w x : list R) : R :=
    match w, x with a :: w', b :: x' => a * b + dot w' x' | _, _ => 0 end.

  (* the column of S + Sd for reaction r, as reals, truncated like the code's loops *)
  Fixpoint colR (S Sd : list (list Z)) (r : nat) : list R :=
    match S, Sd with
    | a :: S', b :: Sd' => IZR (nth r a 0%Z + nth r b 0%Z) :: colR S' Sd' r
    | _, _ => []
    end.

  Lemma fire_dot w : forall x S Sd r, length x = length S -> length S = length Sd ->
    dot w (add_col2 ArithR x S Sd r) = dot w x + dot w (colR S Sd r).
  Proof.
    unfold add_col2. induction w as [|a w IH]; intros x S Sd r H1 H2; [destruct x, S, Sd; simpl; lra|].
    destruct x as [|b x], S as [|c S], Sd as [|d Sd]; simpl in *; try discriminate; try lra.
    rewrite IH by lia. lra.
  Qed.

  Lemma fire_length x S Sd r : length x = length S -> length S = length Sd ->
    length (add_col2 ArithR x S Sd r) = length x.
  Proof. intros H1 H2. unfold add_col2. rewrite map_length, !combine_length. lia. Qed.

  (* a linear conservation law: w . column_r = 0 for every reaction *)
  Definition conserved (w : list R) : Prop :=
    forall r, (r < length (si_props (sm_if s)))%nat -> dot w (colR Sm Sdm r) = 0.

  Theorem reachable_conserves w x y : conserved w -> length x = length Sm -> length Sm = length Sdm ->
    reachable ArithR s x y -> dot w y = dot w x /\ length y = length x.
  Proof.
    intros Hw H1 H2 (rs & Hrs & ->). revert x H1. induction Hrs as [|r rs Hr Hrs IH]; intros x H1; simpl; auto.
    destruct (IH (fire ArithR s x r)) as [E L].
    - unfold fire. rewrite fire_length; auto.
    - rewrite E, L. unfold fire. rewrite fire_dot, fire_length by auto. rewrite Hw by auto. split; [lra|reflexivity].
  Qed.

  Theorem chain_conserves w : conserved w -> length Sm = length Sdm -> forall rows from,
    length from = length Sm -> chain ArithR s from rows -> Forall (fun row => dot w row = dot w from) rows.
  Proof.
    intros Hw H2. induction rows as [|row rows IH]; intros from H1 Hc; [constructor|].
    destruct Hc as [Hr Hc]. destruct (reachable_conserves w from row Hw H1 H2 Hr) as [E L].
    constructor; auto. specialize (IH row ltac:(congruence) Hc).
    rewrite Forall_forall in *. intros r' Hin. rewrite (IH r' Hin). exact E.
  Qed.

  (* integrality *)
  Definition is_int (v : R) : Prop := exists z : Z, v = IZR z.
  Lemma fire_int x S Sd r : Forall is_int x -> Forall is_int (add_col2 ArithR x S Sd r).
  Proof.
    unfold add_col2. revert S Sd. induction x as [|a x IH]; intros S Sd H; [constructor|].
    destruct S as [|c S]; [constructor|]. destruct Sd as [|d Sd]; [constructor|].
    inversion H as [|? ? [z Hz] Hx]; subst. simpl. constructor; [|apply IH; auto].
    exists (z + (nth r c 0 + nth r d 0))%Z. simpl. rewrite !plus_IZR. reflexivity.
  Qed.
  Theorem reachable_int x y : Forall is_int x -> reachable ArithR s x y -> Forall is_int y.
  Proof.
    intros Hx (rs & _ & ->). revert x Hx. induction rs as [|r rs IH]; intros x Hx; simpl; auto.
    apply IH. apply fire_int. exact Hx.
  Qed.
  Theorem chain_int : forall rows from, Forall is_int from -> chain ArithR s from rows -> Forall (Forall is_int) rows.
  Proof.
    induction rows as [|row rows IH]; intros from Hf Hc; [constructor|].
    destruct Hc as [Hr Hc]. pose proof (reachable_int from row Hf Hr) as Hi.
    constructor; auto. apply (IH row); auto.
  Qed.
End Cons.
