(* Closed forms (over R) of the evaluators regenerated from the source: the ties of TiePropensity composed with RateProofs. *)
From Coq Require Import ZArith Reals List Bool Arith.
From BS Require Import Base.Arith Base.CyPrelude Model.Term Model.Propensity Spec.RateLaws Proofs.RateProofs
                       Gen.PropensityGen Proofs.TiePropensity.
Import ListNotations.
Local Open Scope R_scope.

Lemma source_tie_all :
  forall F (A : Arith F) m x p V t,
  (forall o, gen_Constitutive A o m x p V t = prop_eval A (PConst (ConstitutivePropensity_rate_index o)) m x p V t) /\
  (forall o, gen_Unimolecular A o m x p V t =
             prop_eval A (PUni (UnimolecularPropensity_rate_index o) (UnimolecularPropensity_species_index o)) m x p V t) /\
  (forall o, gen_Bimolecular A o m x p V t =
             prop_eval A (PBi (BimolecularPropensity_rate_index o) (BimolecularPropensity_s1_index o) (BimolecularPropensity_s2_index o)) m x p V t) /\
  (forall o, gen_PositiveHill A o m x p V t =
             prop_eval A (PHillPos (PositiveHillPropensity_rate_index o) (PositiveHillPropensity_K_index o) (PositiveHillPropensity_n_index o)
                                   (PositiveHillPropensity_s1_index o)) m x p V t) /\
  (forall o, gen_PositiveProportionalHill A o m x p V t =
             prop_eval A (PPropHillPos (PositiveProportionalHillPropensity_rate_index o) (PositiveProportionalHillPropensity_K_index o)
                                       (PositiveProportionalHillPropensity_n_index o) (PositiveProportionalHillPropensity_s1_index o)
                                       (PositiveProportionalHillPropensity_d_index o)) m x p V t) /\
  (forall o, gen_NegativeHill A o m x p V t =
             prop_eval A (PHillNeg (NegativeHillPropensity_rate_index o) (NegativeHillPropensity_K_index o) (NegativeHillPropensity_n_index o)
                                   (NegativeHillPropensity_s1_index o)) m x p V t) /\
  (forall o, gen_NegativeProportionalHill A o m x p V t =
             prop_eval A (PPropHillNeg (NegativeProportionalHillPropensity_rate_index o) (NegativeProportionalHillPropensity_K_index o)
                                       (NegativeProportionalHillPropensity_n_index o) (NegativeProportionalHillPropensity_s1_index o)
                                       (NegativeProportionalHillPropensity_d_index o)) m x p V t) /\
  (forall o, MassActionPropensity_num_species o = num_species (MassActionPropensity_sp_counts o) ->
             gen_MassAction A o m x p V t =
             prop_eval A (PMass (MassActionPropensity_k_index o) (MassActionPropensity_sp_inds o) (MassActionPropensity_sp_counts o)) m x p V t).
Proof.
  intros F A m x p V t.
  split; [intro o; apply tie_Constitutive|].
  split; [intro o; apply tie_Unimolecular|].
  split; [intro o; apply tie_Bimolecular|].
  split; [intro o; apply tie_PositiveHill|].
  split; [intro o; apply tie_PositiveProportionalHill|].
  split; [intro o; apply tie_NegativeHill|].
  split; [intro o; apply tie_NegativeProportionalHill|].
  intro o; apply tie_MassAction.
Qed.

Lemma source_massaction_closed_forms :
  forall k rs x p V t, nonneg x -> 0 < V ->
  gen_massaction_dispatch ArithR k rs Det x p V t = ma_det (rget p k) rs x /\
  gen_massaction_dispatch ArithR k rs Vol x p V t = ma_det (rget p k) rs x * vol_factor V (length rs) /\
  gen_massaction_dispatch ArithR k rs Stoch x p V t = ma_stoch (rget p k) rs x /\
  gen_massaction_dispatch ArithR k rs StochVol x p V t = ma_stoch (rget p k) rs x * vol_factor V (length rs).
Proof.
  intros k rs x p V t Hx HV. rewrite !tie_massaction_dispatch. exact (massaction_closed_forms k rs x p V t Hx HV).
Qed.

Lemma source_hill_closed_forms :
  forall k K n s d x p V t,
  let X := rget x s in let D := rget x d in
  let kk := rget p k in let KK := rget p K in let nn := rget p n in
  let oP := {| PositiveHillPropensity_rate_index := k; PositiveHillPropensity_K_index := K; PositiveHillPropensity_n_index := n; PositiveHillPropensity_s1_index := s |} in
  let oN := {| NegativeHillPropensity_rate_index := k; NegativeHillPropensity_K_index := K; NegativeHillPropensity_n_index := n; NegativeHillPropensity_s1_index := s |} in
  let oPP := {| PositiveProportionalHillPropensity_rate_index := k; PositiveProportionalHillPropensity_K_index := K; PositiveProportionalHillPropensity_n_index := n;
                PositiveProportionalHillPropensity_s1_index := s; PositiveProportionalHillPropensity_d_index := d |} in
  let oNP := {| NegativeProportionalHillPropensity_rate_index := k; NegativeProportionalHillPropensity_K_index := K; NegativeProportionalHillPropensity_n_index := n;
                NegativeProportionalHillPropensity_s1_index := s; NegativeProportionalHillPropensity_d_index := d |} in
  0 < V -> 1 + rpow (X / KK) nn <> 0 -> 1 + rpow (X / V / KK) nn <> 0 ->
  (forall m, (m = Det \/ m = Stoch) ->
     gen_PositiveHill ArithR oP m x p V t = hill_pos kk KK nn X /\
     gen_NegativeHill ArithR oN m x p V t = hill_neg kk KK nn X /\
     gen_PositiveProportionalHill ArithR oPP m x p V t = D * hill_pos kk KK nn X /\
     gen_NegativeProportionalHill ArithR oNP m x p V t = D * hill_neg kk KK nn X) /\
  (forall m, (m = Vol \/ m = StochVol) ->
     gen_PositiveHill ArithR oP m x p V t = hill_pos kk KK nn (X / V) /\
     gen_NegativeHill ArithR oN m x p V t = hill_neg kk KK nn (X / V) /\
     gen_PositiveProportionalHill ArithR oPP m x p V t = D * hill_pos kk KK nn (X / V) /\
     gen_NegativeProportionalHill ArithR oNP m x p V t = D * hill_neg kk KK nn (X / V)).
Proof.
  intros k K n s d x p V t X D kk KK nn oP oN oPP oNP HV H1 H2.
  destruct (hill_closed_forms k K n s d x p V t HV H1 H2) as [Ha Hb].
  split; intros m Hm.
  - specialize (Ha m Hm). unfold oP, oN, oPP, oNP.
    rewrite tie_PositiveHill, tie_NegativeHill, tie_PositiveProportionalHill, tie_NegativeProportionalHill. exact Ha.
  - specialize (Hb m Hm). unfold oP, oN, oPP, oNP.
    rewrite tie_PositiveHill, tie_NegativeHill, tie_PositiveProportionalHill, tie_NegativeProportionalHill. exact Hb.
Qed.
