(* C19: provenance in the lineage worklist.  Every recorded cell with a mother was produced by simulating, from the
   mother's final time, one of the two daughters that the mother's splitter made of the mother's LAST reported state
   (get_final_cell_state) -- whatever the single-cell simulations return (any arithmetic, stream, model, fuel). *)
From Coq Require Import ZArith List Bool Lia Arith.
From BS Require Import Base.Arith Model.Term Model.Propensity Model.Interface Model.Rules Model.Random Model.Queue Model.SSA Model.Splitters Model.Lineage Model.Worklist
  Proofs.ListLemmas Proofs.WorklistProofs.
Import ListNotations.

Section Prov.
  Context {F : Type} (A : Arith F) (pi2 : F) (eps9 eps7 eps12 : F).
  Notation schn := (schnitz F).

  (* the reported data of a recorded cell are those of one single-cell simulation on the grid tts *)
  Definition data_of (s : schn) (tts : list F) (st : lstate (F:=F)) : Prop :=
    sz_times s = firstn (length (ls_rows st)) tts /\ sz_rows s = ls_rows st /\ sz_vols s = ls_vols st.

  Definition daughter_cells (c : cellstate F) (sp : splitter F) (u : nat -> F) (pos : nat) : cellstate F * cellstate F :=
    let dd := partition_lineage A (sp_vmode sp) (sp_perfect sp) (sp_binomial sp) (sp_noise sp) (cs_x c) (cs_V c) u pos in
    (mkCell (cs_time c) (cs_time c) (d_vol dd) (d_vol dd) (d_state dd) (-1)%Z (-1)%Z,
     mkCell (cs_time c) (cs_time c) (e_vol dd) (e_vol dd) (e_state dd) (-1)%Z (-1)%Z).

  (* s, whose mother is recorded at index p of L, was born from the mother's final state *)
  Definition born (fuel : nat) (l : lin F) (sps : list (splitter F)) (ts : list F) (u : nat -> F) (L : list schn) (s : schn) (p : nat) : Prop :=
    exists m tts0 st0 sp pos pos' d st,
      nth_error L p = Some m /\ data_of m tts0 st0 /\
      let c := final_cell A tts0 st0 in
      (0 <= cs_divided c)%Z /\ nth_error sps (Z.to_nat (cs_divided c)) = Some sp /\
      (d = fst (daughter_cells c sp u pos) \/ d = snd (daughter_cells c sp u pos)) /\
      cell_simulate A pi2 eps9 eps7 fuel l (truncate_lt A ts (cs_time c)) d u pos' = Done st /\
      data_of s (truncate_lt A ts (cs_time c)) st.

  Definition prov_ok fuel l sps ts u (L : list schn) : Prop :=
    forall j s p, nth_error L j = Some s -> sz_parent s = Some p -> born fuel l sps ts u L s p.
  (* a queued entry is the final cell state of the recorded cell it names *)
  Definition queue_prov (L : list schn) (Q : list (nat * cellstate F)) : Prop :=
    forall i sid c, nth_error Q i = Some (sid, c) ->
      exists m tts0 st0, nth_error L sid = Some m /\ data_of m tts0 st0 /\ c = final_cell A tts0 st0.

  Definition same_data (s s' : schn) : Prop :=
    sz_times s' = sz_times s /\ sz_rows s' = sz_rows s /\ sz_vols s' = sz_vols s /\ sz_parent s' = sz_parent s.
  Definition ext (L L' : list schn) : Prop :=
    forall j s, nth_error L j = Some s -> exists s', nth_error L' j = Some s' /\ same_data s s'.

  Lemma data_of_same s s' tts st : same_data s s' -> data_of s tts st -> data_of s' tts st.
  Proof. intros (E1 & E2 & E3 & _) (D1 & D2 & D3). unfold data_of. rewrite E1, E2, E3. auto. Qed.

  Lemma born_ext fuel l sps ts u L L' s s' p : ext L L' -> same_data s s' -> born fuel l sps ts u L s p -> born fuel l sps ts u L' s' p.
  Proof.
    intros He Hs (m & tts0 & st0 & sp & pos & pos' & d & st & Hm & Dm & Hdiv & Hsp & Hd & Hsim & Ds).
    destruct (He p m Hm) as (m' & Hm' & Sm).
    exists m', tts0, st0, sp, pos, pos', d, st. split; [exact Hm'|]. split; [eapply data_of_same; eauto|].
    cbv zeta. split; [exact Hdiv|]. split; [exact Hsp|]. split; [exact Hd|]. split; [exact Hsim|]. eapply data_of_same; eauto.
  Qed.

  Lemma queue_prov_ext L L' Q : ext L L' -> queue_prov L Q -> queue_prov L' Q.
  Proof.
    intros He Hq i sid c Hi. destruct (Hq i sid c Hi) as (m & tts0 & st0 & Hm & Dm & Ec).
    destruct (He sid m Hm) as (m' & Hm' & Sm). exists m', tts0, st0. split; [exact Hm'|]. split; [eapply data_of_same; eauto|exact Ec].
  Qed.

  Lemma same_data_refl s : same_data s s.
  Proof. repeat split. Qed.

  Lemma ext_app L X : ext L (L ++ X).
  Proof. intros j s Hj. exists s. split; [apply nth_error_app_l; exact Hj|apply same_data_refl]. Qed.

  Lemma ext_set_daughters (L : list schn) X sid d : ext L (set_daughters (L ++ X) sid d).
  Proof.
    intros j s Hj. unfold set_daughters. destruct (nth_error (L ++ X) sid) as [m|] eqn:Em.
    - destruct (Nat.eq_dec sid j) as [->|Hne].
      + rewrite (nth_error_app_l _ X _ _ Hj) in Em. inversion Em; subst m.
        eexists. split; [apply nth_error_upd_same; rewrite app_length; assert (j < length L)%nat by (apply nth_error_Some; congruence); lia|].
        repeat split.
      + exists s. split; [rewrite nth_error_upd_other by exact Hne; apply nth_error_app_l; exact Hj|apply same_data_refl].
    - exists s. split; [apply nth_error_app_l; exact Hj|apply same_data_refl].
  Qed.

  (* entries of set_daughters (L ++ [s1; s2]) sid _ : old ones (same data) or the two new ones *)
  Lemma set_daughters_cases (L : list schn) s1 s2 sid d j sj : (sid < length L)%nat ->
    nth_error (set_daughters (L ++ [s1; s2]) sid d) j = Some sj ->
    (exists s0, nth_error L j = Some s0 /\ same_data s0 sj) \/ (j = length L /\ sj = s1) \/ (j = S (length L) /\ sj = s2).
  Proof.
    intros Hsid Hj. unfold set_daughters in Hj.
    destruct (nth_error (L ++ [s1; s2]) sid) as [m|] eqn:Em.
    - rewrite nth_error_app1 in Em by exact Hsid.
      destruct (Nat.eq_dec sid j) as [->|Hne].
      + rewrite nth_error_upd_same in Hj by (rewrite app_length; lia). inversion Hj; subst sj. left. exists m. split; [exact Em|repeat split].
      + rewrite nth_error_upd_other in Hj by exact Hne. rewrite nth_error_two in Hj.
        destruct (Nat.ltb_spec j (length L)); [left; exists sj; split; [exact Hj|apply same_data_refl]|].
        destruct (Nat.eqb_spec j (length L)); [right; left; inversion Hj; auto|].
        destruct (Nat.eqb_spec j (S (length L))); [right; right; inversion Hj; auto|discriminate].
    - rewrite nth_error_two in Hj.
      destruct (Nat.ltb_spec j (length L)); [left; exists sj; split; [exact Hj|apply same_data_refl]|].
      destruct (Nat.eqb_spec j (length L)); [right; left; inversion Hj; auto|].
      destruct (Nat.eqb_spec j (S (length L))); [right; right; inversion Hj; auto|discriminate].
  Qed.

  Lemma set_daughters_new (L : list schn) s1 s2 sid d : (sid < length L)%nat ->
    nth_error (set_daughters (L ++ [s1; s2]) sid d) (length L) = Some s1 /\
    nth_error (set_daughters (L ++ [s1; s2]) sid d) (S (length L)) = Some s2.
  Proof.
    intros Hsid. unfold set_daughters. destruct (nth_error (L ++ [s1; s2]) sid) as [m|] eqn:Em.
    - rewrite !nth_error_upd_other by lia. rewrite !nth_error_two.
      rewrite Nat.ltb_irrefl, Nat.eqb_refl. replace (S (length L) <? length L)%nat with false by (symmetry; apply Nat.ltb_ge; lia).
      replace (S (length L) =? length L)%nat with false by (symmetry; apply Nat.eqb_neq; lia). rewrite Nat.eqb_refl. auto.
    - apply nth_error_None in Em. rewrite app_length in Em. cbn in Em. lia.
  Qed.

  Definition prov_inv fuel l sps ts u (w : wstate (F:=F)) : Prop :=
    prov_ok fuel l sps ts u (w_lineage w) /\ queue_prov (w_lineage w) (w_queue w).

  Lemma wl_step_prov fuel l sps ts final u item w w' idx :
    prov_inv fuel l sps ts u w -> nth_error (w_queue w) idx = Some item ->
    wl_step A pi2 eps9 eps7 eps12 fuel l sps ts final u item w = Done w' -> prov_inv fuel l sps ts u w'.
  Proof.
    intros (Hp & Hq) Hidx H. unfold wl_step in H. destruct item as [sid c].
    destruct (fleb A (fsub A final eps9) (cs_time c)); [inversion H; subst; split; auto|].
    destruct (0 <=? cs_dead c)%Z; [inversion H; subst; split; auto|].
    destruct (0 <=? cs_divided c)%Z eqn:Ediv; [|inversion H; subst; split; auto].
    destruct (feqb A (cs_t0 c) (cs_time c)); [discriminate|].
    destruct (nth_error sps (Z.to_nat (cs_divided c))) as [sp|] eqn:Esp; [|discriminate].
    set (dd := partition_lineage A (sp_vmode sp) (sp_perfect sp) (sp_binomial sp) (sp_noise sp) (cs_x c) (cs_V c) u (w_pos w)) in *.
    set (tts := truncate_lt A ts (cs_time c)) in *.
    set (d1 := mkCell (cs_time c) (cs_time c) (d_vol dd) (d_vol dd) (d_state dd) (-1)%Z (-1)%Z) in *.
    set (d2 := mkCell (cs_time c) (cs_time c) (e_vol dd) (e_vol dd) (e_state dd) (-1)%Z (-1)%Z) in *.
    destruct (cell_simulate A pi2 eps9 eps7 fuel l tts d1 u (d_pos dd)) as [st1| |k1] eqn:E1; try discriminate.
    destruct (cell_simulate A pi2 eps9 eps7 fuel l tts d2 u (ls_pos st1)) as [st2| |k2] eqn:E2; try discriminate.
    inversion H; subst w'; clear H. unfold prov_inv. cbn [w_lineage w_queue].
    destruct (Hq idx sid c Hidx) as (m & tts0 & st0 & Hm & Dm & Ec).
    assert (Hsid : (sid < length (w_lineage w))%nat) by (apply nth_error_Some; congruence).
    set (L := w_lineage w) in *. set (s1 := schnitz_of tts st1 (Some sid)). set (s2 := schnitz_of tts st2 (Some sid)).
    set (L' := set_daughters (L ++ [s1; s2]) sid (length L, S (length L))).
    assert (Hext : ext L L') by apply ext_set_daughters.
    assert (Hborn : forall s st pos', (s = s1 /\ st = st1 /\ pos' = d_pos dd /\ cell_simulate A pi2 eps9 eps7 fuel l tts d1 u pos' = Done st) \/
                                      (s = s2 /\ st = st2 /\ pos' = ls_pos st1 /\ cell_simulate A pi2 eps9 eps7 fuel l tts d2 u pos' = Done st) ->
                       born fuel l sps ts u L' s sid).
    { intros s st pos' Hcase. destruct (Hext sid m Hm) as (m' & Hm' & Sm).
      assert (Hd : exists d, (d = d1 \/ d = d2) /\ cell_simulate A pi2 eps9 eps7 fuel l tts d u pos' = Done st /\ data_of s tts st).
      { destruct Hcase as [(-> & -> & _ & Hs)|(-> & -> & _ & Hs)]; [exists d1|exists d2]; (split; [auto|split; [exact Hs|repeat split]]). }
      destruct Hd as (d & Hd & Hs & Ds).
      exists m', tts0, st0, sp, (w_pos w), pos', d, st. split; [exact Hm'|]. split; [eapply data_of_same; eauto|].
      cbv zeta. rewrite <- Ec. split; [apply Z.leb_le; exact Ediv|]. split; [exact Esp|].
      split; [unfold daughter_cells; cbn [fst snd]; exact Hd|]. split; [exact Hs|exact Ds]. }
    destruct (set_daughters_new L s1 s2 sid (length L, S (length L)) Hsid) as (Hn1 & Hn2). fold L' in Hn1, Hn2.
    split.
    - intros j sj p Hj Hpar. destruct (set_daughters_cases L s1 s2 sid _ j sj Hsid Hj) as [(s0 & E0 & S0)|[(-> & ->)|(-> & ->)]].
      + assert (Hpar0 : sz_parent s0 = Some p) by (destruct S0 as (_ & _ & _ & <-); exact Hpar).
        eapply born_ext; [exact Hext|exact S0|]. eapply Hp; eauto.
      + cbn in Hpar. inversion Hpar; subst p. apply (Hborn s1 st1 (d_pos dd)). left. auto.
      + cbn in Hpar. inversion Hpar; subst p. apply (Hborn s2 st2 (ls_pos st1)). right. auto.
    - intros i sid0 c0 Hi. destruct (Nat.lt_ge_cases i (length (w_queue w))) as [Hlt|Hge].
      + rewrite nth_error_app1 in Hi by auto. eapply queue_prov_ext; eauto.
      + rewrite nth_error_app2 in Hi by auto. apply nth_error_In in Hi. apply in_app_or in Hi.
        destruct Hi as [Hi|Hi]; match type of Hi with In _ (if ?b then _ else _) => destruct b end; cbn in Hi; try contradiction;
          destruct Hi as [Hi|[]]; inversion Hi; subst sid0 c0.
        * exists s1, tts, st1. split; [exact Hn1|]. split; [repeat split|reflexivity].
        * exists s2, tts, st2. split; [exact Hn2|]. split; [repeat split|reflexivity].
  Qed.

  Lemma wl_loop_prov cfuel fuel l sps ts final u : forall idx w w',
    prov_inv fuel l sps ts u w -> wl_loop A pi2 eps9 eps7 eps12 cfuel fuel l sps ts final u idx w = Done w' -> prov_inv fuel l sps ts u w'.
  Proof.
    induction cfuel as [|cfuel IH]; intros idx w w' Hinv H; simpl in H.
    - destruct (nth_error (w_queue w) idx); [discriminate|]. inversion H; subst. exact Hinv.
    - destruct (nth_error (w_queue w) idx) as [item|] eqn:E; [|inversion H; subst; exact Hinv].
      destruct (wl_step A pi2 eps9 eps7 eps12 fuel l sps ts final u item w) as [w1| |k] eqn:Es; try discriminate.
      eapply IH; [|exact H]. eapply wl_step_prov; eauto.
  Qed.

  Lemma sim_initial_prov fuel l sps ts u : forall cells w w',
    prov_inv fuel l sps ts u w -> sim_initial A pi2 eps9 eps7 fuel l ts cells u w = Done w' -> prov_inv fuel l sps ts u w'.
  Proof.
    induction cells as [|c cells IH]; intros w w' Hinv H; simpl in H; [inversion H; subst; auto|].
    destruct (cell_simulate A pi2 eps9 eps7 fuel l ts c u (w_pos w)) as [st| |k]; try discriminate.
    apply IH in H; auto. destruct Hinv as (Hp & Hq). unfold prov_inv. cbn [w_lineage w_queue]. split.
    - intros j sj p Hj Hpar. destruct (Nat.lt_ge_cases j (length (w_lineage w))) as [Hlt|Hge].
      + rewrite nth_error_app1 in Hj by auto. eapply born_ext; [apply ext_app|apply same_data_refl|]. eapply Hp; eauto.
      + rewrite nth_error_app2 in Hj by auto. destruct (j - length (w_lineage w))%nat as [|k]; cbn in Hj; [inversion Hj; subst; discriminate|destruct k; discriminate].
    - intros i sid c0 Hi. destruct (Nat.lt_ge_cases i (length (w_queue w))) as [Hlt|Hge].
      + rewrite nth_error_app1 in Hi by auto. eapply (queue_prov_ext _ _ _ (ext_app _ _) Hq); eauto.
      + rewrite nth_error_app2 in Hi by auto. destruct (i - length (w_queue w))%nat as [|k]; cbn in Hi; [|destruct k; discriminate].
        inversion Hi; subst sid c0. exists (schnitz_of ts st None), ts, st.
        split; [rewrite nth_error_app2 by lia; rewrite Nat.sub_diag; reflexivity|]. split; [repeat split|reflexivity].
  Qed.

  (* whole lineage: every recorded cell that has a mother was simulated from one of the two daughters which the splitter
     selected by the mother's division event made of the mother's last reported state, starting at the mother's last
     reported time, on the part of the grid from that time on *)
  Theorem lineage_daughters_born cfuel fuel l sps ts cells u pos w :
    simulate_lineage A pi2 eps9 eps7 eps12 cfuel fuel l sps ts cells u pos = Done w ->
    prov_ok fuel l sps ts u (w_lineage w).
  Proof.
    unfold simulate_lineage. destruct (sim_initial A pi2 eps9 eps7 fuel l ts cells u (mkW [] [] pos)) as [w0| |k] eqn:E0; try discriminate.
    intros H. assert (H0 : prov_inv fuel l sps ts u (mkW (F:=F) [] [] pos)).
    { split; [intros j s p Hj; destruct j; discriminate|intros i sid c Hi; destruct i; discriminate]. }
    pose proof (sim_initial_prov fuel l sps ts u cells _ _ H0 E0) as H1.
    exact (proj1 (wl_loop_prov cfuel fuel l sps ts (last ts (f0 A)) u 0 w0 w H1 H)).
  Qed.
End Prov.

(* Reals: the partition each daughter was born from conserves what its modes say (SplitProofs.lineage_conserves) *)
From Coq Require Import Reals.
From BS Require Import Proofs.SplitProofs.
Section ProvR.
  Local Open Scope R_scope.
  Variables (pi2 eps9 eps7 eps12 : R).

  Theorem lineage_division_conserves cfuel fuel (l : lin R) sps ts cells u pos w :
    simulate_lineage ArithR pi2 eps9 eps7 eps12 cfuel fuel l sps ts cells u pos = Done w ->
    forall j s p, nth_error (w_lineage w) j = Some s -> sz_parent s = Some p ->
    exists m tts0 st0 sp upos d e,
      nth_error (w_lineage w) p = Some m /\ data_of m tts0 st0 /\
      let c := final_cell ArithR tts0 st0 in
      (0 <= cs_divided c)%Z /\ nth_error sps (Z.to_nat (cs_divided c)) = Some sp /\
      (d, e) = daughter_cells ArithR c sp u upos /\
      (* both daughters start at the mother's last reported time ... *)
      cs_time d = cs_time c /\ cs_time e = cs_time c /\ cs_t0 d = cs_time c /\ cs_t0 e = cs_time c /\
      (* ... from a partition of the mother's last reported state and volume that conserves what its modes say ... *)
      (NoDup (sp_perfect sp ++ sp_binomial sp) -> (forall i, In i (sp_perfect sp ++ sp_binomial sp) -> (i < length (cs_x c))%nat) ->
         (forall i, In i (sp_perfect sp ++ sp_binomial sp) -> gR (cs_x d) i + gR (cs_x e) i = gR (cs_x c) i) /\
         (forall i, (i < length (cs_x c))%nat -> ~ In i (sp_perfect sp ++ sp_binomial sp) -> gR (cs_x d) i = gR (cs_x c) i /\ gR (cs_x e) i = gR (cs_x c) i) /\
         (if Nat.eqb (sp_vmode sp) 1 then cs_V d = cs_V c /\ cs_V e = cs_V c else cs_V d + cs_V e = cs_V c)) /\
      (* ... and the recorded cell is the single-cell simulation of one of them on the grid from that time on *)
      exists st upos', (cell_simulate ArithR pi2 eps9 eps7 fuel l (truncate_lt ArithR ts (cs_time c)) d u upos' = Done st \/
                        cell_simulate ArithR pi2 eps9 eps7 fuel l (truncate_lt ArithR ts (cs_time c)) e u upos' = Done st) /\
                       data_of s (truncate_lt ArithR ts (cs_time c)) st.
  Proof.
    intros H j s p Hj Hpar.
    destruct (lineage_daughters_born ArithR pi2 eps9 eps7 eps12 cfuel fuel l sps ts cells u pos w H j s p Hj Hpar)
      as (m & tts0 & st0 & sp & upos & upos' & d0 & st & Hm & Dm & Hdiv & Hsp & Hd & Hsim & Ds).
    exists m, tts0, st0, sp, upos, (fst (daughter_cells ArithR (final_cell ArithR tts0 st0) sp u upos)),
           (snd (daughter_cells ArithR (final_cell ArithR tts0 st0) sp u upos)).
    split; [exact Hm|]. split; [exact Dm|]. cbv zeta. split; [exact Hdiv|]. split; [exact Hsp|].
    split; [unfold daughter_cells; reflexivity|]. unfold daughter_cells; cbn [fst snd cs_time cs_t0 cs_x cs_V].
    split; [reflexivity|]. split; [reflexivity|]. split; [reflexivity|]. split; [reflexivity|]. split.
    - intros Hnd Hlt. exact (lineage_conserves _ _ _ _ _ _ u upos Hnd Hlt).
    - exists st, upos'. split; [|exact Ds]. unfold daughter_cells in Hd. cbn [fst snd] in Hd. destruct Hd as [-> | ->]; [left|right]; exact Hsim.
  Qed.
End ProvR.
