(* Histories of add / read-and-advance over the ring buffer, with every added entry carrying
   an identity (amount monoid = lists of ids under ++): what each read delivers is a function
   of the schedule, so each entry is delivered exactly once, at its slot, in order. *)
From Coq Require Import ZArith List Bool Lia Arith.
From BS Require Import Base.Arith Model.Queue Proofs.ListLemmas Proofs.QueueProofs.
Import ListNotations.

Section QH.
  Context {F : Type} (A : Arith F).
  Notation M := (list nat).
  Notation queue := (queue F M).
  Notation q_add := (q_add A (@app nat)).
  Notation q_offset := (q_offset A).
  Notation q_pending := (q_pending (@nil nat)).
  Notation q_advance := (q_advance A (@nil nat)).
  Notation q_peek := (q_peek (@nil nat)).
  Notation wfq := (@wfq F M).

  Inductive qop := OAdd (time : F) (r : nat) (id : nat) | OPop.

  Fixpoint qrun (q : queue) (ops : list qop) : option (list (list M) * queue) :=
    match ops with
    | [] => Some ([], q)
    | OAdd time r id :: rest =>
        match q_add q time r [id] with None => None | Some q' => qrun q' rest end
    | OPop :: rest =>
        match qrun (q_advance q) rest with
        | None => None
        | Some (ds, qf) => Some (q_peek q :: ds, qf)
        end
    end.

  Definition shift (e : nat * nat * nat) : nat * nat * nat := let '(n, r, id) := e in (S n, r, id).

  (* the slot (counted in reads from now) each add is destined for: a function of the queue's
     clock only *)
  Fixpoint schedule (q : queue) (ops : list qop) : list (nat * nat * nat) :=
    match ops with
    | [] => []
    | OAdd time r id :: rest => (q_offset q time, r, id) :: schedule q rest
    | OPop :: rest => map shift (schedule (q_advance q) rest)
    end.

  Fixpoint npops (ops : list qop) : nat :=
    match ops with [] => 0 | OAdd _ _ _ :: rest => npops rest | OPop :: rest => S (npops rest) end.

  Definition ids (n r : nat) (s : list (nat * nat * nat)) : list nat :=
    map snd (filter (fun e => Nat.eqb n (fst (fst e)) && Nat.eqb r (snd (fst e))) s).

  Definition pending0 (q : queue) (n r : nat) : M :=
    if Nat.ltb n (q_ncols q) then q_pending q n r else [].

  Lemma ids_shift_S n r s : ids (S n) r (map shift s) = ids n r s.
  Proof.
    unfold ids. induction s as [|[[m r'] id] s IH]; [reflexivity|].
    cbn [map shift filter fst snd]. change (Nat.eqb (S n) (S m)) with (Nat.eqb n m).
    destruct (Nat.eqb n m && Nat.eqb r r'); cbn [map snd]; rewrite IH; reflexivity.
  Qed.
  Lemma ids_shift_0 r s : ids 0 r (map shift s) = [].
  Proof. unfold ids. induction s as [|[[m r'] id] s IH]; [reflexivity|].
    cbn [map shift filter fst snd]. change (Nat.eqb 0 (S m)) with false. exact IH. Qed.

  (* schedule depends on the queue only through its clock and width *)
  Lemma schedule_ext (q1 q2 : queue) ops :
    q_ncols q1 = q_ncols q2 -> q_next q1 = q_next q2 -> q_dt q1 = q_dt q2 ->
    schedule q1 ops = schedule q2 ops.
  Proof.
    revert q1 q2; induction ops as [|[time r id|] ops IH]; intros q1 q2 Hn Ht Hd; simpl; auto.
    - f_equal; [|apply IH; auto].
      unfold Queue.q_offset, q_raw_index. rewrite Hn, Ht, Hd. reflexivity.
    - f_equal. apply IH; unfold Queue.q_advance; simpl; congruence.
  Qed.

  Local Ltac split6 := split; [|split; [|split; [|split; [|split]]]].

  Theorem qrun_characterised ops : forall (q : queue) ds qf,
    wfq q -> qrun q ops = Some (ds, qf) ->
    length ds = npops ops /\ wfq qf /\ length (q_cells qf) = length (q_cells q) /\
    q_ncols qf = q_ncols q /\
    (forall n r, (n < length ds)%nat -> (r < length (q_cells q))%nat ->
       nth r (nth n ds []) [] = pending0 q n r ++ ids n r (schedule q ops)) /\
    (forall off r, (off < q_ncols q)%nat -> (r < length (q_cells q))%nat ->
       q_pending qf off r = pending0 q (npops ops + off) r ++ ids (npops ops + off) r (schedule q ops)).
  Proof.
    induction ops as [|[time r0 id|] ops IH]; intros q ds qf Hwf Hrun; simpl in Hrun.
    - inversion Hrun; subst; clear Hrun. simpl. split6; auto.
      + intros n r Hn; inversion Hn.
      + intros off r Hoff Hr. unfold pending0. apply Nat.ltb_lt in Hoff. rewrite Hoff.
        unfold ids; simpl. rewrite app_nil_r. reflexivity.
    - destruct (q_add q time r0 [id]) as [q'|] eqn:Eadd; [|discriminate].
      pose proof (wfq_add A (@app nat) q time r0 [id] q' Hwf Eadd) as Hwf'.
      destruct (add_preserves A (@app nat) q time r0 [id] q' Eadd) as (Hn' & Hs' & Ht' & Hd' & Hl').
      destruct (IH q' ds qf Hwf' Hrun) as (Hlen & Hwff & Hlf & Hnf & Hdel & Hpend).
      assert (Hoff0 : (q_offset q time < q_ncols q)%nat) by (apply offset_lt; apply Hwf).
      assert (Hsch : schedule q' ops = schedule q ops) by (apply schedule_ext; auto).
      assert (Hkey : forall n r, (r < length (q_cells q))%nat ->
                pending0 q' n r ++ ids n r (schedule q' ops) =
                pending0 q n r ++ ids n r ((q_offset q time, r0, id) :: schedule q ops)).
      { intros n r Hr. rewrite Hsch. unfold pending0. rewrite Hn'.
        unfold ids at 2. cbn [filter fst snd].
        destruct (Nat.ltb_spec n (q_ncols q)) as [Hlt|Hge].
        - rewrite (pending_add A (@nil nat) (@app nat) q time r0 [id] q' n r Hwf Eadd Hlt).
          destruct (Nat.eqb n (q_offset q time) && Nat.eqb r r0); cbn [map snd].
          + rewrite <- app_assoc. reflexivity.
          + reflexivity.
        - destruct (Nat.eqb_spec n (q_offset q time)); [lia|]. reflexivity. }
      simpl. split6; auto; try congruence.
      + intros n r Hn Hr. rewrite Hdel by (auto; congruence). apply Hkey; auto.
      + intros off r Hoff Hr. rewrite Hpend by (auto; congruence). apply Hkey; auto.
    - destruct (qrun (q_advance q) ops) as [[ds' qf']|] eqn:Erun; [|discriminate].
      inversion Hrun; subst; clear Hrun.
      pose proof (wfq_advance A (@nil nat) q Hwf) as Hwf'.
      destruct (advance_preserves A (@nil nat) q) as (Hn' & Hd' & Ht' & Hl').
      destruct (IH _ ds' qf Hwf' Erun) as (Hlen & Hwff & Hlf & Hnf & Hdel & Hpend).
      assert (Hkey : forall n r, (r < length (q_cells q))%nat ->
                pending0 (q_advance q) n r ++ ids n r (schedule (q_advance q) ops) =
                pending0 q (S n) r ++ ids (S n) r (map shift (schedule (q_advance q) ops))).
      { intros n r Hr. rewrite ids_shift_S. f_equal. unfold pending0. rewrite Hn'.
        destruct (Nat.ltb_spec n (q_ncols q)) as [Hlt|Hge].
        - rewrite (pending_advance A (@nil nat) q n r Hwf Hr Hlt).
          destruct (Nat.eqb_spec n (q_ncols q - 1)).
          + destruct (Nat.ltb_spec (S n) (q_ncols q)); [lia|reflexivity].
          + destruct (Nat.ltb_spec (S n) (q_ncols q)); [reflexivity|lia].
        - destruct (Nat.ltb_spec (S n) (q_ncols q)); [lia|reflexivity]. }
      cbn [length npops schedule]. split6; auto; try congruence.
      + intros [|n] r Hn Hr.
        * cbn [nth]. rewrite ids_shift_0, app_nil_r.
          rewrite (peek_is_pending0 (@nil nat) q r Hwf Hr).
          unfold pending0. destruct Hwf as (Hpos & _). apply Nat.ltb_lt in Hpos. rewrite Hpos. reflexivity.
        * cbn [nth]. rewrite Hdel by (simpl in Hn; try lia; congruence). apply Hkey; auto.
      + intros off r Hoff Hr. rewrite Hpend by (auto; congruence).
        replace (S (npops ops) + off)%nat with (S (npops ops + off)) by lia. apply Hkey; auto.
  Qed.

  Lemma in_ids n r id (s : list (nat * nat * nat)) : In id (ids n r s) <-> In (n, r, id) s.
  Proof.
    unfold ids. rewrite in_map_iff. split.
    - intros ([[n' r'] id'] & Hid & Hin). simpl in Hid; subst id'. apply filter_In in Hin.
      destruct Hin as [Hin Hb]. simpl in Hb. apply andb_true_iff in Hb. destruct Hb as [H1 H2].
      apply Nat.eqb_eq in H1, H2. subst. exact Hin.
    - intros Hin. exists (n, r, id). split; auto. apply filter_In. split; auto. simpl.
      rewrite !Nat.eqb_refl. reflexivity.
  Qed.

  Lemma ids_nodup n r (s : list (nat * nat * nat)) : NoDup (map snd s) -> NoDup (ids n r s).
  Proof.
    unfold ids. induction s as [|e s IH]; simpl; intros H; [constructor|].
    inversion H; subst. destruct (_ && _); simpl; auto. constructor; auto.
    intros Hin. apply H2. apply in_map_iff in Hin. destruct Hin as (e' & He & Hin').
    apply filter_In in Hin'. apply in_map_iff. exists e'. tauto.
  Qed.

  Lemma sched_unique (s : list (nat * nat * nat)) n r n' r' id : NoDup (map snd s) -> In (n, r, id) s -> In (n', r', id) s -> n = n' /\ r = r'.
  Proof.
    induction s as [|e s IH]; simpl; intros Hnd H1 H2; [contradiction|].
    destruct H1 as [H1|H1], H2 as [H2|H2]; inversion Hnd; subst.
    - inversion H2; auto.
    - exfalso. apply H3. apply in_map_iff. exists (n', r', id). auto.
    - exfalso. apply H3. apply in_map_iff. exists (n, r, id). auto.
    - apply IH; auto.
  Qed.

  (* From an empty queue: the n-th read delivers for reaction r exactly the entries scheduled
     for (n, r), in the order they were added; what is still pending at the end are the entries
     scheduled later; with distinct identities every entry is in exactly one of those places,
     once. *)
  Theorem exactly_once nrx ncols dt t0 ops ds qf :
    (0 < ncols)%nat ->
    let q := q_make A (@nil nat) nrx ncols dt t0 in
    qrun q ops = Some (ds, qf) ->
    length ds = npops ops /\
    (forall n r, (n < npops ops)%nat -> (r < nrx)%nat -> nth r (nth n ds []) [] = ids n r (schedule q ops)) /\
    (forall off r, (off < ncols)%nat -> (r < nrx)%nat ->
        q_pending qf off r = ids (npops ops + off) r (schedule q ops)) /\
    (NoDup (map snd (schedule q ops)) ->
       forall n r id, In (n, r, id) (schedule q ops) ->
         (forall n' r', (n' < npops ops)%nat -> (r' < nrx)%nat ->
            (In id (nth r' (nth n' ds []) []) <-> n' = n /\ r' = r) /\ NoDup (nth r' (nth n' ds []) [])) /\
         (forall off r', (off < ncols)%nat -> (r' < nrx)%nat ->
            (In id (q_pending qf off r') <-> (npops ops + off)%nat = n /\ r' = r) /\ NoDup (q_pending qf off r'))).
  Proof.
    intros Hn q Hrun.
    assert (Hwf : wfq q) by (apply wfq_make; auto).
    assert (Hlen : length (q_cells q) = nrx) by (unfold q, q_make; simpl; apply repeat_length).
    assert (Hnc : q_ncols q = ncols) by reflexivity.
    destruct (qrun_characterised ops q ds qf Hwf Hrun) as (Hl & _ & _ & _ & Hdel & Hpend).
    assert (Hp0 : forall n r, pending0 q n r = []).
    { intros n r. unfold pending0. destruct (Nat.ltb n (q_ncols q)); auto. apply pending_make. }
    assert (D : forall n r, (n < npops ops)%nat -> (r < nrx)%nat -> nth r (nth n ds []) [] = ids n r (schedule q ops)).
    { intros n r Hn' Hr. rewrite Hdel by (try lia; congruence). rewrite Hp0. reflexivity. }
    assert (P : forall off r, (off < ncols)%nat -> (r < nrx)%nat -> q_pending qf off r = ids (npops ops + off) r (schedule q ops)).
    { intros off r Ho Hr. rewrite Hpend by (try lia; congruence). rewrite Hp0. reflexivity. }
    split; [exact Hl|]. split; [exact D|]. split; [exact P|].
    intros Hnd n r id Hin. split.
    - intros n' r' Hn' Hr'. rewrite D by auto. split; [|apply ids_nodup; auto].
      rewrite in_ids. split.
      + intros Hin'. destruct (sched_unique _ _ _ _ _ _ Hnd Hin Hin'); auto.
      + intros [-> ->]. exact Hin.
    - intros off r' Ho Hr'. rewrite P by auto. split; [|apply ids_nodup; auto].
      rewrite in_ids. split.
      + intros Hin'. destruct (sched_unique _ _ _ _ _ _ Hnd Hin Hin'); auto.
      + intros [<- ->]. exact Hin.
  Qed.

  (* the time of the n-th read: the clock advances by dt per read, nothing else moves it *)
  Fixpoint clock (t dt : F) (n : nat) : F :=
    match n with O => t | S k => clock (fadd A t dt) dt k end.

  Fixpoint read_times (q : queue) (ops : list qop) : list F :=
    match ops with
    | [] => []
    | OAdd time r id :: rest => read_times q rest   (* add leaves the clock alone *)
    | OPop :: rest => q_next q :: read_times (q_advance q) rest
    end.

  Theorem read_times_in_order ops : forall (q : queue) n,
    (n < npops ops)%nat -> nth_error (read_times q ops) n = Some (clock (q_next q) (q_dt q) n).
  Proof.
    induction ops as [|[time r id|] ops IH]; intros q n Hn; simpl in *.
    - lia.
    - apply IH; auto.
    - destruct n as [|n]; simpl; auto. rewrite IH by lia. reflexivity.
  Qed.
End QH.
