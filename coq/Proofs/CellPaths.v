(* C19 / C06: in a lineage without rules on species, the reported rows of every daughter are linked by reaction paths starting from
   the state the mother's splitter gave it (any arithmetic, stream, model, fuel). *)
From Coq Require Import ZArith List Bool Lia Arith.
From BS Require Import Base.Arith Model.Term Model.Propensity Model.Interface Model.Rules Model.Random Model.Queue Model.SSA Model.Splitters Model.Lineage Model.Worklist
  Proofs.ListLemmas Proofs.SSAProofs Proofs.LineageProofs Proofs.WorklistProofs Proofs.WorklistProvenance.
Import ListNotations.

Section CellPaths.
  Context {F : Type} (A : Arith F) (pi2 : F) (eps9 eps7 eps12 : F).
  Variable l : lin F.
  Notation s := (ln_sim l).
  Hypothesis no_rules : sm_rules s = [].

  Lemma lssa_loop_path dt fin t_init V_init u x0 : forall fuel sta stb, lpath_inv A l x0 sta ->
    lssa_loop A pi2 eps9 eps7 fuel l dt fin t_init V_init u sta = Done stb -> lpath_inv A l x0 stb.
  Proof.
    induction fuel as [|f IH]; intros sta stb Ha Hl; simpl in Hl.
    - destruct (ls_todo sta); [inversion Hl; subst; auto|]. destruct (ls_stop sta); [inversion Hl; subst; auto|discriminate].
    - destruct (ls_todo sta) eqn:Eta; [inversion Hl; subst; auto|]. destruct (ls_stop sta); [inversion Hl; subst; auto|].
      destruct (lssa_iter A pi2 eps9 eps7 l dt fin t_init V_init u sta) as [stc| |w] eqn:Ei; try discriminate.
      eapply IH; [|exact Hl]. eapply lssa_iter_path; eauto.
  Qed.

  Lemma lssa_finish_path x0 st : lpath_inv A l x0 st -> chain A s x0 (ls_rows (lssa_finish A st)).
  Proof.
    intros [Hc Hr]. unfold lssa_finish. destruct ((0 <=? ls_divided st)%Z || (0 <=? ls_dead st)%Z); [|exact Hc].
    destruct (ls_todo st) as [|t rest]; [exact Hc|].
    destruct (fltb A (ls_time st) t || match ls_rows st with [] => true | _ => false end); [|exact Hc].
    cbn. apply (proj1 (last_reach A l x0 (ls_rows st) (ls_x st) 1 Hr Hc)).
  Qed.

  (* SimulateSingleCell on any grid (one point or more), from any cell state *)
  Theorem cell_simulate_path fuel ts c u pos st :
    cell_simulate A pi2 eps9 eps7 fuel l ts c u pos = Done st -> chain A s (cs_x c) (ls_rows st).
  Proof.
    unfold cell_simulate. destruct ts as [|t [|t1 ts']]; [discriminate| |].
    - destruct (fleb A t (cs_t0 c)).
      + intros H. inversion H; subst st. cbn [ls_rows]. apply (chain_repeat A s (cs_x c) (cs_x c) 1). apply reachable_refl.
      + destruct (lssa_loop A pi2 eps9 eps7 fuel l (fsub A t (cs_time c)) t (cs_t0 c) (cs_V0 c) u _) as [st1| |w] eqn:E; try discriminate.
        intros H. inversion H; subst st. apply lssa_finish_path.
        eapply lssa_loop_path; [|exact E]. split; cbn; auto. apply reachable_refl.
    - apply (lssa_rows_are_paths A pi2 eps9 eps7 l no_rules).
  Qed.

  (* whole lineage: the rows of every recorded cell that has a mother form a chain of reaction paths from the state which the
     mother's splitter made (of the mother's last reported state) for that daughter *)
  Theorem daughter_rows_from_partition cfuel fuel sps ts cells u pos w :
    simulate_lineage A pi2 eps9 eps7 eps12 cfuel fuel l sps ts cells u pos = Done w ->
    forall j sc p, nth_error (w_lineage w) j = Some sc -> sz_parent sc = Some p ->
    exists m tts0 st0 sp upos d,
      nth_error (w_lineage w) p = Some m /\ data_of m tts0 st0 /\
      let c := final_cell A tts0 st0 in
      nth_error sps (Z.to_nat (cs_divided c)) = Some sp /\
      (d = fst (daughter_cells A c sp u upos) \/ d = snd (daughter_cells A c sp u upos)) /\
      chain A s (cs_x d) (sz_rows sc).
  Proof.
    intros H j sc p Hj Hpar.
    destruct (lineage_daughters_born A pi2 eps9 eps7 eps12 cfuel fuel l sps ts cells u pos w H j sc p Hj Hpar)
      as (m & tts0 & st0 & sp & upos & upos' & d & st & Hm & Dm & _ & Hsp & Hd & Hsim & (_ & Hrows & _)).
    exists m, tts0, st0, sp, upos, d. split; [exact Hm|]. split; [exact Dm|]. cbv zeta. split; [exact Hsp|]. split; [exact Hd|].
    rewrite Hrows. eapply cell_simulate_path; eauto.
  Qed.
End CellPaths.
