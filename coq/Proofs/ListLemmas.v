From Coq Require Import ZArith List Bool Lia Arith.
From BS Require Import Base.Arith.
Import ListNotations.

Lemma nth_upd {T} (l : list T) i j v d :
  nth j (upd l i v) d = if Nat.eqb i j then (if Nat.ltb i (length l) then v else d) else nth j l d.
Proof.
  revert i j; induction l as [|h t IH]; intros i j.
  - destruct i, j; simpl; try reflexivity; destruct (Nat.eqb _ _); reflexivity.
  - destruct i as [|i], j as [|j]; simpl; try reflexivity.
    rewrite IH. destruct (Nat.eqb i j); reflexivity.
Qed.

Lemma nth_error_nth' {T} (l : list T) i d : (i < length l)%nat -> nth_error l i = Some (nth i l d).
Proof. intros H. apply nth_error_nth'. exact H. Qed.

Lemma mod_add_small a s n : (a < n)%nat -> (s < n)%nat ->
  (a + s) mod n = if Nat.ltb (a + s) n then (a + s)%nat else (a + s - n)%nat.
Proof.
  intros Ha Hs. destruct (Nat.ltb_spec (a + s) n) as [H|H].
  - apply Nat.mod_small; exact H.
  - replace (a + s)%nat with ((a + s - n) + 1 * n)%nat at 1 by lia.
    rewrite Nat.mod_add by lia. apply Nat.mod_small. lia.
Qed.

Lemma slot_inj a b s n : (a < n)%nat -> (b < n)%nat -> (s < n)%nat ->
  (a + s) mod n = (b + s) mod n -> a = b.
Proof.
  intros Ha Hb Hs. rewrite !mod_add_small by assumption.
  destruct (Nat.ltb_spec (a + s) n), (Nat.ltb_spec (b + s) n); lia.
Qed.

Lemma Forall_upd {T} (P : T -> Prop) l i v : Forall P l -> P v -> Forall P (upd l i v).
Proof.
  intros H Hv; revert i; induction H as [|h t Hh Ht IH]; intros [|i]; simpl; constructor; auto.
Qed.

Lemma Forall_nth' {T} (P : T -> Prop) l i d : Forall P l -> (i < length l)%nat -> P (nth i l d).
Proof. intros H Hi. rewrite Forall_forall in H. apply H. apply nth_In. exact Hi. Qed.
